(* C06 — Rectangular lattices: element position, index order and fill array.
   Only restatements; proofs are in C06/Proofs*.v.  All statements are about
   the functions of C06/Model.v that the correspondence tie executes. *)
From Coq Require Import List ZArith Bool Reals Lra Lia String Ascii.
From T4V Require Import Base.Str Base.Scalar C06.Model
     C06.ProofsIndex C06.ProofsNumeric C06.ProofsDevelop C06.ProofsTop C06.ProofsText
     C06.ProofsEndToEnd C06.LinkC05 C06.ProofsTokens C06.ProofsFloat.
Import ListNotations.

(* ---- index order ----------------------------------------------------------
   in_ranges idx bs : one component per range, each inside its range
   flat_index bs idx = (i-i0) + n_i*((j-j0) + n_j*((k-k0) + ...))               *)

(* LatticeBounds.indices enumerates exactly the tuples of the declared ranges
   (negative and one-point ranges included), each once, the FIRST index varying
   fastest: the tuple at position n is the one whose flat index is n. *)
Theorem C06_indices_first_fastest : forall bs : bounds, wf_bounds bs ->
  List.length (indices bs) = Z.to_nat (size bs) /\
  (forall idx, in_ranges idx bs ->
     (0 <= flat_index bs idx < size bs)%Z /\
     nth_error (indices bs) (Z.to_nat (flat_index bs idx)) = Some idx) /\
  (forall n idx, nth_error (indices bs) n = Some idx ->
     in_ranges idx bs /\ flat_index bs idx = Z.of_nat n) /\
  NoDup (indices bs).
Proof.
  intros bs H. split; [now apply indices_length|]. split; [now apply indices_at_flat_index|].
  split; [now apply indices_position|now apply indices_NoDup].
Qed.

(* LatticeSpec(bounds, spec).items(): element idx receives array entry number
   flat_index(idx); every element of the ranges is listed, nothing else. *)
Theorem C06_items_array : forall (bs : bounds) (spec : list Z),
  bs <> [] -> wf_bounds bs -> Z.of_nat (List.length spec) = size bs ->
  exists l, bind (lattice_spec bs spec) (fun p => items (fst p) (snd p)) = Ok l /\
    map fst l = indices bs /\
    (forall idx, in_ranges idx bs ->
       nth_error l (Z.to_nat (flat_index bs idx))
       = Some (idx, nth (Z.to_nat (flat_index bs idx)) spec 0%Z)) /\
    (forall idx u, In (idx, u) l ->
       in_ranges idx bs /\ u = nth (Z.to_nat (flat_index bs idx)) spec 0%Z).
Proof. exact items_array. Qed.

Theorem C06_items_array_3d : forall i0 i1 j0 j1 k0 k1 i j k : Z,
  flat_index [(i0, i1); (j0, j1); (k0, k1)] [i; j; k]
  = ((i - i0) + (i1 - i0 + 1) * ((j - j0) + (j1 - j0 + 1) * (k - k0)))%Z.
Proof. exact flat_index_3d. Qed.

(* LatticeSpec.__getitem__ with a tuple reads the array with the LAST index
   fastest ((i-i0)*n_j*n_k + (j-j0)*n_k + (k-k0)), the opposite of items();
   the converter never calls it (develop_lattice iterates items()), so this
   inconsistency of the class is not observable in a converted deck *)
Theorem C06_getitem_tuple_last_fastest :
  (forall (bs : bounds) (spec arg : list Z), in_ranges arg bs ->
     spec_getitem_tuple bs spec arg = py_list_get spec (last_fastest_index bs arg)) /\
  (exists bs spec idx u v,
     items bs spec = Ok (combine (indices bs) spec) /\ In (idx, u) (combine (indices bs) spec) /\
     spec_getitem_tuple bs spec idx = Ok v /\ u <> v).
Proof. split; [exact getitem_tuple_last_fastest|exact getitem_tuple_disagrees_with_items]. Qed.

(* FILL=n on a lattice cell: an error without --lattice; with --lattice ranges
   one array entry n per element of the ranges *)
Theorem C06_homogeneous_fill : forall (fb : option bounds) (n lat : Z) (bs : bounds),
  wf_bounds bs ->
  to_fillid fb (Some (FInt n)) (Some lat) None = Err EMissingLatticeOpt /\
  exists spec, to_fillid fb (Some (FInt n)) (Some lat) (Some bs) = Ok (FSpec bs spec) /\
    Z.of_nat (List.length spec) = size bs /\
    forall k, (k < List.length spec)%nat -> nth k spec 0%Z = n.
Proof. exact homogeneous_fill. Qed.

(* ---- numeric part, over the reals -----------------------------------------
   dot = scalar product; gram2 v1 v2 = |v1|^2|v2|^2-(v1.v2)^2 (0 iff parallel);
   triple = v1.(v2 x v3) (0 iff coplanar); lin2 a b v1 v2 = a v1 + b v2        *)

(* latticeReciprocal returns the dual basis, in 1, 2 and 3 dimensions *)
Theorem C06_reciprocal_dual :
  (forall v : @vec R, dot v v <> 0%R ->
     exists r, latticeReciprocal RS [v] = Ok [r] /\ dot r v = 1%R /\ exists k, r = rescale RS k v) /\
  (forall v1 v2 : @vec R, gram2 v1 v2 <> 0%R ->
     exists r1 r2, latticeReciprocal RS [v1; v2] = Ok [r1; r2] /\
       dot r1 v1 = 1%R /\ dot r1 v2 = 0%R /\ dot r2 v1 = 0%R /\ dot r2 v2 = 1%R /\
       (exists a b, r1 = lin2 a b v1 v2) /\ (exists a b, r2 = lin2 a b v1 v2)) /\
  (forall v1 v2 v3 : @vec R, triple v1 v2 v3 <> 0%R ->
     exists r1 r2 r3, latticeReciprocal RS [v1; v2; v3] = Ok [r1; r2; r3] /\
       dot r1 v1 = 1%R /\ dot r1 v2 = 0%R /\ dot r1 v3 = 0%R /\
       dot r2 v1 = 0%R /\ dot r2 v2 = 1%R /\ dot r2 v3 = 0%R /\
       dot r3 v1 = 0%R /\ dot r3 v2 = 0%R /\ dot r3 v3 = 1%R).
Proof.
  split; [exact reciprocal_dual_1|]. split; [exact reciprocal_dual_2|exact reciprocal_dual_3].
Qed.

(* Unit cell = 1, 2 or 3 pairs of surfaces ((point, normal), side) in card
   order; the two surfaces of a pair in either order, normals of any sense and
   length, pairs not necessarily orthogonal.  outward s = normal of s turned
   out of the cell; spacing sa sb = (p_a - p_b).outward sa.  The base vector
   a_i has a_i.outward(first surface of pair j) = delta_ij * spacing_i, and
   lies in the span of the normals (1-D and 2-D lattices). *)
Theorem C06_square_base_vectors :
  (forall sa sb, spacing sa sb <> 0%R ->
     exists a, squareLatticeBaseVectors RS [sa; sb] = Ok [a] /\
       dot a (outward sa) = spacing sa sb /\ exists k, a = rescale RS k (outward sa)) /\
  (forall sa sb sc sd,
     spacing sa sb <> 0%R -> spacing sc sd <> 0%R -> gram2 (outward sa) (outward sc) <> 0%R ->
     exists a1 a2, squareLatticeBaseVectors RS [sa; sb; sc; sd] = Ok [a1; a2] /\
       dot a1 (outward sa) = spacing sa sb /\ dot a1 (outward sc) = 0%R /\
       dot a2 (outward sa) = 0%R /\ dot a2 (outward sc) = spacing sc sd /\
       (exists x y, a1 = lin2 x y (outward sa) (outward sc)) /\
       (exists x y, a2 = lin2 x y (outward sa) (outward sc))) /\
  (forall sa sb sc sd se sf,
     spacing sa sb <> 0%R -> spacing sc sd <> 0%R -> spacing se sf <> 0%R ->
     triple (outward sa) (outward sc) (outward se) <> 0%R ->
     exists a1 a2 a3, squareLatticeBaseVectors RS [sa; sb; sc; sd; se; sf] = Ok [a1; a2; a3] /\
       dot a1 (outward sa) = spacing sa sb /\ dot a1 (outward sc) = 0%R /\ dot a1 (outward se) = 0%R /\
       dot a2 (outward sa) = 0%R /\ dot a2 (outward sc) = spacing sc sd /\ dot a2 (outward se) = 0%R /\
       dot a3 (outward sa) = 0%R /\ dot a3 (outward sc) = 0%R /\ dot a3 (outward se) = spacing se sf).
Proof.
  split; [exact square_base_vectors_1|]. split; [exact square_base_vectors_2|exact square_base_vectors_3].
Qed.

(* what those equations mean: out_dist w pt x = w.(x - pt), the outward distance
   of x from the plane through pt.  Translating by a_i carries the second-listed
   plane of pair i onto the first-listed one and every point as far beyond the
   first surface as it was beyond the second (positive index direction = across
   the first-listed surface); it changes no distance to the planes of the other
   pairs (a_i is parallel to them). *)
Theorem C06_square_base_vectors_translate :
  (forall (a : @vec R) sa sb, dot a (outward sa) = spacing sa sb ->
     forall x, out_dist (outward sa) (spoint sa) (vadd RS x a) = out_dist (outward sa) (spoint sb) x) /\
  (forall a w : @vec R, dot a w = 0%R ->
     forall pt x, out_dist w pt (vadd RS x a) = out_dist w pt x).
Proof. split; [exact translate_pair|exact translate_other]. Qed.

(* the outward normal is the card's normal, reversed when the cell lies on its
   positive side *)
Theorem C06_outward_sense : forall s : @plane R * Z, snd s = 1%Z ->
  outward s = (let '(x, y, z) := snormal s in (- x, - y, - z)%R).
Proof. exact outward_flipped. Qed.


(* the "side" entries do not influence the result at all: the reciprocal vector
   of a pair is n/((p-q).n), unchanged under n -> -n, so the base vector always
   points from the second-listed plane to the first-listed one *)
Theorem C06_square_sides_irrelevant : forall l l' : list (@plane R * Z),
  map fst l = map fst l' -> squareLatticeBaseVectors RS l = squareLatticeBaseVectors RS l'.
Proof. exact square_sides_irrelevant. Qed.

(* error branches: a number of surfaces other than 2, 4, 6 is a LatticeError;
   a pair of coincident planes divides by zero *)
Theorem C06_square_errors :
  (forall l : list (@plane R * Z),
     List.length l <> 2%nat -> List.length l <> 4%nat -> List.length l <> 6%nat ->
     squareLatticeBaseVectors RS l = Err ELattice) /\
  (forall sa sb rest, spacing sa sb = 0%R ->
     (List.length rest = 0 \/ List.length rest = 2 \/ List.length rest = 4)%nat ->
     squareLatticeBaseVectors RS (sa :: sb :: rest) = Err EZeroDiv).
Proof. split; [exact square_wrong_count|exact square_coincident_pair]. Qed.

(* ---- transformations -------------------------------------------------------
   apply_tr [O;B] p = O + B^T p : how geometry is moved by 12 numbers
   apply_tr_direct [O;B] p = B p + O : Transformation.transform_vector          *)
Theorem C06_compose_transform_point :
  (forall (t1 : list R) (t : @vec R), is12 t1 ->
     exists c, compose_transform RS t1 (translation_of t) = Ok c /\ is12 c /\
       forall p, apply_tr c p = vadd RS (apply_tr t1 p) t) /\
  (forall t1 t2 : list R, is12 t1 -> is12 t2 ->
     exists t, compose_transform RS t1 t2 = Ok t /\ is12 t /\
       forall p, apply_tr_direct t p = apply_tr_direct t2 (apply_tr_direct t1 p)) /\
  (exists (t : @vec R) (t2 : list R) c p, is12 t2 /\
     compose_transform RS (translation_of t) t2 = Ok c /\
     apply_tr c p <> apply_tr t2 (apply_tr (translation_of t) p)).
Proof.
  split; [exact compose_transform_point|].
  split; [exact compose_transform_direct|exact compose_transform_order_matters].
Qed.

(* ---- develop_lattice -------------------------------------------------------
   Generic in the base vectors (shared with hexagonal lattices).
   elem_located cell vecs u e :
     the unit cell is translated by t = i*a1+j*a2+k*a3 (lattice_point),
     ne_fill e = None (own material) if u is the cell's own universe else Some u,
     the filler is placed by p -> t + placement(p), placement = the fill
     transformation if any, else the cell's TRCL, else nothing.                  *)
Theorem C06_develop_lattice_located :
  forall (cell : @lat_cell R) (vecs : list (@vec R)) (bs : bounds) (spec : list Z),
  lc_fill cell = FSpec bs spec -> bs <> [] -> wf_bounds bs ->
  Z.of_nat (List.length spec) = size bs ->
  (* one range per base vector; only the surplus ranges must be one-point
     ranges: the leading ones may be degenerate too *)
  (List.length vecs <= List.length bs)%nat -> Forall trivial_range (skipn (List.length vecs) bs) ->
  cell_shape_ok cell ->
  exists elems, develop_lattice_with RS (Ok vecs) cell = Ok elems /\
    map (@ne_index R) elems = map fst (filter nonzero (combine (indices bs) spec)) /\
    NoDup (map (@ne_index R) elems) /\
    Forall (fun e =>
      in_ranges (ne_index e) bs /\
      let u := nth (Z.to_nat (flat_index bs (ne_index e))) spec 0%Z in
      u <> 0%Z /\ elem_located cell vecs u e) elems.
Proof. exact develop_lattice_located_ranges. Qed.

(* an index tuple is generated iff it lies in the declared ranges and its array
   entry is not 0 *)
Theorem C06_develop_lattice_complete :
  forall (cell : @lat_cell R) (vecs : list (@vec R)) (bs : bounds) (spec : list Z) elems,
  bs <> [] -> wf_bounds bs -> Z.of_nat (List.length spec) = size bs ->
  map (@ne_index R) elems = map fst (filter nonzero (combine (indices bs) spec)) ->
  forall idx, In idx (map (@ne_index R) elems) <->
              (in_ranges idx bs /\ nth (Z.to_nat (flat_index bs idx)) spec 0%Z <> 0%Z).
Proof. exact develop_lattice_complete. Qed.

(* the dimension test of develop_lattice (repaired in /repo 9b5a8f0): at least
   one range per base vector and one-point ranges beyond the lattice dimensions;
   nothing is required of the leading ranges; any failure is a LatticeError *)
Theorem C06_dimension_checks_spec : forall (nvec : nat) (bs : bounds),
  (dimension_checks nvec bs = Ok tt <->
     ((nvec <= List.length bs)%nat /\ Forall trivial_range (skipn nvec bs))) /\
  (dimension_checks nvec bs <> Ok tt -> dimension_checks nvec bs = Err ELattice) /\
  dimension_checks (List.length bs) bs = Ok tt.
Proof.
  intros; split; [apply dimension_checks_spec|]. split; [apply dimension_checks_err|].
  apply dimension_checks_same_length.
Qed.

(* degenerate leading ranges are accepted and developed: a 2-D lattice with
   FILL=-1:1 k:k 0:0 (one row, at ANY row number k) yields exactly the elements
   (i, k, 0) with a non-zero entry, element (i, k, 0) translated by i*a1 + k*a2
   and filled with entry number i+1 of the array (the former finding
   degenerate_range_rejected) *)
Theorem C06_degenerate_ranges_developed :
  forall (cell : @lat_cell R) (a1 a2 : @vec R) (k u0 u1 u2 : Z),
  lc_fill cell = FSpec [(-1, 1); (k, k); (0, 0)]%Z [u0; u1; u2] -> cell_shape_ok cell ->
  exists elems, develop_lattice_with RS (Ok [a1; a2]) cell = Ok elems /\
    map (@ne_index R) elems
    = map fst (filter nonzero [([-1; k; 0], u0); ([0; k; 0], u1); ([1; k; 0], u2)]%Z) /\
    Forall (fun e => exists i u,
      ne_index e = [i; k; 0]%Z /\ (-1 <= i <= 1)%Z /\ u = nth (Z.to_nat (i + 1)) [u0; u1; u2] 0%Z /\
      u <> 0%Z /\ lattice_point [a1; a2] (ne_index e)
                  = vadd RS (rescale RS (IZR i) a1) (vadd RS (rescale RS (IZR k) a2) (0, 0, 0)%R) /\
      elem_located cell [a1; a2] u e) elems.
Proof. exact degenerate_ranges_developed. Qed.



(* ---- the top-level model function (LAT=1), 1, 2 and 3 pairs of planes ------
   located_elems bs spec cell vecs elems = the four conclusions of
   C06_develop_lattice_located for these base vectors *)
Theorem C06_develop_lattice_square :
  forall (dic : Z -> list (@plane R * Z)) (ids : list Z) (cell : @lat_cell R) (bs : bounds) (spec : list Z),
  lc_fill cell = FSpec bs spec -> bs <> [] -> wf_bounds bs ->
  Z.of_nat (List.length spec) = size bs -> cell_shape_ok cell ->
  (forall sa sb, extract_surfaces dic ids = [sa; sb] -> spacing sa sb <> 0%R ->
     dimension_checks 1 bs = Ok tt ->
     exists a elems, develop_lattice RS dic ids cell = Ok elems /\
       dot a (outward sa) = spacing sa sb /\ (exists k, a = rescale RS k (outward sa)) /\
       located_elems cell bs spec [a] elems) /\
  (forall sa sb sc sd, extract_surfaces dic ids = [sa; sb; sc; sd] ->
     spacing sa sb <> 0%R -> spacing sc sd <> 0%R -> gram2 (outward sa) (outward sc) <> 0%R ->
     dimension_checks 2 bs = Ok tt ->
     exists a1 a2 elems, develop_lattice RS dic ids cell = Ok elems /\
       dot a1 (outward sa) = spacing sa sb /\ dot a1 (outward sc) = 0%R /\
       dot a2 (outward sa) = 0%R /\ dot a2 (outward sc) = spacing sc sd /\
       (exists x y, a1 = lin2 x y (outward sa) (outward sc)) /\
       (exists x y, a2 = lin2 x y (outward sa) (outward sc)) /\
       located_elems cell bs spec [a1; a2] elems) /\
  (forall sa sb sc sd se sf, extract_surfaces dic ids = [sa; sb; sc; sd; se; sf] ->
     spacing sa sb <> 0%R -> spacing sc sd <> 0%R -> spacing se sf <> 0%R ->
     triple (outward sa) (outward sc) (outward se) <> 0%R ->
     dimension_checks 3 bs = Ok tt ->
     exists a1 a2 a3 elems, develop_lattice RS dic ids cell = Ok elems /\
       dot a1 (outward sa) = spacing sa sb /\ dot a1 (outward sc) = 0%R /\ dot a1 (outward se) = 0%R /\
       dot a2 (outward sa) = 0%R /\ dot a2 (outward sc) = spacing sc sd /\ dot a2 (outward se) = 0%R /\
       dot a3 (outward sa) = 0%R /\ dot a3 (outward sc) = 0%R /\ dot a3 (outward se) = spacing se sf /\
       located_elems cell bs spec [a1; a2; a3] elems).
Proof.
  intros dic ids cell bs spec H1 H2 H3 H4 H5. split; [|split].
  - intros. now apply develop_lattice_1d.
  - intros. now apply develop_lattice_2d.
  - intros. now apply develop_lattice_3d.
Qed.

(* the planes reach the base-vector code in card order; a negative literal
   reverses the recorded side *)
Theorem C06_extract_surfaces : forall (dic : Z -> list (@plane R * Z)) (ids : list Z),
  (forall id, In id ids -> exists P, dic (Z.abs id) = [(P, 1%Z)]) ->
  List.length (extract_surfaces dic ids) = List.length ids /\
  forall k id, nth_error ids k = Some id ->
    exists P, dic (Z.abs id) = [(P, 1%Z)] /\
              nth_error (extract_surfaces dic ids) k = Some (P, if (0 <? id)%Z then 1%Z else (-1)%Z).
Proof. exact extract_surfaces_planes. Qed.

(* ---- text level ------------------------------------------------------------
   spells_range s (lo, hi): s = a ++ ":" ++ c with int(a) = lo, int(c) = hi for
   any spelling the model's int() accepts (sign, leading zeros) *)
Theorem C06_parse_ranges_spelled : forall (strs : list string) (bs : bounds),
  Forall2 spells_range strs bs -> parse_ranges strs = Ok bs.
Proof. exact parse_ranges_spelled. Qed.

Theorem C06_parse_lattice_option :
  forall (head : string) (cell : Z) (strs : list string) (bs : bounds),
  int_of_signed head = Some cell -> Forall2 spells_range strs bs ->
  ((1 <= List.length strs <= 3)%nat ->
     parse_lattice [(head ++ String "," (join_comma strs))%string] = Ok [(cell, bs)]) /\
  ((3 < List.length strs)%nat ->
     parse_lattice [(head ++ String "," (join_comma strs))%string] = Err EValue).
Proof.
  intros head cell strs bs Hh Hs. split; intros Hl.
  - now apply parse_lattice_option.
  - now apply (parse_lattice_too_many head cell strs bs).
Qed.

(* ---- end to end: which points belong to a volume of which material ----------
   Interface restated from C05/C04 (not proved here): cell_transform(key, T)
   creates a cell whose region is the image of the region of key under apply_tr T;
   pot_fill of a cell with fill universe u and non-empty fill transformation F
   creates, for every developed leaf cell (r, m) of universe u, the volume
   cell /\ image of r under F, with material m (lattice_volumes / volumes_of_elem).
   lattice_owner p m = what MCNP means: p lies in the unit cell translated by
   t = i a1 + j a2 + k a3 for a tuple (i,j,k) of the declared ranges whose array
   entry u (first index fastest) is not 0, and either u is the lattice's own
   universe and m the lattice cell's material, or p = t + placement(q) for a
   point q of a leaf cell of universe u with material m. *)
Theorem C06_lattice_end_to_end :
  forall (M : Type) (unit_cell : region) (own_mat : M) (leaves : Z -> list (region * M))
         (cell : @lat_cell R) (vecs : list (@vec R)) (bs : bounds) (spec : list Z),
  lc_fill cell = FSpec bs spec -> bs <> [] -> wf_bounds bs ->
  Z.of_nat (List.length spec) = size bs ->
  (List.length vecs <= List.length bs)%nat -> Forall trivial_range (skipn (List.length vecs) bs) ->
  cell_shape_ok cell ->
  exists elems, develop_lattice_with RS (Ok vecs) cell = Ok elems /\
    forall p m, (exists r, In (r, m) (lattice_volumes unit_cell own_mat leaves elems) /\ r p) <->
                lattice_owner unit_cell own_mat leaves cell vecs bs spec p m.
Proof. intros M. exact (@lattice_end_to_end M). Qed.

(* the same from the surfaces of the cell card (three pairs of planes) *)
Theorem C06_lattice_end_to_end_3d :
  forall (M : Type) (unit_cell : region) (own_mat : M) (leaves : Z -> list (region * M))
         (dic : Z -> list (@plane R * Z)) (ids : list Z) (cell : @lat_cell R) (bs : bounds)
         (spec : list Z) sa sb sc sd se sf,
  lc_fill cell = FSpec bs spec -> bs <> [] -> wf_bounds bs ->
  Z.of_nat (List.length spec) = size bs ->
  (3 <= List.length bs)%nat -> Forall trivial_range (skipn 3 bs) -> cell_shape_ok cell ->
  extract_surfaces dic ids = [sa; sb; sc; sd; se; sf] ->
  spacing sa sb <> 0%R -> spacing sc sd <> 0%R -> spacing se sf <> 0%R ->
  triple (outward sa) (outward sc) (outward se) <> 0%R ->
  exists a1 a2 a3 elems, develop_lattice RS dic ids cell = Ok elems /\
    dot a1 (outward sa) = spacing sa sb /\ dot a1 (outward sc) = 0%R /\ dot a1 (outward se) = 0%R /\
    dot a2 (outward sa) = 0%R /\ dot a2 (outward sc) = spacing sc sd /\ dot a2 (outward se) = 0%R /\
    dot a3 (outward sa) = 0%R /\ dot a3 (outward sc) = 0%R /\ dot a3 (outward se) = spacing se sf /\
    forall p m, (exists r, In (r, m) (lattice_volumes unit_cell own_mat leaves elems) /\ r p) <->
                lattice_owner unit_cell own_mat leaves cell [a1; a2; a3] bs spec p m.
Proof. intros M. exact (@lattice_end_to_end_3d M). Qed.

(* ... and from one or two pairs of planes (lattices infinite in the other
   directions; the FILL array may still have three ranges, the surplus ones
   one-point ranges) *)
Theorem C06_lattice_end_to_end_1d_2d :
  forall (M : Type) (unit_cell : region) (own_mat : M) (leaves : Z -> list (region * M))
         (dic : Z -> list (@plane R * Z)) (ids : list Z) (cell : @lat_cell R) (bs : bounds) (spec : list Z),
  lc_fill cell = FSpec bs spec -> bs <> [] -> wf_bounds bs ->
  Z.of_nat (List.length spec) = size bs -> cell_shape_ok cell ->
  (forall sa sb, (1 <= List.length bs)%nat -> Forall trivial_range (skipn 1 bs) ->
     extract_surfaces dic ids = [sa; sb] -> spacing sa sb <> 0%R ->
     exists a elems, develop_lattice RS dic ids cell = Ok elems /\
       dot a (outward sa) = spacing sa sb /\ (exists k, a = rescale RS k (outward sa)) /\
       forall p m, (exists r, In (r, m) (lattice_volumes unit_cell own_mat leaves elems) /\ r p) <->
                   lattice_owner unit_cell own_mat leaves cell [a] bs spec p m) /\
  (forall sa sb sc sd, (2 <= List.length bs)%nat -> Forall trivial_range (skipn 2 bs) ->
     extract_surfaces dic ids = [sa; sb; sc; sd] ->
     spacing sa sb <> 0%R -> spacing sc sd <> 0%R -> gram2 (outward sa) (outward sc) <> 0%R ->
     exists a1 a2 elems, develop_lattice RS dic ids cell = Ok elems /\
       dot a1 (outward sa) = spacing sa sb /\ dot a1 (outward sc) = 0%R /\
       dot a2 (outward sa) = 0%R /\ dot a2 (outward sc) = spacing sc sd /\
       (exists x y, a1 = lin2 x y (outward sa) (outward sc)) /\
       (exists x y, a2 = lin2 x y (outward sa) (outward sc)) /\
       forall p m, (exists r, In (r, m) (lattice_volumes unit_cell own_mat leaves elems) /\ r p) <->
                   lattice_owner unit_cell own_mat leaves cell [a1; a2] bs spec p m).
Proof.
  intros M unit_cell own_mat leaves dic ids cell bs spec H1 H2 H3 H4 H5. split.
  - intros. now apply (@lattice_end_to_end_1d M).
  - intros. now apply (@lattice_end_to_end_2d M).
Qed.

(* ---- LINKED with C05: the interface of C06_lattice_end_to_end is no longer assumed -----
   C05's model (C05/Model.v: cell_transform, pot_fill over a table of cells) and its
   theorems (cell_transform_den, pot_fill_located = C05_cell_transform_den,
   C05_pot_fill_located) are instantiated at T := 12 numbers or empty, P := R^3,
   tr_empty := is_nil.  develop_state = the stateful half of develop_lattice over
   C05's table: per element cell_transform(latkey, trnsf, cache=False) of C05's model,
   then the new cell gets the element's fill and fill transformation.
   Remaining hypotheses: C05's two interface laws (sense_law, key_law: C04), C05's
   pull-back [inv] is the inverse of C06's point map on the transformations produced
   (satisfied by p -> B(p - O) whenever the cell's fill transformation / TRCL is
   orthogonal: C06_link_inverse_satisfiable), the lattice universe's list in [du] holds
   the element cells, and the side conditions of C05_pot_fill_located on the developed
   table.  Conclusion: a point p of the container whose image p' in the lattice's frame
   lies in the unit cell translated by t = i a1 + j a2 + k a3 belongs to (is "true" in) a
   cell returned by pot_fill that has no FILL left and carries: for the own universe, the
   lattice cell's material; otherwise the material of the last cell of the descent that
   locates q in universe u, where p' = t + placement(q), and the provenance
   (key, element, descent). *)
Theorem C06_lattice_end_to_end_linked :
  forall (surf : Type) (teqb : list R -> list R -> bool) (tr_surf : list R -> surf -> surf)
         (inv : list R -> @vec R -> @vec R) (sense : surf -> @vec R -> bool),
  (forall t o p, sense (tr_surf t o) p = sense o (inv t p)) ->
  (forall a b, teqb a b = true -> is_nil a = is_nil b /\ forall p, inv a p = inv b p) ->
  forall (cell : @lat_cell R) (vecs : list (@vec R)) (bs : bounds) (spec : list Z),
  lc_fill cell = FSpec bs spec -> bs <> [] -> wf_bounds bs ->
  Z.of_nat (List.length spec) = size bs ->
  (List.length vecs <= List.length bs)%nat -> Forall trivial_range (skipn (List.length vecs) bs) ->
  cell_shape_ok cell ->
  exists elems, develop_lattice_with RS (Ok vecs) cell = Ok elems /\
  forall (fuel cf : nat) (s0 s1 s2 : M5.state (list R) surf) (latkey : Z) (lcl : M5.cell (list R))
         (keys : list Z) (du : list (Z * list Z)) (ifd ifg : bool) (key : Z)
         (kcl : M5.cell (list R)) (U : Z) (ks : list Z),
  Forall (fun e => inverse_of inv (ne_trnsf e) /\ inverse_of inv (ne_filltr e)) elems ->
  P5.Inv (list R) surf (@vec R) (@is_nil R) inv sense s0 ->
  M5.dget latkey (M5.s_cells s0) = Some lcl ->
  develop_state surf teqb tr_surf fuel latkey elems s0 = M5.Ok (keys, s1) ->
  M5.dget key (M5.s_cells s1) = Some kcl -> M5.c_fill kcl = Some U ->
  (forall k, In k keys -> In k (M5.du_get U du)) ->
  (forall c cl, M5.dget c (M5.s_cells s1) = Some cl -> M5.c_orig cl = []) ->
  (forall u c, In c (M5.du_get u du) -> exists cl, M5.dget c (M5.s_cells s1) = Some cl) ->
  M5.pot_fill (list R) surf (@is_nil R) teqb tr_surf fuel cf du ifd ifg key s1 = M5.Ok (ks, s2) ->
  forall idx, in_ranges idx bs ->
    let t := lattice_point vecs idx in
    let u := nth (Z.to_nat (flat_index bs idx)) spec 0%Z in
    u <> 0%Z ->
    forall p, let p' := S5.frame (list R) (@vec R) (@is_nil R) inv kcl p in
    S5.Den (list R) surf (@vec R) sense s1 p (M5.c_geom kcl) true ->
    S5.Den (list R) surf (@vec R) sense s0 (vdiff RS p' t) (M5.TRef latkey) true ->
    (u = lc_universe cell ->
       exists k ncl, In k ks /\ M5.dget k (M5.s_cells s2) = Some ncl /\
                     S5.Den (list R) surf (@vec R) sense s2 p (M5.TRef k) true /\
                     M5.c_fill ncl = None /\ M5.c_mat ncl = M5.c_mat lcl /\ M5.c_rho ncl = M5.c_rho lcl) /\
    (u <> lc_universe cell ->
       forall q c ch, In c (M5.du_get u du) -> p' = vadd RS (placement cell q) t ->
       S5.Located (list R) surf (@vec R) (@is_nil R) inv sense s1 du c q ch ->
       exists k ke ncl lfl, In k ks /\ In ke keys /\
         M5.dget k (M5.s_cells s2) = Some ncl /\
         S5.Den (list R) surf (@vec R) sense s2 p (M5.TRef k) true /\
         M5.dget (last ch 0%Z) (M5.s_cells s1) = Some lfl /\
         M5.c_fill ncl = None /\ M5.c_mat ncl = M5.c_mat lfl /\ M5.c_rho ncl = M5.c_rho lfl /\
         M5.c_orig ncl = S5.prov (key :: ke :: ch)).
Proof.
  intros surf teqb tr_surf inv sense H1 H2 cell vecs bs spec.
  exact (lattice_end_to_end_linked surf teqb tr_surf inv sense H1 H2 cell vecs bs spec).
Qed.

(* the CONVERSE of C06_lattice_end_to_end_linked (round 3): a cell returned by pot_fill
   that is true at p comes from an element of the declared ranges with a non-zero entry
   whose translated unit cell contains p', and either the entry is the own universe and the
   cell carries the lattice cell's material, or p' = t + placement(q) for a point q located
   along a descent of the entry's universe whose last cell gives the material.  Together
   with the forward theorem: the linked statement is an iff like the unlinked one.
   Extra hypotheses: the lattice universe's list holds ONLY element cells, and (C05's Den
   being partial) every descent below the container has a value at p and the lattice cell
   has a value everywhere. *)
Theorem C06_lattice_end_to_end_conv_linked :
  forall (surf : Type) (teqb : list R -> list R -> bool) (tr_surf : list R -> surf -> surf)
         (inv : list R -> @vec R -> @vec R) (sense : surf -> @vec R -> bool),
  (forall t o p, sense (tr_surf t o) p = sense o (inv t p)) ->
  (forall a b, teqb a b = true -> is_nil a = is_nil b /\ forall p, inv a p = inv b p) ->
  forall (cell : @lat_cell R) (vecs : list (@vec R)) (bs : bounds) (spec : list Z),
  lc_fill cell = FSpec bs spec -> bs <> [] -> wf_bounds bs ->
  Z.of_nat (List.length spec) = size bs ->
  (List.length vecs <= List.length bs)%nat -> Forall trivial_range (skipn (List.length vecs) bs) ->
  cell_shape_ok cell ->
  exists elems, develop_lattice_with RS (Ok vecs) cell = Ok elems /\
  forall (fuel cf : nat) (s0 s1 s2 : M5.state (list R) surf) (latkey : Z) (lcl : M5.cell (list R))
         (keys : list Z) (du : list (Z * list Z)) (ifd ifg : bool) (key : Z)
         (kcl : M5.cell (list R)) (U : Z) (ks : list Z),
  Forall (fun e => inverse_of inv (ne_trnsf e) /\ inverse_of inv (ne_filltr e)) elems ->
  P5.Inv (list R) surf (@vec R) (@is_nil R) inv sense s0 ->
  M5.dget latkey (M5.s_cells s0) = Some lcl ->
  develop_state surf teqb tr_surf fuel latkey elems s0 = M5.Ok (keys, s1) ->
  M5.dget key (M5.s_cells s1) = Some kcl -> M5.c_fill kcl = Some U ->
  (forall k, In k (M5.du_get U du) -> In k keys) ->
  (forall c cl, M5.dget c (M5.s_cells s1) = Some cl -> M5.c_orig cl = []) ->
  (forall u c, In c (M5.du_get u du) -> exists cl, M5.dget c (M5.s_cells s1) = Some cl) ->
  M5.pot_fill (list R) surf (@is_nil R) teqb tr_surf fuel cf du ifd ifg key s1 = M5.Ok (ks, s2) ->
  forall p, let p' := S5.frame (list R) (@vec R) (@is_nil R) inv kcl p in
  (forall ch chs, S5.Paths (list R) surf s1 du key chs -> In ch chs ->
     exists b, S5.LocB (list R) surf (@vec R) (@is_nil R) inv sense s1 du key p ch b) ->
  (forall q, exists b, S5.Den (list R) surf (@vec R) sense s0 q (M5.TRef latkey) b) ->
  forall k ncl, In k ks -> M5.dget k (M5.s_cells s2) = Some ncl ->
  S5.Den (list R) surf (@vec R) sense s2 p (M5.TRef k) true ->
  exists idx, in_ranges idx bs /\
    let t := lattice_point vecs idx in
    let u := nth (Z.to_nat (flat_index bs idx)) spec 0%Z in
    u <> 0%Z /\ S5.Den (list R) surf (@vec R) sense s1 p (M5.c_geom kcl) true /\
    S5.Den (list R) surf (@vec R) sense s0 (vdiff RS p' t) (M5.TRef latkey) true /\
    ((u = lc_universe cell /\ M5.c_mat ncl = M5.c_mat lcl /\ M5.c_rho ncl = M5.c_rho lcl) \/
     (u <> lc_universe cell /\
      exists q c ch lfl, In c (M5.du_get u du) /\ p' = vadd RS (placement cell q) t /\
        S5.Located (list R) surf (@vec R) (@is_nil R) inv sense s1 du c q ch /\
        M5.dget (last ch 0%Z) (M5.s_cells s1) = Some lfl /\
        M5.c_mat ncl = M5.c_mat lfl /\ M5.c_rho ncl = M5.c_rho lfl)).
Proof.
  intros surf teqb tr_surf inv sense H1 H2 cell vecs bs spec.
  exact (lattice_end_to_end_linked_conv surf teqb tr_surf inv sense H1 H2 cell vecs bs spec).
Qed.

(* round 4: the forward statement with (i) the provenance in the own-universe branch,
   c_orig = prov [key; element] (what C09 reads), and (ii) "no other returned cell is true at
   p": others_false = under C05's universe_partition, every other returned cell whose
   descent has a value at p is FALSE at p (C05's Verdict), for the descent located here *)
Theorem C06_lattice_unique_owner_linked :
  forall (surf : Type) (teqb : list R -> list R -> bool) (tr_surf : list R -> surf -> surf)
         (inv : list R -> @vec R -> @vec R) (sense : surf -> @vec R -> bool),
  (forall t o p, sense (tr_surf t o) p = sense o (inv t p)) ->
  (forall a b, teqb a b = true -> is_nil a = is_nil b /\ forall p, inv a p = inv b p) ->
  forall (cell : @lat_cell R) (vecs : list (@vec R)) (bs : bounds) (spec : list Z),
  lc_fill cell = FSpec bs spec -> bs <> [] -> wf_bounds bs ->
  Z.of_nat (List.length spec) = size bs ->
  (List.length vecs <= List.length bs)%nat -> Forall trivial_range (skipn (List.length vecs) bs) ->
  cell_shape_ok cell ->
  exists elems, develop_lattice_with RS (Ok vecs) cell = Ok elems /\
  forall (fuel cf : nat) (s0 s1 s2 : M5.state (list R) surf) (latkey : Z) (lcl : M5.cell (list R))
         (keys : list Z) (du : list (Z * list Z)) (ifd ifg : bool) (key : Z)
         (kcl : M5.cell (list R)) (U : Z) (ks : list Z),
  Forall (fun e => inverse_of inv (ne_trnsf e) /\ inverse_of inv (ne_filltr e)) elems ->
  P5.Inv (list R) surf (@vec R) (@is_nil R) inv sense s0 ->
  M5.dget latkey (M5.s_cells s0) = Some lcl ->
  develop_state surf teqb tr_surf fuel latkey elems s0 = M5.Ok (keys, s1) ->
  M5.dget key (M5.s_cells s1) = Some kcl -> M5.c_fill kcl = Some U ->
  (forall k, In k keys -> In k (M5.du_get U du)) ->
  (forall c cl, M5.dget c (M5.s_cells s1) = Some cl -> M5.c_orig cl = []) ->
  (forall u c, In c (M5.du_get u du) -> exists cl, M5.dget c (M5.s_cells s1) = Some cl) ->
  M5.pot_fill (list R) surf (@is_nil R) teqb tr_surf fuel cf du ifd ifg key s1 = M5.Ok (ks, s2) ->
  forall idx, in_ranges idx bs ->
    let t := lattice_point vecs idx in
    let u := nth (Z.to_nat (flat_index bs idx)) spec 0%Z in
    u <> 0%Z ->
    forall p, let p' := S5.frame (list R) (@vec R) (@is_nil R) inv kcl p in
    S5.Den (list R) surf (@vec R) sense s1 p (M5.c_geom kcl) true ->
    S5.Den (list R) surf (@vec R) sense s0 (vdiff RS p' t) (M5.TRef latkey) true ->
    (u = lc_universe cell ->
       exists k ke ncl, In k ks /\ In ke keys /\ M5.dget k (M5.s_cells s2) = Some ncl /\
         S5.Den (list R) surf (@vec R) sense s2 p (M5.TRef k) true /\ M5.c_fill ncl = None /\
         M5.c_mat ncl = M5.c_mat lcl /\ M5.c_rho ncl = M5.c_rho lcl /\
         M5.c_orig ncl = S5.prov [key; ke] /\
         others_false surf inv sense s1 s2 du key ks p [key; ke]) /\
    (u <> lc_universe cell ->
       forall q c ch, In c (M5.du_get u du) -> p' = vadd RS (placement cell q) t ->
       S5.Located (list R) surf (@vec R) (@is_nil R) inv sense s1 du c q ch ->
       exists k ke ncl lfl, In k ks /\ In ke keys /\
         M5.dget k (M5.s_cells s2) = Some ncl /\
         S5.Den (list R) surf (@vec R) sense s2 p (M5.TRef k) true /\
         M5.dget (last ch 0%Z) (M5.s_cells s1) = Some lfl /\
         M5.c_fill ncl = None /\ M5.c_mat ncl = M5.c_mat lfl /\ M5.c_rho ncl = M5.c_rho lfl /\
         M5.c_orig ncl = S5.prov (key :: ke :: ch) /\
         others_false surf inv sense s1 s2 du key ks p (key :: ke :: ch)).
Proof.
  intros surf teqb tr_surf inv sense H1 H2 cell vecs bs spec.
  exact (lattice_unique_owner_linked surf teqb tr_surf inv sense H1 H2 cell vecs bs spec).
Qed.

(* the hypothesis [inverse_of] is satisfiable: p -> B (p - O) is the inverse of C06's point
   map for every orthogonal [O; B]; translations are orthogonal and composing with the
   element translation keeps the matrix, so every transformation develop_lattice produces
   from an orthogonal fill transformation / TRCL qualifies *)
Theorem C06_link_inverse_satisfiable :
  (forall t : list R, orthogonal12 t ->
     (forall p, apply_tr t (inv_orth t p) = p) /\ (forall p, inv_orth t (apply_tr t p) = p)) /\
  (forall t : @vec R, orthogonal12 (translation_of t)) /\
  (forall (t1 : list R) (t : @vec R) c, orthogonal12 t1 ->
     compose_transform RS t1 (translation_of t) = Ok c -> orthogonal12 c).
Proof.
  split; [exact inv_orth_inverse|]. split; [exact translation_orthogonal|exact compose_translation_orthogonal].
Qed.

(* ---- FILL arrays on the cell card (ParseMCNPCell.parse_fill_kw) -----------------
   tokens in reading order after "(", ")" and "=" have become blanks.
   spells_int t u: t is a spelling of the integer u; param_token t: t starts
   like a number and to_float reads it; keyword_or_end: the next token (if any)
   does not start like a number.                                              *)
(* ranges, then EXACTLY size(ranges) universes in card order, then every
   following numeric token - however many - is a parameter of ONE
   transformation of the whole array: nothing is rejected, nothing is attached
   to a single entry *)
Theorem C06_parse_fill_kw_array :
  forall (first : string) (more : list string) (bs : bounds) (utoks : list string) (us : list Z)
         (sur tail : list string),
  Forall2 spells_range (first :: more) bs -> wf_bounds bs ->
  Forall2 spells_int utoks us -> Z.of_nat (List.length us) = size bs ->
  Forall param_token sur -> keyword_or_end tail ->
  parse_fill_kw first (more ++ utoks ++ sur ++ tail)%list = Ok (mkFillKw (Some bs) (FArr us) sur tail).
Proof. exact parse_fill_kw_array. Qed.

(* too few universes before the end of the card: ParseMCNPCellError; and what
   0 / 1 / 3 / any other number of parameter tokens become *)
Theorem C06_parse_fill_kw_short_and_shapes :
  (forall (first : string) (more : list string) (bs : bounds) (utoks : list string) (us : list Z),
     Forall2 spells_range (first :: more) bs -> Forall2 spells_int utoks us ->
     (Z.of_nat (List.length us) < size bs)%Z ->
     parse_fill_kw first (more ++ utoks)%list = Err EParseCell) /\
  (forall star : bool,
     fill_params_shape star [] = PNone /\
     (forall t, fill_params_shape star [t] = PNumber t) /\
     (forall a b c, fill_params_shape star [a; b; c] = PTranslation a b c) /\
     (forall l, List.length l <> 0%nat -> List.length l <> 1%nat -> List.length l <> 3%nat ->
        fill_params_shape star l = PMatrix star l)).
Proof. split; [exact parse_fill_kw_array_short|exact fill_params_shapes]. Qed.

(* finding array_entry_transformation: 'fill=-1:1 0:0 0:0 5 5 5(0 1 0)' - MCNP
   attaches (0 1 0) to the LAST entry; the code makes it the translation of the
   whole array (then applied to every element by develop_lattice) *)
Theorem C06_array_entry_transformation_refuted :
  exists first stack k,
    parse_fill_kw first stack = Ok k /\
    fk_univs k = FArr [5; 5; 5]%Z /\ fill_params_shape false (fk_params k) = PTranslation "0" "1" "0".
Proof.
  exists "-1:1"%string, ["0:0"; "0:0"; "5"; "5"; "5"; "0"; "1"; "0"; "imp:n"; "1"]%string.
  eexists. split; [vm_compute; reflexivity|]. split; reflexivity.
Qed.

(* EXACTLY which FILL-array texts are affected by finding array_entry_transformation.
   A FILL array as written = ranges, then one entry per element: a universe number
   optionally followed by a transformation in parentheses (MCNP: it belongs to that
   entry).  The code sees the flattened tokens.  mcnp_equivalent k us es: the code
   kept the universes us, and every entry's own transformation equals the single
   transformation the code keeps for the whole array.  The text is read as MCNP reads
   it IF AND ONLY IF no entry carries a transformation or the array has one element;
   every other text (a transformation on any entry of an array of two or more
   elements) is misread - silently when the flattened tokens still parse. *)
Theorem C06_fill_array_read_as_mcnp :
  forall (first : string) (more : list string) (bs : bounds) (es : list (string * list string))
         (us : list Z) (tail : list string),
  Forall2 spells_range (first :: more) bs -> wf_bounds bs ->
  Forall2 spells_int (map fst es) us -> Z.of_nat (List.length us) = size bs ->
  Forall (fun e => Forall tr_token (snd e)) es -> keyword_or_end tail ->
  ((exists k, parse_fill_kw first (more ++ flatten_entries es ++ tail)%list = Ok k /\
              mcnp_equivalent k us es)
   <-> ((forall e, In e es -> snd e = []) \/ List.length es = 1%nat)).
Proof. exact fill_array_read_as_mcnp. Qed.

(* round 5: the hypothesis on the transformation tokens reduced to param_token (starts
   like a number and to_float reads it): every such spelling ends in a digit or a point
   and contains no colon (C06_float_spelling_facts) *)
Theorem C06_float_spelling_facts : forall t : string, is_float_spelling t = true ->
  has_colon t = false /\ ends_plain t.
Proof. exact float_spelling_facts. Qed.

Theorem C06_fill_array_read_as_mcnp_param :
  forall (first : string) (more : list string) (bs : bounds) (es : list (string * list string))
         (us : list Z) (tail : list string),
  Forall2 spells_range (first :: more) bs -> wf_bounds bs ->
  Forall2 spells_int (map fst es) us -> Z.of_nat (List.length us) = size bs ->
  Forall (fun e => Forall param_token (snd e)) es -> keyword_or_end tail ->
  ((exists k, parse_fill_kw first (more ++ flatten_entries es ++ tail)%list = Ok k /\
              mcnp_equivalent k us es)
   <-> ((forall e, In e es -> snd e = []) \/ List.length es = 1%nat)).
Proof. exact fill_array_read_as_mcnp_param. Qed.

(* whatever the grouping by parentheses, what the code keeps is: the first
   size(ranges) tokens as universes and ALL the other numeric tokens as one
   transformation *)
Theorem C06_parse_fill_kw_flat :
  forall (first : string) (more : list string) (bs : bounds) (toks tail : list string) k,
  Forall2 spells_range (first :: more) bs -> wf_bounds bs ->
  Forall (fun t => ends_plain t /\ is_num_start t = true /\ has_colon t = false) toks ->
  (size bs <= Z.of_nat (List.length toks))%Z -> keyword_or_end tail ->
  parse_fill_kw first (more ++ toks ++ tail)%list = Ok k ->
  fk_params k = skipn (Z.to_nat (size bs)) toks /\ fk_rest k = tail /\ fk_bounds k = Some bs.
Proof. exact parse_fill_kw_flat. Qed.

(* "the code sees the flattened tokens", proved (round 3): the option text
     kw=first more... u1 u2(t t ...) u3 ...
   (okword: a non-empty token of characters that are neither blanks nor ( ) = nor
   upper-case letters, not starting or ending with a colon) is tokenised by the model of
   parse_one_cell_worker into kw, the ranges and flatten_entries; with
   C06_fill_array_read_as_mcnp this characterises the affected TEXTS, not only token lists *)
Theorem C06_tokenize_fill_array :
  forall (kw first : string) (more : list string) (es : list (string * list string)),
  okword kw -> okword first -> Forall okword more ->
  Forall (fun e => okword (fst e) /\ Forall okword (snd e)) es ->
  tokenize_options (kw ++ String "=" first ++ spaced more ++ render_entries es)%string
  = (kw :: first :: more ++ flatten_entries es)%list.
Proof. exact tokenize_fill_array. Qed.

(* ---- non-vacuity ------------------------------------------------------------ *)
(* a skew 2-D unit cell: planes x = +-1 (far plane first) and x + y = +-1 (near
   plane first, normal of the first one pointing into the cell) *)
Example C06_example_unit_cell :
  let sa : @plane R * Z := (((1, 0, 0), (1, 0, 0)), (-1)%Z)%R in
  let sb : @plane R * Z := (((-1, 0, 0), (2, 0, 0)), 1%Z)%R in
  let sc : @plane R * Z := (((0, -1, 0), (1, 1, 0)), 1%Z)%R in
  let sd : @plane R * Z := (((0, 1, 0), (-1, -1, 0)), 1%Z)%R in
  spacing sa sb = 2%R /\ spacing sc sd = 2%R /\ gram2 (outward sa) (outward sc) = 1%R.
Proof.
  cbv zeta. unfold spacing, gram2, outward, dot, spoint, snormal.
  cbn [fst snd Z.eqb Pos.eqb]. rs. repeat split; ring.
Qed.

(* a 2 x 2 array with a void entry, the own universe and a filler, a rotating
   fill transformation: all hypotheses of C06_develop_lattice_located hold *)
Example C06_example_develop :
  let cell : @lat_cell R :=
    mkLatCell 1%Z (FSpec [(-1, 0); (2, 3)]%Z [0; 1; 5; 5]%Z)
              [0; 0; 0; 0; 1; 0; -1; 0; 0; 0; 0; 1]%R [[1; 2; 3; 1; 0; 0; 0; 1; 0; 0; 0; 1]%R] in
  let vecs : list (@vec R) := [(2, -2, 0); (0, 2, 0)]%R in
  lc_fill cell = FSpec [(-1, 0); (2, 3)]%Z [0; 1; 5; 5]%Z /\
  wf_bounds [(-1, 0); (2, 3)]%Z /\ Z.of_nat 4 = size [(-1, 0); (2, 3)]%Z /\
  dimension_checks (List.length vecs) [(-1, 0); (2, 3)]%Z = Ok tt /\ cell_shape_ok cell /\
  map fst (filter nonzero (combine (indices [(-1, 0); (2, 3)]%Z) [0; 1; 5; 5]%Z))
  = [[0; 2]; [-1; 3]; [0; 3]]%Z.
Proof.
  cbv zeta. repeat split; try reflexivity.
  - repeat constructor; cbn; lia.
  - now right.
  - right. eexists; split; reflexivity.
Qed.

(* a negative range with leading zeros and an explicit plus sign *)
Example C06_example_ranges :
  spells_range "-03:+1"%string (-3, 1)%Z /\ spells_range "0:0"%string (0, 0)%Z /\
  parse_lattice ["007,-03:+1,0:0"%string] = Ok [(7, [(-3, 1); (0, 0)])]%Z.
Proof.
  repeat split.
  - exists "-03"%string, "+1"%string. repeat split; reflexivity.
  - exists "0"%string, "0"%string. repeat split; reflexivity.
Qed.

(* the witness of the finding satisfies the hypotheses of C06_fill_array_read_as_mcnp:
   three entries, the last one with (0 1 0) *)
Example C06_example_entry_tr :
  let es := [("5", []); ("5", []); ("5", ["0"; "1"; "0"])]%string in
  Forall2 spells_int (map fst es) [5; 5; 5]%Z /\
  Forall (fun e => Forall tr_token (snd e)) es /\
  flatten_entries es = ["5"; "5"; "5"; "0"; "1"; "0"]%string /\
  ~ ((forall e, In e es -> snd e = []) \/ List.length es = 1%nat).
Proof.
  cbv zeta. split; [repeat constructor|]. split.
  - repeat constructor; try reflexivity; (eexists; split; [reflexivity|left; reflexivity]).
  - split; [reflexivity|]. intros [H|H]; [|discriminate H].
    specialize (H ("5"%string, ["0"; "1"; "0"]%string)). cbn in H.
    assert (X : ["0"; "1"; "0"]%string = []) by (apply H; tauto). discriminate X.
Qed.

(* the text of the finding's witness: rendered from its entries, tokenised to the
   flattened tokens on which C06_array_entry_transformation_refuted computes *)
Example C06_example_witness_text :
  let es := [("5", []); ("5", []); ("5", ["0"; "1"; "0"])]%string in
  ("fill" ++ String "=" "-1:1" ++ spaced ["0:0"; "0:0"] ++ render_entries es)%string
  = "fill=-1:1 0:0 0:0 5 5 5(0 1 0)"%string /\
  tokenize_options "fill=-1:1 0:0 0:0 5 5 5(0 1 0)"
  = ["fill"; "-1:1"; "0:0"; "0:0"; "5"; "5"; "5"; "0"; "1"; "0"]%string /\
  okword "-1:1" /\ okword "fill".
Proof. cbv zeta. repeat split; reflexivity. Qed.

(* ================================================================== *)
(* Families: the conjunction of the theorems above, grouped, so that    *)
(* one Print Assumptions audits each group (the statement of a family   *)
(* is literally the conjunction of the statements of its members).      *)
(* ================================================================== *)
(* index order, items, __getitem__, homogeneous fill, dimension test *)
Theorem C06_family_index :
  ltac:(let t := type of (conj C06_indices_first_fastest (conj C06_items_array (conj C06_items_array_3d (conj C06_getitem_tuple_last_fastest (conj C06_homogeneous_fill C06_dimension_checks_spec))))) in exact t).
Proof. exact (conj C06_indices_first_fastest (conj C06_items_array (conj C06_items_array_3d (conj C06_getitem_tuple_last_fastest (conj C06_homogeneous_fill C06_dimension_checks_spec))))). Qed.
Print Assumptions C06_family_index.

(* reciprocal and base vectors, sides, errors, compose_transform *)
Theorem C06_family_numeric :
  ltac:(let t := type of (conj C06_reciprocal_dual (conj C06_square_base_vectors (conj C06_square_base_vectors_translate (conj C06_outward_sense (conj C06_square_sides_irrelevant (conj C06_square_errors C06_compose_transform_point)))))) in exact t).
Proof. exact (conj C06_reciprocal_dual (conj C06_square_base_vectors (conj C06_square_base_vectors_translate (conj C06_outward_sense (conj C06_square_sides_irrelevant (conj C06_square_errors C06_compose_transform_point)))))). Qed.
Print Assumptions C06_family_numeric.

(* develop_lattice: located, complete, degenerate ranges, from the card's planes, end to end (interface restated) *)
Theorem C06_family_develop :
  ltac:(let t := type of (conj C06_develop_lattice_located (conj C06_develop_lattice_complete (conj C06_degenerate_ranges_developed (conj C06_develop_lattice_square (conj C06_extract_surfaces (conj C06_lattice_end_to_end (conj C06_lattice_end_to_end_3d C06_lattice_end_to_end_1d_2d))))))) in exact t).
Proof. exact (conj C06_develop_lattice_located (conj C06_develop_lattice_complete (conj C06_degenerate_ranges_developed (conj C06_develop_lattice_square (conj C06_extract_surfaces (conj C06_lattice_end_to_end (conj C06_lattice_end_to_end_3d C06_lattice_end_to_end_1d_2d))))))). Qed.
Print Assumptions C06_family_develop.

(* --lattice options, FILL arrays on the cell card, tokenisation, the characterisation of finding array_entry_transformation *)
Theorem C06_family_text :
  ltac:(let t := type of (conj C06_parse_ranges_spelled (conj C06_parse_lattice_option (conj C06_parse_fill_kw_array (conj C06_parse_fill_kw_short_and_shapes (conj C06_array_entry_transformation_refuted (conj C06_fill_array_read_as_mcnp (conj C06_parse_fill_kw_flat (conj C06_tokenize_fill_array (conj C06_float_spelling_facts C06_fill_array_read_as_mcnp_param))))))))) in exact t).
Proof. exact (conj C06_parse_ranges_spelled (conj C06_parse_lattice_option (conj C06_parse_fill_kw_array (conj C06_parse_fill_kw_short_and_shapes (conj C06_array_entry_transformation_refuted (conj C06_fill_array_read_as_mcnp (conj C06_parse_fill_kw_flat (conj C06_tokenize_fill_array (conj C06_float_spelling_facts C06_fill_array_read_as_mcnp_param))))))))). Qed.
Print Assumptions C06_family_text.

(* linked with C05: both directions, satisfiability of the inverse law *)
Theorem C06_family_linked :
  ltac:(let t := type of (conj C06_lattice_end_to_end_linked (conj C06_lattice_end_to_end_conv_linked (conj C06_link_inverse_satisfiable C06_lattice_unique_owner_linked))) in exact t).
Proof. exact (conj C06_lattice_end_to_end_linked (conj C06_lattice_end_to_end_conv_linked (conj C06_link_inverse_satisfiable C06_lattice_unique_owner_linked))). Qed.
Print Assumptions C06_family_linked.

