From Coq Require Import List ZArith Bool.
From T4V Require Import Base.Str Base.Scalar C06.Model C06.Proofs.
Import ListNotations.
Open Scope Z_scope.

Theorem C06_stub : forall lo n, List.length (zrange_from lo n) = n.
Proof. exact zrange_from_length. Qed.
Print Assumptions C06_stub.
