(* C02 — Elementary surfaces keep their locus and their sense.
   Only restatements; proofs are in C02/Proofs.v, ProofsCards.v, ProofsP3.v, ProofsAll.v.

   Vocabulary (C02/Proofs.v):
     convert_card RS mn prm : the signed list of TRIPOLI-4 surfaces that the
       modelled code path (normalize_surface, mcnp2cad, cone padding,
       convert_*, SurfaceCollection.join) emits for one card, at exact reals;
     neg_coll c p / pos_coll c p : p belongs to the region that the reference
       -s / +s selects in a converted cell (intersection of the literals
       -(side_i id_i) / union of the literals side_i id_i; MINUS is f_T4 < 0);
     locus_sense out f : out = Ok [one surface, side +1] whose TRIPOLI-4
       equation is k * f pointwise for some k > 0;
     one_sheet out f g : out = Ok [cone; plane]; -s is {f < 0 and g > 0},
       +s is {f > 0 or g < 0}, and the cone's zero set is that of f. *)
From Coq Require Import List ZArith Bool Reals Lra.
From T4V Require Import Base.Scalar C02.Vec C02.Spec C02.Model C02.Proofs C02.ProofsCards C02.ProofsP3.
Import ListNotations.
Open Scope R_scope.

(* what locus_sense gives: same negative region, same positive region, same
   zero set, for every point *)
Theorem C02_locus_sense_meaning : forall (out : res collR) (f : pointR -> R),
  locus_sense out f ->
  exists c, out = Ok c /\
    forall p, (neg_coll c p <-> f p < 0) /\ (pos_coll c p <-> 0 < f p) /\
              (exists ty prm g, c = [((ty, prm), 1%Z)] /\ f_T4 RS ty prm = Some g /\
                                (g p = 0 <-> f p = 0)).
Proof. exact locus_sense_regions. Qed.
Print Assumptions C02_locus_sense_meaning.

Theorem C02_so_locus_sense : forall r : R, 
  locus_sense (convert_card RS M_SO [r]) (fM_so RS r).
Proof. exact so_locus_sense. Qed.
Print Assumptions C02_so_locus_sense.

Theorem C02_s_locus_sense : forall x0 y0 z0 r : R, 
  locus_sense (convert_card RS M_S [x0; y0; z0; r]) (fM_s RS x0 y0 z0 r).
Proof. exact s_locus_sense. Qed.
Print Assumptions C02_s_locus_sense.

Theorem C02_sx_locus_sense : forall c r : R, 
  locus_sense (convert_card RS M_SX [c; r]) (fM_sx RS c r).
Proof. exact sx_locus_sense. Qed.
Print Assumptions C02_sx_locus_sense.

Theorem C02_sy_locus_sense : forall c r : R, 
  locus_sense (convert_card RS M_SY [c; r]) (fM_sy RS c r).
Proof. exact sy_locus_sense. Qed.
Print Assumptions C02_sy_locus_sense.

Theorem C02_sz_locus_sense : forall c r : R, 
  locus_sense (convert_card RS M_SZ [c; r]) (fM_sz RS c r).
Proof. exact sz_locus_sense. Qed.
Print Assumptions C02_sz_locus_sense.

Theorem C02_px_locus_sense : forall d : R, 
  locus_sense (convert_card RS M_PX [d]) (fM_px RS d).
Proof. exact px_locus_sense. Qed.
Print Assumptions C02_px_locus_sense.

Theorem C02_py_locus_sense : forall d : R, 
  locus_sense (convert_card RS M_PY [d]) (fM_py RS d).
Proof. exact py_locus_sense. Qed.
Print Assumptions C02_py_locus_sense.

Theorem C02_pz_locus_sense : forall d : R, 
  locus_sense (convert_card RS M_PZ [d]) (fM_pz RS d).
Proof. exact pz_locus_sense. Qed.
Print Assumptions C02_pz_locus_sense.

Theorem C02_c_x_locus_sense : forall a b r : R, 
  locus_sense (convert_card RS M_C_X [a; b; r]) (fM_c_x RS a b r).
Proof. exact c_x_locus_sense. Qed.
Print Assumptions C02_c_x_locus_sense.

Theorem C02_c_y_locus_sense : forall a b r : R, 
  locus_sense (convert_card RS M_C_Y [a; b; r]) (fM_c_y RS a b r).
Proof. exact c_y_locus_sense. Qed.
Print Assumptions C02_c_y_locus_sense.

Theorem C02_c_z_locus_sense : forall a b r : R, 
  locus_sense (convert_card RS M_C_Z [a; b; r]) (fM_c_z RS a b r).
Proof. exact c_z_locus_sense. Qed.
Print Assumptions C02_c_z_locus_sense.

Theorem C02_cx_locus_sense : forall r : R, 
  locus_sense (convert_card RS M_CX [r]) (fM_cx RS r).
Proof. exact cx_locus_sense. Qed.
Print Assumptions C02_cx_locus_sense.

Theorem C02_cy_locus_sense : forall r : R, 
  locus_sense (convert_card RS M_CY [r]) (fM_cy RS r).
Proof. exact cy_locus_sense. Qed.
Print Assumptions C02_cy_locus_sense.

Theorem C02_cz_locus_sense : forall r : R, 
  locus_sense (convert_card RS M_CZ [r]) (fM_cz RS r).
Proof. exact cz_locus_sense. Qed.
Print Assumptions C02_cz_locus_sense.

Theorem C02_gq_locus_sense : forall A B C D E F G H J K : R, 
  locus_sense (convert_card RS M_GQ [A; B; C; D; E; F; G; H; J; K]) (fM_gq RS A B C D E F G H J K).
Proof. exact gq_locus_sense. Qed.
Print Assumptions C02_gq_locus_sense.

Theorem C02_sq_locus_sense : forall A B C D E F G x0 y0 z0 : R, 
  G <= 0 ->
  locus_sense (convert_card RS M_SQ [A; B; C; D; E; F; G; x0; y0; z0])
              (fM_sq RS A B C D E F G x0 y0 z0).
Proof. exact sq_locus_sense. Qed.
Print Assumptions C02_sq_locus_sense.

Theorem C02_tx_locus_sense : forall x0 y0 z0 A B C : R, 
  locus_sense (convert_card RS M_TX [x0; y0; z0; A; B; C]) (fM_tx RS x0 y0 z0 A B C).
Proof. exact tx_locus_sense. Qed.
Print Assumptions C02_tx_locus_sense.

Theorem C02_ty_locus_sense : forall x0 y0 z0 A B C : R, 
  locus_sense (convert_card RS M_TY [x0; y0; z0; A; B; C]) (fM_ty RS x0 y0 z0 A B C).
Proof. exact ty_locus_sense. Qed.
Print Assumptions C02_ty_locus_sense.

Theorem C02_tz_locus_sense : forall x0 y0 z0 A B C : R, 
  locus_sense (convert_card RS M_TZ [x0; y0; z0; A; B; C]) (fM_tz RS x0 y0 z0 A B C).
Proof. exact tz_locus_sense. Qed.
Print Assumptions C02_tz_locus_sense.

Theorem C02_tx5_locus_sense : forall x0 y0 z0 A B : R, 
  locus_sense (convert_card RS M_TX [x0; y0; z0; A; B]) (fM_tx RS x0 y0 z0 A B B).
Proof. exact tx5_locus_sense. Qed.
Print Assumptions C02_tx5_locus_sense.

Theorem C02_ty5_locus_sense : forall x0 y0 z0 A B : R, 
  locus_sense (convert_card RS M_TY [x0; y0; z0; A; B]) (fM_ty RS x0 y0 z0 A B B).
Proof. exact ty5_locus_sense. Qed.
Print Assumptions C02_ty5_locus_sense.

Theorem C02_tz5_locus_sense : forall x0 y0 z0 A B : R, 
  locus_sense (convert_card RS M_TZ [x0; y0; z0; A; B]) (fM_tz RS x0 y0 z0 A B B).
Proof. exact tz5_locus_sense. Qed.
Print Assumptions C02_tz5_locus_sense.

Theorem C02_p_locus_sense : forall A B C D : R, 
  (A, B, C) <> (0, 0, 0) ->
  locus_sense (convert_card RS M_P [A; B; C; D]) (fM_p RS A B C D).
Proof. exact p_locus_sense. Qed.
Print Assumptions C02_p_locus_sense.

Theorem C02_kx_locus_sense : forall x0 t2 : R, 
  0 <= t2 -> locus_sense (convert_card RS M_KX [x0; t2]) (fM_kx RS x0 t2).
Proof. exact kx_locus_sense. Qed.
Print Assumptions C02_kx_locus_sense.

Theorem C02_ky_locus_sense : forall y0 t2 : R, 
  0 <= t2 -> locus_sense (convert_card RS M_KY [y0; t2]) (fM_ky RS y0 t2).
Proof. exact ky_locus_sense. Qed.
Print Assumptions C02_ky_locus_sense.

Theorem C02_kz_locus_sense : forall z0 t2 : R, 
  0 <= t2 -> locus_sense (convert_card RS M_KZ [z0; t2]) (fM_kz RS z0 t2).
Proof. exact kz_locus_sense. Qed.
Print Assumptions C02_kz_locus_sense.

Theorem C02_k_x_locus_sense : forall x0 y0 z0 t2 : R, 
  0 <= t2 -> locus_sense (convert_card RS M_K_X [x0; y0; z0; t2]) (fM_k_x RS x0 y0 z0 t2).
Proof. exact k_x_locus_sense. Qed.
Print Assumptions C02_k_x_locus_sense.

Theorem C02_k_y_locus_sense : forall x0 y0 z0 t2 : R, 
  0 <= t2 -> locus_sense (convert_card RS M_K_Y [x0; y0; z0; t2]) (fM_k_y RS x0 y0 z0 t2).
Proof. exact k_y_locus_sense. Qed.
Print Assumptions C02_k_y_locus_sense.

Theorem C02_k_z_locus_sense : forall x0 y0 z0 t2 : R, 
  0 <= t2 -> locus_sense (convert_card RS M_K_Z [x0; y0; z0; t2]) (fM_k_z RS x0 y0 z0 t2).
Proof. exact k_z_locus_sense. Qed.
Print Assumptions C02_k_z_locus_sense.

Theorem C02_kx_sheet_locus_sense : forall x0 t2 s : R, 
  0 <= t2 -> s = 1 \/ s = -1 ->
  one_sheet (convert_card RS M_KX [x0; t2; s]) (fM_kx RS x0 t2) (fun p => s * axial_x RS x0 p).
Proof. exact kx_sheet_locus_sense. Qed.
Print Assumptions C02_kx_sheet_locus_sense.

Theorem C02_ky_sheet_locus_sense : forall y0 t2 s : R, 
  0 <= t2 -> s = 1 \/ s = -1 ->
  one_sheet (convert_card RS M_KY [y0; t2; s]) (fM_ky RS y0 t2) (fun p => s * axial_y RS y0 p).
Proof. exact ky_sheet_locus_sense. Qed.
Print Assumptions C02_ky_sheet_locus_sense.

Theorem C02_kz_sheet_locus_sense : forall z0 t2 s : R, 
  0 <= t2 -> s = 1 \/ s = -1 ->
  one_sheet (convert_card RS M_KZ [z0; t2; s]) (fM_kz RS z0 t2) (fun p => s * axial_z RS z0 p).
Proof. exact kz_sheet_locus_sense. Qed.
Print Assumptions C02_kz_sheet_locus_sense.

Theorem C02_k_x_sheet_locus_sense : forall x0 y0 z0 t2 s : R, 
  0 <= t2 -> s = 1 \/ s = -1 ->
  one_sheet (convert_card RS M_K_X [x0; y0; z0; t2; s]) (fM_k_x RS x0 y0 z0 t2)
            (fun p => s * axial_x RS x0 p).
Proof. exact k_x_sheet_locus_sense. Qed.
Print Assumptions C02_k_x_sheet_locus_sense.

Theorem C02_k_y_sheet_locus_sense : forall x0 y0 z0 t2 s : R, 
  0 <= t2 -> s = 1 \/ s = -1 ->
  one_sheet (convert_card RS M_K_Y [x0; y0; z0; t2; s]) (fM_k_y RS x0 y0 z0 t2)
            (fun p => s * axial_y RS y0 p).
Proof. exact k_y_sheet_locus_sense. Qed.
Print Assumptions C02_k_y_sheet_locus_sense.

Theorem C02_k_z_sheet_locus_sense : forall x0 y0 z0 t2 s : R, 
  0 <= t2 -> s = 1 \/ s = -1 ->
  one_sheet (convert_card RS M_K_Z [x0; y0; z0; t2; s]) (fM_k_z RS x0 y0 z0 t2)
            (fun p => s * axial_z RS z0 p).
Proof. exact k_z_sheet_locus_sense. Qed.
Print Assumptions C02_k_z_sheet_locus_sense.

Theorem C02_kx_sheet0_locus_sense : forall x0 t2 : R, 
  0 <= t2 -> locus_sense (convert_card RS M_KX [x0; t2; 0]) (fM_kx RS x0 t2).
Proof. exact kx_sheet0_locus_sense. Qed.
Print Assumptions C02_kx_sheet0_locus_sense.

Theorem C02_ky_sheet0_locus_sense : forall x0 t2 : R, 
  0 <= t2 -> locus_sense (convert_card RS M_KY [x0; t2; 0]) (fM_ky RS x0 t2).
Proof. exact ky_sheet0_locus_sense. Qed.
Print Assumptions C02_ky_sheet0_locus_sense.

Theorem C02_kz_sheet0_locus_sense : forall x0 t2 : R, 
  0 <= t2 -> locus_sense (convert_card RS M_KZ [x0; t2; 0]) (fM_kz RS x0 t2).
Proof. exact kz_sheet0_locus_sense. Qed.
Print Assumptions C02_kz_sheet0_locus_sense.

Theorem C02_k_x_sheet0_locus_sense : forall x0 y0 z0 t2 : R, 
  0 <= t2 -> locus_sense (convert_card RS M_K_X [x0; y0; z0; t2; 0]) (fM_k_x RS x0 y0 z0 t2).
Proof. exact k_x_sheet0_locus_sense. Qed.
Print Assumptions C02_k_x_sheet0_locus_sense.

Theorem C02_k_y_sheet0_locus_sense : forall x0 y0 z0 t2 : R, 
  0 <= t2 -> locus_sense (convert_card RS M_K_Y [x0; y0; z0; t2; 0]) (fM_k_y RS x0 y0 z0 t2).
Proof. exact k_y_sheet0_locus_sense. Qed.
Print Assumptions C02_k_y_sheet0_locus_sense.

Theorem C02_k_z_sheet0_locus_sense : forall x0 y0 z0 t2 : R, 
  0 <= t2 -> locus_sense (convert_card RS M_K_Z [x0; y0; z0; t2; 0]) (fM_k_z RS x0 y0 z0 t2).
Proof. exact k_z_sheet0_locus_sense. Qed.
Print Assumptions C02_k_z_sheet0_locus_sense.

Theorem C02_x2_locus_sense : forall x1 r : R, 
  locus_sense (convert_card RS M_X [x1; r]) (fM_px RS x1).
Proof. exact x2_locus_sense. Qed.
Print Assumptions C02_x2_locus_sense.

Theorem C02_y2_locus_sense : forall x1 r : R, 
  locus_sense (convert_card RS M_Y [x1; r]) (fM_py RS x1).
Proof. exact y2_locus_sense. Qed.
Print Assumptions C02_y2_locus_sense.

Theorem C02_z2_locus_sense : forall x1 r : R, 
  locus_sense (convert_card RS M_Z [x1; r]) (fM_pz RS x1).
Proof. exact z2_locus_sense. Qed.
Print Assumptions C02_z2_locus_sense.

Theorem C02_x_plane_locus_sense : forall x1 r1 r2 : R, 
  locus_sense (convert_card RS M_X [x1; r1; x1; r2]) (fM_px RS x1).
Proof. exact x_plane_locus_sense. Qed.
Print Assumptions C02_x_plane_locus_sense.

Theorem C02_y_plane_locus_sense : forall x1 r1 r2 : R, 
  locus_sense (convert_card RS M_Y [x1; r1; x1; r2]) (fM_py RS x1).
Proof. exact y_plane_locus_sense. Qed.
Print Assumptions C02_y_plane_locus_sense.

Theorem C02_z_plane_locus_sense : forall x1 r1 r2 : R, 
  locus_sense (convert_card RS M_Z [x1; r1; x1; r2]) (fM_pz RS x1).
Proof. exact z_plane_locus_sense. Qed.
Print Assumptions C02_z_plane_locus_sense.

Theorem C02_x_cyl_locus_sense : forall x1 x2 r : R, 
  x1 <> x2 -> locus_sense (convert_card RS M_X [x1; r; x2; r]) (fM_cx RS r).
Proof. exact x_cyl_locus_sense. Qed.
Print Assumptions C02_x_cyl_locus_sense.

Theorem C02_y_cyl_locus_sense : forall x1 x2 r : R, 
  x1 <> x2 -> locus_sense (convert_card RS M_Y [x1; r; x2; r]) (fM_cy RS r).
Proof. exact y_cyl_locus_sense. Qed.
Print Assumptions C02_y_cyl_locus_sense.

Theorem C02_z_cyl_locus_sense : forall x1 x2 r : R, 
  x1 <> x2 -> locus_sense (convert_card RS M_Z [x1; r; x2; r]) (fM_cz RS r).
Proof. exact z_cyl_locus_sense. Qed.
Print Assumptions C02_z_cyl_locus_sense.

Theorem C02_x_cone_locus_sense : forall x1 r1 x2 r2 : R, 
  x1 <> x2 -> r1 <> r2 -> 0 <= r1 -> 0 <= r2 ->
  one_sheet (convert_card RS M_X [x1; r1; x2; r2])
            (fM_kx RS (xyz_apex RS x1 r1 x2 r2) (xyz_t2 RS x1 r1 x2 r2))
            (fun p => axial_x RS (xyz_apex RS x1 r1 x2 r2) p
                      * ((x1 - xyz_apex RS x1 r1 x2 r2) + (x2 - xyz_apex RS x1 r1 x2 r2))).
Proof. exact x_cone_locus_sense. Qed.
Print Assumptions C02_x_cone_locus_sense.

Theorem C02_y_cone_locus_sense : forall x1 r1 x2 r2 : R, 
  x1 <> x2 -> r1 <> r2 -> 0 <= r1 -> 0 <= r2 ->
  one_sheet (convert_card RS M_Y [x1; r1; x2; r2])
            (fM_ky RS (xyz_apex RS x1 r1 x2 r2) (xyz_t2 RS x1 r1 x2 r2))
            (fun p => axial_y RS (xyz_apex RS x1 r1 x2 r2) p
                      * ((x1 - xyz_apex RS x1 r1 x2 r2) + (x2 - xyz_apex RS x1 r1 x2 r2))).
Proof. exact y_cone_locus_sense. Qed.
Print Assumptions C02_y_cone_locus_sense.

Theorem C02_z_cone_locus_sense : forall x1 r1 x2 r2 : R, 
  x1 <> x2 -> r1 <> r2 -> 0 <= r1 -> 0 <= r2 ->
  one_sheet (convert_card RS M_Z [x1; r1; x2; r2])
            (fM_kz RS (xyz_apex RS x1 r1 x2 r2) (xyz_t2 RS x1 r1 x2 r2))
            (fun p => axial_z RS (xyz_apex RS x1 r1 x2 r2) p
                      * ((x1 - xyz_apex RS x1 r1 x2 r2) + (x2 - xyz_apex RS x1 r1 x2 r2))).
Proof. exact z_cone_locus_sense. Qed.
Print Assumptions C02_z_cone_locus_sense.

Theorem C02_p3_locus_sense : forall x1 y1 z1 x2 y2 z2 x3 y3 z3 : R, 
  let p1 := (x1, y1, z1) in let p2 := (x2, y2, z2) in let p3 := (x3, y3, z3) in
  p3_guard (p3_normal RS p1 p2 p3) p1 ->
  exists A B C D, p3_plane RS p1 p2 p3 = Some (A, B, C, D) /\
    locus_sense (convert_card RS M_P [x1; y1; z1; x2; y2; z2; x3; y3; z3]) (fM_p RS A B C D).
Proof. exact p3_locus_sense. Qed.
Print Assumptions C02_p3_locus_sense.

(* ---------- SQ: the sign rule of convert_special_quadric ---------- *)
(* the quantity tested by the code is G itself ... *)
Theorem C02_sq_test_value : forall a b c d e f g x y z : R,
  eval_quadric RS (sq_to_gq RS a b c d e f g x y z) (x, y, z) = Ok g.
Proof. exact sq_test_value. Qed.
Print Assumptions C02_sq_test_value.

(* ... so every SQ card with G > 0 is emitted with the two senses exchanged
   (same zero set): the statement C02_sq_locus_sense cannot be extended to G > 0 *)
Theorem C02_sq_positive_g_flipped : forall A B C D E F G x0 y0 z0 : R,
  0 < G ->
  locus_flipped (convert_card RS M_SQ [A; B; C; D; E; F; G; x0; y0; z0])
                (fM_sq RS A B C D E F G x0 y0 z0).
Proof. exact sq_positive_g_flipped. Qed.
Print Assumptions C02_sq_positive_g_flipped.

Theorem C02_locus_flipped_meaning : forall (out : res collR) (f : pointR -> R),
  locus_flipped out f ->
  exists c, out = Ok c /\
    forall p, (neg_coll c p <-> 0 < f p) /\ (pos_coll c p <-> f p < 0).
Proof. exact locus_flipped_regions. Qed.
Print Assumptions C02_locus_flipped_meaning.

(* witness: SQ -1 -1 -1 0 0 0 1 0 0 0 (the unit sphere written with G = +1):
   the origin has positive MCNP sense and lies in the region selected by -s *)
Theorem C02_sq_positive_g_refuted :
  exists prm c p,
    convert_card RS M_SQ prm = Ok c /\
    mcnp_surface RS M_SQ prm = Some (mkMsurf (fM_sq RS (-1) (-1) (-1) 0 0 0 1 0 0 0) None) /\
    0 < fM_sq RS (-1) (-1) (-1) 0 0 0 1 0 0 0 p /\ neg_coll c p.
Proof. exact sq_positive_g_refuted. Qed.
Print Assumptions C02_sq_positive_g_refuted.

(* ---------- the conversion functions for ANY frame (all branches) ---------- *)
(* surf_is s f: the TRIPOLI-4 equation of s is k * f for some k > 0 *)
Theorem C02_convert_plane_any_normal : forall p u : vec (T:=R),
  u <> (0, 0, 0) ->
  exists s, convert_plane RS (mkCad KdP (Some (p, u)) []) = Ok s /\ surf_is s (plane_through p u).
Proof. exact convert_plane_ok. Qed.
Print Assumptions C02_convert_plane_any_normal.

Theorem C02_convert_cylinder_any_axis : forall (p u : vec (T:=R)) (r : R),
  u <> (0, 0, 0) ->
  exists s, convert_cylinder RS (mkCad KdC (Some (p, u)) [Some r]) = Ok s /\
            surf_is s (cyl_about p u r).
Proof. exact convert_cylinder_ok. Qed.
Print Assumptions C02_convert_cylinder_any_axis.

Theorem C02_cone_surface_any_axis : forall (p u : vec (T:=R)) (t : R),
  u <> (0, 0, 0) -> surf_is (cone_surf p u (atan t)) (cone_about p u (t * t)).
Proof. exact cone_surf_ok. Qed.
Print Assumptions C02_cone_surface_any_axis.

(* the auxiliary plane of a one-sheet cone, both directions of the axis *)
Theorem C02_cone_aux_plane_any_axis : forall (p u : vec (T:=R)) (side : Z),
  u <> (0, 0, 0) ->
  exists s side' g k, cone_aux_plane RS p u side = Ok (s, side') /\
    f_T4 RS (fst s) (snd s) = Some g /\ 0 < k /\
    forall q, IZR side' * g q = k * (IZR side * plane_through p u q).
Proof. exact cone_aux_plane_ok. Qed.
Print Assumptions C02_cone_aux_plane_any_axis.

Theorem C02_tan_deg_atan : forall t : R, tan_deg RS (180 * atan t / PI) = t.
Proof. exact tan_deg_atan. Qed.
Print Assumptions C02_tan_deg_atan.

(* ---------- three-point planes: the model against the manual ---------- *)
Theorem C02_orient_plane_ok : forall n p1 : vec (T:=R),
  p3_guard n p1 ->
  let '(A, B, C) := n in
  let D := scal RS n p1 in
  exists keep, p3_keep RS n D = Some keep /\
    orient_plane RS n p1 =
      Ok (scale4 (1 / mag RS n) (if keep then (A, B, C, D) else (- A, - B, - C, - D))).
Proof. exact orient_plane_ok. Qed.
Print Assumptions C02_orient_plane_ok.

(* Spec sanity (the Spec is not vacuous and says what the manual says) *)
Theorem C02_spec_p3_through_points : forall (p1 p2 p3 : vec (T:=R)) (A B C D : R),
  p3_plane RS p1 p2 p3 = Some (A, B, C, D) ->
  fM_p RS A B C D p1 = 0 /\ fM_p RS A B C D p2 = 0 /\ fM_p RS A B C D p3 = 0.
Proof. exact p3_plane_through_points. Qed.
Print Assumptions C02_spec_p3_through_points.

Theorem C02_spec_p3_orientation : forall (p1 p2 p3 : vec (T:=R)) (A B C D : R),
  p3_plane RS p1 p2 p3 = Some (A, B, C, D) ->
  0 < D \/ (D = 0 /\ (0 < C \/ (C = 0 /\ (0 < B \/ (B = 0 /\ 0 < A))))).
Proof. exact p3_plane_orientation. Qed.
Print Assumptions C02_spec_p3_orientation.

Theorem C02_spec_xyz_contains_points : forall x1 r1 x2 r2 : R,
  x1 <> x2 -> r1 <> r2 -> 0 <= r1 -> 0 <= r2 ->
  let a := xyz_apex RS x1 r1 x2 r2 in
  let s := (x1 - a) + (x2 - a) in
  fM_kx RS a (xyz_t2 RS x1 r1 x2 r2) (x1, r1, 0) = 0 /\
  fM_kx RS a (xyz_t2 RS x1 r1 x2 r2) (x2, 0, r2) = 0 /\
  0 <= (x1 - a) * s /\ 0 <= (x2 - a) * s /\ s <> 0.
Proof. exact xyz_spec_contains_points. Qed.
Print Assumptions C02_spec_xyz_contains_points.

(* ---------- non-vacuity ---------- *)
(* the guard of C02_p3_locus_sense holds for the plane z = 1 through
   (0,0,1), (1,0,1), (0,1,1) *)
Example C02_example_p3_guard : p3_guard (p3_normal RS (0, 0, 1) (1, 0, 1) (0, 1, 1)) (0, 0, 1).
Proof. exact p3_guard_example. Qed.

(* the apex-coincident card X 0 0 1 1 (formerly the wrong sheet) satisfies the
   hypotheses of C02_x_cone_locus_sense *)
Example C02_example_x_apex : (0:R) <> 1 /\ (0:R) <> 1 /\ 0 <= 0 /\ 0 <= 1.
Proof. repeat split; lra. Qed.

(* the model runs: K/Z 1 2 3 0.25 -1 at binary64 gives CONEZ + PLANEZ with side +1 *)
Example C02_example_runs :
  match convert_card FS M_K_Z (map (sofZ FS) [1; 2; 3; 4; -1]%Z) with
  | Ok [((CONEZ, [_; _; _; _]), 1%Z); ((PLANEZ, [_]), 1%Z)] => True
  | _ => False
  end.
Proof. vm_compute. exact I. Qed.
