(* C02 — Elementary surfaces keep their locus and their sense.
   Only restatements; proofs are in C02/Proofs.v, ProofsCards.v, ProofsP3.v, ProofsAll.v.

   Vocabulary (C02/Proofs.v):
     convert_card RS mn prm : the signed list of TRIPOLI-4 surfaces that the
       modelled code path (normalize_surface, mcnp2cad, cone padding,
       convert_*, SurfaceCollection.join) emits for one card, at exact reals;
     neg_coll c p / pos_coll c p : p belongs to the region that the reference
       -s / +s selects in a converted cell (intersection of the literals
       -(side_i id_i) / union of the literals side_i id_i; MINUS is f_T4 < 0);
     locus_sense out f : out = Ok [one surface, side +1] whose TRIPOLI-4
       equation is k * f pointwise for some k > 0;
     one_sheet out f g : out = Ok [cone; plane]; -s is {f < 0 and g > 0},
       +s is {f > 0 or g < 0}, and the cone's zero set is that of f. *)
From Coq Require Import List NArith ZArith Bool String Ascii Reals Lra.
From T4V Require Import Base.Str Base.Scalar C02.Vec C02.Spec C02.Model C02.Proofs C02.ProofsCards C02.ProofsP3 C02.ProofsAll C02.ProofsAxis C02.ProofsNum C02.ProofsIds C02.ProofsBand C02.ProofsCounts C02.Text C02.ProofsText C02.LinkC04 C02.LinkC03.
Import ListNotations.
Open Scope R_scope.

(* what locus_sense gives: same negative region, same positive region, same
   zero set, for every point *)
Theorem C02_locus_sense_meaning : forall (out : res collR) (f : pointR -> R),
  locus_sense out f ->
  exists c, out = Ok c /\
    forall p, (neg_coll c p <-> f p < 0) /\ (pos_coll c p <-> 0 < f p) /\
              (exists ty prm g, c = [((ty, prm), 1%Z)] /\ f_T4 RS ty prm = Some g /\
                                (g p = 0 <-> f p = 0)).
Proof. exact locus_sense_regions. Qed.

(* the one statement for all mnemonics: whenever the Spec reads the card as the
   surface ms (Spec.mcnp_surface: equation m_f, kept sheet m_sheet) and the
   guards of [admissible] hold (P: non-zero normal / three points clear of the
   code's epsilons; K: t^2 >= 0; X/Y/Z cone form: radii >= 0),
   the reference -s selects exactly the points of negative MCNP sense, +s
   exactly those of positive sense, and the first emitted surface has the zero
   set of the MCNP equation.  card_correct, neg_sense, pos_sense, admissible:
   C02/ProofsAll.v *)
Theorem C02_every_card_locus_sense : forall (mn : mnem) (prm : list R) (ms : msurf (T:=R)),
  mcnp_surface RS mn prm = Some ms -> admissible mn prm ->
  exists c, convert_card RS mn prm = Ok c /\ forall p,
    (neg_coll c p <-> m_f ms p < 0 /\ match m_sheet ms with None => True | Some g => 0 < g p end) /\
    (pos_coll c p <-> 0 < m_f ms p \/ match m_sheet ms with None => False | Some g => g p < 0 end) /\
    (exists s rest h, c = (s, 1%Z) :: rest /\ f_T4 RS (fst s) (snd s) = Some h /\
                      (h p = 0 <-> m_f ms p = 0)).
Proof. exact every_card. Qed.

(* spheres: any centre, any radius *)
Theorem C02_SO_S_SX_SY_SZ_locus_sense :
  (forall r : R, locus_sense (convert_card RS M_SO [r]) (fM_so RS r)) /\
  (forall x0 y0 z0 r : R, locus_sense (convert_card RS M_S [x0; y0; z0; r]) (fM_s RS x0 y0 z0 r)) /\
  (forall c r : R, locus_sense (convert_card RS M_SX [c; r]) (fM_sx RS c r)) /\
  (forall c r : R, locus_sense (convert_card RS M_SY [c; r]) (fM_sy RS c r)) /\
  (forall c r : R, locus_sense (convert_card RS M_SZ [c; r]) (fM_sz RS c r)).
Proof.
  repeat apply conj.
  - exact so_locus_sense.
  - exact s_locus_sense.
  - exact sx_locus_sense.
  - exact sy_locus_sense.
  - exact sz_locus_sense.
Qed.

(* planes: PX PY PZ, and P A B C D with a non-zero normal (k = 1/|n|) *)
Theorem C02_PX_PY_PZ_P_locus_sense :
  (forall d : R, locus_sense (convert_card RS M_PX [d]) (fM_px RS d)) /\
  (forall d : R, locus_sense (convert_card RS M_PY [d]) (fM_py RS d)) /\
  (forall d : R, locus_sense (convert_card RS M_PZ [d]) (fM_pz RS d)) /\
  (forall A B C D : R, (A, B, C) <> (0, 0, 0) -> locus_sense (convert_card RS M_P [A; B; C; D]) (fM_p RS A B C D)).
Proof.
  repeat apply conj.
  - exact px_locus_sense.
  - exact py_locus_sense.
  - exact pz_locus_sense.
  - exact p_locus_sense.
Qed.

(* cylinders on and parallel to the axes: which two coordinates each card keeps *)
Theorem C02_CX_CY_CZ_C_X_C_Y_C_Z_locus_sense :
  (forall r : R, locus_sense (convert_card RS M_CX [r]) (fM_cx RS r)) /\
  (forall r : R, locus_sense (convert_card RS M_CY [r]) (fM_cy RS r)) /\
  (forall r : R, locus_sense (convert_card RS M_CZ [r]) (fM_cz RS r)) /\
  (forall a b r : R, locus_sense (convert_card RS M_C_X [a; b; r]) (fM_c_x RS a b r)) /\
  (forall a b r : R, locus_sense (convert_card RS M_C_Y [a; b; r]) (fM_c_y RS a b r)) /\
  (forall a b r : R, locus_sense (convert_card RS M_C_Z [a; b; r]) (fM_c_z RS a b r)).
Proof.
  repeat apply conj.
  - exact cx_locus_sense.
  - exact cy_locus_sense.
  - exact cz_locus_sense.
  - exact c_x_locus_sense.
  - exact c_y_locus_sense.
  - exact c_z_locus_sense.
Qed.

(* two-sheet cones (no selector, or selector 0): tan(theta deg)^2 = t^2 through tan(atan t) = t *)
Theorem C02_KX_KY_KZ_K_X_K_Y_K_Z_locus_sense :
  (forall x0 t2 : R, 0 <= t2 -> locus_sense (convert_card RS M_KX [x0; t2]) (fM_kx RS x0 t2)) /\
  (forall y0 t2 : R, 0 <= t2 -> locus_sense (convert_card RS M_KY [y0; t2]) (fM_ky RS y0 t2)) /\
  (forall z0 t2 : R, 0 <= t2 -> locus_sense (convert_card RS M_KZ [z0; t2]) (fM_kz RS z0 t2)) /\
  (forall x0 y0 z0 t2 : R, 0 <= t2 -> locus_sense (convert_card RS M_K_X [x0; y0; z0; t2]) (fM_k_x RS x0 y0 z0 t2)) /\
  (forall x0 y0 z0 t2 : R, 0 <= t2 -> locus_sense (convert_card RS M_K_Y [x0; y0; z0; t2]) (fM_k_y RS x0 y0 z0 t2)) /\
  (forall x0 y0 z0 t2 : R, 0 <= t2 -> locus_sense (convert_card RS M_K_Z [x0; y0; z0; t2]) (fM_k_z RS x0 y0 z0 t2)) /\
  (forall x0 t2 : R, 0 <= t2 -> locus_sense (convert_card RS M_KX [x0; t2; 0]) (fM_kx RS x0 t2)) /\
  (forall x0 t2 : R, 0 <= t2 -> locus_sense (convert_card RS M_KY [x0; t2; 0]) (fM_ky RS x0 t2)) /\
  (forall x0 t2 : R, 0 <= t2 -> locus_sense (convert_card RS M_KZ [x0; t2; 0]) (fM_kz RS x0 t2)) /\
  (forall x0 y0 z0 t2 : R, 0 <= t2 -> locus_sense (convert_card RS M_K_X [x0; y0; z0; t2; 0]) (fM_k_x RS x0 y0 z0 t2)) /\
  (forall x0 y0 z0 t2 : R, 0 <= t2 -> locus_sense (convert_card RS M_K_Y [x0; y0; z0; t2; 0]) (fM_k_y RS x0 y0 z0 t2)) /\
  (forall x0 y0 z0 t2 : R, 0 <= t2 -> locus_sense (convert_card RS M_K_Z [x0; y0; z0; t2; 0]) (fM_k_z RS x0 y0 z0 t2)).
Proof.
  repeat apply conj.
  - exact kx_locus_sense.
  - exact ky_locus_sense.
  - exact kz_locus_sense.
  - exact k_x_locus_sense.
  - exact k_y_locus_sense.
  - exact k_z_locus_sense.
  - exact kx_sheet0_locus_sense.
  - exact ky_sheet0_locus_sense.
  - exact kz_sheet0_locus_sense.
  - exact k_x_sheet0_locus_sense.
  - exact k_y_sheet0_locus_sense.
  - exact k_z_sheet0_locus_sense.
Qed.

(* one-sheet cones, selector +1 / -1: -s = inside the double cone AND on the kept side of the apex plane, +s = the complement *)
Theorem C02_K_sheet_locus_sense :
  (forall x0 t2 s : R, 0 <= t2 -> s = 1 \/ s = -1 -> one_sheet (convert_card RS M_KX [x0; t2; s]) (fM_kx RS x0 t2) (fun p => s * axial_x RS x0 p)) /\
  (forall y0 t2 s : R, 0 <= t2 -> s = 1 \/ s = -1 -> one_sheet (convert_card RS M_KY [y0; t2; s]) (fM_ky RS y0 t2) (fun p => s * axial_y RS y0 p)) /\
  (forall z0 t2 s : R, 0 <= t2 -> s = 1 \/ s = -1 -> one_sheet (convert_card RS M_KZ [z0; t2; s]) (fM_kz RS z0 t2) (fun p => s * axial_z RS z0 p)) /\
  (forall x0 y0 z0 t2 s : R, 0 <= t2 -> s = 1 \/ s = -1 -> one_sheet (convert_card RS M_K_X [x0; y0; z0; t2; s]) (fM_k_x RS x0 y0 z0 t2) (fun p => s * axial_x RS x0 p)) /\
  (forall x0 y0 z0 t2 s : R, 0 <= t2 -> s = 1 \/ s = -1 -> one_sheet (convert_card RS M_K_Y [x0; y0; z0; t2; s]) (fM_k_y RS x0 y0 z0 t2) (fun p => s * axial_y RS y0 p)) /\
  (forall x0 y0 z0 t2 s : R, 0 <= t2 -> s = 1 \/ s = -1 -> one_sheet (convert_card RS M_K_Z [x0; y0; z0; t2; s]) (fM_k_z RS x0 y0 z0 t2) (fun p => s * axial_z RS z0 p)).
Proof.
  repeat apply conj.
  - exact kx_sheet_locus_sense.
  - exact ky_sheet_locus_sense.
  - exact kz_sheet_locus_sense.
  - exact k_x_sheet_locus_sense.
  - exact k_y_sheet_locus_sense.
  - exact k_z_sheet_locus_sense.
Qed.

(* GQ passes through; SQ expands to the same polynomial (k = 1, no guard on G) *)
Theorem C02_GQ_SQ_locus_sense :
  (forall A B C D E F G H J K : R, locus_sense (convert_card RS M_GQ [A; B; C; D; E; F; G; H; J; K]) (fM_gq RS A B C D E F G H J K)) /\
  (forall A B C D E F G x0 y0 z0 : R, locus_sense (convert_card RS M_SQ [A; B; C; D; E; F; G; x0; y0; z0]) (fM_sq RS A B C D E F G x0 y0 z0)).
Proof.
  repeat apply conj.
  - exact gq_locus_sense.
  - exact sq_locus_sense.
Qed.

(* tori, six entries and the five-entry circular form (k = 1: TRIPOLI-4 has MCNP's parameters; signs equal pointwise, radical kept on both sides) *)
Theorem C02_TX_TY_TZ_locus_sense :
  (forall x0 y0 z0 A B C : R, locus_sense (convert_card RS M_TX [x0; y0; z0; A; B; C]) (fM_tx RS x0 y0 z0 A B C)) /\
  (forall x0 y0 z0 A B C : R, locus_sense (convert_card RS M_TY [x0; y0; z0; A; B; C]) (fM_ty RS x0 y0 z0 A B C)) /\
  (forall x0 y0 z0 A B C : R, locus_sense (convert_card RS M_TZ [x0; y0; z0; A; B; C]) (fM_tz RS x0 y0 z0 A B C)) /\
  (forall x0 y0 z0 A B : R, locus_sense (convert_card RS M_TX [x0; y0; z0; A; B]) (fM_tx RS x0 y0 z0 A B B)) /\
  (forall x0 y0 z0 A B : R, locus_sense (convert_card RS M_TY [x0; y0; z0; A; B]) (fM_ty RS x0 y0 z0 A B B)) /\
  (forall x0 y0 z0 A B : R, locus_sense (convert_card RS M_TZ [x0; y0; z0; A; B]) (fM_tz RS x0 y0 z0 A B B)).
Proof.
  repeat apply conj.
  - exact tx_locus_sense.
  - exact ty_locus_sense.
  - exact tz_locus_sense.
  - exact tx5_locus_sense.
  - exact ty5_locus_sense.
  - exact tz5_locus_sense.
Qed.

(* X/Y/Z: one pair or equal abscissae = plane, equal radii = cylinder *)
Theorem C02_X_Y_Z_plane_cylinder_locus_sense :
  (forall x1 r : R, locus_sense (convert_card RS M_X [x1; r]) (fM_px RS x1)) /\
  (forall x1 r : R, locus_sense (convert_card RS M_Y [x1; r]) (fM_py RS x1)) /\
  (forall x1 r : R, locus_sense (convert_card RS M_Z [x1; r]) (fM_pz RS x1)) /\
  (forall x1 r1 r2 : R, locus_sense (convert_card RS M_X [x1; r1; x1; r2]) (fM_px RS x1)) /\
  (forall x1 r1 r2 : R, locus_sense (convert_card RS M_Y [x1; r1; x1; r2]) (fM_py RS x1)) /\
  (forall x1 r1 r2 : R, locus_sense (convert_card RS M_Z [x1; r1; x1; r2]) (fM_pz RS x1)) /\
  (forall x1 x2 r : R, x1 <> x2 -> locus_sense (convert_card RS M_X [x1; r; x2; r]) (fM_cx RS r)) /\
  (forall x1 x2 r : R, x1 <> x2 -> locus_sense (convert_card RS M_Y [x1; r; x2; r]) (fM_cy RS r)) /\
  (forall x1 x2 r : R, x1 <> x2 -> locus_sense (convert_card RS M_Z [x1; r; x2; r]) (fM_cz RS r)).
Proof.
  repeat apply conj.
  - exact x2_locus_sense.
  - exact y2_locus_sense.
  - exact z2_locus_sense.
  - exact x_plane_locus_sense.
  - exact y_plane_locus_sense.
  - exact z_plane_locus_sense.
  - exact x_cyl_locus_sense.
  - exact y_cyl_locus_sense.
  - exact z_cyl_locus_sense.
Qed.

(* X/Y/Z cone form: the cone through the two circles, the sheet containing both points (either point may be the apex) *)
Theorem C02_X_Y_Z_cone_locus_sense :
  (forall x1 r1 x2 r2 : R, x1 <> x2 -> r1 <> r2 -> 0 <= r1 -> 0 <= r2 -> one_sheet (convert_card RS M_X [x1; r1; x2; r2]) (fM_kx RS (xyz_apex RS x1 r1 x2 r2) (xyz_t2 RS x1 r1 x2 r2)) (fun p => axial_x RS (xyz_apex RS x1 r1 x2 r2) p * ((x1 - xyz_apex RS x1 r1 x2 r2) + (x2 - xyz_apex RS x1 r1 x2 r2)))) /\
  (forall x1 r1 x2 r2 : R, x1 <> x2 -> r1 <> r2 -> 0 <= r1 -> 0 <= r2 -> one_sheet (convert_card RS M_Y [x1; r1; x2; r2]) (fM_ky RS (xyz_apex RS x1 r1 x2 r2) (xyz_t2 RS x1 r1 x2 r2)) (fun p => axial_y RS (xyz_apex RS x1 r1 x2 r2) p * ((x1 - xyz_apex RS x1 r1 x2 r2) + (x2 - xyz_apex RS x1 r1 x2 r2)))) /\
  (forall x1 r1 x2 r2 : R, x1 <> x2 -> r1 <> r2 -> 0 <= r1 -> 0 <= r2 -> one_sheet (convert_card RS M_Z [x1; r1; x2; r2]) (fM_kz RS (xyz_apex RS x1 r1 x2 r2) (xyz_t2 RS x1 r1 x2 r2)) (fun p => axial_z RS (xyz_apex RS x1 r1 x2 r2) p * ((x1 - xyz_apex RS x1 r1 x2 r2) + (x2 - xyz_apex RS x1 r1 x2 r2)))).
Proof.
  repeat apply conj.
  - exact x_cone_locus_sense.
  - exact y_cone_locus_sense.
  - exact z_cone_locus_sense.
Qed.

(* three-point planes: outside the epsilon bands of planeParamsFromPoints
   (p3_guard: |n|^2 > 1e-10 and each of D, C, B, A is 0 or > 1e-14 |n| in
   magnitude) the emitted plane is the manual's plane (p3_plane: through the
   points, origin negative, else (0,0,inf) positive, ...) *)
Theorem C02_P_three_points_locus_sense : forall x1 y1 z1 x2 y2 z2 x3 y3 z3 : R,
  let p1 := (x1, y1, z1) in let p2 := (x2, y2, z2) in let p3 := (x3, y3, z3) in
  p3_guard (p3_normal RS p1 p2 p3) p1 ->
  exists A B C D, p3_plane RS p1 p2 p3 = Some (A, B, C, D) /\
    locus_sense (convert_card RS M_P [x1; y1; z1; x2; y2; z2; x3; y3; z3]) (fM_p RS A B C D).
Proof. exact p3_locus_sense. Qed.

(* without the band guard: whenever the nine-entry card is converted at all,
   the emitted plane has the equation k (n . q - n . p1) with k <> 0 and
   n = (p2-p1) x (p3-p1): the LOCUS is always the plane through the three
   points; only the orientation depends on the code's thresholds.  This is
   the part of the full statement that holds inside the epsilon band
   (C02_P_three_points_locus_sense is the full statement outside it). *)
Theorem C02_P_three_points_locus_partial : forall x1 y1 z1 x2 y2 z2 x3 y3 z3 c,
  let p1 := (x1, y1, z1) in let p2 := (x2, y2, z2) in let p3 := (x3, y3, z3) in
  let n := p3_normal RS p1 p2 p3 in
  convert_card RS M_P [x1; y1; z1; x2; y2; z2; x3; y3; z3] = Ok c ->
  exists ty prm g k, c = [((ty, prm), 1%Z)] /\ f_T4 RS ty prm = Some g /\ k <> 0 /\
    forall q, g q = k * fM_p RS (vx n) (vy n) (vz n) (scal RS n p1) q.
Proof. exact p3_locus_any. Qed.

(* planeParamsFromPoints after the cross product: 1/|n| times the plane kept
   by the manual's four rules *)
Theorem C02_orient_plane_ok : forall n p1 : vec (T:=R),
  p3_guard n p1 ->
  let '(A, B, C) := n in
  let D := scal RS n p1 in
  exists keep, p3_keep RS n D = Some keep /\
    orient_plane RS n p1 =
      Ok (scale4 (1 / mag RS n) (if keep then (A, B, C, D) else (- A, - B, - C, - D))).
Proof. exact orient_plane_ok. Qed.

(* ---------- SQ and GQ agree ---------- *)
(* an SQ card and the GQ card with the expanded coefficients are converted to
   the same QUAD (and have the same MCNP equation) *)
Theorem C02_sq_gq_consistent : forall A B C D E F G x0 y0 z0 : R,
  convert_card RS M_SQ [A; B; C; D; E; F; G; x0; y0; z0] =
  convert_card RS M_GQ [A; B; C; 0; 0; 0; 2 * D - 2 * A * x0; 2 * E - 2 * B * y0; 2 * F - 2 * C * z0;
                        A * (x0 * x0) + B * (y0 * y0) + C * (z0 * z0)
                        - 2 * (D * x0 + E * y0 + F * z0) + G] /\
  forall p, fM_gq RS A B C 0 0 0 (2 * D - 2 * A * x0) (2 * E - 2 * B * y0) (2 * F - 2 * C * z0)
                  (A * (x0 * x0) + B * (y0 * y0) + C * (z0 * z0) - 2 * (D * x0 + E * y0 + F * z0) + G) p
            = fM_sq RS A B C D E F G x0 y0 z0 p.
Proof. exact sq_gq_consistent. Qed.

(* ---------- the conversion functions for ANY frame (all branches) ---------- *)
(* surf_is s f: the TRIPOLI-4 equation of s is k * f for some k > 0.
   convert_plane / convert_cylinder / the cone of convert_cone for every
   non-zero axis (axis-aligned PLANEX.. CYLX.. CONEX.. branches and the general
   ones), and the auxiliary plane of a one-sheet cone for both directions of
   the axis: the literal side' * id selects side * (u . (q - p)) *)
Theorem C02_convert_any_axis :
  (forall p u : vec (T:=R), u <> (0, 0, 0) ->
     exists s, convert_plane RS (mkCad KdP (Some (p, u)) []) = Ok s /\ surf_is s (plane_through p u)) /\
  (forall (p u : vec (T:=R)) (r : R), u <> (0, 0, 0) ->
     exists s, convert_cylinder RS (mkCad KdC (Some (p, u)) [Some r]) = Ok s /\
               surf_is s (cyl_about p u r)) /\
  (forall (p u : vec (T:=R)) (t : R), u <> (0, 0, 0) ->
     surf_is (cone_surf p u (atan t)) (cone_about p u (t * t))) /\
  (forall (p u : vec (T:=R)) (side : Z), u <> (0, 0, 0) ->
     exists s side' g k, cone_aux_plane RS p u side = Ok (s, side') /\
       f_T4 RS (fst s) (snd s) = Some g /\ 0 < k /\
       forall q, IZR side' * g q = k * (IZR side * plane_through p u q)) /\
  (forall t : R, tan_deg RS (180 * atan t / PI) = t).
Proof.
  repeat apply conj.
  - exact convert_plane_ok.
  - exact convert_cylinder_ok.
  - exact cone_surf_ok.
  - exact cone_aux_plane_ok.
  - exact tan_deg_atan.
Qed.

(* the table entries 'c' and 'k' (general axis; not MCNP cards): same statement
   with the cylinder / cone about the axis through (x,y,z) with direction (A,B,C) *)
Theorem C02_C_K_any_axis_locus_sense :
  (forall x y z r A B C : R, (A, B, C) <> (0, 0, 0) ->
     exists s, convert_card RS M_C [x; y; z; r; A; B; C] = Ok [(s, 1%Z)] /\
               surf_is s (cyl_about (x, y, z) (A, B, C) r)) /\
  (forall x y z t A B C : R, (A, B, C) <> (0, 0, 0) ->
     exists s, convert_card RS M_K [x; y; z; t; A; B; C] = Ok [(s, 1%Z)] /\
               surf_is s (cone_about (x, y, z) (A, B, C) (t * t))) /\
  (forall x y z t A B C s : R, (A, B, C) <> (0, 0, 0) -> s = 1 \/ s = -1 ->
     one_sheet (convert_card RS M_K [x; y; z; t; A; B; C; s])
               (cone_about (x, y, z) (A, B, C) (t * t))
               (fun q => s * plane_through (x, y, z) (A, B, C) q)).
Proof.
  repeat apply conj.
  - exact c_any_axis.
  - exact k_any_axis.
  - exact k_any_axis_sheet.
Qed.

(* outside the guards the modelled code raises instead of emitting a wrong
   surface: zero normal (ZeroDivisionError), negative t^2 (TypeError of atan
   on a complex number), collinear points (ValueError) *)
Theorem C02_inadmissible_cards_raise :
  (forall D : R, convert_card RS M_P [0; 0; 0; D] = Err EZeroDiv) /\
  (forall t2 : R, t2 < 0 ->
     (forall c, convert_card RS M_KX [c; t2] = Err EType /\ convert_card RS M_KY [c; t2] = Err EType /\
                convert_card RS M_KZ [c; t2] = Err EType) /\
     (forall x y z, convert_card RS M_K_X [x; y; z; t2] = Err EType /\
                    convert_card RS M_K_Y [x; y; z; t2] = Err EType /\
                    convert_card RS M_K_Z [x; y; z; t2] = Err EType)) /\
  (forall x1 y1 z1 x2 y2 z2 x3 y3 z3 : R,
     mag2 RS (p3_normal RS (x1, y1, z1) (x2, y2, z2) (x3, y3, z3)) <= eps10 RS ->
     convert_card RS M_P [x1; y1; z1; x2; y2; z2; x3; y3; z3] = Err EValue).
Proof.
  repeat apply conj.
  - exact p_zero_normal_raises.
  - exact k_negative_t2_raises.
  - exact p3_collinear_raises.
Qed.

(* ---------- three-point planes INSIDE the thresholds ---------- *)
(* For EVERY nine-entry P card the code accepts (|n|^2 > 1e-10, no band guard):
   the code's orientation is the manual's four rules applied to the
   THRESHOLDED quantities thr m v = (0 if |v| <= 1e-14 |n| else v) -- code_keep --
   and the emitted plane is k > 0 times the plane through the three points with
   that orientation.  It never fails for lack of a deciding quantity. *)
Theorem C02_P_three_points_thresholded : forall x1 y1 z1 x2 y2 z2 x3 y3 z3 : R,
  let p1 := (x1, y1, z1) in let p2 := (x2, y2, z2) in let p3 := (x3, y3, z3) in
  let n := p3_normal RS p1 p2 p3 in
  e10 < mag2 RS n ->
  exists keep,
    p3_keep RS (thr (mag RS n) (vx n), thr (mag RS n) (vy n), thr (mag RS n) (vz n))
               (thr (mag RS n) (scal RS n p1)) = Some keep /\
    locus_sense (convert_card RS M_P [x1; y1; z1; x2; y2; z2; x3; y3; z3])
      (if keep then fM_p RS (vx n) (vy n) (vz n) (scal RS n p1)
       else fM_p RS (- vx n) (- vy n) (- vz n) (- scal RS n p1)).
Proof. exact p3_sense_thresholded. Qed.

(* the thresholded rule IS the manual's rule whenever D, C, B, A are each zero
   or clear of the threshold (p3_guard); and it is NOT on the plane z = -t,
   0 < t <= 1e-14, given by (0,0,-t), (0,1,-t), (1,0,-t): the manual keeps
   -z - t (origin negative), the code emits z + t, so every point off the
   plane gets the opposite sense.  The deviation set is exactly: the first
   non-zero quantity among D, C, B, A lies inside the band and the first one
   outside the band has the other sign. *)
Theorem C02_P_three_points_band_deviation :
  (forall n p1 : vec (T:=R), p3_guard n p1 -> code_keep n p1 = p3_keep RS n (scal RS n p1)) /\
  (forall t : R, 0 < t <= e14 ->
     p3_plane RS (0, 0, - t) (0, 1, - t) (1, 0, - t) = Some (0, 0, - (1), t) /\
     locus_sense (convert_card RS M_P [0; 0; - t; 0; 1; - t; 1; 0; - t])
                 (fM_p RS (- 0) (- 0) (- - (1)) (- t))).
Proof. split; [exact code_keep_manual | exact p3_band_deviation]. Qed.

(* ---------- cards outside MCNP's admissibility: what the code does ---------- *)
(* for every scalar instance: surplus entries are ignored by SO PX PY PZ CX CY
   CZ SX SY SZ C/X C/Y C/Z SQ; ONE surplus entry after the selector position
   of a K card makes the selector unread (two-sheet cone); GQ passes any
   number of entries to QUAD; missing entries raise IndexError; S, P, TX, X
   want exact counts *)
Theorem C02_parameter_count_behaviour : forall (T : Type) (S : Scalar T),
  (forall (v e : T) extra,
     convert_card S M_SO (v :: e :: extra) = convert_card S M_SO [v] /\
     convert_card S M_PX (v :: e :: extra) = convert_card S M_PX [v] /\
     convert_card S M_PY (v :: e :: extra) = convert_card S M_PY [v] /\
     convert_card S M_PZ (v :: e :: extra) = convert_card S M_PZ [v] /\
     convert_card S M_CX (v :: e :: extra) = convert_card S M_CX [v] /\
     convert_card S M_CY (v :: e :: extra) = convert_card S M_CY [v] /\
     convert_card S M_CZ (v :: e :: extra) = convert_card S M_CZ [v]) /\
  (forall (a b e : T) extra,
     convert_card S M_SX (a :: b :: e :: extra) = convert_card S M_SX [a; b] /\
     convert_card S M_SY (a :: b :: e :: extra) = convert_card S M_SY [a; b] /\
     convert_card S M_SZ (a :: b :: e :: extra) = convert_card S M_SZ [a; b]) /\
  (forall (a b c e : T) extra,
     convert_card S M_C_X (a :: b :: c :: e :: extra) = convert_card S M_C_X [a; b; c] /\
     convert_card S M_C_Y (a :: b :: c :: e :: extra) = convert_card S M_C_Y [a; b; c] /\
     convert_card S M_C_Z (a :: b :: c :: e :: extra) = convert_card S M_C_Z [a; b; c]) /\
  (forall (a b c d e f g x y z e1 : T) extra,
     convert_card S M_SQ (a :: b :: c :: d :: e :: f :: g :: x :: y :: z :: e1 :: extra) =
     convert_card S M_SQ [a; b; c; d; e; f; g; x; y; z]) /\
  (forall (c t2 s e : T) extra (x y z : T),
     convert_card S M_KX (c :: t2 :: s :: e :: extra) = convert_card S M_KX [c; t2] /\
     convert_card S M_KY (c :: t2 :: s :: e :: extra) = convert_card S M_KY [c; t2] /\
     convert_card S M_KZ (c :: t2 :: s :: e :: extra) = convert_card S M_KZ [c; t2] /\
     convert_card S M_K_X (x :: y :: z :: t2 :: s :: e :: extra) = convert_card S M_K_X [x; y; z; t2] /\
     convert_card S M_K_Y (x :: y :: z :: t2 :: s :: e :: extra) = convert_card S M_K_Y [x; y; z; t2] /\
     convert_card S M_K_Z (x :: y :: z :: t2 :: s :: e :: extra) = convert_card S M_K_Z [x; y; z; t2]) /\
  (forall l : list T, convert_card S M_GQ l = Ok [((QUAD, l), 1%Z)]) /\
  (convert_card S M_SO [] = Err EIndex /\ convert_card S M_PX [] = Err EIndex /\
   convert_card S M_CX [] = Err EIndex /\
   (forall a, convert_card S M_SX [a] = Err EIndex) /\
   (forall a b, convert_card S M_C_X [a; b] = Err EIndex) /\
   (forall a, convert_card S M_KX [a] = Err EIndex) /\
   (forall a b c, convert_card S M_K_X [a; b; c] = Err EIndex) /\
   (forall a b c d e f g x y, convert_card S M_SQ [a; b; c; d; e; f; g; x; y] = Err EIndex)) /\
  (forall a b c d e : T,
     convert_card S M_S [a; b; c] = Err EType /\
     convert_card S M_S [a; b; c; d; e] = Err EType /\
     convert_card S M_P [a; b; c] = Err EValue /\
     convert_card S M_P [a; b; c; d; e] = Err EValue /\
     convert_card S M_TX [a; b; c; d] = Err EValue /\
     convert_card S M_X [a; b; c] = Err ENotImpl /\
     convert_card S M_X [a; b; c; d; e] = Err ENotImpl).
Proof.
  intros T S.
  split; [apply surplus_ignored_1|]. split; [apply surplus_ignored_2|].
  split; [apply surplus_ignored_3|]. split; [apply surplus_ignored_sq|].
  split; [intros; apply surplus_drops_selector|]. split; [apply gq_any_count|].
  split; [apply short_raises|]. apply exact_counts.
Qed.

(* sheet selectors with 2 <= |int(s)| <= 8: the auxiliary plane gets the side
   -int(s) of that magnitude, and number_items then writes the literal
   side * free, which names another id than the plane's (free) *)
Theorem C02_large_selector :
  (forall (s : R) (k : Z), (2 <= k <= 8)%Z ->
     (IZR k <= s < IZR (k + 1) -> minus_int RS s = Ok (- k)%Z) /\
     (IZR (- (k + 1)) < s <= IZR (- k) -> minus_int RS s = Ok k)) /\
  (forall (z0 t2 s : R) (k : Z), 0 <= t2 -> (2 <= k <= 8)%Z -> IZR k <= s < IZR (k + 1) ->
     exists cone plane, convert_card RS M_KZ [z0; t2; s] = Ok [(cone, 1%Z); (plane, (- k)%Z)]) /\
  (forall side free : Z, (0 < free)%Z -> (2 <= Z.abs side)%Z -> Z.abs (side * free) <> free).
Proof.
  repeat apply conj.
  - exact minus_int_large.
  - exact kz_large_selector.
  - exact large_side_names_another_id.
Qed.

(* ---------- numbering of the emitted surfaces ---------- *)
(* CollectionDict.number_items on a dictionary with distinct positive keys and
   sides +-1: no id is given twice, and the k-th id of the matching of a key
   designates (In (|id|, surface) numbering, sign id = side) the k-th surface
   of that key's collection; it succeeds whenever no collection is empty.
   SurfaceCollection.join with the single side +1 returns the collection. *)
Theorem C02_number_items_spec :
  (forall (A : Type) (dic : list (Z * list (A * Z))) num mat,
     number_items dic = Ok (num, mat) ->
     (forall k, In k (keys dic) -> (0 < k)%Z) -> NoDup (keys dic) ->
     Forall (fun kv => unit_sides (snd kv)) dic ->
     NoDup (map fst num) /\ Forall2 (entry_ok num) dic mat) /\
  (forall (A : Type) (dic : list (Z * list (A * Z))) free,
     Forall (fun kv => snd kv <> []) dic -> exists nm, number_loop free dic = Ok nm) /\
  (forall (A : Type) (cl : list (A * Z)), cl <> [] -> join [(cl, 1%Z)] = Ok cl).
Proof.
  repeat apply conj.
  - intros A. exact (@number_items_spec A).
  - intros A. exact (@number_loop_total A).
  - intros A. exact (@join_single A).
Qed.

(* from the collection to the written ids: after number_items, for every MCNP
   surface of the dictionary the literals written for -s (the opposites of the
   matching's ids, intersected) and for +s (the ids, united) select exactly
   neg_coll / pos_coll of its collection -- so the statements above, made on
   collections, hold for the ids that appear in the VOLU lines.
   lit_holds num l p: the surface numbered |l| is PLUS-selected (l > 0) or
   MINUS-selected (l < 0) at p. *)
Theorem C02_numbered_ids_select_regions :
  forall (dic : list (Z * collR)) num mat,
  number_items dic = Ok (num, mat) ->
  (forall k, In k (keys dic) -> (0 < k)%Z) -> NoDup (keys dic) ->
  Forall (fun kv => unit_sides (snd kv)) dic ->
  NoDup (map fst num) /\
  Forall2 (fun kv km =>
             fst km = fst kv /\
             forall p, (neg_ids num (snd km) p <-> neg_coll (snd kv) p) /\
                       (pos_ids num (snd km) p <-> pos_coll (snd kv) p)) dic mat.
Proof. exact numbered_ids_select_regions. Qed.

(* ---------- from the card TEXT (C02/Text.v: Card.content, surfacecard.split,
   to_float, get_surfaces, string_to_enum; tied by execution) ---------- *)
(* the statement of C02_every_card_locus_sense starting from the text of the
   card: if get_surfaces reads it as (flags, number, no TR number, type,
   parameters) and the type names the mnemonic mn, then the conversion of the
   text selects the negative- and positive-sense regions of the MCNP surface *)
Theorem C02_text_every_card_locus_sense :
  forall (txt bc : string) (name : N) (ty : string) (prm : list R) (mn : mnem) (ms : msurf (T:=R)),
  parse_surface_card RS txt = Ok (bc, name, ""%string, ty, prm) ->
  classify ty = TyMnem mn ->
  mcnp_surface RS mn prm = Some ms -> admissible mn prm ->
  exists c, convert_text RS txt = Ok c /\ forall p,
    (neg_coll c p <-> m_f ms p < 0 /\ match m_sheet ms with None => True | Some g => 0 < g p end) /\
    (pos_coll c p <-> 0 < m_f ms p \/ match m_sheet ms with None => False | Some g => g p < 0 end) /\
    (exists s rest h, c = (s, 1%Z) :: rest /\ f_T4 RS (fst s) (snd s) = Some h /\
                      (h p = 0 <-> m_f ms p = 0)).
Proof. exact text_every_card. Qed.

(* what the scanner reads: a card rendered as blanks, flags (plus, star), the digits
   of its number, blanks, the mnemonic (letters, /; any case), blanks, the rest
   is split into exactly these parts, with an empty TR group *)
Theorem C02_split_surface_render : forall ws0 flags digs ws1 ty ws2 rest : string,
  all_chars is_ws ws0 = true -> all_chars is_flag flags = true ->
  all_chars is_digit digs = true -> digs <> ""%string ->
  all_chars is_ws ws1 = true -> ws1 <> ""%string ->
  all_chars is_type_char ty = true -> ty <> ""%string ->
  all_chars is_ws ws2 = true -> ws2 <> ""%string ->
  starts_not is_ws rest = true -> all_chars (fun c => negb (code c =? 10)%N) rest = true ->
  split_surface (ws0 ++ flags ++ digs ++ ws1 ++ ty ++ ws2 ++ rest)%string =
  Some ((flags ++ digs)%string, ""%string, ty, rest).
Proof. exact split_surface_render. Qed.

(* what to_float reads: digits [. digits] [exponent] denotes mantissa * 10^(e -
   number of fraction digits), for the exponent spellings e/E (float()), d/D and
   the bare signed exponent (re_fortran); a leading sign negates; and the real
   value of a numeral is +-m * 10^e *)
Theorem C02_to_float_denotes :
  (forall d1 d2 suffix e,
     all_chars is_digit d1 = true -> all_chars is_digit d2 = true ->
     (d1 <> ""%string \/ d2 <> ""%string) -> suffix_exp suffix = Some e ->
     scan_real (d1 ++ String "."%char (d2 ++ suffix))%string =
     Some (mkNum false (parse_digits (d1 ++ d2) 0) (e - Z.of_nat (String.length d2)))) /\
  (forall d1 suffix e,
     all_chars is_digit d1 = true -> d1 <> ""%string -> suffix_exp suffix = Some e ->
     starts_not (fun c => (code c =? 46)%N) suffix = true ->
     scan_real (d1 ++ suffix)%string = Some (mkNum false (parse_digits d1 0) e)) /\
  (forall body n,
     starts_not is_sign body = true -> scan_real body = Some n ->
     scan_real (String "-"%char body) = Some (mkNum true (n_mant n) (n_exp n)) /\
     scan_real (String "+"%char body) = Some (mkNum false (n_mant n) (n_exp n)) /\
     n_neg n = false) /\
  (forall neg m e,
     num_value RS (mkNum neg m e) =
     (if neg then -1 else 1) *
     (if (0 <=? e)%Z then IZR (Z.of_N m) * IZR (10 ^ e) else IZR (Z.of_N m) / IZR (10 ^ (- e)))).
Proof.
  split; [exact scan_real_point|]. split; [exact scan_real_int|].
  split; [exact scan_real_sign | exact num_value_real].
Qed.

(* ---------- LINK with C04: a surface card WITH a TR number ---------- *)
(* C02/LinkC04.v hands the SurfaceMCNP built by C02's to_surface_mcnp, in C04's
   frame form (to_ms), to C04's transformation and convert (card_tr_convert,
   convert_text_tr), and composes C02's reading of the card with
   C04_transformation_law and C04_convert_law: for the card text of a plane,
   sphere, cylinder, cone (all selector forms), SQ or GQ card carrying the TR
   number n, TRn = (O, B) with B orthonormal, the written surfaces select at
   the moved point O + B^T p' the MCNP sense of the card at p'.
   Left out: tori (C04_frame_transform_torus is a separate law with its own
   hypotheses), X/Y/Z and the nine-entry P. *)
Theorem C02_text_every_card_locus_sense_linked :
  forall (txt bc : string) (name : N) (tr ty : string) (prm : list R) (mn : mnem)
         (ms : msurf (T:=R)) (n : Z) (o : S4.R3) (b : V4.M3 R) (trs : list (Z * list R)),
  parse_surface_card RS txt = Ok (bc, name, tr, ty, prm) ->
  tr_number tr = Some n -> M4.lookup n trs = M4.Ok (C4.tr12 o b) -> S4.rows_orthonormal b ->
  classify ty = TyMnem mn -> linkable mn prm ->
  mcnp_surface RS mn prm = Some ms -> admissible mn prm ->
  exists coll, convert_text_tr trs txt = M4.Ok coll /\
    forall p',
      (S4.coll_neg coll (S4.to_main o b p') <->
         m_f ms (pt3 p') < 0 /\ match m_sheet ms with None => True | Some g => 0 < g (pt3 p') end) /\
      (S4.coll_pos coll (S4.to_main o b p') <->
         0 < m_f ms (pt3 p') \/ match m_sheet ms with None => False | Some g => g (pt3 p') < 0 end).
Proof. exact text_every_card_linked. Qed.

(* the same for EVERY mnemonic of the property except the tori: also the
   nine-entry P (under p3_guard) and the point-defined X / Y / Z in all forms *)
Theorem C02_text_every_card_all_mnemonics_linked :
  forall (txt bc : string) (name : N) (tr ty : string) (prm : list R) (mn : mnem)
         (ms : msurf (T:=R)) (n : Z) (o : S4.R3) (b : V4.M3 R) (trs : list (Z * list R)),
  parse_surface_card RS txt = Ok (bc, name, tr, ty, prm) ->
  tr_number tr = Some n -> M4.lookup n trs = M4.Ok (C4.tr12 o b) -> S4.rows_orthonormal b ->
  classify ty = TyMnem mn -> linkable_all mn ->
  mcnp_surface RS mn prm = Some ms -> admissible mn prm ->
  exists coll, convert_text_tr trs txt = M4.Ok coll /\
    forall p',
      (S4.coll_neg coll (S4.to_main o b p') <->
         m_f ms (pt3 p') < 0 /\ match m_sheet ms with None => True | Some g => 0 < g (pt3 p') end) /\
      (S4.coll_pos coll (S4.to_main o b p') <->
         0 < m_f ms (pt3 p') \/ match m_sheet ms with None => False | Some g => g (pt3 p') < 0 end).
Proof. exact text_every_card_linked_all. Qed.

(* tori with a TR number, through C04's torus law: when the moved axis is
   exactly a coordinate axis or clearly not one (C04's torus_axis_ok), ONE torus
   is written and its equation at the moved point is the card's at p' *)
Theorem C02_torus_tr_linked : forall (x0 y0 z0 A B C : R) (o : S4.R3) (b : V4.M3 R),
  S4.rows_orthonormal b ->
  (O4.torus_axis_ok (F4.tvec b (V4.mkV 1 0 0)) ->
     exists t, card_tr_convert (C4.tr12 o b) M_TX [x0; y0; z0; A; B; C] = M4.Ok [(t, 1%Z)] /\
       forall p', S4.t4val t (S4.to_main o b p') = fM_tx RS x0 y0 z0 A B C (pt3 p')) /\
  (O4.torus_axis_ok (F4.tvec b (V4.mkV 0 1 0)) ->
     exists t, card_tr_convert (C4.tr12 o b) M_TY [x0; y0; z0; A; B; C] = M4.Ok [(t, 1%Z)] /\
       forall p', S4.t4val t (S4.to_main o b p') = fM_ty RS x0 y0 z0 A B C (pt3 p')) /\
  (O4.torus_axis_ok (F4.tvec b (V4.mkV 0 0 1)) ->
     exists t, card_tr_convert (C4.tr12 o b) M_TZ [x0; y0; z0; A; B; C] = M4.Ok [(t, 1%Z)] /\
       forall p', S4.t4val t (S4.to_main o b p') = fM_tz RS x0 y0 z0 A B C (pt3 p')).
Proof. exact torus_tr_linked. Qed.

(* tori with ANY orthonormal TR (C04's total torus law), the numpy.allclose snap
   zone included: one torus is always written, about an axis a' equal to the
   moved axis or (snap) a coordinate axis with |a' x moved axis|^2 <= 2e-16;
   exact when a' is the moved axis *)
Theorem C02_torus_tr_total_linked :
  ltac:(let t := type of torus_tr_total_linked in exact t).
Proof. exact torus_tr_total_linked. Qed.

(* the frame form that C04 starts from has the sense of the card (the bridge
   used above; link_wf = what C04's laws ask of it) *)
Theorem C02_frame_form_sense_linked : forall (mn : mnem) (prm : list R) (ms : msurf (T:=R)),
  linkable mn prm -> mcnp_surface RS mn prm = Some ms -> admissible mn prm ->
  exists c s, to_surface_mcnp RS mn prm = Ok c /\ to_ms c = Some s /\ link_wf s /\
    forall P, (S4.mneg s P <-> neg_sense ms (pt3 P)) /\ (S4.mpos s P <-> pos_sense ms (pt3 P)).
Proof. exact frame_sense. Qed.

(* ---------- Spec sanity (the Spec says what the manual says) ---------- *)
Theorem C02_spec_sanity :
  (forall (p1 p2 p3 : vec (T:=R)) (A B C D : R),
     p3_plane RS p1 p2 p3 = Some (A, B, C, D) ->
     (fM_p RS A B C D p1 = 0 /\ fM_p RS A B C D p2 = 0 /\ fM_p RS A B C D p3 = 0) /\
     (0 < D \/ (D = 0 /\ (0 < C \/ (C = 0 /\ (0 < B \/ (B = 0 /\ 0 < A))))))) /\
  (forall x1 r1 x2 r2 : R,
     x1 <> x2 -> r1 <> r2 -> 0 <= r1 -> 0 <= r2 ->
     let a := xyz_apex RS x1 r1 x2 r2 in
     let s := (x1 - a) + (x2 - a) in
     fM_kx RS a (xyz_t2 RS x1 r1 x2 r2) (x1, r1, 0) = 0 /\
     fM_kx RS a (xyz_t2 RS x1 r1 x2 r2) (x2, 0, r2) = 0 /\
     0 <= (x1 - a) * s /\ 0 <= (x2 - a) * s /\ s <> 0).
Proof.
  split.
  - intros p1 p2 p3 A B C D H. split.
    + exact (p3_plane_through_points p1 p2 p3 A B C D H).
    + exact (p3_plane_orientation p1 p2 p3 A B C D H).
  - exact xyz_spec_contains_points.
Qed.

(* Spec.sense_value (the number compared with the harness's Python reference by
   the tie spec-fM) has the sign of the MCNP sense used above *)
Theorem C02_sense_value_sign : forall (ms : msurf (T:=R)) (p : pointR),
  (sense_value RS ms p < 0 <->
     m_f ms p < 0 /\ match m_sheet ms with None => True | Some g => 0 < g p end) /\
  (0 < sense_value RS ms p <->
     0 < m_f ms p \/ match m_sheet ms with None => False | Some g => g p < 0 end).
Proof. exact sense_value_sign. Qed.


(* ---------- LINK with C03 and with the TEXT of the TR card (C02/LinkC03.v) ---------- *)
(* the linked statement with the transformation READ FROM THE TR CARD: trs
   holds under n what C04's model of the converter returns for the TR card
   (C03's card_gives packages C04_tr_card_12, _star_12, _3 and the abbreviated
   matrices): no hypothesis on (O, B) other than that the card gives them *)
Theorem C02_text_every_card_tr_card_linked :
  forall (txt bc : string) (name : N) (tr ty : string) (prm : list R) (mn : mnem)
         (ms : msurf (T:=R)) (n : Z) (l : list R) (o : S4.R3) (b : V4.M3 R) (trs : list (Z * list R)),
  parse_surface_card RS txt = Ok (bc, name, tr, ty, prm) ->
  tr_number tr = Some n -> M4.lookup n trs = M4.Ok l -> L3.card_gives l o b ->
  classify ty = TyMnem mn -> linkable_all mn ->
  mcnp_surface RS mn prm = Some ms -> admissible mn prm ->
  exists coll, convert_text_tr trs txt = M4.Ok coll /\
    forall p', (S4.coll_neg coll (S4.to_main o b p') <-> neg_sense ms (pt3 p')) /\
               (S4.coll_pos coll (S4.to_main o b p') <-> pos_sense ms (pt3 p')).
Proof. exact text_every_card_tr_card_linked. Qed.

(* macrobody card texts: C02's scanner, then C03's body function and facet
   conversion.  Without a TR number the written surfaces are MCNP's facets fs
   (whenever C03's body function yields them: C03_<body>_facet_k under the
   body's admissibility); with a TR number whose card gives (O, B) they are
   the facets read in the auxiliary frame B (q - O) *)
Theorem C02_text_body_linked :
  (forall txt bc name ty prm bd fs,
     parse_surface_card RS txt = Ok (bc, name, ""%string, ty, prm) ->
     body_of_type ty = Some bd ->
     (exists es, B3.body_parts RS bd (fst (body_args bd (card_tokens txt) prm))
                               (snd (body_args bd (card_tokens txt) prm)) = E3.Ok es /\
                 Forall Q3.entry_wf es /\ Forall2 P3.same_facet es fs) ->
     exists ts, convert_text_body [] txt = E3.Ok ts /\
                Forall2 (Q3.same_t4_facet (fun p => p)) ts fs) /\
  (forall txt bc name tr ty prm bd fs n l o b trs,
     parse_surface_card RS txt = Ok (bc, name, tr, ty, prm) ->
     is_empty tr = false -> tr_number tr = Some n ->
     M4.lookup n trs = M4.Ok l -> L3.card_gives l o b ->
     body_of_type ty = Some bd ->
     (exists es, B3.body_parts RS bd (fst (body_args bd (card_tokens txt) prm))
                               (snd (body_args bd (card_tokens txt) prm)) = E3.Ok es /\
                 Forall Q3.entry_wf es /\ Forall2 P3.same_facet es fs) ->
     exists ts, convert_text_body trs txt = E3.Ok ts /\
                Forall2 (Q3.same_t4_facet (LW3.aux_c04 o b)) ts fs) /\
  (* the adapter: the pipeline IS C03's body_t4 on the card's parameters, so
     every C03_<body>_written theorem applies to the card text *)
  (forall txt bc name ty prm bd,
     parse_surface_card RS txt = Ok (bc, name, ""%string, ty, prm) -> body_of_type ty = Some bd ->
     convert_text_body [] txt =
     K3.body_t4 RS None bd (fst (body_args bd (card_tokens txt) prm))
                (snd (body_args bd (card_tokens txt) prm))).
Proof.
  split; [exact text_body_linked|]. split; [exact text_body_tr_linked | exact text_body_is_body_t4].
Qed.

(* RPP, SPH, RCC from the card text, as instances *)
Theorem C02_text_rpp_sph_rcc_linked :
  ltac:(let t := type of text_rpp_sph_rcc_linked in exact t).
Proof. exact text_rpp_sph_rcc_linked. Qed.

(* THE CAPSTONE INCLUDING BODIES: every surface card text that get_surfaces
   reads -- elementary mnemonic without / with a TR number, macrobody without /
   with a TR number -- in one statement (tori with a TR number:
   C02_torus_tr_linked) *)
Theorem C02_text_every_card_incl_bodies_linked :
  ltac:(let t := type of (conj C02_text_every_card_locus_sense
                         (conj C02_text_every_card_tr_card_linked C02_text_body_linked)) in exact t).
Proof.
  exact (conj C02_text_every_card_locus_sense
        (conj C02_text_every_card_tr_card_linked C02_text_body_linked)).
Qed.

Example C02_example_body_text :
  exists ts, convert_text_body [] "5 RPP -1 1 -2 2 -3 3"%string = E3.Ok ts /\
    Forall2 (Q3.same_t4_facet (fun p => p)) ts (P3.rpp_facets (-1) 1 (-2) 2 (-3) 3).
Proof. exact body_text_example. Qed.

(* ---------- non-vacuity ---------- *)
(* the guard of C02_P_three_points_locus_sense holds for the plane z = 1 through
   (0,0,1), (1,0,1), (0,1,1) *)
Example C02_example_p3_guard : p3_guard (p3_normal RS (0, 0, 1) (1, 0, 1) (0, 1, 1)) (0, 0, 1).
Proof. exact p3_guard_example. Qed.

(* inside the hypotheses of C02_every_card_locus_sense: the apex-coincident
   card X 0 0 1 1 (formerly the wrong sheet), a one-sheet K/Z card, a
   three-point plane *)
Example C02_example_every_card :
  (exists ms, mcnp_surface RS M_X [0; 0; 1; 1] = Some ms /\ m_sheet ms <> None /\
              admissible M_X [0; 0; 1; 1]) /\
  (exists ms, mcnp_surface RS M_K_Z [1; 2; 3; 1 / 4; -1] = Some ms /\ m_sheet ms <> None /\
              admissible M_K_Z [1; 2; 3; 1 / 4; -1]) /\
  (exists ms, mcnp_surface RS M_P [0; 0; 1; 1; 0; 1; 0; 1; 1] = Some ms /\
              admissible M_P [0; 0; 1; 1; 0; 1; 0; 1; 1]).
Proof. exact every_card_examples. Qed.

(* a card text inside all hypotheses of C02_text_every_card_locus_sense
   (flag, blanks, upper-case mnemonic, a Fortran spelling, a sheet selector) *)
Example C02_example_text :
  exists ms, m_sheet ms <> None /\ card_correct (convert_text RS "  *7  KZ 0 1.0d0  -1 "%string) ms.
Proof. exact text_example. Qed.

(* the linked statement is not vacuous: "7 5 KZ 0 1.0d0 -1" with TR5 = origin
   (1,0,0) and a quarter turn about z *)
Example C02_example_linked :
  let b := V4.mkV (V4.mkV 0 1 0) (V4.mkV (-1) 0 0) (V4.mkV 0 0 1) in
  let o := V4.mkV 1 0 0 in
  S4.rows_orthonormal b /\
  exists ms coll, m_sheet ms <> None /\
    convert_text_tr [(5%Z, C4.tr12 o b)] "7 5 KZ 0 1.0d0 -1"%string = M4.Ok coll /\
    forall p', (S4.coll_neg coll (S4.to_main o b p') <-> neg_sense ms (pt3 p')) /\
               (S4.coll_pos coll (S4.to_main o b p') <-> pos_sense ms (pt3 p')).
Proof. exact linked_example. Qed.

Example C02_example_spellings :
  scan_real "6.40875-2" = Some (mkNum false 640875 (-7)) /\
  scan_real "1.5d3" = Some (mkNum false 15 2) /\
  scan_real "-1.5D+3" = Some (mkNum true 15 2) /\
  scan_real "1.5+3" = Some (mkNum false 15 2) /\
  scan_real "1.5d" = None /\ scan_real "--1" = None.
Proof. vm_compute. repeat split. Qed.

(* the model runs: K/Z 1 2 3 4 -1 at binary64 gives CONEZ + PLANEZ with side +1 *)
Example C02_example_runs :
  match convert_card FS M_K_Z (map (sofZ FS) [1; 2; 3; 4; -1]%Z) with
  | Ok [((CONEZ, [_; _; _; _]), 1%Z); ((PLANEZ, [_]), 1%Z)] => True
  | _ => False
  end.
Proof. vm_compute. exact I. Qed.

(* number_items runs: surface 1 = cone + plane (side -1), surface 9 alone; the
   plane gets the first free id 10 and the matching of 1 is [1; -10] *)
Example C02_example_number_items :
  number_items [(1%Z, [(true, 1%Z); (false, (-1)%Z)]); (9%Z, [(true, 1%Z)])] =
  Ok ([(1%Z, true); (10%Z, false); (9%Z, true)], [(1%Z, [1%Z; (-10)%Z]); (9%Z, [9%Z])]).
Proof. vm_compute. reflexivity. Qed.

(* ---------- families: the audited bundles (each is the conjunction of the
   theorems named in it; Print Assumptions of a conjunction covers them all) ---------- *)
Theorem C02_family_cards :
  ltac:(let t := type of (conj C02_locus_sense_meaning (conj C02_every_card_locus_sense (conj C02_SO_S_SX_SY_SZ_locus_sense (conj C02_PX_PY_PZ_P_locus_sense (conj C02_CX_CY_CZ_C_X_C_Y_C_Z_locus_sense (conj C02_KX_KY_KZ_K_X_K_Y_K_Z_locus_sense (conj C02_K_sheet_locus_sense (conj C02_GQ_SQ_locus_sense (conj C02_TX_TY_TZ_locus_sense (conj C02_X_Y_Z_plane_cylinder_locus_sense (conj C02_X_Y_Z_cone_locus_sense (conj C02_sq_gq_consistent (conj C02_convert_any_axis (conj C02_C_K_any_axis_locus_sense C02_inadmissible_cards_raise)))))))))))))) in exact t).
Proof. exact (conj C02_locus_sense_meaning (conj C02_every_card_locus_sense (conj C02_SO_S_SX_SY_SZ_locus_sense (conj C02_PX_PY_PZ_P_locus_sense (conj C02_CX_CY_CZ_C_X_C_Y_C_Z_locus_sense (conj C02_KX_KY_KZ_K_X_K_Y_K_Z_locus_sense (conj C02_K_sheet_locus_sense (conj C02_GQ_SQ_locus_sense (conj C02_TX_TY_TZ_locus_sense (conj C02_X_Y_Z_plane_cylinder_locus_sense (conj C02_X_Y_Z_cone_locus_sense (conj C02_sq_gq_consistent (conj C02_convert_any_axis (conj C02_C_K_any_axis_locus_sense C02_inadmissible_cards_raise)))))))))))))). Qed.
Print Assumptions C02_family_cards.

Theorem C02_family_three_point_planes :
  ltac:(let t := type of (conj C02_P_three_points_locus_sense (conj C02_P_three_points_locus_partial (conj C02_orient_plane_ok (conj C02_P_three_points_thresholded C02_P_three_points_band_deviation)))) in exact t).
Proof. exact (conj C02_P_three_points_locus_sense (conj C02_P_three_points_locus_partial (conj C02_orient_plane_ok (conj C02_P_three_points_thresholded C02_P_three_points_band_deviation)))). Qed.
Print Assumptions C02_family_three_point_planes.

Theorem C02_family_counts_numbering :
  ltac:(let t := type of (conj C02_parameter_count_behaviour (conj C02_large_selector (conj C02_number_items_spec C02_numbered_ids_select_regions))) in exact t).
Proof. exact (conj C02_parameter_count_behaviour (conj C02_large_selector (conj C02_number_items_spec C02_numbered_ids_select_regions))). Qed.
Print Assumptions C02_family_counts_numbering.

Theorem C02_family_text :
  ltac:(let t := type of (conj C02_text_every_card_locus_sense (conj C02_split_surface_render C02_to_float_denotes)) in exact t).
Proof. exact (conj C02_text_every_card_locus_sense (conj C02_split_surface_render C02_to_float_denotes)). Qed.
Print Assumptions C02_family_text.

Theorem C02_family_spec :
  ltac:(let t := type of (conj C02_spec_sanity C02_sense_value_sign) in exact t).
Proof. exact (conj C02_spec_sanity C02_sense_value_sign). Qed.
Print Assumptions C02_family_spec.

Theorem C02_family_linked :
  ltac:(let t := type of (conj C02_text_every_card_locus_sense_linked (conj C02_text_every_card_all_mnemonics_linked (conj C02_torus_tr_linked (conj C02_torus_tr_total_linked (conj C02_frame_form_sense_linked (conj C02_text_every_card_tr_card_linked (conj C02_text_body_linked (conj C02_text_rpp_sph_rcc_linked C02_text_every_card_incl_bodies_linked)))))))) in exact t).
Proof. exact (conj C02_text_every_card_locus_sense_linked (conj C02_text_every_card_all_mnemonics_linked (conj C02_torus_tr_linked (conj C02_torus_tr_total_linked (conj C02_frame_form_sense_linked (conj C02_text_every_card_tr_card_linked (conj C02_text_body_linked (conj C02_text_rpp_sph_rcc_linked C02_text_every_card_incl_bodies_linked)))))))). Qed.
Print Assumptions C02_family_linked.

