(* C02 — elementary surfaces keep their locus and their sense (placeholder, filled below) *)
From Coq Require Import List ZArith Bool Reals.
From T4V Require Import Base.Scalar C02.Vec C02.Spec C02.Model.
