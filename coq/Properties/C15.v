(* C15 — LIKE n BUT equals the explicit cell card it abbreviates.
   Only restatements; proofs are in C15/Proofs.v.  The model functions named
   here (tokenize, parse_kws, upd, parse_one_cell, parse_all, worker,
   finish_cell, split_like, search_like, ...) are the definitions of
   C15/Model.v that the correspondence check executes.  Every statement holds
   for every scalar type (reals and binary64 alike) and every environment. *)
From Coq Require Import List NArith ZArith Bool String Ascii Reals.
From T4V Require Import Base.Str Base.Scalar C15.Model C15.Proofs C15.Canon C15.CanonProofs C15.LinkC12.
From T4V Require C12.Model C12.Spec C12.ProofsCells.
Import ListNotations.
Open Scope string_scope.

(* apply_but glues "options" + " " + "BUT text"; the token list of the result is
   the concatenation of the two token lists, provided no colon sits at the seam
   (the normalisation deletes blanks around colons) *)
Theorem C15_tokens_of_appended_options : forall a b : string,
  sq_state false a = false -> leads_colon b = false ->
  tokenize (a ++ " " ++ b) = (tokenize a ++ tokenize b)%list.
Proof. exact tokenize_app. Qed.
Print Assumptions C15_tokens_of_appended_options.

(* parse_keywords on options ++ overrides: after the options, parsing goes on
   from the dictionary of the options *)
Theorem C15_keywords_prefix : forall (T : Type) (SC : Scalar T) (e : env (T:=T))
    (opts ovr : list string) (k1 : kws (T:=T)),
  parse_kws SC e opts = Ok k1 -> kw_head ovr ->
  parse_kws SC e (opts ++ ovr) = parse_from SC (List.length ovr) e k1 ovr.
Proof. exact @parse_kws_app. Qed.
Print Assumptions C15_keywords_prefix.

(* later keyword wins: for mat, rho, u, fill (universe(s), bounds and
   transformation together), trcl and lat the value of the overrides when they
   have one, the value of the options otherwise; for the importance, particle
   by particle, the last value written (after fix 0b05eba) *)
Theorem C15_keywords_later_wins : forall (T : Type) (SC : Scalar T) (e : env (T:=T))
    (opts ovr : list string) (k1 k2 : kws (T:=T)),
  parse_kws SC e opts = Ok k1 -> parse_kws SC e ovr = Ok k2 -> kw_head ovr ->
  exists k, parse_kws SC e (opts ++ ovr) = Ok k /\
    k_mat k = orelse (k_mat k2) (k_mat k1) /\
    k_rho k = orelse (k_rho k2) (k_rho k1) /\
    k_u k = orelse (k_u k2) (k_u k1) /\
    k_trcl k = orelse (k_trcl k2) (k_trcl k1) /\
    k_lat k = orelse (k_lat k2) (k_lat k1) /\
    (k_fb k, k_fu k, k_fp k) =
      match k_fu k2 with
      | Some _ => (k_fb k2, k_fu k2, k_fp k2)
      | None => (k_fb k1, k_fu k1, k_fp k1)
      end /\
    forall p, imp_last (k_impl k) p =
              match imp_last (k_impl k2) p with Some v => Some v | None => imp_last (k_impl k1) p end.
Proof. exact @keywords_later_wins_fields. Qed.
Print Assumptions C15_keywords_later_wins.

(* what the IMP entries of a dictionary mean: imp_by_particle[p] is the last
   value written for p, and the importance of the cell is the maximum (Python's
   max, in the order of first appearance) of these values *)
Theorem C15_importance_per_particle : forall (T : Type) (SC : Scalar T) (log : list (string * T)),
  (forall p, assoc_find (imp_dict log) p = imp_last log p) /\
  imp_value SC log = match map snd (imp_dict log) with
                     | [] => None
                     | v :: r => Some (fold_left (pmax SC) r v)
                     end.
Proof. exact @imp_value_dict. Qed.
Print Assumptions C15_importance_per_particle.

(* cellcard.split on a LIKE card as MIP hands it over (single blanks): name,
   geometry = up to and including BUT, options = the rest — for any case of the
   two words and provided the options do not contain "but"; LIKE_RE then finds n
   in that geometry text *)
Theorem C15_split_like_card : forall name L ds B rest : string,
  all_digits name = true -> name <> EmptyString -> lower L = "like" ->
  all_digits ds = true -> lower B = "but" -> has "but" (lower rest) = false ->
  split_like (name ++ " " ++ L ++ " " ++ ds ++ " " ++ B ++ rest) =
  Some (name, " " ++ L ++ " " ++ ds ++ " " ++ B, rest).
Proof. exact split_like_card. Qed.
Print Assumptions C15_split_like_card.

Theorem C15_split_then_like_re : forall L ds B : string,
  lower L = "like" -> all_digits ds = true -> ds <> EmptyString -> lower B = "but" ->
  search_like (lower (" " ++ L ++ " " ++ ds ++ " " ++ B)) = Some (Z.of_N (parse_digits ds 0%N)).
Proof. exact split_then_like_re. Qed.
Print Assumptions C15_split_then_like_re.

Theorem C15_like_re_recognises : forall ds : string,
  all_digits ds = true -> ds <> EmptyString ->
  search_like (" like " ++ ds ++ " but") = Some (Z.of_N (parse_digits ds 0%N)).
Proof. exact like_re_recognises. Qed.
Print Assumptions C15_like_re_recognises.

(* the LIKE loop: a LIKE card, at the end of a chain of any length in an acyclic
   table, is parsed as the explicit card "text of the card n stands for, then
   the BUT text" *)
Theorem C15_like_chain_text : forall (T : Type) (SC : Scalar T) (e : env (T:=T)) (tbl : table)
    (fuel rank : nat) (lat : option (list (Z * Z))) (mat0 g0 o : string) (n : Z) (d : nat)
    (x : card),
  search_like (lower g0) = Some n -> denotes tbl n d x -> (d < fuel)%nat ->
  parse_one_cell SC fuel e tbl rank lat (mat0, g0, o) = worker SC e rank lat (apply_but x o).
Proof. exact @like_equals_expanded_text. Qed.
Print Assumptions C15_like_chain_text.

(* a chain that ends on an explicit card is shorter than the table, so the fuel
   parse_all gives to the LIKE loop (the number of cards) is always enough: the
   model answers EFuel only on cyclic chains (where the code loops for ever) *)
Theorem C15_chain_depth : forall (tbl : table) (n : Z) (d : nat) (x : card),
  denotes tbl n d x -> (d < List.length tbl)%nat.
Proof. exact denotes_depth. Qed.
Print Assumptions C15_chain_depth.

Theorem C15_like_in_parse_all : forall (T : Type) (SC : Scalar T) (e : env (T:=T)) (tbl : table)
    (rank : nat) (lat : option (list (Z * Z))) (mat0 g0 o : string) (n : Z) (d : nat) (x : card),
  search_like (lower g0) = Some n -> denotes tbl n d x ->
  parse_one_cell SC (List.length tbl) e tbl rank lat (mat0, g0, o) =
  worker SC e rank lat (apply_but x o).
Proof. exact @like_in_parse_all. Qed.
Print Assumptions C15_like_in_parse_all.

(* deck level (the model-side twin of the sweep oracle): in a table with distinct
   cell numbers whose LIKE chains all end, replacing the card "k LIKE n BUT o" by
   the explicit card "text that n stands for, then o" leaves the result of
   parse_all unchanged — every cell, every error, the cells that are LIKE k
   included — and the hypotheses survive ... *)
Theorem C15_replace_like_card : forall (T : Type) (SC : Scalar T) (e : env (T:=T))
    (pre post : table) (k : Z) (mat0 g0 o : string) (n : Z) (d : nat) (x : card),
  let tbl := (pre ++ (k, (mat0, g0, o)) :: post)%list in
  let tbl' := (pre ++ (k, apply_but x o) :: post)%list in
  NoDup (map fst tbl) -> search_like (lower g0) = Some n -> denotes tbl n d x ->
  (forall j c, In (j, c) tbl -> exists dj xj, denotes tbl j dj xj) ->
  parse_all SC e tbl' = parse_all SC e tbl /\
  NoDup (map fst tbl') /\
  (forall j c, In (j, c) tbl' -> exists dj xj, denotes tbl' j dj xj).
Proof. exact @replace_like_card_full. Qed.
Print Assumptions C15_replace_like_card.

(* ... so that every LIKE card can be expanded: there is a table of explicit
   cards only, with the same cell numbers in the same order, holding for every
   cell the card it stands for, on which parse_all gives the same result *)
Theorem C15_expand_all : forall (T : Type) (SC : Scalar T) (e : env (T:=T)) (tbl : table),
  NoDup (map fst tbl) ->
  (forall j c, In (j, c) tbl -> exists dj xj, denotes tbl j dj xj) ->
  exists tbl_e,
    map fst tbl_e = map fst tbl /\
    (forall j c, In (j, c) tbl_e -> is_explicit c) /\
    (forall j dj xj, denotes tbl j dj xj -> lookup j tbl_e = Some xj) /\
    parse_all SC e tbl_e = parse_all SC e tbl.
Proof. exact @expand_all_cards. Qed.
Print Assumptions C15_expand_all.

(* LIKE n BUT o = the cell with the material string and the geometry of the card
   n stands for, and n's keyword dictionary with every parameter listed in o
   overridden ([upd kb ko], spelt out entry by entry in C15_keywords_later_wins:
   material, density, universe, fill + transformation, TRCL, LAT, and the
   importance particle by particle); second conjunct: the card n stands for,
   parsed on its own, is the same expression with n's own dictionary.  No guard
   on the importance any more (fix 0b05eba). *)
Theorem C15_like_equals_expanded : forall (T : Type) (SC : Scalar T) (e : env (T:=T))
    (tbl : table) (fuel rank : nat) (lat : option (list (Z * Z))) (mat0 g0 o : string)
    (n : Z) (d : nat) (mx gx ox : string) (kb ko : kws (T:=T)),
  search_like (lower g0) = Some n -> denotes tbl n d (mx, gx, ox) -> (d < fuel)%nat ->
  sq_state false ox = false -> leads_colon o = false -> kw_head (tokenize o) ->
  parse_kws SC e (tokenize ox) = Ok kb -> parse_kws SC e (tokenize o) = Ok ko ->
  parse_one_cell SC fuel e tbl rank lat (mat0, g0, o) =
  (parse_material e mx >>= fun '(mid, rho) =>
   match getast e gx with
   | None => Err EParse
   | Some ast => finish_cell SC e rank lat mid rho ast (upd kb ko)
   end) /\
  parse_one_cell SC fuel e tbl rank lat (mx, gx, ox) =
  (parse_material e mx >>= fun '(mid, rho) =>
   match getast e gx with
   | None => Err EParse
   | Some ast => finish_cell SC e rank lat mid rho ast kb
   end).
Proof. exact @like_equals_expanded_full. Qed.
Print Assumptions C15_like_equals_expanded.

(* the card of the property text, literally: [canon_card] builds, from the text
   "card that n stands for, then the BUT texts", the explicit card with every
   keyword written once — material words from MAT / RHO or copied (a void card
   has no density), one "imp:<particle> <value>" per particle with the last
   value, the last FILL (with its transformation), LAT, TRCL and U groups — and
   that card, as text, is parsed to the same cell as the LIKE card.  ([canon_card]
   is undefined when the card cannot be written, e.g. MAT on a void base without
   RHO, or a stray number after a keyword that is read ("U=3 7"); unread
   keywords and their values (VOL=3) are dropped: see notes/C15.md.) *)
Theorem C15_expansion_card : forall (T : Type) (SC : Scalar T) (e : env (T:=T)) (rank : nat)
    (lat : option (list (Z * Z))) (x : card) (w : wcard) (c : cell (T:=T)),
  canon_card SC e x = Ok w -> worker SC e rank lat x = Ok c ->
  worker SC e rank lat (card_text w) = Ok c /\ worker_w SC e rank lat w = Ok c.
Proof. exact @canon_card_parses. Qed.
Print Assumptions C15_expansion_card.

Theorem C15_like_expansion_card : forall (T : Type) (SC : Scalar T) (e : env (T:=T)) (tbl : table)
    (rank : nat) (lat : option (list (Z * Z))) (mat0 g0 o : string) (n : Z) (d : nat)
    (x : card) (w : wcard) (c : cell (T:=T)),
  search_like (lower g0) = Some n -> denotes tbl n d x ->
  canon_card SC e (apply_but x o) = Ok w ->
  parse_one_cell SC (List.length tbl) e tbl rank lat (mat0, g0, o) = Ok c ->
  worker SC e rank lat (card_text w) = Ok c /\ is_explicit (card_text w).
Proof. exact @like_canon_card. Qed.
Print Assumptions C15_like_expansion_card.

(* "copying cell n and overriding the listed parameters": the keyword groups of
   "options of the copied card, then the BUT list" are the two group lists one
   after the other, so the constructed card takes FILL, LAT, TRCL, U, MAT, RHO
   from the BUT list when it lists them and from the copied card otherwise, and
   its IMP entries are the copied ones followed by the BUT list's *)
Theorem C15_expansion_is_override : forall (T : Type) (SC : Scalar T) (e : env (T:=T))
    (tb to : list string) (gb go : list (group (T:=T))),
  groups SC e tb = Ok gb -> groups SC e to = Ok go ->
  groups SC e (tb ++ to)%list = Ok (gb ++ go)%list /\
  (forall sel, last_with sel (gb ++ go)%list =
               match last_with sel go with Some g => Some g | None => last_with sel gb end) /\
  flat_map (@imp_tokens T) (gb ++ go)%list
  = (flat_map (@imp_tokens T) gb ++ flat_map (@imp_tokens T) go)%list.
Proof. exact @canon_is_override. Qed.
Print Assumptions C15_expansion_is_override.

(* deck level: [tblc] holds, for every cell of the deck (LIKE or explicit), the
   text of the card constructed for it — a deck without any LIKE card, every
   keyword written once; whenever the LIKE deck parses, that deck parses to the
   same cells (same order, same values, same skipped cells) *)
Theorem C15_expansion_deck : forall (T : Type) (SC : Scalar T) (e : env (T:=T))
    (tbl tblc : table) (cells : list (Z * cell (T:=T))),
  NoDup (map fst tbl) -> canon_table SC e tbl tblc ->
  parse_all SC e tbl = Ok cells -> parse_all SC e tblc = Ok cells.
Proof. exact @canon_deck. Qed.
Print Assumptions C15_expansion_deck.

(* ---- when the construction is defined; the LIKE cards that abbreviate no card ---- *)

(* option tokens made of complete keyword groups (each reads exactly its own
   tokens, starts with a keyword that is not a number, writes something) are
   cut back into these groups: the first stage of the construction fails only
   when some token belongs to no keyword group that is read ("U=3 7") — not
   an MCNP card *)
Theorem C15_expansion_groups_complete : forall (T : Type) (SC : Scalar T) (e : env (T:=T))
    (gs : list (group (T:=T))),
  Forall (valid SC e) gs -> Forall (fun g => kws_empty (snd g) = false) gs ->
  groups SC e (gtoks gs) = Ok gs.
Proof. exact @groups_complete. Qed.
Print Assumptions C15_expansion_groups_complete.

(* no explicit card (MAT / RHO exist in BUT lists only) is parsed to a cell that
   has a material and no density; "LIKE <void cell> BUT MAT=m" without RHO is
   parsed to such a cell (example below), so it abbreviates no card, and the
   construction is rightly undefined there: MCNP wants a density for every
   material, the LIKE card itself is not valid input *)
Theorem C15_explicit_card_has_density : forall (T : Type) (SC : Scalar T) (e : env (T:=T))
    (rank : nat) (lat : option (list (Z * Z))) (mw : list string) (g : string)
    (toks : list string) (k : kws (T:=T)) (c : cell (T:=T)) (z : Z),
  parse_kws SC e toks = Ok k -> k_mat k = None -> k_rho k = None ->
  worker_w SC e rank lat (mw, g, toks) = Ok c ->
  pyint (c_mat c) = Some z -> z <> 0%Z -> c_rho c <> None.
Proof. exact @explicit_card_has_density. Qed.
Print Assumptions C15_explicit_card_has_density.

(* the read-back test of the construction succeeds whenever the words are clean:
   non-empty, made of characters the option normalisation leaves alone (no
   blank, parenthesis, "=", capital), no colon at either end — the third way
   the construction can be undefined is a word that is not clean (the particle
   of "IMP=3" is empty: the entry would be written "imp: 3") *)
Theorem C15_card_text_reads_back : forall (mw : list string) (g : string) (toks : list string),
  cleanl mw -> cleanl toks -> wcard_of (card_text (mw, g, toks)) = (mw, g, toks).
Proof. exact card_text_reads_back. Qed.
Print Assumptions C15_card_text_reads_back.

Example C15_example_no_density :
  parse_one_cell RS 2 (wenv 0%R 1%R)
    [(1%Z, (" 0", " -1 ", "imp:n=1")); (2%Z, ("", " like 1 but", " mat=2"))]
    1 None ("", " like 1 but", " mat=2") =
  Ok (mkCell "2" None " -1 " 1%R 0%Z None None None None) /\
  canon_card RS (wenv 0%R 1%R) (" 0", " -1 ", "imp:n=1  mat=2") = Err EUnsupported.
Proof. exact (example_no_density RS 0%R 1%R). Qed.

Example C15_example_expansion_deck :
  canon_table RS (xenv 0%R 1%R) xtbl
    [(1%Z, ("1 -1.0", " -1 ", "imp:n 0"));
     (2%Z, ("2 -1.0", " -1 ", "imp:n 1"));
     (3%Z, ("2 -2.5", " -1 ", "imp:n 1 *trcl 0"))] /\ NoDup (map fst xtbl).
Proof. exact (example_canon_table RS 0%R 1%R). Qed.

Example C15_example_expansion_card :
  option_map (@card_text)
    (match canon_card RS (xenv 0%R 1%R)
             (apply_but (" 1 -1.0", " -1 ", x_ox) " rho = -2.5 *TRCL=( 0 )") with
     | Ok w => Some w | Err _ => None end) =
  Some ("2 -2.5", " -1 ", "imp:n 1 *trcl 0").
Proof. exact (example_canon RS 0%R 1%R). Qed.

(* BUT MAT=0 (fix ac9102a): with MAT=m in the BUT list, int(m) = 0, the copy is
   the cell of the explicit void card: material token m, no density, the other
   keywords (MAT and RHO exist in BUT lists only) *)
Theorem C15_like_mat_void : forall (T : Type) (SC : Scalar T) (e : env (T:=T)) (tbl : table)
    (fuel rank : nat) (lat : option (list (Z * Z))) (mat0 g0 o : string) (n : Z) (d : nat)
    (mx gx ox : string) (kb ko : kws (T:=T)) (m : string),
  search_like (lower g0) = Some n -> denotes tbl n d (mx, gx, ox) -> (d < fuel)%nat ->
  sq_state false ox = false -> leads_colon o = false -> kw_head (tokenize o) ->
  parse_kws SC e (tokenize ox) = Ok kb -> parse_kws SC e (tokenize o) = Ok ko ->
  k_mat ko = Some m -> pyint m = Some 0%Z ->
  parse_one_cell SC fuel e tbl rank lat (mat0, g0, o) =
  (parse_material e mx >>= fun _ =>
   match getast e gx with
   | None => Err EParse
   | Some ast => finish_cell SC e rank lat m None ast (drop_mat_rho (upd kb ko))
   end).
Proof. exact @like_mat_void. Qed.
Print Assumptions C15_like_mat_void.

(* ---- linked with C12 (importances) ---- *)

(* C15's importance dictionary is C12's: on the same IMP entries (particles
   named, value), the dictionary, the importance kept and the last value per
   particle of C15's model are C12's assign_all / imp_of_entries / last_value *)
Theorem C15_importance_dictionary_linked : forall (T : Type) (SC : Scalar T)
    (es : list (list string * T)),
  imp_dict (log_of es) = C12.ProofsCells.assign_all es [] /\
  imp_value SC (log_of es) = C12.ProofsCells.imp_of_entries SC es /\
  forall p, imp_last (log_of es) p = C12.Spec.last_value p es.
Proof. exact @importance_dictionary_is_C12. Qed.
Print Assumptions C15_importance_dictionary_linked.

(* with C12's entries_zero_iff: the copy made by LIKE n BUT o has importance
   zero (and is left out of the conversion) iff, for every particle named on the
   cards of the chain or in the BUT list, the last value — the BUT list's if it
   names the particle, else the inherited one — is zero *)
Theorem C15_like_importance_zero_iff_linked : forall (P : C12.Model.prims R) (e : env (T:=R))
    (tbl : table) (fuel rank : nat) (lat : option (list (Z * Z))) (mat0 g0 o : string) (n : Z)
    (d : nat) (mx gx ox : string) (kb ko : kws (T:=R)) (c : cell (T:=R)),
  search_like (lower g0) = Some n -> denotes tbl n d (mx, gx, ox) -> (d < fuel)%nat ->
  sq_state false ox = false -> leads_colon o = false -> kw_head (tokenize o) ->
  parse_kws RS e (tokenize ox) = Ok kb -> parse_kws RS e (tokenize o) = Ok ko ->
  parse_one_cell RS fuel e tbl rank lat (mat0, g0, o) = Ok c ->
  (k_impl kb ++ k_impl ko)%list <> [] ->
  Forall (fun pv => 0 <= snd pv)%R (k_impl kb ++ k_impl ko)%list ->
  (c_imp c = 0%R <->
   forall p, In p (map fst (k_impl kb ++ k_impl ko)%list) ->
             match imp_last (k_impl ko) p with Some v => Some v | None => imp_last (k_impl kb) p end
             = Some 0%R).
Proof. exact like_importance_zero_iff_linked. Qed.
Print Assumptions C15_like_importance_zero_iff_linked.

(* deck level: the cell number of a LIKE n BUT card is in parse_all's list of
   skipped cells (the NOTE of the written file; no volume is written for it) iff
   the last value of every particle named — BUT list first, else inherited —
   is zero *)
Theorem C15_like_skipped_iff_linked : forall (P : C12.Model.prims R) (e : env (T:=R))
    (tbl : table) (cells : list (Z * cell (T:=R))) (k : Z) (mat0 g0 o : string) (n : Z)
    (d : nat) (mx gx ox : string) (kb ko : kws (T:=R)),
  parse_all RS e tbl = Ok cells -> NoDup (map fst tbl) -> In (k, (mat0, g0, o)) tbl ->
  search_like (lower g0) = Some n -> denotes tbl n d (mx, gx, ox) ->
  sq_state false ox = false -> leads_colon o = false -> kw_head (tokenize o) ->
  parse_kws RS e (tokenize ox) = Ok kb -> parse_kws RS e (tokenize o) = Ok ko ->
  (k_impl kb ++ k_impl ko)%list <> [] ->
  Forall (fun pv => 0 <= snd pv)%R (k_impl kb ++ k_impl ko)%list ->
  (In k (skipped RS cells) <->
   forall p, In p (map fst (k_impl kb ++ k_impl ko)%list) ->
             match imp_last (k_impl ko) p with Some v => Some v | None => imp_last (k_impl kb) p end
             = Some 0%R).
Proof. exact like_skipped_iff_linked. Qed.
Print Assumptions C15_like_skipped_iff_linked.

(* the two former counter-examples, now equalities: "2 like 1 but imp:n=0" on
   "1 1 -1.0 -1 imp:n=1 imp:p=0" is the card "1 -1.0 -1 imp:n=0 imp:p=0", and
   "2 like 1 but mat=0" on "1 1 -1.0 -1 imp:n=1" is the card "0 -1 imp:n=1" *)
Example C15_example_imp_override :
  parse_one_cell RS 2 (wenv 0%R 1%R) wtbl 1 None ("", " like 1 but", " imp:n=0") =
  parse_one_cell RS 2 (wenv 0%R 1%R) wtbl 1 None (" 1 -1.0", " -1 ", "imp:n=0 imp:p=0").
Proof. exact (witness_like RS 0%R 1%R). Qed.

Example C15_example_void :
  parse_one_cell RS 2 (wenv 0%R 1%R) vtbl 1 None ("", " like 1 but", " mat=0") =
  parse_one_cell RS 2 (wenv 0%R 1%R) vtbl 1 None (" 0", " -1 ", "imp:n=1").
Proof. exact (witness_void_like RS 0%R 1%R). Qed.

(* non-vacuity: LIKE 2 BUT RHO *TRCL where 2 is itself LIKE 1 BUT MAT IMP *)
Example C15_example :
  let e := xenv 0%R 1%R in
  let kb := x_kb 0%R 1%R in
  let ko := x_ko 0%R in
  search_like (lower " LIKE 2 BUT") = Some 2%Z /\
  denotes xtbl 2 1 (" 1 -1.0", " -1 ", x_ox) /\
  sq_state false x_ox = false /\
  leads_colon " rho = -2.5 *TRCL=( 0 )" = false /\
  kw_head (tokenize " rho = -2.5 *TRCL=( 0 )") /\
  parse_kws RS e (tokenize x_ox) = Ok kb /\
  parse_kws RS e (tokenize " rho = -2.5 *TRCL=( 0 )") = Ok ko /\
  k_mat (upd kb ko) = Some "2" /\ k_rho (upd kb ko) = Some "-2.5" /\
  k_trcl (upd kb ko) = Some [0%R] /\ imp_last (k_impl (upd kb ko)) "n" = Some 1%R.
Proof.
  cbv zeta.
  destruct (example_hyps RS 0%R 1%R) as (H1 & H2 & H3 & H4 & H5 & H6 & H7).
  repeat split; assumption.
Qed.

(* the hypotheses of C15_replace_like_card / C15_expand_all on the same table *)
Example C15_example_replace :
  let tbl := ([(1%Z, (" 1 -1.0", " -1 ", "imp:n=0"))] ++
              (2%Z, ("", " like 1 but", " MAT=2 imp:n=1")) ::
              [(3%Z, ("", " LIKE 2 BUT", " rho = -2.5 *TRCL=( 0 )"))])%list in
  tbl = xtbl /\ NoDup (map fst tbl) /\ search_like (lower " like 1 but") = Some 1%Z /\
  denotes tbl 1 0 (" 1 -1.0", " -1 ", "imp:n=0") /\
  (forall j c, In (j, c) tbl -> exists dj xj, denotes tbl j dj xj).
Proof. exact example_replace_hyps. Qed.
