(* C15 — LIKE n BUT equals the explicit cell card it abbreviates.
   Only restatements; proofs are in C15/Proofs.v.  The model functions named
   here (tokenize, parse_kws, parse_one_cell, worker, finish_cell, ...) are the
   definitions of C15/Model.v that the correspondence check executes. *)
From Coq Require Import List NArith ZArith Bool String Ascii Reals.
From T4V Require Import Base.Str Base.Scalar C15.Model C15.Proofs.
Import ListNotations.
Open Scope string_scope.

(* apply_but glues "options" + " " + "BUT text"; the token list of the result is
   the concatenation of the two token lists, provided no colon sits at the seam
   (the normalisation deletes blanks around colons) *)
Theorem C15_tokens_of_appended_options : forall a b : string,
  sq_state false a = false -> leads_colon b = false ->
  tokenize (a ++ " " ++ b) = (tokenize a ++ tokenize b)%list.
Proof. exact tokenize_app. Qed.
Print Assumptions C15_tokens_of_appended_options.

(* parse_keywords on options ++ overrides: after the options, parsing goes on
   from the dictionary of the options (any scalar type, binary64 included) *)
Theorem C15_keywords_prefix : forall (T : Type) (SC : Scalar T) (e : env (T:=T))
    (opts ovr : list string) (k1 : kws (T:=T)),
  parse_kws SC e opts = Ok k1 -> kw_head ovr ->
  parse_kws SC e (opts ++ ovr) = parse_from SC (List.length ovr) e k1 ovr.
Proof. exact @parse_kws_app. Qed.
Print Assumptions C15_keywords_prefix.

(* later keyword wins: for mat, rho, u, fill (universe(s), bounds and
   transformation together), trcl and lat the value of the overrides when they
   have one, the value of the options otherwise; the importance is the maximum *)
Theorem C15_keywords_later_wins : forall (e : env (T:=R)) (opts ovr : list string)
    (k1 k2 : kws (T:=R)),
  parse_kws RS e opts = Ok k1 -> parse_kws RS e ovr = Ok k2 -> kw_head ovr ->
  exists k, parse_kws RS e (opts ++ ovr) = Ok k /\
    k_mat k = orelse (k_mat k2) (k_mat k1) /\
    k_rho k = orelse (k_rho k2) (k_rho k1) /\
    k_u k = orelse (k_u k2) (k_u k1) /\
    k_trcl k = orelse (k_trcl k2) (k_trcl k1) /\
    k_lat k = orelse (k_lat k2) (k_lat k1) /\
    (k_fb k, k_fu k, k_fp k) =
      match k_fu k2 with
      | Some _ => (k_fb k2, k_fu k2, k_fp k2)
      | None => (k_fb k1, k_fu k1, k_fp k1)
      end /\
    k_imp k = match k_imp k2, k_imp k1 with
              | Some v, Some o => Some (Rmax v o)
              | Some v, None => Some v
              | None, x => x
              end.
Proof. exact keywords_later_wins_R. Qed.
Print Assumptions C15_keywords_later_wins.

(* LIKE_RE (search on the lower-cased geometry text) recognises the text that
   cellcard.split gives for a card "N LIKE n BUT ...", for every digit string n *)
Theorem C15_like_re_recognises : forall ds : string,
  all_digits ds = true -> ds <> EmptyString ->
  search_like (" like " ++ ds ++ " but") = Some (Z.of_N (parse_digits ds 0%N)).
Proof. exact like_re_recognises. Qed.
Print Assumptions C15_like_re_recognises.

(* the same for any scalar type (binary64 included) when the overrides carry
   no IMP: the dictionary is [upd k1 k2], i.e. the override's mat, rho, u, trcl,
   lat and fill triple when present, the options' otherwise *)
Theorem C15_keywords_later_wins_any_scalar : forall (T : Type) (SC : Scalar T) (e : env (T:=T))
    (opts ovr : list string) (k1 k2 : kws (T:=T)),
  parse_kws SC e opts = Ok k1 -> parse_kws SC e ovr = Ok k2 -> kw_head ovr ->
  k_imp k2 = None ->
  parse_kws SC e (opts ++ ovr) = Ok (upd SC k1 k2).
Proof. exact @keywords_later_wins_noimp. Qed.
Print Assumptions C15_keywords_later_wins_any_scalar.

(* cellcard.split on a LIKE card as MIP hands it over (single blanks): name,
   geometry = up to and including BUT, options = the rest — for any case of the
   two words and provided the options do not contain "but"; LIKE_RE then finds n
   in that geometry text *)
Theorem C15_split_like_card : forall name L ds B rest : string,
  all_digits name = true -> name <> EmptyString -> lower L = "like" ->
  all_digits ds = true -> lower B = "but" -> has "but" (lower rest) = false ->
  split_like (name ++ " " ++ L ++ " " ++ ds ++ " " ++ B ++ rest) =
  Some (name, " " ++ L ++ " " ++ ds ++ " " ++ B, rest).
Proof. exact split_like_card. Qed.
Print Assumptions C15_split_like_card.

Theorem C15_split_then_like_re : forall L ds B : string,
  lower L = "like" -> all_digits ds = true -> ds <> EmptyString -> lower B = "but" ->
  search_like (lower (" " ++ L ++ " " ++ ds ++ " " ++ B)) = Some (Z.of_N (parse_digits ds 0%N)).
Proof. exact split_then_like_re. Qed.
Print Assumptions C15_split_then_like_re.

(* the LIKE loop: a LIKE card, at the end of a chain of any length in an acyclic
   table, is parsed as the explicit card "text of the card n stands for, then
   the BUT text" *)
Theorem C15_like_chain_text : forall (T : Type) (SC : Scalar T) (e : env (T:=T)) (tbl : table)
    (fuel rank : nat) (lat : option (list (Z * Z))) (mat0 g0 o : string) (n : Z) (d : nat)
    (x : card),
  search_like (lower g0) = Some n -> denotes tbl n d x -> (d < fuel)%nat ->
  parse_one_cell SC fuel e tbl rank lat (mat0, g0, o) = worker SC e rank lat (apply_but x o).
Proof. exact @like_equals_expanded_text. Qed.
Print Assumptions C15_like_chain_text.

(* a chain that ends on an explicit card is shorter than the table, so the fuel
   parse_all gives to the LIKE loop (the number of cards) is always enough: the
   model answers EFuel only on cyclic chains (where the code loops for ever) *)
Theorem C15_chain_depth : forall (tbl : table) (n : Z) (d : nat) (x : card),
  denotes tbl n d x -> (d < List.length tbl)%nat.
Proof. exact denotes_depth. Qed.
Print Assumptions C15_chain_depth.

Theorem C15_like_in_parse_all : forall (T : Type) (SC : Scalar T) (e : env (T:=T)) (tbl : table)
    (rank : nat) (lat : option (list (Z * Z))) (mat0 g0 o : string) (n : Z) (d : nat) (x : card),
  search_like (lower g0) = Some n -> denotes tbl n d x ->
  parse_one_cell SC (List.length tbl) e tbl rank lat (mat0, g0, o) =
  worker SC e rank lat (apply_but x o).
Proof. exact @like_in_parse_all. Qed.
Print Assumptions C15_like_in_parse_all.

(* deck level (the model-side twin of the sweep oracle): in a table with distinct
   cell numbers whose LIKE chains all end, replacing the card "k LIKE n BUT o" by
   the explicit card "text that n stands for, then o" leaves the result of
   parse_all unchanged — every cell, every error, the cells that are LIKE k
   included — and the hypotheses survive, so all LIKE cards can be expanded one
   after the other *)
Theorem C15_replace_like_card : forall (T : Type) (SC : Scalar T) (e : env (T:=T))
    (pre post : table) (k : Z) (mat0 g0 o : string) (n : Z) (d : nat) (x : card),
  let tbl := (pre ++ (k, (mat0, g0, o)) :: post)%list in
  let tbl' := (pre ++ (k, apply_but x o) :: post)%list in
  NoDup (map fst tbl) -> search_like (lower g0) = Some n -> denotes tbl n d x ->
  (forall j c, In (j, c) tbl -> exists dj xj, denotes tbl j dj xj) ->
  parse_all SC e tbl' = parse_all SC e tbl /\
  NoDup (map fst tbl') /\
  (forall j c, In (j, c) tbl' -> exists dj xj, denotes tbl' j dj xj).
Proof. exact @replace_like_card_full. Qed.
Print Assumptions C15_replace_like_card.

(* its hypotheses on the three-card table of C15_example, card 2 replaced *)
Example C15_example_replace :
  let tbl := ([(1%Z, (" 1 -1.0", " -1 ", "imp:n=0"))] ++
              (2%Z, ("", " like 1 but", " MAT=2 imp:n=1")) ::
              [(3%Z, ("", " LIKE 2 BUT", " rho = -2.5 *TRCL=( 0 )"))])%list in
  tbl = xtbl /\ NoDup (map fst tbl) /\ search_like (lower " like 1 but") = Some 1%Z /\
  denotes tbl 1 0 (" 1 -1.0", " -1 ", "imp:n=0") /\
  (forall j c, In (j, c) tbl -> exists dj xj, denotes tbl j dj xj).
Proof. exact example_replace_hyps. Qed.

(* LIKE n BUT o = the cell with the material string and the geometry of the card
   n stands for, and n's keyword dictionary with every parameter listed in o
   overridden — provided o does not lower an importance written on the
   inherited cards (see C15_like_imp_refuted) *)
Theorem C15_like_equals_expanded : forall (e : env (T:=R)) (tbl : table) (fuel rank : nat)
    (lat : option (list (Z * Z))) (mat0 g0 o : string) (n : Z) (d : nat)
    (mx gx ox : string) (kb ko : kws (T:=R)),
  search_like (lower g0) = Some n -> denotes tbl n d (mx, gx, ox) -> (d < fuel)%nat ->
  sq_state false ox = false -> leads_colon o = false -> kw_head (tokenize o) ->
  parse_kws RS e (tokenize ox) = Ok kb -> parse_kws RS e (tokenize o) = Ok ko ->
  (forall v w, k_imp ko = Some v -> k_imp kb = Some w -> (w <= v)%R) ->
  parse_one_cell RS fuel e tbl rank lat (mat0, g0, o) =
  (parse_material e mx >>= fun '(mid, rho) =>
   match getast e gx with
   | None => Err EParse
   | Some ast => finish_cell e rank lat mid rho ast (override kb ko)
   end) /\
  parse_one_cell RS fuel e tbl rank lat (mx, gx, ox) =
  (parse_material e mx >>= fun '(mid, rho) =>
   match getast e gx with
   | None => Err EParse
   | Some ast => finish_cell e rank lat mid rho ast kb
   end).
Proof. exact like_equals_expanded_full. Qed.
Print Assumptions C15_like_equals_expanded.

(* the unguarded statement is false of the code: BUT IMP:N=0 on a copy of a
   card that says IMP:N=1 keeps importance 1, the explicit card has 0 *)
Theorem C15_like_imp_refuted :
  exists (e : env (T:=R)) (tbl : table) (c_like c_expl : cell (T:=R)),
    lookup 1%Z tbl = Some (" 1 -1.0", " -1 ", "imp:n=1") /\
    parse_one_cell RS 2 e tbl 1 None ("", " like 1 but", " imp:n=0") = Ok c_like /\
    parse_one_cell RS 2 e tbl 1 None (" 1 -1.0", " -1 ", "imp:n=0") = Ok c_expl /\
    c_imp c_like = 1%R /\ c_imp c_expl = 0%R /\ c_like <> c_expl.
Proof. exact like_imp_refuted. Qed.
Print Assumptions C15_like_imp_refuted.

(* BUT MAT=0 (after fix ac9102a): with the hypotheses above and MAT=m in the BUT
   list, int(m) = 0, the copy is the cell of the explicit void card: material
   token m, no density, the other keywords (MAT and RHO exist in BUT lists only) *)
Theorem C15_like_mat_void : forall (e : env (T:=R)) (tbl : table) (fuel rank : nat)
    (lat : option (list (Z * Z))) (mat0 g0 o : string) (n : Z) (d : nat)
    (mx gx ox : string) (kb ko : kws (T:=R)) (m : string),
  search_like (lower g0) = Some n -> denotes tbl n d (mx, gx, ox) -> (d < fuel)%nat ->
  sq_state false ox = false -> leads_colon o = false -> kw_head (tokenize o) ->
  parse_kws RS e (tokenize ox) = Ok kb -> parse_kws RS e (tokenize o) = Ok ko ->
  (forall v w, k_imp ko = Some v -> k_imp kb = Some w -> (w <= v)%R) ->
  k_mat ko = Some m -> pyint m = Some 0%Z ->
  parse_one_cell RS fuel e tbl rank lat (mat0, g0, o) =
  (parse_material e mx >>= fun _ =>
   match getast e gx with
   | None => Err EParse
   | Some ast => finish_cell e rank lat m None ast (drop_mat_rho (override kb ko))
   end).
Proof. exact like_mat_void_R. Qed.
Print Assumptions C15_like_mat_void.

(* ... e.g. "2 like 1 but mat=0" on "1 1 -1.0 -1 imp:n=1" is the card "0 -1 imp:n=1" *)
Example C15_example_void :
  parse_one_cell RS 2 (wenv 0%R 1%R) vtbl 1 None ("", " like 1 but", " mat=0") =
  parse_one_cell RS 2 (wenv 0%R 1%R) vtbl 1 None (" 0", " -1 ", "imp:n=1").
Proof. exact (witness_void_like RS 0%R 1%R). Qed.

(* non-vacuity: LIKE 2 BUT RHO *TRCL where 2 is itself LIKE 1 BUT MAT IMP *)
Example C15_example :
  let e := xenv 0%R 1%R in
  let kb := x_kb RS 0%R 1%R in
  let ko := x_ko 0%R in
  search_like (lower " LIKE 2 BUT") = Some 2%Z /\
  denotes xtbl 2 1 (" 1 -1.0", " -1 ", x_ox) /\
  sq_state false x_ox = false /\
  leads_colon " rho = -2.5 *TRCL=( 0 )" = false /\
  kw_head (tokenize " rho = -2.5 *TRCL=( 0 )") /\
  parse_kws RS e (tokenize x_ox) = Ok kb /\
  parse_kws RS e (tokenize " rho = -2.5 *TRCL=( 0 )") = Ok ko /\
  (forall v w, k_imp ko = Some v -> k_imp kb = Some w -> (w <= v)%R) /\
  k_mat (override kb ko) = Some "2" /\ k_rho (override kb ko) = Some "-2.5" /\
  k_trcl (override kb ko) = Some [0%R].
Proof.
  cbv zeta.
  destruct (example_hyps RS 0%R 1%R) as (H1 & H2 & H3 & H4 & H5 & H6 & H7).
  repeat split; try assumption. intros v w Hv. discriminate Hv.
Qed.
