(* C15 — LIKE n BUT equals the explicit cell card it abbreviates.
   Only restatements; proofs are in C15/Proofs.v. *)
From Coq Require Import List NArith ZArith Bool String Ascii Reals.
From T4V Require Import Base.Str Base.Scalar C15.Model.
Import ListNotations.
Open Scope string_scope.
