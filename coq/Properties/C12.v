(* C12 — placeholder while the tie is brought up *)
From T4V Require Import C12.Model.
