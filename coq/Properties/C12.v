(* C12 — Exactly the zero-importance cells are left out.
   Only restatements; the proofs are in C12/ProofsExpand.v, ProofsCells.v and
   ProofsDeck.v. The model functions named here (expand, importance_cards,
   parse_kw, cell_worker, parse_cells, conv_keys) are the ones the
   correspondence files execute against the Python code.
   Vocabulary: [reads P toks es] = the tokens spell the data-card entries es
   (C12/ProofsExpand.v); [meaning Sc es None] = the numbers MCNP lets these
   entries stand for (C12/Spec.v); [cards_read] = the same for a list of cards;
   [opt_imps P toks es] = reading the option tokens of a cell card keyword by
   keyword, the IMP keywords are the entries es = (particles named, value), in
   order (C12/ProofsCells.v); [last_value p es] = the value of the last entry
   naming particle p, [named es] = the particles named (C12/Spec.v). *)
From Coq Require Import List NArith ZArith Bool String Ascii Reals.
From T4V Require Import Base.Str Base.Scalar C12.Text C12.Model C12.Spec
     C12.Cards C12.ProofsExpand C12.ProofsText C12.ProofsCells C12.ProofsDeck C12.ProofsCards C12.LinkC06 C12.Examples.
Import ListNotations.
Open Scope string_scope.
Open Scope list_scope.

(* ---- shorthand of data cards ---- *)

(* expand_data_card returns exactly the numbers the entries stand for (nR, nI,
   xM, nJ, nLOG/nILOG; any scalar type, any primitives, x**y being the
   primitive pw) and consumes every token *)
Theorem C12_expand_shorthand :
  forall (T : Type) (Sc : Scalar T) (P : prims T) (toks : list string)
         (es : list (entry (T:=T))) (out : list (option T)),
    reads P toks es -> meaning Sc (pw P) es None = Some out ->
    expand Sc P toks None = Ok (out, List.length toks).
Proof. exact @expand_shorthand. Qed.
Print Assumptions C12_expand_shorthand.

(* over the reals the n interpolates of nI are evenly spaced between the
   previous and the following number *)
Theorem C12_interpolates_evenly_spaced : forall (a b : R) (n k : nat),
  interp RS a b n 0 = a /\ interp RS a b n (S n) = b /\
  (interp RS a b n (S k) - interp RS a b n k = (b - a) / (INR n + 1))%R.
Proof.
  intros a b n k. destruct (interp_ends a b n) as [H0 Hn].
  split; [exact H0|]. split; [exact Hn|]. apply interp_step.
Qed.
Print Assumptions C12_interpolates_evenly_spaced.

(* over the reals (x**y = Rpower) the values of nLOG start at a, end at b and
   have the constant ratio (b/a)**(1/(n+1)) *)
Theorem C12_log_interpolates_constant_ratio : forall (a b : R) (n k : nat),
  (a <> 0 -> 0 < b / a ->
   log_interp RS Rpower a b n 0 = a /\ log_interp RS Rpower a b n (S n) = b /\
   log_interp RS Rpower a b n (S k) = log_interp RS Rpower a b n k * Rpower (b / a) (1 / (INR n + 1)))%R.
Proof.
  intros a b n k Ha Hr. destruct (log_interp_ends a b n Ha Hr) as [H0 Hn].
  split; [exact H0|]. split; [exact Hn|]. apply log_interp_ratio.
Qed.
Print Assumptions C12_log_interpolates_constant_ratio.

(* ---- IMP data cards: one importance per cell rank, the largest over the
   particle types; cards of different lengths are refused ---- *)
Theorem C12_importance_cards_max :
  forall (T : Type) (Sc : Scalar T) (P : prims T) (cards : list (string * list string))
         (first : list T) (others : list (list T)),
    NoDup (map fst cards) -> cards_read Sc P cards (first :: others) ->
    Forall (fun l => List.length l = List.length first) others ->
    importance_cards Sc P cards = Ok (map Some (col_max Sc first others)).
Proof. exact @importance_cards_max. Qed.
Print Assumptions C12_importance_cards_max.

(* repeated card names (and repeated cell numbers): the dictionaries built by
   get_cell_importances / get_cells answer with the LAST value assigned to a key,
   kept at the position of its first assignment; importance_cards only sees the
   dictionary, whose names are pairwise distinct - the NoDup hypothesis of
   C12_importance_cards_max is therefore no restriction *)
Theorem C12_importance_cards_dedup :
  forall (T : Type) (Sc : Scalar T) (P : prims T) (cards : list (string * list string)),
    importance_cards Sc P cards = importance_cards Sc P (dict_of String.eqb cards)
    /\ NoDup (map fst (dict_of String.eqb cards)).
Proof. exact @importance_cards_dedup. Qed.
Print Assumptions C12_importance_cards_dedup.

Theorem C12_dictionary_last_assignment :
  forall (K V : Type) (eqb : K -> K -> bool), (forall a b, eqb a b = true <-> a = b) ->
  forall (k : K) (l : list (K * V)), dict_get eqb k (dict_of eqb l) = last_assoc eqb k l.
Proof. exact @dict_of_get_last. Qed.
Print Assumptions C12_dictionary_last_assignment.

Theorem C12_importance_cards_uneven_refused :
  forall (T : Type) (Sc : Scalar T) (P : prims T) (cards : list (string * list string))
         (first : list T) (others : list (list T)),
    NoDup (map fst cards) -> cards_read Sc P cards (first :: others) ->
    Exists (fun l => List.length l <> List.length first) others ->
    importance_cards Sc P cards = Err ECell.
Proof. exact @importance_cards_uneven. Qed.
Print Assumptions C12_importance_cards_uneven_refused.

(* jumped entries (nJ): a single IMP card is taken as it is (None = jumped) ... *)
Theorem C12_importance_cards_single :
  forall (T : Type) (Sc : Scalar T) (P : prims T) (name : string) (toks : list string)
         (es : list (entry (T:=T))) (vals : list (option T)),
    reads P toks es -> meaning Sc (pw P) es None = Some vals ->
    importance_cards Sc P [(name, toks)] = Ok vals.
Proof. exact @importance_cards_single. Qed.
Print Assumptions C12_importance_cards_single.

(* ... with two or more cards a jumped entry anywhere stops the run
   (max(None, x): TypeError) *)
Theorem C12_importance_cards_jump_refused :
  forall (T : Type) (Sc : Scalar T) (P : prims T) (cards : list (string * list string))
         (first : list (option T)) (others : list (list (option T))),
    NoDup (map fst cards) -> cards_read_o Sc P cards (first :: others) -> others <> [] ->
    Forall (fun l => List.length l = List.length first) others ->
    existsb has_none (first :: others) = true ->
    importance_cards Sc P cards = Err EType.
Proof. exact @importance_cards_jump_refused. Qed.
Print Assumptions C12_importance_cards_jump_refused.

(* ---- cell cards ---- *)

(* the IMP keywords of a cell card: the parser keeps, per particle, the value of
   the last entry naming it (imp_of_entries = largest value of that dictionary);
   every other keyword leaves the importance alone *)
Theorem C12_keywords_importance :
  forall (T : Type) (Sc : Scalar T) (P : prims T) (toks : list string)
         (es : list (imp_entry (T:=T))),
    opt_imps Sc P toks es ->
    exists k, parse_kw Sc P toks O kws0 = Ok k /\ k_imp k = imp_of_entries Sc es.
Proof. exact @keywords_importance. Qed.
Print Assumptions C12_keywords_importance.

(* the dictionary the parser keeps is the Spec's reading: for every particle,
   the value of the last entry naming it *)
Theorem C12_particle_dictionary :
  forall (T : Type) (p : string) (es : list (imp_entry (T:=T))),
    dict_get String.eqb p (assign_all es []) = last_value p es.
Proof.
  intros T p es. rewrite get_assign_all. destruct (last_value p es); reflexivity.
Qed.
Print Assumptions C12_particle_dictionary.

(* the option normalisation (blanks around ':' removed, lower(), '(' ')' '='
   turned into blanks, split()): for option text written as words (non-empty,
   no blank, parenthesis, '=' or upper-case letter, no ':' at either end)
   separated by ONE blank or ONE '=' sign, the tokens are the words, in order *)
Theorem C12_option_tokens_words :
  forall (ws : list (string * ascii)) (last : string),
    Forall (fun ws => word (fst ws) /\ sep_ok (snd ws)) ws -> word last ->
    option_tokens (join ws last) = map fst ws ++ [last].
Proof. exact option_tokens_join. Qed.
Print Assumptions C12_option_tokens_words.

(* cell-card value if there is an IMP keyword, otherwise the data-card entry at
   the cell's rank *)
Theorem C12_importance_of_cell :
  forall (T : Type) (Sc : Scalar T) (P : prims T) (importances : list (option T)) (rank : nat)
         (lat : option (list (Z * Z))) (mat geom opts : string) (es : list (imp_entry (T:=T)))
         (c : cell (T:=T)),
    opt_imps Sc P (option_tokens opts) es ->
    cell_worker Sc P importances rank lat mat geom opts = Ok c ->
    match imp_of_entries Sc es with
    | Some m => c_imp c = Some m
    | None => nth_error importances rank = Some (c_imp c)
    end.
Proof. exact @importance_of_cell. Qed.
Print Assumptions C12_importance_of_cell.

(* no IMP keyword and no data-card entry at the rank: the cell is refused *)
Theorem C12_importance_missing_refused :
  forall (T : Type) (Sc : Scalar T) (P : prims T) (importances : list (option T)) (rank : nat)
         (lat : option (list (Z * Z))) (mat geom opts : string),
    opt_imps Sc P (option_tokens opts) [] -> nth_error importances rank = None ->
    (exists a, parse_material P mat = Ok a) ->
    cell_worker Sc P importances rank lat mat geom opts = Err ECell.
Proof. exact @importance_missing. Qed.
Print Assumptions C12_importance_missing_refused.

(* ---- skip list and converted cells, for every deck of the model ---- *)

(* the cells come out under the keys of the cell dictionary, each once; a cell
   is in the skip list iff its importance is zero *)
Theorem C12_skipped_iff_zero :
  forall (T : Type) (Sc : Scalar T) (P : prims T) (imp_cards : list (string * list string))
         (cards : list card) (lats : list (Z * list (Z * Z)))
         (cells : list (Z * cell (T:=T))) (skipped : list Z),
    parse_cells Sc P imp_cards cards lats = Ok (cells, skipped) ->
    map fst cells = map fst (dict_of Z.eqb cards) /\ NoDup (map fst cells) /\
    forall key c, In (key, c) cells -> (In key skipped <-> is_zero Sc c = true).
Proof. exact @skipped_iff_zero. Qed.
Print Assumptions C12_skipped_iff_zero.

(* the list printed in the end-of-run NOTE (Model.note_lines renders it as
   Python prints it; tied to stdout byte for byte): the keys of the
   zero-importance cells in the order of the cell block, each once *)
Theorem C12_note_order :
  forall (T : Type) (Sc : Scalar T) (P : prims T) (imp_cards : list (string * list string))
         (cards : list card) (lats : list (Z * list (Z * Z)))
         (cells : list (Z * cell (T:=T))) (skipped : list Z),
    parse_cells Sc P imp_cards cards lats = Ok (cells, skipped) ->
    skipped = map fst (filter (fun kc => is_zero Sc (snd kc)) cells) /\ NoDup skipped.
Proof. exact @skipped_in_order. Qed.
Print Assumptions C12_note_order.

(* a cell in no universe and without FILL is handed to the conversion iff it is
   not in the skip list *)
Theorem C12_converted_iff_nonzero :
  forall (T : Type) (Sc : Scalar T) (P : prims T) (imp_cards : list (string * list string))
         (cards : list card) (lats : list (Z * list (Z * Z)))
         (cells : list (Z * cell (T:=T))) (skipped : list Z) (key : Z) (c : cell (T:=T)),
    parse_cells Sc P imp_cards cards lats = Ok (cells, skipped) ->
    In (key, c) cells -> c_u c = 0%Z -> c_fill c = FNone ->
    (In key skipped <-> is_zero Sc c = true) /\
    (In key (conv_keys Sc cells) <-> ~ In key skipped).
Proof. exact @level0_partition. Qed.
Print Assumptions C12_converted_iff_nonzero.

(* ---- the property on the model, over the reals ---- *)

(* importances on data cards (no IMP keyword on the cell card, non-negative
   entries, no jumps): the cell at rank r is skipped iff the entry at rank r of
   every IMP card is zero *)
Theorem C12_data_card_max_zero :
  forall (P : prims R) (imp_cards : list (string * list string)) (cards : list card)
         (lats : list (Z * list (Z * Z))) (cells : list (Z * cell (T:=R))) (skipped : list Z)
         (first : list R) (others : list (list R)) (r : nat) (key : Z) (mat geom opts : string),
    parse_cells RS P imp_cards cards lats = Ok (cells, skipped) ->
    NoDup (map fst imp_cards) -> cards_read RS P imp_cards (first :: others) ->
    Forall (fun l => List.length l = List.length first) others ->
    nonneg first -> Forall nonneg others ->
    nth_error (dict_of Z.eqb cards) r = Some (key, (Explicit mat geom, opts)) ->
    opt_imps RS P (option_tokens opts) [] ->
    (r < List.length first)%nat /\
    (In key skipped <-> Forall (fun vals => nth r vals 0%R = 0%R) (first :: others)).
Proof. exact data_card_zero_iff. Qed.
Print Assumptions C12_data_card_max_zero.

(* a jumped entry of a single IMP card: the importance stays None, which is not
   == 0; the cell at that rank is not skipped, and is converted when it is in no
   universe and has no FILL (what the code does; the property text is silent
   about jumps) *)
Theorem C12_jumped_cell_kept :
  forall (P : prims R) (name : string) (toks : list string) (es : list (entry (T:=R)))
         (vals : list (option R)) (cards : list card) (lats : list (Z * list (Z * Z)))
         (cells : list (Z * cell (T:=R))) (skipped : list Z) (r : nat) (key : Z)
         (mat geom opts : string),
    parse_cells RS P [(name, toks)] cards lats = Ok (cells, skipped) ->
    reads P toks es -> meaning RS (pw P) es None = Some vals -> nth_error vals r = Some None ->
    nth_error (dict_of Z.eqb cards) r = Some (key, (Explicit mat geom, opts)) ->
    opt_imps RS P (option_tokens opts) [] ->
    ~ In key skipped /\
    exists c, In (key, c) cells /\ c_imp c = None /\
              (c_u c = 0%Z -> c_fill c = FNone -> In key (conv_keys RS cells)).
Proof. exact jumped_cell_kept. Qed.
Print Assumptions C12_jumped_cell_kept.

(* THE PROPERTY for importances on cell cards, any card - explicit, LIKE n BUT,
   chains of LIKE: with o the options the chain resolves to (base options first,
   BUT options appended) and es the IMP entries met in o, the cell is skipped
   iff for every particle named the LAST entry naming it gives zero, i.e. iff
   its importance is zero for every particle. A BUT importance replaces the one
   of the card it is LIKE. *)
Theorem C12_chain_zero_iff :
  forall (P : prims R) (imp_cards : list (string * list string)) (cards : list card)
         (lats : list (Z * list (Z * Z))) (cells : list (Z * cell (T:=R))) (skipped : list Z)
         (r : nat) (key : Z) (b : body) (opts mat geom o : string) (es : list (imp_entry (T:=R))),
    parse_cells RS P imp_cards cards lats = Ok (cells, skipped) ->
    nth_error (dict_of Z.eqb cards) r = Some (key, (b, opts)) ->
    resolve_like (S (List.length (dict_of Z.eqb cards))) (dict_of Z.eqb cards) b opts = Ok (mat, geom, o) ->
    opt_imps RS P (option_tokens o) es -> es <> [] -> Forall (fun e => 0 <= snd e)%R es ->
    (In key skipped <-> forall p, In p (named es) -> last_value p es = Some 0%R).
Proof. exact chain_zero_iff. Qed.
Print Assumptions C12_chain_zero_iff.

(* apply_but joins the options of the card a LIKE card refers to and the BUT
   options with a blank: the tokens are those of the first followed by those of
   the second, unless a colon sits at the junction (ends_colon: the text ends
   with ':' and blanks; lead_colon: it starts with blanks and ':') *)
Theorem C12_option_tokens_app : forall a b : string,
  ends_colon a = false -> lead_colon b = false ->
  option_tokens (a ++ " " ++ b) = option_tokens a ++ option_tokens b.
Proof. exact option_tokens_app. Qed.
Print Assumptions C12_option_tokens_app.

(* entries met later replace earlier ones, particle by particle *)
Theorem C12_last_value_app : forall (T : Type) (p : string) (a b : list (imp_entry (T:=T))),
  last_value p (a ++ b) = match last_value p b with Some y => Some y | None => last_value p a end.
Proof. exact @last_value_app. Qed.
Print Assumptions C12_last_value_app.

(* THE PROPERTY for the cards AS WRITTEN, LIKE chains of any length: l = the
   option texts of the cards the chain of the cell visits (nearest first, [] for
   an explicit card); every card's option text has no colon at either end; the
   options are IMP keywords with a number, one-argument keywords (U RHO MAT LAT)
   and words the dispatch does not react to (scan_imps); ess = the IMP entries
   of the base card, of the cards of the chain, and finally of the card itself.
   The cell is skipped iff for every particle named anywhere in the chain the
   LAST entry naming it (the card's own BUT entry if there is one, by
   C12_last_value_app) is zero. *)
Theorem C12_like_written_zero_iff :
  forall (P : prims R) (imp_cards : list (string * list string)) (cards : list card)
         (lats : list (Z * list (Z * Z))) (cells : list (Z * cell (T:=R))) (skipped : list Z)
         (r : nat) (key : Z) (b : body) (opts : string) (l : list string)
         (ess : list (list (imp_entry (T:=R)))),
    parse_cells RS P imp_cards cards lats = Ok (cells, skipped) ->
    nth_error (dict_of Z.eqb cards) r = Some (key, (b, opts)) ->
    chain_cards (S (List.length (dict_of Z.eqb cards))) (dict_of Z.eqb cards) b = Ok l ->
    Forall (fun c => clean_opts (snd (snd c))) (dict_of Z.eqb cards) ->
    Forall2 (fun o es => scan_imps P (option_tokens o) = Some es) (rev l ++ [opts]) ess ->
    List.concat ess <> [] -> Forall (fun e => 0 <= snd e)%R (List.concat ess) ->
    (In key skipped <->
     forall p, In p (named (List.concat ess)) -> last_value p (List.concat ess) = Some 0%R).
Proof. exact like_written_zero_iff. Qed.
Print Assumptions C12_like_written_zero_iff.

(* the same with FILL = n (...) and TRCL = (...) allowed on any card of the chain
   (the lattice form FILL = i:j ... excepted): [loc_imps] reads each card's
   tokens with every keyword taking its arguments locally - IMP + number; inert
   words, U, RHO, MAT, LAT (li_any); FILL / TRCL with their numeric parameters up
   to the next token that does not start like a number (li_num, lemmas
   fill_local / trcl_local) - and every card after the base starts with a
   keyword (hd_not_num). scan_imps lists are loc_imps (scan_imps_local). *)
Theorem C12_like_written_local_zero_iff :
  forall (P : prims R) (imp_cards : list (string * list string)) (cards : list card)
         (lats : list (Z * list (Z * Z))) (cells : list (Z * cell (T:=R))) (skipped : list Z)
         (r : nat) (key : Z) (b : body) (opts : string) (l : list string)
         (ess : list (list (imp_entry (T:=R)))),
    parse_cells RS P imp_cards cards lats = Ok (cells, skipped) ->
    nth_error (dict_of Z.eqb cards) r = Some (key, (b, opts)) ->
    chain_cards (S (List.length (dict_of Z.eqb cards))) (dict_of Z.eqb cards) b = Ok l ->
    Forall (fun c => clean_opts (snd (snd c))) (dict_of Z.eqb cards) ->
    Forall2 (fun o es => loc_imps RS P (option_tokens o) es) (rev l ++ [opts]) ess ->
    Forall (fun o => hd_not_num (option_tokens o)) (tl (rev l ++ [opts])) ->
    List.concat ess <> [] -> Forall (fun e => 0 <= snd e)%R (List.concat ess) ->
    (In key skipped <->
     forall p, In p (named (List.concat ess)) -> last_value p (List.concat ess) = Some 0%R).
Proof. exact like_written_local_zero_iff. Qed.
Print Assumptions C12_like_written_local_zero_iff.

(* the lattice form of FILL is read locally too (premise of li_num): ranges, as
   many plain universe numbers as the ranges hold, numeric parameters - whatever
   follows, as long as it does not start like a number. So a FILL = i:j ... on a
   card of a LIKE chain is inside C12_like_written_local_zero_iff. (Array entries
   written with nR are not covered by this lemma.) *)
Theorem C12_fill_array_read_locally :
  forall (T : Type) (Sc : Scalar T) (P : prims T) (t r0 : string) (rs : list string)
         (u0 : string) (us params : list string) (bnds : list (Z * Z)) (fp : trparams T),
    String.prefix "imp" t = false -> contains_sub "fill" t = true ->
    forallb (contains_char ":") (r0 :: rs) = true -> parse_ranges (r0 :: rs) = Ok bnds ->
    contains_char ":" u0 = false -> Forall (plain_value P) (u0 :: us) ->
    Z.of_nat (List.length (u0 :: us)) = bounds_size bnds ->
    forallb is_numstart params = true ->
    fill_params Sc P false (contains_char "*" t) params = Ok fp ->
    forall rest, hd_not_num rest -> forall k,
      exists k', kw_step Sc P t (((r0 :: rs) ++ (u0 :: us) ++ params) ++ rest) k
                 = Ok (k', List.length ((r0 :: rs) ++ (u0 :: us) ++ params)).
Proof. exact @fillarr_local. Qed.
Print Assumptions C12_fill_array_read_locally.

(* ... and with array entries written with nR (n >= 1) after a first plain
   number: arr_tok t n = the token stands for n entries *)
Theorem C12_fill_array_rep_read_locally :
  forall (T : Type) (Sc : Scalar T) (P : prims T) (t r0 : string) (rs : list string)
         (u0 : string) (us : list string) (cs : list nat) (params : list string)
         (bnds : list (Z * Z)) (fp : trparams T),
    String.prefix "imp" t = false -> contains_sub "fill" t = true ->
    forallb (contains_char ":") (r0 :: rs) = true -> parse_ranges (r0 :: rs) = Ok bnds ->
    contains_char ":" u0 = false -> plain_value P u0 -> Forall2 (arr_tok P) us cs ->
    Z.of_nat (1 + list_sum cs) = bounds_size bnds ->
    forallb is_numstart params = true ->
    fill_params Sc P false (contains_char "*" t) params = Ok fp ->
    forall rest, hd_not_num rest -> forall k,
      exists k', kw_step Sc P t (((r0 :: rs) ++ (u0 :: us) ++ params) ++ rest) k
                 = Ok (k', List.length ((r0 :: rs) ++ (u0 :: us) ++ params)).
Proof. exact @fillarr_local_rep. Qed.
Print Assumptions C12_fill_array_rep_read_locally.

(* explicit card *)
Theorem C12_cell_card_zero_iff :
  forall (P : prims R) (imp_cards : list (string * list string)) (cards : list card)
         (lats : list (Z * list (Z * Z))) (cells : list (Z * cell (T:=R))) (skipped : list Z)
         (r : nat) (key : Z) (mat geom opts : string) (es : list (imp_entry (T:=R))),
    parse_cells RS P imp_cards cards lats = Ok (cells, skipped) ->
    nth_error (dict_of Z.eqb cards) r = Some (key, (Explicit mat geom, opts)) ->
    opt_imps RS P (option_tokens opts) es -> es <> [] -> Forall (fun e => 0 <= snd e)%R es ->
    (In key skipped <-> forall p, In p (named es) -> last_value p es = Some 0%R).
Proof. exact cell_card_zero_iff. Qed.
Print Assumptions C12_cell_card_zero_iff.

(* the same on the text of the card: options written as words separated by one
   blank or one '=' sign, made of IMP keywords each followed by a number
   (scan_imps collects them) and of words no branch of the keyword dispatch
   reacts to *)
Theorem C12_plain_card_zero_iff :
  forall (P : prims R) (imp_cards : list (string * list string)) (cards : list card)
         (lats : list (Z * list (Z * Z))) (cells : list (Z * cell (T:=R))) (skipped : list Z)
         (r : nat) (key : Z) (mat geom : string) (ws : list (string * ascii)) (last : string)
         (es : list (imp_entry (T:=R))),
    parse_cells RS P imp_cards cards lats = Ok (cells, skipped) ->
    nth_error (dict_of Z.eqb cards) r = Some (key, (Explicit mat geom, join ws last)) ->
    Forall (fun ws => word (fst ws) /\ sep_ok (snd ws)) ws -> word last ->
    scan_imps P (map fst ws ++ [last]) = Some es -> es <> [] -> Forall (fun e => 0 <= snd e)%R es ->
    (In key skipped <-> forall p, In p (named es) -> last_value p es = Some 0%R).
Proof. exact plain_card_zero_iff. Qed.
Print Assumptions C12_plain_card_zero_iff.

(* cells generated by FILL (pot_fill: one copy of the container per cell of the
   filling universe, with the CONTAINER's importance): such a cell passes the
   conversion filter iff its container - a level-0 cell - has non-zero
   importance; nothing of a zero-importance filled cell is converted *)
Theorem C12_generated_converted_iff :
  forall (T : Type) (Sc : Scalar T) (cells : list (Z * cell (T:=T))) (leaf key : Z) (g : cell (T:=T)),
    In (leaf, key, g) (generated cells) ->
    exists c, In (key, c) cells /\ c_u c = 0%Z /\
              (converted Sc g = true <-> is_zero Sc c = false).
Proof. exact @generated_converted_iff. Qed.
Print Assumptions C12_generated_converted_iff.

(* LINKED with C06 (read-only: C06.Model.develop_lattice_with and C06's location
   theorem develop_lattice_located_ranges): a LAT cell c of the C12 model and
   C06's view lc of it (same universe, same FILL array). Under C06's hypotheses
   the development succeeds, there is exactly one element per non-zero array
   entry, every element carries the lattice cell's importance and universe
   (element_cell: what cell_transform copies; C06's model has no importance
   field - that is where the link stops), and an element, or any cell pot_fill
   generates from it, passes the conversion filter iff the lattice cell is a
   level-0 cell of non-zero importance: nothing of a zero-importance lattice is
   converted. *)
Theorem C12_lattice_elements_converted_iff_linked :
  forall (c : cell (T:=R)) (lc : L.lat_cell (T:=R)) (vecs : list (L.vec (T:=R)))
         (bs : list (Z * Z)) (spec : list Z),
  same_lattice c lc bs spec ->
  bs <> [] -> C06.ProofsIndex.wf_bounds bs -> Z.of_nat (List.length spec) = L.size bs ->
  (List.length vecs <= List.length bs)%nat ->
  Forall C06.ProofsIndex.trivial_range (skipn (List.length vecs) bs) ->
  C06.ProofsDevelop.cell_shape_ok lc ->
  exists elems,
    L.develop_lattice_with RS (L.Ok vecs) lc = L.Ok elems /\
    map (L.ne_index (T:=R)) elems
      = map fst (filter C06.ProofsDevelop.nonzero (combine (L.indices bs) spec)) /\
    forall e, In e elems ->
      c_imp (element_cell c e) = c_imp c /\ c_u (element_cell c e) = c_u c /\
      (L.ne_fill e = None ->
       (converted RS (element_cell c e) = true <-> is_zero RS c = false /\ c_u c = 0%Z)) /\
      (forall leaf, converted RS (fill_copy (element_cell c e) leaf) = true
                    <-> is_zero RS c = false /\ c_u c = 0%Z).
Proof. exact lattice_elements_converted_iff. Qed.
Print Assumptions C12_lattice_elements_converted_iff_linked.

(* the writer's test "key in skipped_cells" never fires on a converted cell:
   the two filters agree *)
Theorem C12_conv_keys_not_skipped :
  forall (T : Type) (Sc : Scalar T) (P : prims T) (imp_cards : list (string * list string))
         (cards : list card) (lats : list (Z * list (Z * Z)))
         (cells : list (Z * cell (T:=T))) (skipped : list Z) (key : Z),
    parse_cells Sc P imp_cards cards lats = Ok (cells, skipped) ->
    In key (conv_keys Sc cells) -> ~ In key skipped.
Proof. exact @conv_keys_not_skipped. Qed.
Print Assumptions C12_conv_keys_not_skipped.

(* hence the VOLU lines of the written file (the writer's loop) are exactly the
   cells handed to the conversion *)
Theorem C12_written_volumes :
  forall (T : Type) (Sc : Scalar T) (P : prims T) (imp_cards : list (string * list string))
         (cards : list card) (lats : list (Z * list (Z * Z)))
         (cells : list (Z * cell (T:=T))) (skipped : list Z),
    parse_cells Sc P imp_cards cards lats = Ok (cells, skipped) ->
    written_ids Sc cells skipped = conv_keys Sc cells.
Proof. exact @written_ids_conv_keys. Qed.
Print Assumptions C12_written_volumes.

(* ---- from the text of the cards (Card.content(): comments removed, one blank
   between words) ---- *)

(* an IMP data card  name ++ " " ++ body  (name starts with a letter and holds
   no digit: imp:n, IMP:N,P ...; body starts with the first digit of the first
   entry): the dictionary key is the lower-cased name with its blank, the entries
   are the words of body *)
Theorem C12_imp_card_text : forall name body : string,
  (match name with String c _ => is_letter c = true | EmptyString => False end) ->
  all_chars (fun c => negb (is_digit c)) name = true ->
  (match body with String c _ => is_digit c = true | EmptyString => False end) ->
  hd_fails (Ascii.eqb "*") (snd (span is_digit body)) ->
  String.prefix "imp:" (lstrip (lower (name ++ " "))) = true ->
  imp_cards_of [(name ++ " " ++ body)%string] = Ok [(lower (name ++ " "), split_ws body)].
Proof. exact imp_card_text. Qed.
Print Assumptions C12_imp_card_text.

(* cell cards from their text (cellcard.split: re_options, re_void / re_nonvoid /
   re_likebut, get_cells, LIKE_RE), for ALL cards of these shapes:
     name material geometry options            (void: float(material) = 0)
     name material density geometry options
     name LIKE n BUT options                   (no further "but" in the options)
   name, n = digits; material / density = words without letter or star (the
   density without opening parenthesis); geometry = any text without letter or
   star; the options start with a letter or a star. [nos c] = c is neither. *)
Theorem C12_void_card_text :
  forall (T : Type) (Sc : Scalar T) (P : prims T) (name m G opts : string) (z : T),
    all_digits name = true -> is_empty name = false ->
    all_chars nos m = true -> all_chars nonblank m = true -> is_empty m = false ->
    fl P m = Some z -> seqb Sc z (s0 Sc) = true ->
    all_chars nos G = true -> starts_option opts = true ->
    card_of_text Sc P (name ++ " " ++ m ++ " " ++ G ++ " " ++ opts) =
    Ok (Z.of_N (parse_digits name 0%N),
        (Explicit (" " ++ m)%string (" " ++ G ++ " ")%string, opts)).
Proof. exact @void_card_text. Qed.
Print Assumptions C12_void_card_text.

(* ... and with the options glued to the closing parenthesis that ends the
   geometry, "name material geometry)options" (sep = ")"; sep = " " is the card
   above) *)
Theorem C12_void_card_text_sep :
  forall (T : Type) (Sc : Scalar T) (P : prims T) (sep : ascii) (name m G opts : string) (z : T),
    (sep = " "%char \/ sep = ")"%char) ->
    all_digits name = true -> is_empty name = false ->
    all_chars nos m = true -> all_chars nonblank m = true -> is_empty m = false ->
    fl P m = Some z -> seqb Sc z (s0 Sc) = true ->
    all_chars nos G = true -> starts_option opts = true ->
    card_of_text Sc P (name ++ " " ++ m ++ " " ++ G ++ String sep opts) =
    Ok (Z.of_N (parse_digits name 0%N),
        (Explicit (" " ++ m)%string (" " ++ G ++ String sep "")%string, opts)).
Proof. exact @void_card_text_sep. Qed.
Print Assumptions C12_void_card_text_sep.

Theorem C12_nonvoid_card_text :
  forall (T : Type) (Sc : Scalar T) (P : prims T) (name m rho G opts : string) (z : T),
    all_digits name = true -> is_empty name = false ->
    all_chars nos m = true -> all_chars nonblank m = true -> is_empty m = false ->
    fl P m = Some z -> seqb Sc z (s0 Sc) = false ->
    all_chars nos rho = true -> all_chars (fun c => negb (is_blank c || Ascii.eqb c "(")) rho = true ->
    is_empty rho = false ->
    all_chars nos G = true -> starts_option opts = true ->
    card_of_text Sc P (name ++ " " ++ m ++ " " ++ rho ++ " " ++ G ++ " " ++ opts) =
    Ok (Z.of_N (parse_digits name 0%N),
        (Explicit (" " ++ m ++ " " ++ rho)%string (" " ++ G ++ " ")%string, opts)).
Proof. exact @nonvoid_card_text. Qed.
Print Assumptions C12_nonvoid_card_text.

Theorem C12_nonvoid_card_text_sep :
  forall (T : Type) (Sc : Scalar T) (P : prims T) (sep : ascii) (name m rho G opts : string) (z : T),
    (sep = " "%char \/ sep = ")"%char) ->
    all_digits name = true -> is_empty name = false ->
    all_chars nos m = true -> all_chars nonblank m = true -> is_empty m = false ->
    fl P m = Some z -> seqb Sc z (s0 Sc) = false ->
    all_chars nos rho = true -> all_chars (fun c => negb (is_blank c || Ascii.eqb c "(")) rho = true ->
    is_empty rho = false ->
    all_chars nos G = true -> starts_option opts = true ->
    card_of_text Sc P (name ++ " " ++ m ++ " " ++ rho ++ " " ++ G ++ String sep opts) =
    Ok (Z.of_N (parse_digits name 0%N),
        (Explicit (" " ++ m ++ " " ++ rho)%string (" " ++ G ++ String sep "")%string, opts)).
Proof. exact @nonvoid_card_text_sep. Qed.
Print Assumptions C12_nonvoid_card_text_sep.

Theorem C12_like_card_text :
  forall (T : Type) (Sc : Scalar T) (P : prims T) (name L ds B rest : string),
    all_digits name = true -> is_empty name = false -> lower L = "like" ->
    all_digits ds = true -> is_empty ds = false -> lower B = "but" ->
    split_last_but rest = None ->
    card_of_text Sc P (name ++ " " ++ L ++ " " ++ ds ++ " " ++ B ++ rest) =
    Ok (Z.of_N (parse_digits name 0%N), (Like (Z.of_N (parse_digits ds 0%N)), rest)).
Proof. exact @like_card_text. Qed.
Print Assumptions C12_like_card_text.

(* once the card texts are split (cellcard.split / datacard.split / LIKE_RE,
   model C12/Cards.v, tied on the real card contents), parsing the deck text is
   parse_cells on the split cards: every theorem above applies to deck text *)
Theorem C12_parse_deck_text_split :
  forall (T : Type) (Sc : Scalar T) (P : prims T) (ctexts dtexts : list string)
         (lats : list (Z * list (Z * Z))) (ic : list (string * list string)) (cards : list card),
    imp_cards_of dtexts = Ok ic -> cards_of_texts Sc P ctexts = Ok cards ->
    parse_deck_text Sc P ctexts dtexts lats = parse_cells Sc P ic cards lats.
Proof. exact @parse_deck_text_split. Qed.
Print Assumptions C12_parse_deck_text_split.

(* ---- non-vacuity ---- *)

(* a data card with every kind of shorthand, read and expanded *)
Example C12_example_card :
  let toks := ["1"; "2R"; "i"; "1"; "1m"; "J"] in
  let es := [EVal 1%R; ERep 2; EInt 1 1%R; EMul 1%R; EJump 1] in
  reads wP toks es /\
  exists out, meaning RS (pw wP) es None = Some out /\ List.length out = 7%nat /\
              expand RS wP toks None = Ok (out, 6%nat).
Proof. exact C12_example_card_ok. Qed.

(* a deck inside the hypotheses of C12_data_card_max_zero and
   C12_cell_card_zero_iff: two IMP cards with shorthand, a cell with an inert
   keyword, a cell with U=1 and IMP keywords *)

Example C12_example_deck :
  NoDup (map fst example_imp_cards) /\
  cards_read RS wP example_imp_cards [[1; 0; 0]; [0; 0; 1]]%R /\
  opt_imps RS wP (option_tokens "vol=1") [] /\
  opt_imps RS wP (option_tokens "u=1 imp:n=0 imp:p=1") [(["n"], 0%R); (["p"], 1%R)] /\
  exists cells, parse_cells RS wP example_imp_cards example_cards [] = Ok (cells, [20%Z]) /\
                conv_keys RS cells = [10%Z].
Proof. exact C12_example_deck_ok. Qed.

(* the hypotheses of C12_chain_zero_iff on "2 LIKE 1 BUT IMP:N=0" with
   "1 0 -1 IMP:N=1": the chain resolves to the base options followed by the BUT
   options, the entries are n:1 then n:0, the last one for n is 0, and the model
   skips cell 2 (the former defect like_but_imp_max, repaired by 0b05eba) *)
Example C12_example_like :
  resolve_like (S (List.length (dict_of Z.eqb like_deck))) (dict_of Z.eqb like_deck) (Like 1) "imp:n=0"
  = Ok ("0", "-1", "imp:n=1 imp:n=0") /\
  opt_imps RS wP (option_tokens "imp:n=1 imp:n=0") [(["n"], 1%R); (["n"], 0%R)] /\
  last_value "n" [(["n"], 1%R); (["n"], 0%R)] = Some 0%R /\
  exists cells, parse_cells RS wP [] like_deck [] = Ok (cells, [2%Z]) /\
                conv_keys RS cells = [1%Z; 3%Z].
Proof. exact C12_example_like_ok. Qed.

(* "1 0 -1 IMP:N=1 NONU=1": NONU is not U (the former defect
   keyword_with_u_read_as_universe, repaired by f85f992): the cell is converted *)
Example C12_example_nonu :
  exists cells, parse_cells RS wP [] nonu_deck [] = Ok (cells, []) /\
                conv_keys RS cells = [1%Z; 2%Z].
Proof. exact nonu_deck_converted. Qed.

(* the hypotheses of C12_option_tokens_words on "imp:n=0 vol 3.5" *)
Example C12_example_words :
  let ws := [("imp:n", "="%char); ("0", " "%char); ("vol", " "%char)] in
  Forall (fun ws => word (fst ws) /\ sep_ok (snd ws)) ws /\ word "3.5" /\
  join ws "3.5" = "imp:n=0 vol 3.5" /\
  option_tokens "imp:n=0 vol 3.5" = ["imp:n"; "0"; "vol"; "3.5"].
Proof. exact C12_example_words_ok. Qed.

(* the hypotheses of C12_like_written_zero_iff on cell 2 of the LIKE deck *)
Example C12_example_like_written :
  chain_cards (S (List.length (dict_of Z.eqb like_deck))) (dict_of Z.eqb like_deck) (Like 1) = Ok ["imp:n=1"] /\
  Forall (fun c => clean_opts (snd (snd c))) (dict_of Z.eqb like_deck) /\
  Forall2 (fun o es => scan_imps wP (option_tokens o) = Some es) (rev ["imp:n=1"] ++ ["imp:n=0"])
          [[(["n"], 1%R)]; [(["n"], 0%R)]].
Proof. exact C12_example_like_written_ok. Qed.

(* a card with logarithmic interpolation: the hypotheses of C12_expand_shorthand
   for an nLOG entry are satisfiable *)
Example C12_example_log :
  let toks := ["1"; "1LOG"; "1"; "1ilog"; "1"] in
  let es := [EVal 1%R; ELog 1 1%R; ELog 1 1%R] in
  reads wP toks es /\ exists out, meaning RS (pw wP) es None = Some out /\ List.length out = 5%nat.
Proof. exact C12_example_log_ok. Qed.

(* the LIKE deck from the text of its cards: split, parsed, cell 2 skipped *)
Example C12_example_deck_text :
  let ctexts := ["1 0 -1 imp:n=1"; "2 like 1 but imp:n=0"; "3 0 1 imp:n=1"] in
  let dtexts := ["imp:p 1 0 1"; "nps 1"] in
  let cards := [ (1%Z, (Explicit " 0" " -1 ", "imp:n=1")); (2%Z, (Like 1, " imp:n=0"));
                 (3%Z, (Explicit " 0" " 1 ", "imp:n=1")) ] in
  imp_cards_of dtexts = Ok [("imp:p ", ["1"; "0"; "1"])] /\
  cards_of_texts RS wP ctexts = Ok cards /\
  exists cells, parse_deck_text RS wP ctexts dtexts [] = Ok (cells, [2%Z]) /\
                conv_keys RS cells = [1%Z; 3%Z].
Proof. exact C12_example_deck_text_ok. Qed.

(* the hypotheses of C12_like_written_local_zero_iff with a TRCL on the base card *)
Example C12_example_like_trcl :
  loc_imps RS wP (option_tokens "imp:n=1 trcl=(1 0 0)") [(["n"], 1%R)] /\
  loc_imps RS wP (option_tokens "imp:n=0") [(["n"], 0%R)] /\
  hd_not_num (option_tokens "imp:n=0").
Proof. exact C12_example_like_trcl_ok. Qed.
