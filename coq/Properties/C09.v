(* C09 — placeholder, theorems follow *)
From Coq Require Import List NArith ZArith Bool String Ascii.
From T4V Require Import Base.Str C09.Model.
