(* C09 — each volume gets the material and density of the owning MCNP cell.
   Only restatements; the proofs are in C09/ProofsNorm.v, ProofsFill.v,
   ProofsComp.v; the model functions (normalize_float, parse_material,
   pot_fill, treat_fill, geomcomp, comp_names) are those of C09/Model.v that
   the correspondence ties execute against the Python code. *)
From Coq Require Import List NArith ZArith QArith Qpower Bool String Ascii.
From T4V Require Import Base.Str C09.Model C09.Spec C09.ProofsNorm C09.ProofsIdem C09.ProofsValue C09.ProofsLike C09.ProofsFill C09.ProofsComp C09.ProofsWrite C09.ProofsSign.
Import ListNotations.
Open Scope string_scope.

(* ------------------------------------------------------------------------ *)
(* spellings of one density                                                  *)
(* ------------------------------------------------------------------------ *)

(* For every number (sign, integer digits, optional fraction, optional
   exponent; at least one mantissa digit): its spellings with any exponent
   marker E/e/D/d/none-before-a-sign and any count of zeros padded to the
   fraction — with or without exponent — all normalise to one string, given
   explicitly: the fraction without its final zeros ("0" kept when nothing is
   left and the number has no exponent or no integer digit), marker e. *)
Example C09_normal_form_unfold : forall n,
  normal_form n =
  match n_exp n with
  | None => n_sign n ++ n_int n ++
            match n_frac n with Some f => "." ++ canon_frac f | None => "" end
  | Some (es, ed) => n_sign n ++ n_int n ++
            match n_frac n with Some f => "." ++ keep_frac (n_int n) f | None => "" end ++
            "e" ++ es ++ ed
  end.
Proof. intros. reflexivity. Qed.

Theorem C09_normalize_float_normal_form : forall (n : number) (pad : nat) (m : marker),
  wf_number n = true -> marker_ok n m = true ->
  normalize_float (spell n pad m) = Ok (normal_form n).
Proof. exact norm_spell. Qed.
Print Assumptions C09_normalize_float_normal_form.

Theorem C09_normalize_float_classes : forall (n : number) (p1 : nat) (m1 : marker) (p2 : nat) (m2 : marker),
  wf_number n = true -> marker_ok n m1 = true -> marker_ok n m2 = true ->
  normalize_float (spell n p1 m1) = normalize_float (spell n p2 m2) /\
  exists s, normalize_float (spell n p1 m1) = Ok s.
Proof. exact normalize_float_classes. Qed.
Print Assumptions C09_normalize_float_classes.

Example C09_classes_nontrivial :
  let n := mkNumber "-" "6" (Some "40875") (Some ("-", "2")) in
  wf_number n = true /\ marker_ok n Mnone = true /\ marker_ok n MD = true /\
  spell n 0 Mnone = "-6.40875-2" /\ spell n 3 MD = "-6.40875000D-2" /\
  normalize_float (spell n 3 MD) = Ok "-6.40875e-2" /\
  let n' := mkNumber "" "1" (Some "") None in
  wf_number n' = true /\ spell n' 0 Me = "1." /\ spell n' 2 Me = "1.00" /\
  normalize_float (spell n' 2 Me) = Ok "1.0" /\
  let n'' := mkNumber "" "" (Some "0") (Some ("", "5")) in
  wf_number n'' = true /\ spell n'' 2 Me = ".000e5" /\ normalize_float (spell n'' 2 Me) = Ok ".0e5".
Proof. vm_compute. repeat split. Qed.

(* what normalize_float does NOT identify (the property text only names
   trailing zeros and Fortran exponent forms): a missing point, leading zeros
   or a missing integer part, an explicit '+', the spelling of the exponent,
   a shifted point; the last four lines are pairs that do collapse *)
Theorem C09_normalize_float_kept_distinct :
  normalize_float "1" <> normalize_float "1.0" /\
  normalize_float "1e5" <> normalize_float "1.e5" /\
  normalize_float "01.5" <> normalize_float "1.5" /\
  normalize_float ".5" <> normalize_float "0.5" /\
  normalize_float "+1.5" <> normalize_float "1.5" /\
  normalize_float "1.5e5" <> normalize_float "1.5e+5" /\
  normalize_float "1.5e5" <> normalize_float "1.5e05" /\
  normalize_float "15" <> normalize_float "1.5e1" /\
  normalize_float "1." = normalize_float "1.00" /\
  normalize_float "1.0e5" = normalize_float "1.D5" /\
  normalize_float ".50-3" = normalize_float ".5E-3" /\
  normalize_float ".0e5" = normalize_float ".000d5".
Proof. exact normalize_float_kept_distinct. Qed.
Print Assumptions C09_normalize_float_kept_distinct.

(* normalised densities are fixed points: normalising again (as
   constructCompositionT4 does with the stored density) changes nothing *)
Theorem C09_normal_form_fixed : forall (n : number),
  wf_number n = true -> normalize_float (normal_form n) = Ok (normal_form n).
Proof. exact normal_form_fixed. Qed.
Print Assumptions C09_normal_form_fixed.

(* the value is kept: the normalised string is the e-spelling (no padding) of a
   number with the same sign, integer digits and exponent whose rational value
   (sign * mantissa digits * 10^(exponent - fraction length)) equals that of
   the number spelled in the deck *)
Example C09_number_value_unfold : forall n,
  number_value n =
  (sign_Q (n_sign n) * inject_Z (digits_Z (n_int n ++ frac_digits n)) *
   Qpower (10 # 1) (exp_Z (n_exp n) - Z.of_nat (String.length (frac_digits n))))%Q.
Proof. intros. reflexivity. Qed.

Theorem C09_normalize_float_value : forall (n : number) (pad : nat) (m : marker),
  wf_number n = true -> marker_ok n m = true ->
  exists n', normalize_float (spell n pad m) = Ok (spell n' 0 Me) /\
             wf_number n' = true /\ (number_value n' == number_value n)%Q /\
             n_sign n' = n_sign n /\ n_int n' = n_int n /\ n_exp n' = n_exp n.
Proof. exact normalize_float_value. Qed.
Print Assumptions C09_normalize_float_value.

Example C09_value_nontrivial :
  (number_value (mkNumber "-" "1" (Some "135") (Some ("+", "1"))) == (-1135 # 100))%Q /\
  (number_value (mkNumber "" "" (Some "0500") None) == (5 # 100))%Q.
Proof. split; vm_compute; reflexivity. Qed.

(* float-free and exact: two spellings of well-formed numbers get the same
   normalised string IFF they spell the same canonical number (same sign
   string, integer digits and exponent string, same fraction up to its final
   zeros — canon_number); hence numerically different densities never share a
   name, and equal names mean equal values *)
Example C09_canon_number_unfold : forall n,
  canon_number n =
  match n_exp n, n_frac n with
  | None, Some f => mkNumber (n_sign n) (n_int n) (Some (canon_frac f)) (n_exp n)
  | Some _, Some f => mkNumber (n_sign n) (n_int n) (Some (keep_frac (n_int n) f)) (n_exp n)
  | _, None => n
  end.
Proof. intros. reflexivity. Qed.

Theorem C09_same_name_iff :
  forall (n1 : number) (p1 : nat) (m1 : marker) (n2 : number) (p2 : nat) (m2 : marker),
  wf_number n1 = true -> marker_ok n1 m1 = true -> wf_number n2 = true -> marker_ok n2 m2 = true ->
  (normalize_float (spell n1 p1 m1) = normalize_float (spell n2 p2 m2) <->
   canon_number n1 = canon_number n2).
Proof. exact same_name_iff. Qed.
Print Assumptions C09_same_name_iff.

Theorem C09_different_values_different_names :
  forall (n1 : number) (p1 : nat) (m1 : marker) (n2 : number) (p2 : nat) (m2 : marker),
  wf_number n1 = true -> marker_ok n1 m1 = true -> wf_number n2 = true -> marker_ok n2 m2 = true ->
  ~ (number_value n1 == number_value n2)%Q ->
  normalize_float (spell n1 p1 m1) <> normalize_float (spell n2 p2 m2).
Proof. exact different_values_different_names. Qed.
Print Assumptions C09_different_values_different_names.

(* for ALL strings (no assumption on the token): what normalize_float returns
   is a fixed point; hence whatever density parse_material stores satisfies the
   hypothesis [dens_normal] of C09_compositions_exact below *)
Theorem C09_normalize_float_idempotent : forall s n : string,
  normalize_float s = Ok n -> normalize_float n = Ok n.
Proof. exact normalize_float_idempotent. Qed.
Print Assumptions C09_normalize_float_idempotent.

Theorem C09_parse_material_density_fixed : forall (toks : list string) (m d : string),
  parse_material toks = Ok (m, Some d) -> normalize_float d = Ok d.
Proof. exact parse_material_density_fixed. Qed.
Print Assumptions C09_parse_material_density_fixed.

(* the (material, density) pair stored in a cell is the same for all spellings
   of a class *)
Theorem C09_parse_material_classes :
  forall (mat : string) (z : Z) (n : number) (p1 : nat) (m1 : marker) (p2 : nat) (m2 : marker)
         (rest1 rest2 : list string),
  int_of_token mat = Some z -> z <> 0%Z ->
  wf_number n = true -> marker_ok n m1 = true -> marker_ok n m2 = true ->
  parse_material (mat :: spell n p1 m1 :: rest1) = Ok (mat, Some (normal_form n)) /\
  parse_material (mat :: spell n p2 m2 :: rest2) = parse_material (mat :: spell n p1 m1 :: rest1).
Proof. exact parse_material_classes. Qed.
Print Assumptions C09_parse_material_classes.

(* LIKE n BUT RHO=: the density keyword is stored exactly like the same spelling
   on a cell card, so the classes above carry over to LIKE n BUT cells (material
   number other than 0) *)
Theorem C09_like_but_rho :
  forall (toks : list string) (m0 : string) (d0 kmat : option string) (n : number) (pad : nat) (m : marker) (z : Z),
  parse_material toks = Ok (m0, d0) -> wf_number n = true -> marker_ok n m = true ->
  int_of_token (match kmat with Some x => x | None => m0 end) = Some z -> z <> 0%Z ->
  cell_material toks kmat (Some (spell n pad m)) =
    Ok (match kmat with Some x => x | None => m0 end, Some (normal_form n)).
Proof. exact cell_material_rho. Qed.
Print Assumptions C09_like_but_rho.

(* LIKE n BUT MAT=0 (any spelling of 0) gives a void cell WITHOUT density,
   whatever the base cell and whatever RHO= says; with C09_geomcomp_lines its
   volumes go to the line m0 *)
Theorem C09_like_but_void :
  forall (toks : list string) (m0 : string) (d0 : option string) (kmat : string) (krho : option string),
  parse_material toks = Ok (m0, d0) -> int_of_token kmat = Some 0%Z ->
  (forall r, krho = Some r -> exists nr, normalize_float r = Ok nr) ->
  cell_material toks (Some kmat) krho = Ok (kmat, None).
Proof. exact cell_material_void. Qed.
Print Assumptions C09_like_but_void.

Example C09_like_but_void_nontrivial :
  cell_material ["1"; "-1.0"] (Some "0") None = Ok ("0", None) /\
  geomcomp_lines [(2%Z, mkVol false [])] [(2%Z, mkCell "0" None 1 0 None [])] = Ok [("m0", 1%N, [2%Z])].
Proof. vm_compute. split; reflexivity. Qed.

(* LIKE chains (parse_one_cell): [chain_of] is the path of option lists from the
   base card to the cell; the LIKE loop hands parse_one_cell_worker the base
   card's material tokens and the LAST MAT= and the LAST RHO= met along that
   path — an override written on an intermediate card reaches every later copy
   unless a later card overrides it again *)
Theorem C09_like_chain_last_wins :
  forall (fuel : nat) (cards : idict card) (c : card) (toks : list string) (ch : list (list opt)),
  chain_of fuel cards c = Ok (toks, ch) ->
  card_material fuel cards c =
    cell_material toks (last_some (map (fun o => kw_mat o None) ch))
                       (last_some (map (fun o => kw_rho o None) ch)).
Proof. exact like_chain_last_wins. Qed.
Print Assumptions C09_like_chain_last_wins.

(* one hop, whatever is behind the model cell: own entries win, the rest is
   inherited from what the model cell resolved to *)
Theorem C09_like_inherits :
  forall (fuel : nat) (cards : idict card) (n : Z) (o : list opt) (c' : card) (toks : list string) (o' : list opt),
  ilookup n cards = Some c' -> like_resolve fuel cards c' = Ok (toks, o') ->
  card_material (S fuel) cards (Like n o) =
    cell_material toks
      (match kw_mat o None with Some x => Some x | None => kw_mat o' None end)
      (match kw_rho o None with Some x => Some x | None => kw_rho o' None end).
Proof. exact like_inherits. Qed.
Print Assumptions C09_like_inherits.

(* the regression seeded by the lead, on the model: cell 4 LIKE 3 (no own
   MAT/RHO), cell 3 LIKE 2 BUT MAT=2 RHO=-7.8: cell 4 keeps material 2 *)
Example C09_like_chain_nontrivial :
  let cards := [(2, Plain ["1"; "-1.0"] [OOther]); (3, Like 2 [OMat "2"; ORho "-7.80"; OOther]);
                (4, Like 3 [OOther]); (5, Like 4 [ORho "-7.9"])]%Z in
  card_material 5 cards (Like 3 [OOther]) = Ok ("2", Some "-7.8") /\
  card_material 5 cards (Like 4 [ORho "-7.9"]) = Ok ("2", Some "-7.9") /\
  chain_of 5 cards (Like 4 [ORho "-7.9"]) =
    Ok (["1"; "-1.0"], [[OOther]; [OMat "2"; ORho "-7.80"; OOther]; [OOther]; [ORho "-7.9"]]).
Proof. vm_compute. repeat split. Qed.

(* ------------------------------------------------------------------------ *)
(* provenance: the filler, not the container                                 *)
(* ------------------------------------------------------------------------ *)

(* [finished d0 d' k]: cell k of the final dictionary has no fill; the head of
   its provenance (first component of the first pair of idorigin, or k itself
   when idorigin is empty) is a cell L of the parsed dictionary without fill,
   and k carries L's material and density; a cell that was not in the parsed
   dictionary has a non-empty idorigin. *)
Example C09_finished_unfold : forall d0 d' k,
  finished d0 d' k <->
  exists c L, lookup k d' = Some c /\ c_fill c = None /\
              lookup (origin_head k c) d0 = Some L /\ c_fill L = None /\
              c_mat c = c_mat L /\ c_dens c = c_dens L /\
              (lookup k d0 = None -> c_origin c <> []).
Proof. intros. reflexivity. Qed.

(* For every dictionary of parsed cells (no provenance yet, keys below the
   first free key) and every nesting shape (any depth, any number of cells per
   universe, universes used several times): if pot_fill returns — [fuel] only
   bounds the recursion depth; running out of it is Python's RecursionError
   for universes that fill each other — then the provenance heads of the cells
   it returns are, in order, the leaves of the FILL tree below [key]
   (Spec.leaves: the cells owning points at the lowest universe level), every
   returned cell is [finished], and the parsed cells are untouched. *)
Theorem C09_pot_fill_provenance : forall (fuel : nat) (d0 : dict cell) (next key : Z) (st' : state) (ks : list Z),
  pristine d0 -> (forall k, lookup k d0 <> None -> (k <= next)%Z) -> lookup key d0 <> None ->
  pot_fill fuel (by_universe d0) (d0, next) key = Ok (st', ks) ->
  leaves fuel (by_universe d0) d0 key = Ok (map (head_of (fst st')) ks) /\
  Forall (finished d0 (fst st')) ks /\
  (forall k c, lookup k d0 = Some c -> lookup k (fst st') = Some c).
Proof. exact pot_fill_provenance. Qed.
Print Assumptions C09_pot_fill_provenance.

(* the same for the loop of construct_volume_t4 over all level-0 cells with a
   fill, threading the dictionary and the key counter *)
Theorem C09_provenance_head_is_leaf : forall (fuel : nat) (d0 : dict cell) (next : Z) (st' : state) (ks : list Z),
  pristine d0 -> (forall k, lookup k d0 <> None -> (k <= next)%Z) ->
  treat_fill fuel d0 next = Ok (st', ks) ->
  flat_map_res (leaves fuel (by_universe d0) d0) (fill_keys d0) = Ok (map (head_of (fst st')) ks) /\
  Forall (finished d0 (fst st')) ks /\
  (forall k c, lookup k d0 = Some c -> lookup k (fst st') = Some c).
Proof. exact provenance_head_is_leaf. Qed.
Print Assumptions C09_provenance_head_is_leaf.

(* the condition "treat_fill returns" holds whenever the universe nesting is
   acyclic (a rank on universes decreasing along FILL) and the fuel exceeds the
   ranks: with C09_provenance_head_is_leaf the conclusion is then unconditional *)
Theorem C09_treat_fill_total : forall (d0 : dict cell) (rank : Z -> nat),
  NoDup (map fst d0) -> pristine d0 ->
  (forall k c u, lookup k d0 = Some c -> c_fill c = Some u -> (rank u < rank (c_univ c))%nat) ->
  forall (fuel : nat) (next : Z),
  (forall k, lookup k d0 <> None -> (k <= next)%Z) ->
  (forall k c, lookup k d0 = Some c -> (rank (c_univ c) < fuel)%nat) ->
  exists r, treat_fill fuel d0 next = Ok r.
Proof. exact treat_fill_total. Qed.
Print Assumptions C09_treat_fill_total.

(* a two-level hierarchy: cell 1 (void container) filled with universe 1 =
   {cell 2 filled with universe 2, cell 3}, universe 2 = {cell 4}: the new
   level-0 cells carry the material of cells 4 and 3 *)
Example C09_provenance_nontrivial :
  let d0 := [(1, mkCell "0" None 1 0 (Some 1) []); (2, mkCell "0" None 1 1 (Some 2) []);
             (3, mkCell "2" (Some "-7.8") 1 1 None []); (4, mkCell "1" (Some "-1.0") 1 2 None [])]%Z in
  pristine d0 /\ (forall k, lookup k d0 <> None -> (k <= 4)%Z) /\
  exists st' ks, treat_fill 5 d0 4 = Ok (st', ks) /\ ks = [6; 7]%Z /\
    map (head_of (fst st')) ks = [4; 3]%Z /\
    lookup 6%Z (fst st') = Some (mkCell "1" (Some "-1.0") 1 0 None [(4, 2); (4, 1)]%Z).
Proof.
  cbv zeta. split; [|split].
  - intros k c H. simpl in H.
    repeat match type of H with (if ?b then _ else _) = _ => destruct b end;
      try discriminate; inversion H; reflexivity.
  - intros k H. simpl in H.
    destruct (k =? 1)%Z eqn:E1; [apply Z.eqb_eq in E1; subst; discriminate|].
    destruct (k =? 2)%Z eqn:E2; [apply Z.eqb_eq in E2; subst; discriminate|].
    destruct (k =? 3)%Z eqn:E3; [apply Z.eqb_eq in E3; subst; discriminate|].
    destruct (k =? 4)%Z eqn:E4; [apply Z.eqb_eq in E4; subst; discriminate|].
    now elim H.
  - eexists. eexists. split; [vm_compute; reflexivity|]. repeat split.
Qed.

(* lattices: [element_of c univs c']: c' is a copy of the lattice cell c (same
   material, density, importance, universe, provenance) that has no fill when
   its array entry names the lattice's own universe and is filled with the
   entry otherwise *)
Example C09_element_of_unfold : forall c univs c',
  element_of c univs c' <->
  c_mat c' = c_mat c /\ c_dens c' = c_dens c /\ c_imp c' = c_imp c /\ c_univ c' = c_univ c /\
  c_origin c' = c_origin c /\
  (c_fill c' = None /\ In (c_univ c) univs \/
   exists u, c_fill c' = Some u /\ u <> c_univ c /\ u <> 0%Z /\ In u univs).
Proof. intros. reflexivity. Qed.

(* develop_lattice on a dictionary of parsed cells (distinct keys): the lattice
   cell is replaced by one element per non-zero array entry, in order; an
   element of the lattice's own universe is a plain cell of the lattice cell's
   material (a leaf for pot_fill), the other cells are untouched, and the
   result satisfies the hypotheses of C09_provenance_head_is_leaf again *)
Theorem C09_lattice_elements : forall (d : dict cell) (next key : Z) (univs : list Z) (c : cell) (d' : dict cell) (n : Z),
  NoDup (map fst d) -> pristine d -> fresh (d, next) -> lookup key d = Some c ->
  develop_lattice (d, next) key univs = Ok (d', n) ->
  pristine d' /\ fresh (d', n) /\ lookup key d' = None /\
  (forall k, k <> key -> forall x, lookup k d = Some x -> lookup k d' = Some x) /\
  (forall k c', lookup k d' = Some c' ->
     lookup k d = Some c' \/ (lookup k d = None /\ (next < k <= n)%Z /\ element_of c univs c')) /\
  (exists l, d' = remove_key key (d ++ l)%list /\
     map (fun kc => c_fill (snd kc)) l =
       map (fun u => if (u =? c_univ c)%Z then None else Some u) (filter (fun u => negb (u =? 0)%Z) univs)).
Proof. exact develop_lattice_spec. Qed.
Print Assumptions C09_lattice_elements.

(* lattice and fill composed: after develop_lattice of cell [key] and the "treat
   FILL" loop, the leaf at the head of a returned cell's chain is either a parsed
   cell other than the lattice cell (whose material/density the returned cell
   carries) or an element cell of the lattice — an array entry naming the
   lattice's own universe — and then the returned cell carries the material and
   density of the lattice cell itself *)
Theorem C09_lattice_leaf_material :
  forall (d : dict cell) (next key : Z) (univs : list Z) (c : cell) (d1 : dict cell) (n1 : Z)
         (fuel : nat) (st' : state) (ks : list Z),
  NoDup (map fst d) -> pristine d -> fresh (d, next) -> lookup key d = Some c ->
  develop_lattice (d, next) key univs = Ok (d1, n1) ->
  treat_fill fuel d1 n1 = Ok (st', ks) ->
  Forall (fun k => exists ck, lookup k (fst st') = Some ck /\ c_fill ck = None /\
            let h := head_of (fst st') k in
            (forall L, lookup h d = Some L ->
               h <> key /\ c_fill L = None /\ c_mat ck = c_mat L /\ c_dens ck = c_dens L) /\
            (lookup h d = None ->
               (next < h <= n1)%Z /\ c_mat ck = c_mat c /\ c_dens ck = c_dens c)) ks.
Proof. exact lattice_leaf_material. Qed.
Print Assumptions C09_lattice_leaf_material.

(* cell 1 (void) filled with universe 1 = the lattice cell 2 of material 3
   whose array is [1; 5; 0; 1] (own universe twice, universe 5 once), universe
   5 = {cell 3 of material 1}: three new level-0 cells, two of material 3 (the
   lattice cell's) and one of material 1 *)
Example C09_lattice_nontrivial :
  let d0 := [(1, mkCell "0" None 1 0 (Some 1) []); (2, mkCell "3" (Some "-2.7") 1 1 None []);
             (3, mkCell "1" (Some "-1.0") 1 5 None [])]%Z in
  exists d1 n1 st' ks, develop_lattice (d0, 3%Z) 2%Z [1; 5; 0; 1]%Z = Ok (d1, n1) /\
    treat_fill 5 d1 n1 = Ok (st', ks) /\ ks = [8; 9; 10]%Z /\
    map (fun k => match lookup k (fst st') with Some c => (c_mat c, c_dens c) | None => ("?", None) end) ks =
      [("3", Some "-2.7"); ("1", Some "-1.0"); ("3", Some "-2.7")].
Proof. cbv zeta. do 4 eexists. split; [vm_compute; reflexivity|]. split; [vm_compute; reflexivity|]. split; reflexivity. Qed.

(* ------------------------------------------------------------------------ *)
(* GEOMCOMP                                                                  *)
(* ------------------------------------------------------------------------ *)

(* [member g n k]: volume k is listed on the GEOMCOMP line of name n;
   [attached vols cells n k]: k is an emitted non-virtual volume and n is
   material_name z c (= decimal spelling of the material NUMBER z = int(token),
   '_' and density unless void) of the cell c at the head of the volume's
   provenance *)
Example C09_member_unfold : forall g n k,
  member g n k <-> exists l, In (n, l) g /\ In k l.
Proof. intros. reflexivity. Qed.
Example C09_attached_unfold : forall vols cells n k,
  attached vols cells n k <->
  exists v c z, In (k, v) vols /\ v_fictive v = false /\
                lookup (vol_source k v) cells = Some c /\ int_of_token (c_mat c) = Some z /\
                n = material_name z c.
Proof. intros. reflexivity. Qed.

Theorem C09_geomcomp_name : forall (vols : dict vol) (cells : dict cell) (g : list (string * list Z)),
  geomcomp vols cells = Ok g ->
  (forall k v, In (k, v) vols -> v_fictive v = false ->
     exists c z, lookup (vol_source k v) cells = Some c /\ int_of_token (c_mat c) = Some z /\
                 member g (material_name z c) k) /\
  (forall n k, member g n k -> attached vols cells n k) /\
  NoDup (map fst g) /\ Forall (fun nl => snd nl <> []) g.
Proof. exact geomcomp_name. Qed.
Print Assumptions C09_geomcomp_name.

(* with distinct volume numbers a volume is on one line only *)
Theorem C09_geomcomp_one_line : forall (vols : dict vol) (cells : dict cell) (g : list (string * list Z)),
  geomcomp vols cells = Ok g -> NoDup (map fst vols) ->
  forall n n' k, member g n k -> member g n' k -> n = n'.
Proof. exact geomcomp_one_line. Qed.
Print Assumptions C09_geomcomp_one_line.

(* the written lines: 'm' + name, number of volumes, the volumes; a void cell
   gives its material number alone (m0 for every spelling of 0) *)
Theorem C09_geomcomp_lines : forall (vols : dict vol) (cells : dict cell) (lines : list (string * N * list Z)),
  geomcomp_lines vols cells = Ok lines ->
  (exists g, geomcomp vols cells = Ok g /\
             lines = map (fun nl => ("m" ++ fst nl, N.of_nat (List.length (snd nl)), snd nl)) g) /\
  (forall z c, c_dens c = None -> material_name z c = dec_Z z) /\
  (forall z c d, c_dens c = Some d -> material_name z c = dec_Z z ++ "_" ++ d).
Proof.
  intros vols cells lines H. split; [exact (geomcomp_lines_spec vols cells lines H)|].
  split; [exact material_name_void | exact material_name_dens].
Qed.
Print Assumptions C09_geomcomp_lines.

Example C09_geomcomp_nontrivial :
  let cells := [(1, mkCell "01" (Some "-1.0") 1 0 None []); (2, mkCell "00" None 1 0 None []);
                (4, mkCell "+1" (Some "-2.5") 1 2 None [])]%Z in
  let vols := [(1, mkVol false []); (2, mkVol false []); (9, mkVol true []);
               (7, mkVol false [(4, 2); (4, 1)])]%Z in
  geomcomp_lines vols cells = Ok [("m1_-1.0", 1%N, [1%Z]); ("m0", 1%N, [2%Z]); ("m1_-2.5", 1%N, [7%Z])].
Proof. vm_compute. reflexivity. Qed.

(* provenance and GEOMCOMP together: the volumes of the cells returned by the
   "treat FILL" loop (a volume carries its cell's idorigin) are attached to the
   composition named after the LEAF at the head of the chain: a parsed cell
   without fill, i.e. the filler at the lowest level, not a container *)
Theorem C09_volume_gets_leaf_material :
  forall (fuel : nat) (d0 : dict cell) (next : Z) (st' : state) (ks : list Z)
         (vols : dict vol) (g : list (string * list Z)),
  pristine d0 -> (forall k, lookup k d0 <> None -> (k <= next)%Z) ->
  treat_fill fuel d0 next = Ok (st', ks) ->
  (forall k v, In (k, v) vols -> v_fictive v = false ->
     In k ks /\ exists c, lookup k (fst st') = Some c /\ v_origin v = c_origin c) ->
  geomcomp vols (fst st') = Ok g ->
  forall k v, In (k, v) vols -> v_fictive v = false ->
    exists L z, lookup (head_of (fst st') k) d0 = Some L /\ c_fill L = None /\
                int_of_token (c_mat L) = Some z /\ member g (material_name z L) k.
Proof. exact volume_gets_leaf_material. Qed.
Print Assumptions C09_volume_gets_leaf_material.

(* ------------------------------------------------------------------------ *)
(* COMPOSITION names                                                         *)
(* ------------------------------------------------------------------------ *)

(* [asks key cells d]: some live level-0 cell without fill (importance > 0)
   has material number key and stored density string d;
   [dens_normal cells]: the stored densities are fixed points of
   normalize_float (true of everything parse_material stores, by
   C09_normal_form_fixed, for well-formed numbers) *)
Example C09_asks_unfold : forall key cells d,
  asks key cells d <->
  exists k c, In (k, c) cells /\ live c = true /\ int_of_token (c_mat c) = Some key /\ c_dens c = Some d.
Proof. intros. reflexivity. Qed.

(* one composition per distinct density string of the live cells of the
   material, nothing else, no name twice *)
Theorem C09_compositions_exact : forall (key : Z) (cells : dict cell) (l : list string),
  comp_names key cells = Ok l -> dens_normal cells ->
  (forall name, In name l <-> exists d, asks key cells d /\ name = comp_prefix key ++ d) /\
  NoDup l.
Proof. exact comp_names_spec. Qed.
Print Assumptions C09_compositions_exact.

(* cells of one material number: numerically different densities (under any
   reading [value] of the stored strings) give different GEOMCOMP / COMPOSITION
   names, equal stored strings give the same name *)
Theorem C09_compositions_distinct : forall (X : Type) (value : string -> X) (z : Z) (c1 c2 : cell) (d1 d2 : string),
  c_dens c1 = Some d1 -> c_dens c2 = Some d2 ->
  (value d1 <> value d2 -> material_name z c1 <> material_name z c2) /\
  (d1 = d2 -> material_name z c1 = material_name z c2).
Proof. exact compositions_distinct. Qed.
Print Assumptions C09_compositions_distinct.

(* the name GEOMCOMP uses for a live cell is the name of an emitted composition,
   for every spelling of the material number that int() accepts (01, +1, ...) *)
Theorem C09_geomcomp_name_has_composition :
  forall (key : Z) (cells : dict cell) (l : list string) (k : Z) (c : cell) (d : string),
  comp_names key cells = Ok l -> dens_normal cells ->
  In (k, c) cells -> live c = true -> int_of_token (c_mat c) = Some key ->
  c_dens c = Some d ->
  In ("m" ++ material_name key c) l.
Proof. exact geomcomp_name_has_composition. Qed.
Print Assumptions C09_geomcomp_name_has_composition.

(* what writeT4Composition writes (write_compositions, tied byte for byte): for
   every material card, in card order, one block per stored density that a live
   level-0 cell of that material asks for ([dss]: per card the densities, each
   once); the count line is the number of these (card, density) pairs plus one
   for m0, and equals the number of blocks written plus one; then the m0 block *)
Example C09_blocks_of_unfold : forall mc r ds t pw,
  blocks_of (mc :: r) (ds :: t) pw = (map (block_text mc pw) ds ++ blocks_of r t pw)%list.
Proof. intros. reflexivity. Qed.

Theorem C09_write_compositions :
  forall (mcs : list mcard) (cells : dict cell) (pw : list (string * list (string * string))) (text : string),
  write_compositions mcs cells pw = Ok text -> dens_normal cells ->
  exists dss,
    Forall2 (fun mc ds => NoDup ds /\ forall d, In d ds <-> asks (k_key mc) cells d) mcs dss /\
    text = nl ++ "COMPOSITION" ++ nl ++ dec (N.of_nat (List.length (List.concat dss)) + 1) ++ nl ++
           concat_str (blocks_of mcs dss pw) ++
           "POINT_WISE 300 m0 1" ++ nl ++ "  HE4 1E-30" ++ nl ++ nl ++ "END_COMPOSITION" ++ nl /\
    List.length (blocks_of mcs dss pw) = List.length (List.concat dss).
Proof. exact write_compositions_spec. Qed.
Print Assumptions C09_write_compositions.

(* every block starts with its type, the temperature and the name m<key>_<density>
   — the name GEOMCOMP uses for the cells of that material and density
   (C09_geomcomp_name_has_composition) *)
Theorem C09_block_head : forall (mc : mcard) (pw : list (string * list (string * string))) (nd : string),
  exists typ rest, (typ = "DENSITY" \/ typ = "POINT_WISE") /\
    block_text mc pw nd = typ ++ " 300 m" ++ dec_Z (k_key mc) ++ "_" ++ nd ++ " " ++ rest.
Proof. exact block_text_head. Qed.
Print Assumptions C09_block_head.

(* Python's float() accepts the normalised density of every well-formed number
   ([float_ok], tied exhaustively): constructCompositionT4's
   float(normalize_float(density)) cannot raise ValueError on a cell card that
   spells a number; with C09_normal_form_fixed the second normalisation is the
   identity *)
Theorem C09_normal_form_accepted : forall (n : number) (pad : nat) (m : marker),
  wf_number n = true -> marker_ok n m = true ->
  exists nd, normalize_float (spell n pad m) = Ok nd /\ float_ok nd = true /\
             normalize_float nd = Ok nd.
Proof.
  intros n pad m W M. exists (normal_form n). split; [now apply norm_spell|].
  split; [now apply float_ok_normal_form | now apply normal_form_fixed].
Qed.
Print Assumptions C09_normal_form_accepted.

(* a composition that a live cell asks for IS in the written text: the block of
   every (material card, stored density) pair occurs in what writeT4Composition
   writes (with C09_block_head: under the name GEOMCOMP uses, and with
   C09_point_gets_leaf_material_linked: the composition of the innermost filler
   of a located point) *)
Theorem C09_block_written :
  forall (mcs : list mcard) (cells : dict cell) (pw : list (string * list (string * string)))
         (text : string) (mc : mcard) (d : string),
  write_compositions mcs cells pw = Ok text -> dens_normal cells ->
  In mc mcs -> asks (k_key mc) cells d ->
  exists pre post, text = pre ++ block_text mc pw d ++ post.
Proof. exact block_written. Qed.
Print Assumptions C09_block_written.

(* the type of a block: [neg_density] (the model of `float(density) < 0.0`,
   tied byte for byte through block_text) holds of the stored density exactly
   when the VALUE of the number spelled on the cell card is negative: a mass
   density gives a DENSITY block, an atom density a POINT_WISE block; zero
   (also written -0.0) is not negative *)
Theorem C09_density_type_by_sign : forall (n : number) (pad : nat) (m : marker),
  wf_number n = true -> marker_ok n m = true ->
  exists nd, normalize_float (spell n pad m) = Ok nd /\
             (neg_density nd = true <-> (number_value n < 0)%Q).
Proof. exact neg_density_iff_negative. Qed.
Print Assumptions C09_density_type_by_sign.

Example C09_write_nontrivial :
  let cells := [(1, mkCell "1" (Some "-1.0") 1 0 None []); (2, mkCell "01" (Some "-2.5") 1 0 None []);
                (3, mkCell "2" (Some "-7.8") 1 0 None []); (4, mkCell "1" (Some "-9.9") 1 2 None [])]%Z in
  let mcs := [mkMcard 1 true [("H1", "2"); ("O16", "1")]; mkMcard 2 true [("FE56", "1")]] in
  write_compositions mcs cells [] =
  Ok (nl ++ "COMPOSITION" ++ nl ++ "4" ++ nl ++
      "DENSITY 300 m1_-1.0 1.0 NB_ATOM 2" ++ nl ++ "  H1 2" ++ nl ++ "  O16 1" ++ nl ++
      "DENSITY 300 m1_-2.5 2.5 NB_ATOM 2" ++ nl ++ "  H1 2" ++ nl ++ "  O16 1" ++ nl ++
      "DENSITY 300 m2_-7.8 7.8 NB_ATOM 1" ++ nl ++ "  FE56 1" ++ nl ++
      "POINT_WISE 300 m0 1" ++ nl ++ "  HE4 1E-30" ++ nl ++ nl ++ "END_COMPOSITION" ++ nl).
Proof. vm_compute. reflexivity. Qed.

Example C09_compositions_nontrivial :
  let cells := [(1, mkCell "1" (Some "-1.0") 1 0 None []); (2, mkCell "01" (Some "-2.5") 1 0 None []);
                (3, mkCell "+1" (Some "-1.0") 2 0 None []); (4, mkCell "1" (Some "-9.9") 1 2 None []);
                (5, mkCell "1" (Some "-8.8") 0 0 None [])]%Z in
  comp_names 1 cells = Ok ["m1_-1.0"; "m1_-2.5"] /\
  normalize_float "-1.0" = Ok "-1.0" /\ normalize_float "-2.5" = Ok "-2.5".
Proof. vm_compute. repeat split. Qed.

(* ------------------------------------------------------------------------ *)
(* LINK with C05: the volume that contains a located point                   *)
(* ------------------------------------------------------------------------ *)
From T4V Require C05.Model C05.Spec C05.Proofs Properties.C05.
From T4V Require Import C09.LinkC05.

(* C05 (Properties/C05.v: C05_pipeline_located, with C05_trcl_phase_den,
   C05_fill_phase_located, C05_inline_cells_den for "parsed cells keep their
   fields") gives, for the chain TRCL -> FILL -> inlining of construct_volume_t4
   over abstract points, motions and senses obeying C05's two laws: every point
   located in the deck as written along a descent ch below a filled level-0
   cell lies in a returned cell k carrying prov ch and the leaf's material and
   density tokens.  Reading C05's records as C09 records (bridge; mat_of /
   dens_of spell C05's opaque tokens) and composing with C09_geomcomp_name and
   C09_geomcomp_name_has_composition: that cell's volume is on the GEOMCOMP line
   named after the material NUMBER and density of the INNERMOST FILLER cell
   lcl = last ch, that composition is among the names constructCompositionT4
   emits (for a live, non-void cell), and the cells of the other descents are
   false at the point (VerdictW, universes being partitions). *)
Theorem C09_point_gets_leaf_material_linked :
  forall (T surf P : Type) (tr_empty : T -> bool) (teqb : T -> T -> bool)
         (tr_surf : T -> surf -> surf) (inv : T -> P -> P) (sense : surf -> P -> bool),
  T4V.Properties.C05.sense_law tr_surf inv sense -> T4V.Properties.C05.key_law tr_empty teqb inv ->
  forall (mat_of : Z -> string) (dens_of : Z -> option string)
         fuel cf ifd ifg num den (s0 s1 s2 : M5.state T surf) rs cells3,
  P5.fresh_ok T surf s0 -> M5.s_cache s0 = [] -> NoDup (map fst (M5.s_cells s0)) ->
  P5.all_ref_free T surf s0 ->
  (forall c cl, M5.dget c (M5.s_cells s0) = Some cl -> M5.c_orig cl = []) ->
  M5.trcl_phase T surf tr_empty teqb tr_surf fuel (map fst (M5.s_cells s0)) s0 = M5.Ok s1 ->
  M5.fill_phase T surf tr_empty teqb tr_surf fuel cf ifd ifg s1 = M5.Ok (rs, s2) ->
  M5.inline_cells T fuel num den (M5.s_cells s2) = M5.Ok cells3 ->
  forall key ks, In (key, ks) (combine (M5.fill_keys (M5.s_cells s0)) rs) ->
  forall vols g,
  (forall k, In k ks -> exists v ncl, In (k, v) vols /\ v_fictive v = false /\
                                      M5.dget k cells3 = Some ncl /\ v_origin v = M5.c_orig ncl) ->
  geomcomp vols (bridge_cells T mat_of dens_of cells3) = Ok g ->
  forall p ch,
  S5.LocW T surf P tr_empty inv sense s0 (M5.by_universe (M5.s_cells s0)) key p ch true ->
  exists k ncl lcl z,
    In k ks /\
    S5.Den T surf P sense (P5.set_cells T surf s2 cells3) p (M5.TRef k) true /\
    M5.dget k cells3 = Some ncl /\ M5.c_orig ncl = S5.prov ch /\
    M5.dget (last ch 0%Z) (M5.s_cells s0) = Some lcl /\
    int_of_token (mat_of (M5.c_mat lcl)) = Some z /\
    member g (material_name z (bridge T mat_of dens_of lcl)) k /\
    (forall l d, comp_names z (bridge_cells T mat_of dens_of cells3) = Ok l ->
                 dens_normal (bridge_cells T mat_of dens_of cells3) ->
                 live (bridge T mat_of dens_of ncl) = true -> dens_of (M5.c_rho lcl) = Some d ->
                 In ("m" ++ material_name z (bridge T mat_of dens_of lcl)) l) /\
    (exists chs, Forall2 (S5.VerdictW T surf P tr_empty inv sense s0
                            (M5.by_universe (M5.s_cells s0)) (P5.set_cells T surf s2 cells3) key p ch)
                         ks chs).
Proof.
  intros T surf P tr_empty teqb tr_surf inv sense Hs Hk mat_of dens_of.
  exact (point_gets_leaf_material_linked T surf P tr_empty teqb tr_surf inv sense Hs Hk mat_of dens_of).
Qed.
Print Assumptions C09_point_gets_leaf_material_linked.

(* the bridge: a C05 cell record read as a C09 record *)
Example C09_bridge_unfold : forall T mat_of dens_of (cl : M5.cell T),
  bridge T mat_of dens_of cl =
  mkCell (mat_of (M5.c_mat cl)) (dens_of (M5.c_rho cl)) (M5.c_imp cl) (M5.c_univ cl)
         (M5.c_fill cl) (M5.c_orig cl).
Proof. intros. reflexivity. Qed.

(* round 3: the two hypotheses of the theorem above about the returned cell are
   discharged or weakened.  (i) [live]: C05's fill_phase_spec (C05/Proofs.v, GenOK)
   says a returned cell keeps the container's importance and universe; a key of
   fill_keys has universe 0; trcl_phase and inline_cells keep the fields — so the
   returned cells are live as soon as the CONTAINER has positive importance.
   (ii) volumes: in the shape C01_cells gives them — a returned cell has a
   non-virtual volume (carrying its idorigin) or is empty everywhere; the cell
   containing the point is not empty, so it has one. *)
Theorem C09_point_composition_written_linked :
  forall (T surf P : Type) (tr_empty : T -> bool) (teqb : T -> T -> bool)
         (tr_surf : T -> surf -> surf) (inv : T -> P -> P) (sense : surf -> P -> bool),
  T4V.Properties.C05.sense_law tr_surf inv sense -> T4V.Properties.C05.key_law tr_empty teqb inv ->
  forall (mat_of : Z -> string) (dens_of : Z -> option string)
         fuel cf ifd ifg num den (s0 s1 s2 : M5.state T surf) rs cells3,
  P5.fresh_ok T surf s0 -> M5.s_cache s0 = [] -> NoDup (map fst (M5.s_cells s0)) ->
  P5.all_ref_free T surf s0 ->
  (forall c cl, M5.dget c (M5.s_cells s0) = Some cl -> M5.c_orig cl = []) ->
  M5.trcl_phase T surf tr_empty teqb tr_surf fuel (map fst (M5.s_cells s0)) s0 = M5.Ok s1 ->
  M5.fill_phase T surf tr_empty teqb tr_surf fuel cf ifd ifg s1 = M5.Ok (rs, s2) ->
  M5.inline_cells T fuel num den (M5.s_cells s2) = M5.Ok cells3 ->
  forall key ks kcl, In (key, ks) (combine (M5.fill_keys (M5.s_cells s0)) rs) ->
  M5.dget key (M5.s_cells s0) = Some kcl -> (0 < M5.c_imp kcl)%Z ->
  forall vols g,
  (forall k, In k ks ->
     (exists v ncl, In (k, v) vols /\ v_fictive v = false /\
                    M5.dget k cells3 = Some ncl /\ v_origin v = M5.c_orig ncl) \/
     (forall q, ~ S5.Den T surf P sense (P5.set_cells T surf s2 cells3) q (M5.TRef k) true)) ->
  geomcomp vols (bridge_cells T mat_of dens_of cells3) = Ok g ->
  forall p ch,
  S5.LocW T surf P tr_empty inv sense s0 (M5.by_universe (M5.s_cells s0)) key p ch true ->
  exists k lcl z,
    In k ks /\
    S5.Den T surf P sense (P5.set_cells T surf s2 cells3) p (M5.TRef k) true /\
    M5.dget (last ch 0%Z) (M5.s_cells s0) = Some lcl /\
    int_of_token (mat_of (M5.c_mat lcl)) = Some z /\
    member g (material_name z (bridge T mat_of dens_of lcl)) k /\
    (forall l d, comp_names z (bridge_cells T mat_of dens_of cells3) = Ok l ->
                 dens_normal (bridge_cells T mat_of dens_of cells3) ->
                 dens_of (M5.c_rho lcl) = Some d ->
                 In ("m" ++ material_name z (bridge T mat_of dens_of lcl)) l).
Proof.
  intros T surf P tr_empty teqb tr_surf inv sense Hs Hk mat_of dens_of.
  exact (point_composition_written_linked T surf P tr_empty teqb tr_surf inv sense Hs Hk mat_of dens_of).
Qed.
Print Assumptions C09_point_composition_written_linked.

(* C09's material-only model of the "treat FILL" loop and C05's full model (with
   geometry, transformations and caches) AGREE on the material / provenance
   projection: on the same table (C05's, read through bridge), whenever both
   return, they return the same number of cells in the same order, with the same
   provenance head — the leaf of the descent — and, cell by cell, the same
   material, density and no fill.  (Keys differ: C05 also numbers the
   transformed copies.)  So C09_provenance_head_is_leaf & co., proved on C09's
   model, speak about the cells C05's theorems locate points in. *)
From T4V Require Import C09.LinkC05Models.

Theorem C09_fill_models_agree_linked :
  forall (T : Type) (mat_of : Z -> string) (dens_of : Z -> option string) (surf P : Type)
         (tr_empty : T -> bool) (teqb : T -> T -> bool) (tr_surf : T -> surf -> surf)
         (inv : T -> P -> P) (sense : surf -> P -> bool),
  (forall t o p, sense (tr_surf t o) p = sense o (inv t p)) ->
  (forall a b, teqb a b = true -> tr_empty a = tr_empty b /\ forall p, inv a p = inv b p) ->
  forall fuel cf ifd ifg (s s' : M5.state T surf) rs fuel9 next st' ks,
  P5.fresh_ok T surf s -> M5.s_cache s = [] ->
  (forall c cl, M5.dget c (M5.s_cells s) = Some cl -> M5.c_orig cl = []) ->
  M5.fill_phase T surf tr_empty teqb tr_surf fuel cf ifd ifg s = M5.Ok (rs, s') ->
  (forall k, lookup k (bridge_cells T mat_of dens_of (M5.s_cells s)) <> None -> (k <= next)%Z) ->
  treat_fill fuel9 (bridge_cells T mat_of dens_of (M5.s_cells s)) next = Ok (st', ks) ->
  map (head_of (fst st')) ks = map (head5 T surf s') (List.concat rs) /\
  Forall2 (fun k k5 => exists c ncl, lookup k (fst st') = Some c /\
                                     M5.dget k5 (M5.s_cells s') = Some ncl /\
                                     same_cell T mat_of dens_of c ncl)
          ks (List.concat rs).
Proof.
  intros T mat_of dens_of surf P tr_empty teqb tr_surf inv sense H1 H2.
  exact (fill_models_agree T mat_of dens_of surf P tr_empty teqb tr_surf inv sense H1 H2).
Qed.
Print Assumptions C09_fill_models_agree_linked.

Example C09_same_cell_unfold : forall T mat_of dens_of (c : cell) (ncl : M5.cell T),
  same_cell T mat_of dens_of c ncl <->
  c_mat c = mat_of (M5.c_mat ncl) /\ c_dens c = dens_of (M5.c_rho ncl) /\
  c_fill c = None /\ M5.c_fill ncl = None.
Proof. intros. reflexivity. Qed.

(* ------------------------------------------------------------------------ *)
(* LINK with C06 (lattices), through C05                                      *)
(* ------------------------------------------------------------------------ *)
From Coq Require Import Reals.
From T4V Require C06.Model C06.LinkC05.
From T4V Require Import C09.LinkC06.

(* C06/LinkC05.v: [develop_state] = the stateful half of develop_lattice over
   C05's table (T := 12 reals or empty, P := R^3); its [develop_state_spec] says
   every element cell keeps the lattice cell's material, density and provenance.
   With C05_pot_fill_located and C09_geomcomp_name: for a point located in the
   developed table along ch below a filled cell, the volume containing it is on
   the GEOMCOMP line of the last cell of ch, and when that cell is an element
   cell of the lattice (array entry = the lattice's own universe) the line is
   the one named after the LATTICE CELL's material number and density — the
   analogue of C09_lattice_leaf_material on C05's / C06's models.  Which lattice
   index a point falls in is C06_lattice_end_to_end_linked's statement. *)
Theorem C09_lattice_element_material_linked :
  forall (surf : Type) (teqb : list R -> list R -> bool) (tr_surf : list R -> surf -> surf)
         (inv : list R -> @M6.vec R -> @M6.vec R) (sense : surf -> @M6.vec R -> bool),
  (forall t o p, sense (tr_surf t o) p = sense o (inv t p)) ->
  (forall a b, teqb a b = true -> @M6.is_nil R a = @M6.is_nil R b /\ forall p, inv a p = inv b p) ->
  forall (mat_of : Z -> string) (dens_of : Z -> option string)
         (fuel cf : nat) (latkey : Z) (lcl : M5.cell (list R)) (elems : list (@M6.new_elem R))
         (s0 s1 s2 : M5.state (list R) surf) (keys : list Z) (du : list (Z * list Z))
         (ifd ifg : bool) (key : Z) (ks : list Z),
  P5.Inv (list R) surf (@M6.vec R) (@M6.is_nil R) inv sense s0 ->
  M5.dget latkey (M5.s_cells s0) = Some lcl ->
  Forall (fun e => @M6.is_nil R (M6.ne_trnsf e) = false) elems ->
  L6.develop_state surf teqb tr_surf fuel latkey elems s0 = M5.Ok (keys, s1) ->
  (forall c cl, M5.dget c (M5.s_cells s1) = Some cl -> M5.c_orig cl = []) ->
  (forall u c, In c (M5.du_get u du) -> exists cl, M5.dget c (M5.s_cells s1) = Some cl) ->
  (exists cl, M5.dget key (M5.s_cells s1) = Some cl) ->
  M5.pot_fill (list R) surf (@M6.is_nil R) teqb tr_surf fuel cf du ifd ifg key s1 = M5.Ok (ks, s2) ->
  forall vols g p,
  (forall k, In k ks -> S5.Den (list R) surf (@M6.vec R) sense s2 p (M5.TRef k) true ->
     exists v ncl, In (k, v) vols /\ v_fictive v = false /\
                   M5.dget k (M5.s_cells s2) = Some ncl /\ v_origin v = M5.c_orig ncl) ->
  geomcomp vols (bridge_cells (list R) mat_of dens_of (M5.s_cells s2)) = Ok g ->
  forall ch, S5.Located (list R) surf (@M6.vec R) (@M6.is_nil R) inv sense s1 du key p ch ->
  exists k lf z,
    In k ks /\ S5.Den (list R) surf (@M6.vec R) sense s2 p (M5.TRef k) true /\
    M5.dget (last ch 0%Z) (M5.s_cells s1) = Some lf /\
    int_of_token (mat_of (M5.c_mat lf)) = Some z /\
    member g (material_name z (bridge (list R) mat_of dens_of lf)) k /\
    (In (last ch 0%Z) keys ->
       M5.c_mat lf = M5.c_mat lcl /\ M5.c_rho lf = M5.c_rho lcl /\
       member g (material_name z (bridge (list R) mat_of dens_of lcl)) k).
Proof.
  intros surf teqb tr_surf inv sense H1 H2 mat_of dens_of.
  exact (lattice_element_material_linked surf teqb tr_surf inv sense H1 H2 mat_of dens_of).
Qed.
Print Assumptions C09_lattice_element_material_linked.
