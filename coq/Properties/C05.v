(* C05 — Universes and FILL: points are located through the hierarchy.
   Only restatements; proofs are in C05/Proofs*.v. *)
From Coq Require Import List ZArith Bool.
From T4V Require Import C05.Model C05.Proofs.
Import ListNotations.
Open Scope Z_scope.

Theorem C05_pot_transform_compl_untouched :
  forall (T surf : Type) (tr_empty : T -> bool) (teqb : T -> T -> bool) (tr_surf : T -> surf -> surf)
         fuel t c (s : state T surf),
  pot_transform T surf tr_empty teqb tr_surf fuel t (TCompl c) s = Ok (TCompl c, s).
Proof. exact pot_transform_compl_untouched. Qed.
Print Assumptions C05_pot_transform_compl_untouched.
