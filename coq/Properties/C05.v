(* C05 — Universes and FILL: points are located through the hierarchy.
   Only restatements; definitions of the vocabulary are in C05/Spec.v (Den, LocB / Located, Paths,
   prov, Represents, Verdict, Outcome, universe_partition), the model in C05/Model.v, the
   invariant (Inv = counters above every key + every cache entry is an image) and the proofs in
   C05/Proofs.v.

   Every theorem is about the model functions the correspondence check executes
   (C05/Exec.v instantiates the same definitions at T := Z, surf := sterm), for an arbitrary
   point type P, arbitrary motions [inv] and an arbitrary sense function obeying the interface
   law [sense (tr_surf t o) p = sense o (inv t p)] (numeric content: C04) and equal cache keys
   being the same motion. *)
From Coq Require Import List ZArith Bool.
From T4V Require Import C05.Model C05.Spec C05.Proofs C05.Exec C05.Example C05.LinkC04.
From T4V Require C06.Model C06.LinkC05 C05.LinkC06 C06.ProofsDevelop C07.ProofsDevelop C05.LinkC04C06.
Import ListNotations.
Open Scope Z_scope.

Definition sense_law {T surf P : Type} (tr_surf : T -> surf -> surf) (inv : T -> P -> P)
           (sense : surf -> P -> bool) : Prop :=
  forall t o p, sense (tr_surf t o) p = sense o (inv t p).

Definition key_law {T P : Type} (tr_empty : T -> bool) (teqb : T -> T -> bool) (inv : T -> P -> P)
  : Prop :=
  forall a b, teqb a b = true -> tr_empty a = tr_empty b /\ forall p, inv a p = inv b p.

(* ('^', cell) nodes are left untouched by pot_transform (they are resolved after TRCL) *)
Theorem C05_pot_transform_compl_untouched :
  forall (T surf : Type) (tr_empty : T -> bool) (teqb : T -> T -> bool) (tr_surf : T -> surf -> surf)
         fuel t c (s : state T surf),
  pot_transform T surf tr_empty teqb tr_surf fuel t (TCompl c) s = Ok (TCompl c, s).
Proof. exact pot_transform_compl_untouched. Qed.
Print Assumptions C05_pot_transform_compl_untouched.

(* den (pot_transform t e) p = den e (inv t p): whenever the tree has a value at the pulled-back
   point, the transformed tree has that value at the point, in the new tables; nothing that
   existed is modified (extends) and the invariant is kept.  Any depth of cell references, any
   tree size; the fuel only has to be enough for the call to return. *)
Theorem C05_pot_transform_den :
  forall (T surf P : Type) (tr_empty : T -> bool) (teqb : T -> T -> bool)
         (tr_surf : T -> surf -> surf) (inv : T -> P -> P) (sense : surf -> P -> bool),
  sense_law tr_surf inv sense -> key_law tr_empty teqb inv ->
  forall fuel t e (s : state T surf) e' s',
  Inv T surf P tr_empty inv sense s ->
  pot_transform T surf tr_empty teqb tr_surf fuel t e s = Ok (e', s') ->
  Inv T surf P tr_empty inv sense s' /\ extends T surf s s' /\
  forall p b, Den T surf P sense s (act T P tr_empty inv t p) e b -> Den T surf P sense s' p e' b.
Proof. exact pot_transform_den. Qed.
Print Assumptions C05_pot_transform_den.

(* apply_trcl with several TRCLs: the motions compose in card order *)
Theorem C05_apply_trcl_den :
  forall (T surf P : Type) (tr_empty : T -> bool) (teqb : T -> T -> bool)
         (tr_surf : T -> surf -> surf) (inv : T -> P -> P) (sense : surf -> P -> bool),
  sense_law tr_surf inv sense -> key_law tr_empty teqb inv ->
  forall fuel ts e (s : state T surf) e' s',
  Inv T surf P tr_empty inv sense s ->
  apply_trcl T surf tr_empty teqb tr_surf fuel ts e s = Ok (e', s') ->
  Inv T surf P tr_empty inv sense s' /\ extends T surf s s' /\
  forall p b, Den T surf P sense s (act_seq T P tr_empty inv ts p) e b ->
              Den T surf P sense s' p e' b.
Proof. exact apply_trcl_den. Qed.
Print Assumptions C05_apply_trcl_den.

(* cell_transform, with or without the cache, on a hit or a miss: the returned cell at p is the
   given cell at inv t p; an empty transformation returns the cell itself *)
Theorem C05_cell_transform_den :
  forall (T surf P : Type) (tr_empty : T -> bool) (teqb : T -> T -> bool)
         (tr_surf : T -> surf -> surf) (inv : T -> P -> P) (sense : surf -> P -> bool),
  sense_law tr_surf inv sense -> key_law tr_empty teqb inv ->
  forall fuel k t cache (s : state T surf) k' s',
  Inv T surf P tr_empty inv sense s ->
  cell_transform T surf tr_empty teqb tr_surf fuel k t cache s = Ok (k', s') ->
  Inv T surf P tr_empty inv sense s' /\ extends T surf s s' /\
  forall p b, Den T surf P sense s (act T P tr_empty inv t p) (TRef k) b ->
              Den T surf P sense s' p (TRef k') b.
Proof. exact cell_transform_den. Qed.
Print Assumptions C05_cell_transform_den.

(* the invariant holds when FILL development starts and means that the cache can be trusted:
   an entry (k, t) -> v names a cell v whose value at p is the value of k at inv t p *)
Theorem C05_cache_coherent :
  forall (T surf P : Type) (tr_empty : T -> bool) (teqb : T -> T -> bool)
         (inv : T -> P -> P) (sense : surf -> P -> bool),
  key_law tr_empty teqb inv ->
  forall s : state T surf,
  (fresh_ok T surf s -> s_cache s = [] -> Inv T surf P tr_empty inv sense s) /\
  (Inv T surf P tr_empty inv sense s ->
   forall k t v, cget T teqb k t (s_cache s) = Some v ->
   forall p b, Den T surf P sense s (act T P tr_empty inv t p) (TRef k) b ->
               Den T surf P sense s p (TRef v) b).
Proof.
  intros T surf P tr_empty teqb inv sense Hk s. split.
  - apply Inv_init.
  - intros HI. exact (Inv_cache_coherent T surf P tr_empty teqb inv sense Hk s HI).
Qed.
Print Assumptions C05_cache_coherent.

(* one call of pot_fill (all four inline variants): one returned cell per descent below [key], in
   order, each with the descent's provenance, the leaf's material and density, the value of the
   descent at every point, nothing outside the container; every located descent is among them,
   its cell is true at the point and (universes being partitions) the cells of all other
   descents are false there *)
Theorem C05_pot_fill_located :
  forall (T surf P : Type) (tr_empty : T -> bool) (teqb : T -> T -> bool)
         (tr_surf : T -> surf -> surf) (inv : T -> P -> P) (sense : surf -> P -> bool),
  sense_law tr_surf inv sense -> key_law tr_empty teqb inv ->
  forall fuel cf du ifd ifg key (s : state T surf) ks s',
  Inv T surf P tr_empty inv sense s ->
  (forall c cl, dget c (s_cells s) = Some cl -> c_orig cl = []) ->
  (forall u c, In c (du_get u du) -> exists cl, dget c (s_cells s) = Some cl) ->
  (exists cl, dget key (s_cells s) = Some cl) ->
  pot_fill T surf tr_empty teqb tr_surf fuel cf du ifd ifg key s = Ok (ks, s') ->
  Inv T surf P tr_empty inv sense s' /\ extends T surf s s' /\
  Outcome T surf P tr_empty inv sense s du s' key ks.
Proof. exact pot_fill_located. Qed.
Print Assumptions C05_pot_fill_located.

(* the whole "treat FILL" loop of construct_volume_t4 (by_universe, the level-0 cells with a
   FILL, pot_fill on each), from fresh counters and empty caches: existing cells and surfaces
   are never modified, the cache is coherent at the end, and every filled level-0 cell has
   its Outcome *)
Theorem C05_fill_phase_located :
  forall (T surf P : Type) (tr_empty : T -> bool) (teqb : T -> T -> bool)
         (tr_surf : T -> surf -> surf) (inv : T -> P -> P) (sense : surf -> P -> bool),
  sense_law tr_surf inv sense -> key_law tr_empty teqb inv ->
  forall fuel cf ifd ifg (s : state T surf) rs s',
  fresh_ok T surf s -> s_cache s = [] ->
  (forall c cl, dget c (s_cells s) = Some cl -> c_orig cl = []) ->
  fill_phase T surf tr_empty teqb tr_surf fuel cf ifd ifg s = Ok (rs, s') ->
  extends T surf s s' /\
  cache_coherent T surf P tr_empty teqb inv sense s' /\
  Forall2 (Outcome T surf P tr_empty inv sense s (by_universe (s_cells s)) s')
          (fill_keys (s_cells s)) rs.
Proof. exact fill_phase_located. Qed.
Print Assumptions C05_fill_phase_located.

(* the part of a universe lying outside its container produces nothing: a cell standing for a
   descent is false wherever the container is (Represents, last clause), and a located point is
   inside the first cell of its descent *)
Theorem C05_outside_container_nothing :
  forall (T surf P : Type) (tr_empty : T -> bool) (inv : T -> P -> P) (sense : surf -> P -> bool)
         (s : state T surf) du s' key k ch,
  Represents T surf P tr_empty inv sense s du s' key k ch ->
  forall p ncl, dget k (s_cells s') = Some ncl ->
  Den T surf P sense s' p (c_geom ncl) true -> Den T surf P sense s' p (TRef key) true.
Proof.
  intros T surf P tr_empty inv sense s du s' key k ch (ncl & lcl & H1 & _ & _ & _ & _ & _ & _ & H8)
         p ncl' Hn HD.
  rewrite H1 in Hn. inversion Hn; subst. apply H8. exact HD.
Qed.
Print Assumptions C05_outside_container_nothing.

(* the enumeration misses no descent, and in a partitioned deck the located descent is unique *)
Theorem C05_located_enumerated :
  forall (T surf P : Type) (tr_empty : T -> bool) (inv : T -> P -> P) (sense : surf -> P -> bool)
         (s : state T surf) du key p ch b,
  LocB T surf P tr_empty inv sense s du key p ch b ->
  forall chs, Paths T surf s du key chs -> In ch chs.
Proof. exact Paths_complete. Qed.
Print Assumptions C05_located_enumerated.

Theorem C05_located_unique :
  forall (T surf P : Type) (tr_empty : T -> bool) (inv : T -> P -> P) (sense : surf -> P -> bool)
         (s : state T surf) du,
  universe_partition T surf P sense s du ->
  forall key p ch, Located T surf P tr_empty inv sense s du key p ch ->
  forall ch' b', LocB T surf P tr_empty inv sense s du key p ch' b' -> ch' <> ch -> b' = false.
Proof.
  intros T surf P tr_empty inv sense s du Hp key p ch HL ch' b' HL' Hne.
  exact (LocB_unique T surf P tr_empty inv sense s du Hp key p ch true HL eq_refl ch' b' HL' Hne).
Qed.
Print Assumptions C05_located_unique.

(* "exactly one": the descents enumerated for a cell are pairwise distinct when no universe list
   repeats a cell, which is the case for by_universe of a table without duplicate keys (a Python
   dict); with C05_pot_fill_located (one returned cell per enumerated descent, Verdict) this
   gives exactly one returned cell standing for the located descent *)
Theorem C05_descents_distinct :
  forall (T surf : Type) (s : state T surf) du,
  (forall u, NoDup (du_get u du)) ->
  forall key chs, Paths T surf s du key chs -> NoDup chs.
Proof.
  intros T surf s du Hdu key chs HP.
  exact (proj1 (proj1 (Paths_NoDup T surf s du Hdu) key chs HP)).
Qed.
Print Assumptions C05_descents_distinct.

(* ... and the returned cells themselves are pairwise distinct (their provenance determines the
   descent): exactly ONE returned cell stands for the located descent *)
Theorem C05_returned_cells_distinct :
  forall (T surf P : Type) (tr_empty : T -> bool) (inv : T -> P -> P) (sense : surf -> P -> bool)
         (s : state T surf) du s' key ks chs,
  (forall u, NoDup (du_get u du)) ->
  Paths T surf s du key chs ->
  Forall2 (Represents T surf P tr_empty inv sense s du s' key) ks chs -> NoDup ks.
Proof. exact outcome_keys_distinct. Qed.
Print Assumptions C05_returned_cells_distinct.

Theorem C05_by_universe_lists :
  forall (T : Type) (cells : list (Z * cell T)) u,
  (NoDup (map fst cells) -> NoDup (du_get u (by_universe cells))) /\
  (forall c, In c (du_get u (by_universe cells)) -> exists cl, dget c cells = Some cl).
Proof.
  intros T cells u. split.
  - apply by_universe_NoDup.
  - intros c. apply by_universe_closed.
Qed.
Print Assumptions C05_by_universe_lists.

(* the "treat TRCL" loop of construct_volume_t4 (which overwrites geometries in place) on a
   table whose trees hold no CellRef yet (none exists before FILL is developed): every listed
   cell keeps its fields and its new geometry at p has the value of the old one at the point
   pulled back through the cell's TRCLs; other cells are untouched; counters stay fresh and the
   cache stays empty, i.e. the hypotheses of C05_fill_phase_located hold afterwards *)
Theorem C05_trcl_phase_den :
  forall (T surf P : Type) (tr_empty : T -> bool) (teqb : T -> T -> bool)
         (tr_surf : T -> surf -> surf) (inv : T -> P -> P) (sense : surf -> P -> bool),
  sense_law tr_surf inv sense -> key_law tr_empty teqb inv ->
  forall fuel keys (s s' : state T surf),
  fresh_ok T surf s -> s_cache s = [] -> NoDup keys -> all_ref_free T surf s ->
  trcl_phase T surf tr_empty teqb tr_surf fuel keys s = Ok s' ->
  fresh_ok T surf s' /\ s_cache s' = [] /\ surf_extends T surf s s' /\ all_ref_free T surf s' /\
  (forall k cl, In k keys -> dget k (s_cells s) = Some cl ->
     exists g', dget k (s_cells s') = Some (with_geom cl g') /\
       forall p b, Den T surf P sense s (act_seq T P tr_empty inv (c_trcl cl) p) (c_geom cl) b ->
                   Den T surf P sense s' p g' b) /\
  (forall k, ~ In k keys -> dget k (s_cells s') = dget k (s_cells s)).
Proof. exact trcl_phase_den. Qed.
Print Assumptions C05_trcl_phase_den.

(* the hypothesis "no CellRef yet" of C05_trcl_phase_den cannot be dropped: on a table that
   already holds a CellRef the TRCL loop leaves a stale cache entry (the referenced cell is
   copied before its own TRCL overwrites it), from fresh counters and an empty cache *)
Theorem C05_trcl_phase_with_cellrefs_refuted :
  exists s s' : xstate,
    fresh_ok Z sterm s /\ s_cache s = [] /\ NoDup (map fst (s_cells s)) /\
    x_trcl_phase 5 (map fst (s_cells s)) s = Ok s' /\
    ~ cache_coherent Z sterm Z x_empty Z.eqb x_inv x_sense s'.
Proof.
  exists ex2_state, ex2_after. split; [apply fresh_ok_check; reflexivity|]. split; [reflexivity|].
  split; [cbn; repeat (constructor; [cbn; intuition discriminate|]); constructor|].
  split; [exact ex2_runs | exact ex2_stale].
Qed.
Print Assumptions C05_trcl_phase_with_cellrefs_refuted.

(* CellInlining.inline_cells (occurrence counting, scores, threshold, recursive substitution,
   in-place loop over the dictionary) for any threshold: every tree that had a value at a point
   - in particular every cell, through TRef - has the same value there afterwards, and only
   geometries change *)
Theorem C05_inline_cells_den :
  forall (T surf P : Type) (sense : surf -> P -> bool) fuel num den (s : state T surf) cells',
  inline_cells T fuel num den (s_cells s) = Ok cells' ->
  (forall p e b, Den T surf P sense s p e b -> Den T surf P sense (set_cells T surf s cells') p e b) /\
  (forall k cl, dget k (s_cells s) = Some cl -> exists g, dget k cells' = Some (with_geom cl g)).
Proof.
  intros T surf P sense fuel num den s cells' H. split.
  - exact (inline_cells_den T surf P sense fuel num den s cells' H).
  - unfold inline_cells in H.
    assert (Same : Ok (s_cells s) = Ok cells' ->
              forall k cl, dget k (s_cells s) = Some cl -> exists g, dget k cells' = Some (with_geom cl g)).
    { intros E k cl Hk. inversion E; subst. exists (c_geom cl). destruct cl; exact Hk. }
    destruct (find_occurrences T (s_cells s)) as [occ|]; [|discriminate].
    destruct occ as [|o occ']; [exact (Same H)|].
    destruct (to_inline_set T (s_cells s) num den (o :: occ')) as [ti|]; [|discriminate].
    destruct ti as [|t0 ti']; [exact (Same H)|].
    intros k cl Hk.
    exact (inline_loop_fields T fuel (t0 :: ti') _ _ _ H k cl Hk).
Qed.
Print Assumptions C05_inline_cells_den.

(* ... and conversely: after inline_cells nothing has a value it did not have before *)
Theorem C05_inline_cells_den_conv :
  forall (T surf P : Type) (sense : surf -> P -> bool) fuel num den (s : state T surf) cells',
  inline_cells T fuel num den (s_cells s) = Ok cells' ->
  forall p e b, Den T surf P sense (set_cells T surf s cells') p e b -> Den T surf P sense s p e b.
Proof. exact inline_cells_den_conv. Qed.
Print Assumptions C05_inline_cells_den_conv.

(* THE CHAIN of construct_volume_t4, from the table of the parsed cell cards [s0] (no CellRef yet,
   counters fresh, caches empty, no provenance) to the table whose level-0 cells are converted:
   TRCL loop over every cell, FILL loop, inline_cells with any threshold.  The statement is about
   the deck AS WRITTEN (LocW: a cell's TRCL moves it inside its universe; frame: an explicit
   fill transformation places the filling universe, else the container's TRCL): for every
   level-0 cell with a FILL, the returned cells correspond one-to-one and in order to the
   descents below it; each has no FILL left, the descent's provenance, the leaf's material and
   density, at every point the exact value of the descent, and is false outside the container
   cell; every located descent is among them, its cell is true at the point, and when the
   universes (as written) are partitions the cell of every other descent that has a value is
   false there. *)
Theorem C05_pipeline_located :
  forall (T surf P : Type) (tr_empty : T -> bool) (teqb : T -> T -> bool)
         (tr_surf : T -> surf -> surf) (inv : T -> P -> P) (sense : surf -> P -> bool),
  sense_law tr_surf inv sense -> key_law tr_empty teqb inv ->
  forall fuel cf ifd ifg num den (s0 s1 s2 : state T surf) rs cells3,
  fresh_ok T surf s0 -> s_cache s0 = [] -> NoDup (map fst (s_cells s0)) -> all_ref_free T surf s0 ->
  (forall c cl, dget c (s_cells s0) = Some cl -> c_orig cl = []) ->
  trcl_phase T surf tr_empty teqb tr_surf fuel (map fst (s_cells s0)) s0 = Ok s1 ->
  fill_phase T surf tr_empty teqb tr_surf fuel cf ifd ifg s1 = Ok (rs, s2) ->
  inline_cells T fuel num den (s_cells s2) = Ok cells3 ->
  Forall2 (OutcomeW T surf P tr_empty inv sense s0 (by_universe (s_cells s0))
                    (set_cells T surf s2 cells3))
          (fill_keys (s_cells s0)) rs.
Proof. exact pipeline_located. Qed.
Print Assumptions C05_pipeline_located.

(* which transformation a FILL / *FILL / TRCL / *TRCL keyword yields (tokens abstract): whenever
   at least one number is written - a TR number whose card is not empty, three numbers even if
   all zero, or more - the result is never the empty tuple, so pot_fill's truthiness test takes
   it for the explicit fill transformation it is (place_filler: FILL transformation before
   TRCL); a FILL keyword without numbers, starred or not, yields () and pot_fill falls back to
   the container's TRCL *)
Theorem C05_explicit_transformation_not_empty :
  forall is_fill star trid params table,
  (forall k c, dget k table = Some c -> c <> []) ->
  (params <> [] ->
   forall l, parse_tr_params is_fill star trid params table = Ok (TSList l) -> l <> []) /\
  parse_tr_params true star trid [] table = Ok (TSList []).
Proof.
  intros is_fill star trid params table Htab. split.
  - intros Hne l H. exact (parse_tr_params_explicit is_fill star trid params table l Hne Htab H).
  - apply parse_tr_params_fill_none.
Qed.
Print Assumptions C05_explicit_transformation_not_empty.

(* THE PRECEDENCE RULE of the property text, from the keyword tokens of a cell card
   (ParseMCNPCell.parse_one_cell_worker / parse_fill_kw / parse_trcl_kw, tokens abstract;
   [mk] = the tuple as a transformation, falsy exactly when empty; [norm] = to_cos +
   normalize_transform on four or more numbers, which returns twelve numbers):
   the filling universe of a cell with `FILL=n` / `*FILL=n` is placed by the FILL transformation
   whenever one is written - a TR number, three numbers (even 0 0 0), or more, starred or not -
   whatever TRCL the cell has; a FILL without transformation follows the cell's TRCL; without
   TRCL the universe sits in the cell's own frame *)
Definition tuple_law {T : Type} (tr_empty : T -> bool) (mk : list Z -> T) : Prop :=
  forall l, tr_empty (mk l) = match l with [] => true | _ => false end.

Theorem C05_precedence_from_tokens :
  forall (T P : Type) (tr_empty : T -> bool) (inv : T -> P -> P) (mk : list Z -> T)
         (norm : bool -> list Z -> list Z),
  tuple_law tr_empty mk -> (forall star params, norm star params <> []) ->
  forall table mat rho geom imp u star univ trid params trcl (cl : cell T),
  (forall k c, dget k table = Some c -> c <> []) ->
  cell_of_keywords T mk norm table mat rho geom imp u (Some (star, univ, trid, params)) trcl = Ok cl ->
  c_fill cl = Some univ /\
  (params <> [] ->
     exists lf, kw_tuple norm true star trid params table = Ok lf /\ lf <> [] /\
                forall p, frame T P tr_empty inv cl p = inv (mk lf) p) /\
  (params = [] ->
     match trcl with
     | Some (tstar, ttrid, tparams) =>
         exists lt, kw_tuple norm false tstar ttrid tparams table = Ok lt /\
                    forall p, frame T P tr_empty inv cl p =
                              match lt with [] => p | _ => inv (mk lt) p end
     | None => forall p, frame T P tr_empty inv cl p = p
     end).
Proof. exact precedence_from_tokens. Qed.
Print Assumptions C05_precedence_from_tokens.

(* ... end to end: below a container whose record comes from its keywords, the rest of a located
   descent is located at the point moved back by the written FILL transformation, else by the
   container's TRCL, else unmoved; C05_pipeline_located then gives the converted cell that is
   true there *)
Theorem C05_precedence_located :
  forall (T surf P : Type) (tr_empty : T -> bool) (inv : T -> P -> P) (sense : surf -> P -> bool)
         (mk : list Z -> T) (norm : bool -> list Z -> list Z),
  tuple_law tr_empty mk -> (forall star params, norm star params <> []) ->
  forall table mat rho geom imp u star univ trid params trcl (cl : cell T)
         (s : state T surf) du key p c r,
  (forall k cd, dget k table = Some cd -> cd <> []) ->
  cell_of_keywords T mk norm table mat rho geom imp u (Some (star, univ, trid, params)) trcl = Ok cl ->
  dget key (s_cells s) = Some cl ->
  LocW T surf P tr_empty inv sense s du key p (key :: c :: r) true ->
  (params <> [] ->
     exists lf, kw_tuple norm true star trid params table = Ok lf /\ lf <> [] /\
                LocW T surf P tr_empty inv sense s du c (inv (mk lf) p) (c :: r) true) /\
  (params = [] ->
     match trcl with
     | Some (tstar, ttrid, tparams) =>
         exists lt, kw_tuple norm false tstar ttrid tparams table = Ok lt /\
                    LocW T surf P tr_empty inv sense s du c
                         (match lt with [] => p | _ => inv (mk lt) p end) (c :: r) true
     | None => LocW T surf P tr_empty inv sense s du c p (c :: r) true
     end).
Proof. exact precedence_located. Qed.
Print Assumptions C05_precedence_located.

(* non-vacuity: the executable instance of the correspondence check obeys both laws (points on a
   line), and a deck with two levels of universes (fill transformation at level 0, TRCL-only
   fill at level 1) satisfies every hypothesis above; the point x = 9 is located along
   1 -> 11 -> 20 and the model returns three cells, the second carrying that provenance *)
Example C05_example :
  sense_law STr x_inv x_sense /\ key_law x_empty Z.eqb x_inv /\
  fresh_ok Z sterm ex_state /\ s_cache ex_state = [] /\
  (forall c cl, dget c (s_cells ex_state) = Some cl -> c_orig cl = []) /\
  universe_partition Z sterm Z x_sense ex_state (by_universe (s_cells ex_state)) /\
  Located Z sterm Z x_empty x_inv x_sense ex_state (by_universe (s_cells ex_state)) 1 9 [1; 11; 20] /\
  exists s', x_fill_phase 5 5 false false ex_state = Ok ([[27; 31; 34]], s') /\
             option_map (@c_orig Z) (dget 31 (s_cells s')) = Some [(20, 11); (20, 1)] /\
             option_map (@c_mat Z) (dget 31 (s_cells s')) = Some 8.
Proof.
  split; [exact x_sense_tr|]. split; [exact x_teqb_sound|]. split; [exact ex_fresh|].
  split; [reflexivity|]. split; [exact ex_orig_empty|]. split; [exact ex_partition|].
  split; [exact ex_located|]. exact ex_run.
Qed.

(* non-vacuity of the chain theorem on the same deck read as written *)
Example C05_example_chain :
  NoDup (map fst (s_cells ex_state)) /\ all_ref_free Z sterm ex_state /\
  LocW Z sterm Z x_empty x_inv x_sense ex_state (by_universe (s_cells ex_state)) 1 9 [1; 11; 20] true /\
  exists s1 rs s2 cells3,
    x_trcl_phase 5 (map fst (s_cells ex_state)) ex_state = Ok s1 /\
    x_fill_phase 5 5 false false s1 = Ok (rs, s2) /\
    inline_cells Z 9 1 1 (s_cells s2) = Ok cells3 /\
    rs = [[27; 31; 34]] /\
    option_map (@c_orig Z) (dget 31 cells3) = Some (prov [1; 11; 20]).
Proof.
  split; [exact ex_nodup|]. split; [exact ex_ref_free|]. split; [exact ex_locatedW | exact ex_chain].
Qed.

(* ===== LINKED with C04 (coq/C05/LinkC04.v) =====================================================
   The abstract parameters are instantiated with C04's model over the reals:
     points = R^3;  motion = the empty tuple | (O, B) with orthonormal rows, compared as the 12
     numbers;  m_inv (O,B) p = B (p - O) (C04.Spec.to_aux);  wfentry = dictionary entries
     (lists of (part, side)) whose parts are of the kinds C04 covers (C04 part_wf: frame-form
     planes, spheres, cylinders, cones, tori; GQ / SQ with ten numbers);  m_tr_surf (O,B) =
     C04.Model.tr_all RS (tr12 O B), i.e. transformation() on every part;  m_sense e p = "p is on
     the positive side of the entry" in C04's reading (entry_pos).
   The two laws that every C05 theorem assumes are THEOREMS here, from C04's transformation law
   (tr_all_law / C04_transformation_law), to_aux_to_main and cols_orthonormal. *)
Theorem C05_interface_laws_linked :
  sense_law m_tr_surf m_inv m_sense /\ key_law m_empty m_eqb m_inv.
Proof. split; [exact m_sense_law | exact m_key_law]. Qed.
Print Assumptions C05_interface_laws_linked.

(* the chain TRCL -> FILL -> inlining over real points, no law left as a hypothesis *)
Theorem C05_pipeline_located_linked :
  forall fuel cf ifd ifg num den (s0 s1 s2 : state motion wfentry) rs cells3,
  fresh_ok motion wfentry s0 -> s_cache s0 = [] -> NoDup (map fst (s_cells s0)) ->
  all_ref_free motion wfentry s0 ->
  (forall c cl, dget c (s_cells s0) = Some cl -> c_orig cl = []) ->
  trcl_phase motion wfentry m_empty m_eqb m_tr_surf fuel (map fst (s_cells s0)) s0 = Ok s1 ->
  fill_phase motion wfentry m_empty m_eqb m_tr_surf fuel cf ifd ifg s1 = Ok (rs, s2) ->
  inline_cells motion fuel num den (s_cells s2) = Ok cells3 ->
  Forall2 (OutcomeW motion wfentry C04.Spec.R3 m_empty m_inv m_sense s0 (by_universe (s_cells s0))
                    (set_cells motion wfentry s2 cells3))
          (fill_keys (s_cells s0)) rs.
Proof. exact pipeline_located_linked. Qed.
Print Assumptions C05_pipeline_located_linked.

Theorem C05_fill_phase_located_linked :
  forall fuel cf ifd ifg (s : state motion wfentry) rs s',
  fresh_ok motion wfentry s -> s_cache s = [] ->
  (forall c cl, dget c (s_cells s) = Some cl -> c_orig cl = []) ->
  fill_phase motion wfentry m_empty m_eqb m_tr_surf fuel cf ifd ifg s = Ok (rs, s') ->
  extends motion wfentry s s' /\
  cache_coherent motion wfentry C04.Spec.R3 m_empty m_eqb m_inv m_sense s' /\
  Forall2 (Outcome motion wfentry C04.Spec.R3 m_empty m_inv m_sense s (by_universe (s_cells s)) s')
          (fill_keys (s_cells s)) rs.
Proof. exact fill_phase_located_linked. Qed.
Print Assumptions C05_fill_phase_located_linked.

Theorem C05_pot_transform_den_linked :
  forall fuel t e (s : state motion wfentry) e' s',
  Inv motion wfentry C04.Spec.R3 m_empty m_inv m_sense s ->
  pot_transform motion wfentry m_empty m_eqb m_tr_surf fuel t e s = Ok (e', s') ->
  Inv motion wfentry C04.Spec.R3 m_empty m_inv m_sense s' /\ extends motion wfentry s s' /\
  forall p b, Den motion wfentry C04.Spec.R3 m_sense s (act motion C04.Spec.R3 m_empty m_inv t p) e b ->
              Den motion wfentry C04.Spec.R3 m_sense s' p e' b.
Proof. exact pot_transform_den_linked. Qed.
Print Assumptions C05_pot_transform_den_linked.

Theorem C05_trcl_phase_den_linked :
  forall fuel keys (s s' : state motion wfentry),
  fresh_ok motion wfentry s -> s_cache s = [] -> NoDup keys -> all_ref_free motion wfentry s ->
  trcl_phase motion wfentry m_empty m_eqb m_tr_surf fuel keys s = Ok s' ->
  fresh_ok motion wfentry s' /\ s_cache s' = [] /\ surf_extends motion wfentry s s' /\
  all_ref_free motion wfentry s' /\
  (forall k cl, In k keys -> dget k (s_cells s) = Some cl ->
     exists g', dget k (s_cells s') = Some (with_geom cl g') /\
       forall p b, Den motion wfentry C04.Spec.R3 m_sense s
                       (act_seq motion C04.Spec.R3 m_empty m_inv (c_trcl cl) p) (c_geom cl) b ->
                   Den motion wfentry C04.Spec.R3 m_sense s' p g' b) /\
  (forall k, ~ In k keys -> dget k (s_cells s') = dget k (s_cells s)).
Proof. exact trcl_phase_den_linked. Qed.
Print Assumptions C05_trcl_phase_den_linked.

Theorem C05_cell_transform_den_linked :
  forall fuel k t cache (s : state motion wfentry) k' s',
  Inv motion wfentry C04.Spec.R3 m_empty m_inv m_sense s ->
  cell_transform motion wfentry m_empty m_eqb m_tr_surf fuel k t cache s = Ok (k', s') ->
  Inv motion wfentry C04.Spec.R3 m_empty m_inv m_sense s' /\ extends motion wfentry s s' /\
  forall p b, Den motion wfentry C04.Spec.R3 m_sense s (act motion C04.Spec.R3 m_empty m_inv t p) (TRef k) b ->
              Den motion wfentry C04.Spec.R3 m_sense s' p (TRef k') b.
Proof. exact cell_transform_den_linked. Qed.
Print Assumptions C05_cell_transform_den_linked.

(* how a surface leaf of a C05 tree reads in C04's vocabulary: a positive literal is C04's
   entry_pos exactly; C04's strict entry_neg implies the negative literal (they differ only at
   points lying on a part of the entry) *)
Theorem C05_leaf_region_linked :
  forall (s : state motion wfentry) p x (we : wfentry),
  dget (Z.abs x) (s_surfs s) = Some we ->
  Den motion wfentry C04.Spec.R3 m_sense s p (TSurf x) (lit x (m_sense we p)) /\
  (0 <= x -> (lit x (m_sense we p) = true <-> C04.ProofsTree.entry_pos (proj1_sig we) p)) /\
  (x < 0 -> C04.ProofsTree.entry_neg (proj1_sig we) p -> lit x (m_sense we p) = true).
Proof. exact Den_leaf_region. Qed.
Print Assumptions C05_leaf_region_linked.

(* non-vacuity of the instance: PX 0 moved by the translation (2,0,0) *)
Example C05_example_linked :
  m_sense (m_tr_surf ex_motion ex_entry) ex_p3 = true /\     (* the point (3, 0, 0) *)
  m_sense (m_tr_surf ex_motion ex_entry) ex_p1 = false.      (* the point (1, 0, 0) *)
Proof. exact ex_law. Qed.

(* ... and a deck over real surfaces (cell 1 = x < 0 filled with universe 1 moved by (2,0,0),
   universe 1 = {x < 0, x > 0}) on which the linked chain runs and returns two cells *)
Example C05_example_chain_linked :
  trcl_phase motion wfentry m_empty m_eqb m_tr_surf 5 (map fst (s_cells ex_link_state)) ex_link_state
    = Ok ex_l1 /\
  fill_phase motion wfentry m_empty m_eqb m_tr_surf 5 5 false false ex_l1 = Ok ex_l2 /\
  inline_cells motion 9 1 1 (s_cells (snd ex_l2)) = Ok ex_l3 /\
  fst ex_l2 = [[13; 15]].
Proof. exact ex_link_runs. Qed.

(* the precedence rule over real numbers (linked with C04): a cell card `FILL=n (twelve numbers)`
   whose numbers are O and a matrix B with exactly orthonormal, clip-ok rows - the case in which
   C04_inline_12 shows that the parser returns the numbers themselves - places the filling universe
   at B (p - O), whatever TRCL the cell carries.  [val] = the number a token stands for; [norm] is
   assumed to be the token image of C04's model of the FILL parser (parse_fill_tr) and never
   empty; mk_v = the tuple of the tokens' values as a motion *)
Theorem C05_precedence_located_linked :
  forall (val : Z -> Rdefinitions.R) (norm : bool -> list Z -> list Z)
         (trs : list (Z * list Rdefinitions.R)) (trid0 : Z),
  (forall star ps l,
     C04.Model.parse_fill_tr Base.Scalar.RS star (map val ps) trs trid0 = C04.Model.Ok l ->
     map val (norm star ps) = l) ->
  (forall star ps, norm star ps <> []) ->
  forall table mat rho geom imp u univ trid params trcl (cl : cell motion)
         (s : state motion wfentry) du key p c r (o : C04.Spec.R3) (b : C04.Vec.M3 Rdefinitions.R),
  (forall k cd, dget k table = Some cd -> cd <> []) ->
  cell_of_keywords motion (mk_v val) norm table mat rho geom imp u (Some (false, univ, trid, params)) trcl
    = Ok cl ->
  map val params = C04.ProofsCompose.tr12 o b ->
  C04.Spec.rows_orthonormal b -> C04.ProofsMatrix.clip_ok_m b ->
  dget key (s_cells s) = Some cl ->
  LocW motion wfentry C04.Spec.R3 m_empty m_inv m_sense s du key p (key :: c :: r) true ->
  LocW motion wfentry C04.Spec.R3 m_empty m_inv m_sense s du c (C04.Spec.to_aux o b p) (c :: r) true.
Proof. exact precedence_located_linked. Qed.
Print Assumptions C05_precedence_located_linked.

(* ... the other two spellings need no normalisation at all: a TR number whose card holds O and a
   matrix B with exactly orthonormal rows places the universe at B (p - O); three numbers (starred
   or not, all zero included) place it at p - (a1, a2, a3) *)
Theorem C05_precedence_located_linked_spellings :
  forall (val : Z -> Rdefinitions.R) (norm : bool -> list Z -> list Z),
  (forall star ps, norm star ps <> []) ->
  (forall table mat rho geom imp u star univ trid n card trcl (cl : cell motion)
          (s : state motion wfentry) du key p c r (o : C04.Spec.R3) (b : C04.Vec.M3 Rdefinitions.R),
     (forall k cd, dget k table = Some cd -> cd <> []) ->
     cell_of_keywords motion (mk_v val) norm table mat rho geom imp u (Some (star, univ, trid, [n])) trcl
       = Ok cl ->
     dget trid table = Some card -> map val card = C04.ProofsCompose.tr12 o b ->
     C04.Spec.rows_orthonormal b ->
     dget key (s_cells s) = Some cl ->
     LocW motion wfentry C04.Spec.R3 m_empty m_inv m_sense s du key p (key :: c :: r) true ->
     LocW motion wfentry C04.Spec.R3 m_empty m_inv m_sense s du c (C04.Spec.to_aux o b p) (c :: r) true) /\
  (forall table mat rho geom imp u star univ trid a1 a2 a3 trcl (cl : cell motion)
          (s : state motion wfentry) du key p c r,
     val 0 = Rdefinitions.IZR 0 -> val 1 = Rdefinitions.IZR 1 ->
     (forall k cd, dget k table = Some cd -> cd <> []) ->
     cell_of_keywords motion (mk_v val) norm table mat rho geom imp u
                      (Some (star, univ, trid, [a1; a2; a3])) trcl = Ok cl ->
     dget key (s_cells s) = Some cl ->
     LocW motion wfentry C04.Spec.R3 m_empty m_inv m_sense s du key p (key :: c :: r) true ->
     LocW motion wfentry C04.Spec.R3 m_empty m_inv m_sense s du c
          (C04.Spec.to_aux (C04.Vec.mkV (val a1) (val a2) (val a3)) idm3 p) (c :: r) true).
Proof.
  intros val norm Hn. split.
  - exact (precedence_located_linked_number val norm Hn).
  - exact (precedence_located_linked_translation val norm Hn).
Qed.
Print Assumptions C05_precedence_located_linked_spellings.

(* ===== the FILL loop and inlining from ANY table ================================================
   (fresh counters, empty cache, no provenance; the table need not come from the TRCL loop) *)
Theorem C05_fill_inline_located :
  forall (T surf P : Type) (tr_empty : T -> bool) (teqb : T -> T -> bool)
         (tr_surf : T -> surf -> surf) (inv : T -> P -> P) (sense : surf -> P -> bool),
  sense_law tr_surf inv sense -> key_law tr_empty teqb inv ->
  forall fuel cf ifd ifg num den (s s2 : state T surf) rs cells3,
  fresh_ok T surf s -> s_cache s = [] ->
  (forall c cl, dget c (s_cells s) = Some cl -> c_orig cl = []) ->
  fill_phase T surf tr_empty teqb tr_surf fuel cf ifd ifg s = Ok (rs, s2) ->
  inline_cells T fuel num den (s_cells s2) = Ok cells3 ->
  Forall2 (Outcome T surf P tr_empty inv sense s (by_universe (s_cells s)) (set_cells T surf s2 cells3))
          (fill_keys (s_cells s)) rs.
Proof. exact fill_inline_located. Qed.
Print Assumptions C05_fill_inline_located.

(* ===== LINKED with C06 (coq/C05/LinkC06.v) ======================================================
   The chain with a LAT=1 lattice cell in it:
     TRCL loop over every cell -> develop_lattice of the lattice cell -> del dic[key] ->
     FILL loop -> inline_cells.
   The stateful half of develop_lattice is C06's develop_state (C06/LinkC05.v: one
   cell_transform(key, trnsf, cache=False) per element, then fill / filltr / lattice = None
   written into the new cell); [elems] is any list of elements with non-empty transformations,
   in particular the one C06's develop_lattice_with returns (C06_develop_lattice_located says
   which translation / fill / fill transformation each index gets).  T = the 12 numbers (or the
   empty tuple), P = C06's vectors over R; surfaces stay abstract with the two laws.
   Conclusion: the lattice cell is gone; every other cell is its card's cell moved by its TRCL;
   one new cell per element, listed under its universe, with the element's fill and fill
   transformation, whose value at p is the lattice cell's at the pulled-back point (ElemOf);
   and the FILL loop + inlining achieve their Outcome on that table. *)
Theorem C05_pipeline_with_lattice_linked :
  forall (surf : Type) (teqb : list Rdefinitions.R -> list Rdefinitions.R -> bool)
         (tr_surf : list Rdefinitions.R -> surf -> surf)
         (inv : list Rdefinitions.R -> @C06.Model.vec Rdefinitions.R -> @C06.Model.vec Rdefinitions.R)
         (sense : surf -> @C06.Model.vec Rdefinitions.R -> bool),
  sense_law tr_surf inv sense -> key_law (@C06.Model.is_nil Rdefinitions.R) teqb inv ->
  forall fuel cf ifd ifg num den (s0 s1 s2 s3 : state (list Rdefinitions.R) surf) rs cells4 latkey lcl
         (elems : list (@C06.Model.new_elem Rdefinitions.R)) keys,
  fresh_ok _ surf s0 -> s_cache s0 = [] -> NoDup (map fst (s_cells s0)) ->
  all_ref_free _ surf s0 -> C05.LinkC06.no_orig surf s0 ->
  trcl_phase _ surf (@C06.Model.is_nil _) teqb tr_surf fuel (map fst (s_cells s0)) s0 = Ok s1 ->
  dget latkey (s_cells s1) = Some lcl ->
  Forall (fun e => C06.Model.is_nil (C06.Model.ne_trnsf e) = false) elems ->
  C06.LinkC05.develop_state surf teqb tr_surf fuel latkey elems s1 = Ok (keys, s2) ->
  fill_phase _ surf (@C06.Model.is_nil _) teqb tr_surf fuel cf ifd ifg (del_cell _ surf s2 latkey)
    = Ok (rs, s3) ->
  inline_cells _ fuel num den (s_cells s3) = Ok cells4 ->
  let sd := del_cell _ surf s2 latkey in
  dget latkey (s_cells sd) = None /\
  (forall k cl, k <> latkey -> dget k (s_cells s0) = Some cl ->
     exists g', dget k (s_cells sd) = Some (with_geom cl g') /\
       forall p b, Den _ surf _ sense s0 (act_seq _ _ (@C06.Model.is_nil _) inv (c_trcl cl) p) (c_geom cl) b ->
                   Den _ surf _ sense sd p g' b) /\
  Forall2 (C05.LinkC06.ElemOf surf inv sense s1 latkey lcl sd) elems keys /\
  Forall2 (Outcome _ surf _ (@C06.Model.is_nil _) inv sense sd (by_universe (s_cells sd))
                   (set_cells _ surf s3 cells4))
          (fill_keys (s_cells sd)) rs.
Proof. exact C05.LinkC06.pipeline_with_lattice. Qed.
Print Assumptions C05_pipeline_with_lattice_linked.

(* ... and a point located THROUGH the lattice: in a level-0 container filled with the lattice's
   universe, in the element e (the point of the filling frame pulled back by the element's
   translation is in the lattice cell), then either e keeps the lattice cell's material, or e is
   filled with universe u and the descent goes on at the point pulled back by e's fill
   transformation: the final table has a cell that is true at p, with the whole provenance
   (container, element, descent) and the material of the last cell *)
Theorem C05_located_through_lattice_linked :
  forall (surf : Type) (teqb : list Rdefinitions.R -> list Rdefinitions.R -> bool)
         (tr_surf : list Rdefinitions.R -> surf -> surf)
         (inv : list Rdefinitions.R -> @C06.Model.vec Rdefinitions.R -> @C06.Model.vec Rdefinitions.R)
         (sense : surf -> @C06.Model.vec Rdefinitions.R -> bool),
  sense_law tr_surf inv sense -> key_law (@C06.Model.is_nil Rdefinitions.R) teqb inv ->
  forall fuel cf ifd ifg num den (s0 s1 s2 s3 : state (list Rdefinitions.R) surf) rs cells4 latkey lcl
         (elems : list (@C06.Model.new_elem Rdefinitions.R)) keys,
  fresh_ok _ surf s0 -> s_cache s0 = [] -> NoDup (map fst (s_cells s0)) ->
  all_ref_free _ surf s0 -> C05.LinkC06.no_orig surf s0 ->
  trcl_phase _ surf (@C06.Model.is_nil _) teqb tr_surf fuel (map fst (s_cells s0)) s0 = Ok s1 ->
  dget latkey (s_cells s1) = Some lcl ->
  Forall (fun e => C06.Model.is_nil (C06.Model.ne_trnsf e) = false) elems ->
  C06.LinkC05.develop_state surf teqb tr_surf fuel latkey elems s1 = Ok (keys, s2) ->
  fill_phase _ surf (@C06.Model.is_nil _) teqb tr_surf fuel cf ifd ifg (del_cell _ surf s2 latkey)
    = Ok (rs, s3) ->
  inline_cells _ fuel num den (s_cells s3) = Ok cells4 ->
  let sd := del_cell _ surf s2 latkey in
  let du := by_universe (s_cells sd) in
  let sf := set_cells _ surf s3 cells4 in
  forall key kcl U e ke ecl p,
  In key (fill_keys (s_cells sd)) ->
  dget key (s_cells sd) = Some kcl -> c_fill kcl = Some U ->
  In (e, ke) (combine elems keys) ->
  dget ke (s_cells sd) = Some ecl -> c_univ ecl = U ->
  Den _ surf _ sense sd p (c_geom kcl) true ->
  Den _ surf _ sense s1 (inv (C06.Model.ne_trnsf e) (frame _ _ (@C06.Model.is_nil _) inv kcl p))
      (TRef latkey) true ->
  exists ks, In ks rs /\
  (C06.Model.ne_fill e = None ->
     exists k ncl, In k ks /\ dget k (s_cells sf) = Some ncl /\ Den _ surf _ sense sf p (TRef k) true /\
       c_fill ncl = None /\ c_orig ncl = prov [key; ke] /\
       c_mat ncl = c_mat lcl /\ c_rho ncl = c_rho lcl) /\
  (forall u c ch, C06.Model.ne_fill e = Some u -> C06.Model.is_nil (C06.Model.ne_filltr e) = false ->
     In c (du_get u du) ->
     Located _ surf _ (@C06.Model.is_nil _) inv sense sd du c
             (inv (C06.Model.ne_filltr e) (frame _ _ (@C06.Model.is_nil _) inv kcl p)) ch ->
     exists k ncl lfl, In k ks /\ dget k (s_cells sf) = Some ncl /\
       Den _ surf _ sense sf p (TRef k) true /\
       c_fill ncl = None /\ c_orig ncl = prov (key :: ke :: ch) /\
       dget (last ch 0) (s_cells sd) = Some lfl /\ c_mat ncl = c_mat lfl /\ c_rho ncl = c_rho lfl).
Proof. exact C05.LinkC06.located_through_lattice. Qed.
Print Assumptions C05_located_through_lattice_linked.

(* any number of lattice cells: TRCL loop -> LAT loop (develop each lattice cell, delete it) ->
   FILL loop -> inlining.  Each development leaves a table that is again "ready" (fresh counters,
   empty cache, no CellRef, no provenance), so the FILL loop and inlining achieve their Outcome on
   the developed table [sd] *)
Theorem C05_pipeline_with_lattices_linked :
  forall (surf : Type) (teqb : list Rdefinitions.R -> list Rdefinitions.R -> bool)
         (tr_surf : list Rdefinitions.R -> surf -> surf)
         (inv : list Rdefinitions.R -> @C06.Model.vec Rdefinitions.R -> @C06.Model.vec Rdefinitions.R)
         (sense : surf -> @C06.Model.vec Rdefinitions.R -> bool),
  sense_law tr_surf inv sense -> key_law (@C06.Model.is_nil Rdefinitions.R) teqb inv ->
  forall fuel cf ifd ifg num den (s0 s1 sd s3 : state (list Rdefinitions.R) surf) lats rs cells4,
  fresh_ok _ surf s0 -> s_cache s0 = [] -> NoDup (map fst (s_cells s0)) ->
  all_ref_free _ surf s0 -> C05.LinkC06.no_orig surf s0 ->
  trcl_phase _ surf (@C06.Model.is_nil _) teqb tr_surf fuel (map fst (s_cells s0)) s0 = Ok s1 ->
  C05.LinkC06.lat_phase surf teqb tr_surf fuel lats s1 = Ok sd ->
  fill_phase _ surf (@C06.Model.is_nil _) teqb tr_surf fuel cf ifd ifg sd = Ok (rs, s3) ->
  inline_cells _ fuel num den (s_cells s3) = Ok cells4 ->
  Forall2 (Outcome _ surf _ (@C06.Model.is_nil _) inv sense sd (by_universe (s_cells sd))
                   (set_cells _ surf s3 cells4))
          (fill_keys (s_cells sd)) rs.
Proof. exact C05.LinkC06.pipeline_with_lattices. Qed.
Print Assumptions C05_pipeline_with_lattices_linked.

(* ===== a generated cell keeps the importance and the universe of the cell it fills ===========
   (C09, C01, C12 rely on it: IMP:x=0 on the filled cell silences every cell generated for it, and
   generated cells stay in the filled cell's universe).  KeepsFields s s' key ks: the cell [key] of
   [s] exists and every k in ks is a cell of [s'] with its c_imp and c_univ.  First for the FILL
   loop alone, then for the whole chain TRCL -> FILL -> inlining against the cards. *)
Theorem C05_generated_keeps_importance :
  forall (T surf P : Type) (tr_empty : T -> bool) (teqb : T -> T -> bool)
         (tr_surf : T -> surf -> surf) (inv : T -> P -> P) (sense : surf -> P -> bool),
  sense_law tr_surf inv sense -> key_law tr_empty teqb inv ->
  (forall fuel cf ifd ifg (s : state T surf) rs s',
     fresh_ok T surf s -> s_cache s = [] ->
     (forall c cl, dget c (s_cells s) = Some cl -> c_orig cl = []) ->
     fill_phase T surf tr_empty teqb tr_surf fuel cf ifd ifg s = Ok (rs, s') ->
     Forall2 (KeepsFields T surf s s') (fill_keys (s_cells s)) rs) /\
  (forall fuel cf ifd ifg num den (s0 s1 s2 : state T surf) rs cells3,
     fresh_ok T surf s0 -> s_cache s0 = [] -> NoDup (map fst (s_cells s0)) -> all_ref_free T surf s0 ->
     (forall c cl, dget c (s_cells s0) = Some cl -> c_orig cl = []) ->
     trcl_phase T surf tr_empty teqb tr_surf fuel (map fst (s_cells s0)) s0 = Ok s1 ->
     fill_phase T surf tr_empty teqb tr_surf fuel cf ifd ifg s1 = Ok (rs, s2) ->
     inline_cells T fuel num den (s_cells s2) = Ok cells3 ->
     Forall2 (KeepsFields T surf s0 (set_cells T surf s2 cells3)) (fill_keys (s_cells s0)) rs).
Proof.
  intros T surf P tr_empty teqb tr_surf inv sense H1 H2. split.
  - exact (generated_keeps_importance T surf P tr_empty teqb tr_surf inv sense H1 H2).
  - exact (pipeline_keeps_importance T surf P tr_empty teqb tr_surf inv sense H1 H2).
Qed.
Print Assumptions C05_generated_keeps_importance.

(* ===== the C04 and the C06 instance unified (coq/C05/LinkC04C06.v) ==============================
   transformations = lists of reals read through motion_of_reals (the empty tuple; twelve numbers
   with exactly orthonormal rows = C04's motion, l_inv = B (p - O), l_tr_surf = transformation()
   on every part; any other list: the identity motion, where C04 has no law - the statement is
   about the converter only for decks whose transformations are exactly orthonormal, which
   develop_lattice preserves by C06_link_inverse_satisfiable); points = C06's triples, bridged to
   C04's records.  Both laws are theorems, so the lattice chain has NO interface hypothesis. *)
Theorem C05_lattice_laws_linked :
  sense_law LinkC04C06.l_tr_surf LinkC04C06.l_inv LinkC04C06.l_sense /\
  key_law (@C06.Model.is_nil Rdefinitions.R) LinkC04C06.l_eqb LinkC04C06.l_inv /\
  (forall o b p, C04.Spec.rows_orthonormal b ->
     LinkC04C06.l_inv (C04.ProofsCompose.tr12 o b) p
     = LinkC04C06.vec_of (C04.Spec.to_aux o b (LinkC04C06.v3_of p))) /\
  (forall p, LinkC04C06.l_inv [] p = p).
Proof.
  split; [exact LinkC04C06.l_sense_law|]. split; [exact LinkC04C06.l_key_law|].
  split; [exact LinkC04C06.l_inv_tr12 | exact LinkC04C06.l_inv_nil].
Qed.
Print Assumptions C05_lattice_laws_linked.

Theorem C05_pipeline_with_lattices_linked2 :
  forall fuel cf ifd ifg num den (s0 s1 sd s3 : state (list Rdefinitions.R) wfentry) lats rs cells4,
  fresh_ok _ wfentry s0 -> s_cache s0 = [] -> NoDup (map fst (s_cells s0)) ->
  all_ref_free _ wfentry s0 -> C05.LinkC06.no_orig wfentry s0 ->
  trcl_phase _ wfentry (@C06.Model.is_nil _) LinkC04C06.l_eqb LinkC04C06.l_tr_surf fuel
             (map fst (s_cells s0)) s0 = Ok s1 ->
  C05.LinkC06.lat_phase wfentry LinkC04C06.l_eqb LinkC04C06.l_tr_surf fuel lats s1 = Ok sd ->
  fill_phase _ wfentry (@C06.Model.is_nil _) LinkC04C06.l_eqb LinkC04C06.l_tr_surf fuel cf ifd ifg sd
    = Ok (rs, s3) ->
  inline_cells _ fuel num den (s_cells s3) = Ok cells4 ->
  Forall2 (Outcome _ wfentry _ (@C06.Model.is_nil _) LinkC04C06.l_inv LinkC04C06.l_sense sd
                   (by_universe (s_cells sd)) (set_cells _ wfentry s3 cells4))
          (fill_keys (s_cells sd)) rs.
Proof. exact LinkC04C06.pipeline_with_lattices_linked2. Qed.
Print Assumptions C05_pipeline_with_lattices_linked2.

Theorem C05_pipeline_with_lattice_linked2 :
  forall fuel cf ifd ifg num den (s0 s1 s2 s3 : state (list Rdefinitions.R) wfentry) rs cells4 latkey lcl
         (elems : list (@C06.Model.new_elem Rdefinitions.R)) keys,
  fresh_ok _ wfentry s0 -> s_cache s0 = [] -> NoDup (map fst (s_cells s0)) ->
  all_ref_free _ wfentry s0 -> C05.LinkC06.no_orig wfentry s0 ->
  trcl_phase _ wfentry (@C06.Model.is_nil _) LinkC04C06.l_eqb LinkC04C06.l_tr_surf fuel
             (map fst (s_cells s0)) s0 = Ok s1 ->
  dget latkey (s_cells s1) = Some lcl ->
  Forall (fun e => C06.Model.is_nil (C06.Model.ne_trnsf e) = false) elems ->
  C06.LinkC05.develop_state wfentry LinkC04C06.l_eqb LinkC04C06.l_tr_surf fuel latkey elems s1
    = Ok (keys, s2) ->
  fill_phase _ wfentry (@C06.Model.is_nil _) LinkC04C06.l_eqb LinkC04C06.l_tr_surf fuel cf ifd ifg
             (del_cell _ wfentry s2 latkey) = Ok (rs, s3) ->
  inline_cells _ fuel num den (s_cells s3) = Ok cells4 ->
  let sd := del_cell _ wfentry s2 latkey in
  dget latkey (s_cells sd) = None /\
  (forall k cl, k <> latkey -> dget k (s_cells s0) = Some cl ->
     exists g', dget k (s_cells sd) = Some (with_geom cl g') /\
       forall p b, Den _ wfentry _ LinkC04C06.l_sense s0
                       (act_seq _ _ (@C06.Model.is_nil _) LinkC04C06.l_inv (c_trcl cl) p) (c_geom cl) b ->
                   Den _ wfentry _ LinkC04C06.l_sense sd p g' b) /\
  Forall2 (C05.LinkC06.ElemOf wfentry LinkC04C06.l_inv LinkC04C06.l_sense s1 latkey lcl sd) elems keys /\
  Forall2 (Outcome _ wfentry _ (@C06.Model.is_nil _) LinkC04C06.l_inv LinkC04C06.l_sense sd
                   (by_universe (s_cells sd)) (set_cells _ wfentry s3 cells4))
          (fill_keys (s_cells sd)) rs.
Proof. exact LinkC04C06.pipeline_with_lattice_linked2. Qed.
Print Assumptions C05_pipeline_with_lattice_linked2.

(* the point located through the lattice, in the unified instance (no interface hypothesis) *)
Theorem C05_located_through_lattice_linked2 :
  forall fuel cf ifd ifg num den (s0 s1 s2 s3 : state (list Rdefinitions.R) wfentry) rs cells4 latkey lcl
         (elems : list (@C06.Model.new_elem Rdefinitions.R)) keys,
  fresh_ok _ wfentry s0 -> s_cache s0 = [] -> NoDup (map fst (s_cells s0)) ->
  all_ref_free _ wfentry s0 -> C05.LinkC06.no_orig wfentry s0 ->
  trcl_phase _ wfentry (@C06.Model.is_nil _) LinkC04C06.l_eqb LinkC04C06.l_tr_surf fuel (map fst (s_cells s0)) s0 = Ok s1 ->
  dget latkey (s_cells s1) = Some lcl ->
  Forall (fun e => C06.Model.is_nil (C06.Model.ne_trnsf e) = false) elems ->
  C06.LinkC05.develop_state wfentry LinkC04C06.l_eqb LinkC04C06.l_tr_surf fuel latkey elems s1 = Ok (keys, s2) ->
  fill_phase _ wfentry (@C06.Model.is_nil _) LinkC04C06.l_eqb LinkC04C06.l_tr_surf fuel cf ifd ifg (del_cell _ wfentry s2 latkey)
    = Ok (rs, s3) ->
  inline_cells _ fuel num den (s_cells s3) = Ok cells4 ->
  let sd := del_cell _ wfentry s2 latkey in
  let du := by_universe (s_cells sd) in
  let sf := set_cells _ wfentry s3 cells4 in
  forall key kcl U e ke ecl p,
  In key (fill_keys (s_cells sd)) ->
  dget key (s_cells sd) = Some kcl -> c_fill kcl = Some U ->
  In (e, ke) (combine elems keys) ->
  dget ke (s_cells sd) = Some ecl -> c_univ ecl = U ->
  Den _ wfentry _ LinkC04C06.l_sense sd p (c_geom kcl) true ->
  Den _ wfentry _ LinkC04C06.l_sense s1 (LinkC04C06.l_inv (C06.Model.ne_trnsf e) (frame _ _ (@C06.Model.is_nil _) LinkC04C06.l_inv kcl p))
      (TRef latkey) true ->
  exists ks, In ks rs /\
  (C06.Model.ne_fill e = None ->
     exists k ncl, In k ks /\ dget k (s_cells sf) = Some ncl /\ Den _ wfentry _ LinkC04C06.l_sense sf p (TRef k) true /\
       c_fill ncl = None /\ c_orig ncl = prov [key; ke] /\
       c_mat ncl = c_mat lcl /\ c_rho ncl = c_rho lcl) /\
  (forall u c ch, C06.Model.ne_fill e = Some u -> C06.Model.is_nil (C06.Model.ne_filltr e) = false ->
     In c (du_get u du) ->
     Located _ wfentry _ (@C06.Model.is_nil _) LinkC04C06.l_inv LinkC04C06.l_sense sd du c
             (LinkC04C06.l_inv (C06.Model.ne_filltr e) (frame _ _ (@C06.Model.is_nil _) LinkC04C06.l_inv kcl p)) ch ->
     exists k ncl lfl, In k ks /\ dget k (s_cells sf) = Some ncl /\
       Den _ wfentry _ LinkC04C06.l_sense sf p (TRef k) true /\
       c_fill ncl = None /\ c_orig ncl = prov (key :: ke :: ch) /\
       dget (last ch 0) (s_cells sd) = Some lfl /\ c_mat ncl = c_mat lfl /\ c_rho ncl = c_rho lfl).
Proof.
  exact (C05.LinkC06.located_through_lattice wfentry LinkC04C06.l_eqb LinkC04C06.l_tr_surf
           LinkC04C06.l_inv LinkC04C06.l_sense LinkC04C06.l_sense_law LinkC04C06.l_key_law).
Qed.
Print Assumptions C05_located_through_lattice_linked2.

(* LAT=1 (C06) and LAT=2 (C07) alike: every element list develop_lattice_with returns - with the
   square base vectors or with C07's hexagonal ones - satisfies the hypothesis "no element has an
   empty transformation" of the chain theorems above *)
Theorem C05_lattice_elements_accepted_linked :
  (forall (cell : @C06.Model.lat_cell Rdefinitions.R) base elems,
     C06.ProofsDevelop.cell_shape_ok cell ->
     C06.Model.develop_lattice_with Base.Scalar.RS base cell = C06.Model.Ok elems ->
     Forall (fun e => C06.Model.is_nil (C06.Model.ne_trnsf e) = false) elems) /\
  (forall surfs (cell : @C06.Model.lat_cell Rdefinitions.R) elems,
     C06.ProofsDevelop.cell_shape_ok cell ->
     C07.ProofsDevelop.develop_lattice_hex surfs cell = C06.Model.Ok elems ->
     Forall (fun e => C06.Model.is_nil (C06.Model.ne_trnsf e) = false) elems).
Proof. split; [exact LinkC04C06.lattice_elems_accepted | exact LinkC04C06.hex_lattice_elems_accepted]. Qed.
Print Assumptions C05_lattice_elements_accepted_linked.

(* the per-element description for ANY number of lattice cells (LAT loop = lat_phase: develop a
   lattice cell, delete it, next): the lattice cells are distinct, present and their elements carry
   transformations (lats_ok); then in the fully developed table [sd] every element of every lattice
   cell has its cell (ElemOf: listed under its universe, the element's fill and fill transformation,
   the lattice cell's material, value at p = the lattice cell's at the pulled-back point) *)
Theorem C05_lat_phase_elems_linked :
  forall (surf : Type) (teqb : list Rdefinitions.R -> list Rdefinitions.R -> bool)
         (tr_surf : list Rdefinitions.R -> surf -> surf)
         (inv : list Rdefinitions.R -> @C06.Model.vec Rdefinitions.R -> @C06.Model.vec Rdefinitions.R)
         (sense : surf -> @C06.Model.vec Rdefinitions.R -> bool),
  sense_law tr_surf inv sense -> key_law (@C06.Model.is_nil Rdefinitions.R) teqb inv ->
  forall fuel lats (s sd : state (list Rdefinitions.R) surf),
  C05.LinkC06.ready surf s -> C05.LinkC06.lats_ok surf s lats ->
  C05.LinkC06.lat_phase surf teqb tr_surf fuel lats s = Ok sd ->
  forall lk elems lcl, In (lk, elems) lats -> dget lk (s_cells s) = Some lcl ->
  exists keys, Forall2 (C05.LinkC06.ElemOf surf inv sense s lk lcl sd) elems keys.
Proof. exact C05.LinkC06.lat_phase_elems. Qed.
Print Assumptions C05_lat_phase_elems_linked.

(* non-vacuity of the two lattice theorems: a concrete table (container 1 filled with universe 1 =
   the lattice cell 5), one element with a translation, a degenerate surface instance that obeys
   both laws; the chain runs: develop_state returns the element cell 6, the FILL loop the cell 7
   (statement: C05.LinkC06.ex_lat_runs) *)
Example C05_example_lattice_linked := C05.LinkC06.ex_lat_runs.
