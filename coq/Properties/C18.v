(* C18 — Conversion is deterministic and leaves no state between runs.
   PARTIAL: theorems about the state-threaded model of the run (C18/Model.v,
   the same definitions the tie executes) and about the audit decision
   (C18/Audit.v, the same functions the generated Footprint.v evaluates).
   What only the runtime can show — CPython's iteration order over a set of
   ints does not depend on the hash seed, no imported module keeps hidden
   state, the input file is not written — is TESTED by the harness sweep, not
   proved.  Only restatements; proofs are in C18/Proofs.v, C18/AuditProofs.v. *)
From Coq Require Import List ZArith Bool String Ascii.
From T4V Require Import C18.Model C18.Upstream C18.Proofs C18.Audit C18.AuditProofs C18.Allow.
Import ListNotations.

(* ---- (a) the state-threaded model --------------------------------------- *)

(* the outcome of a conversion does not depend on anything the process holds
   when it starts: main.conversion -> construct_volume_t4 builds a fresh
   DictVolumeT4 and a fresh CellConversion (counter, four caches) itself *)
Theorem C18_run_fresh_state : forall order ps1 ps2 inp,
  snd (conversion order ps1 inp) = snd (conversion order ps2 inp).
Proof. exact run_fresh_state. Qed.
Print Assumptions C18_run_fresh_state.

(* for every sequence of earlier conversions in the same process (failing ones
   are inputs on which the model returns Err), the output for [inp] is the
   output of a conversion in a fresh process *)
Theorem C18_history_independent : forall order hist ps inp,
  last (snd (run_history (conversion order) ps (hist ++ [inp]))) (Err EFuel)
  = snd (conversion order ps0 inp).
Proof. exact history_independent. Qed.
Print Assumptions C18_history_independent.

(* the state matters: were the CellConversion object kept between runs (a
   class-level counter or cache), converting the same deck twice would give
   two different files — so freshness is what the property rests on *)
Theorem C18_shared_state_would_leak :
  let outs := snd (run_history (conversion_leaky (fun l => l)) ps0 [witness_input; witness_input]) in
  nth 0 outs (Err EFuel) <> nth 1 outs (Err EFuel).
Proof. exact leaky_state_changes_output. Qed.
Print Assumptions C18_shared_state_would_leak.

(* inside the modelled stage (numbering of the surface collections -> SURF and
   VOLU lines) no iteration order of a set reaches the output: [order] stands
   for the order in which CPython delivers the elements of the sets `unused`
   (remove_unused_volumes), `pluses` / `minuses` (VolumeT4.__str__) and
   `surf_used` (writeT4Geometry); any two orders give the same result *)
Theorem C18_output_order_irrelevant : forall order1 order2 ps inp,
  set_preserving order1 -> set_preserving order2 ->
  conversion order1 ps inp = conversion order2 ps inp.
Proof. exact conversion_order_irrelevant. Qed.
Print Assumptions C18_output_order_irrelevant.

(* the property's quantifier, on the model: for all iteration orders of the sets
   of the modelled stage and all histories of earlier conversions (in possibly
   different processes), the output for [inp] is the same *)
Theorem C18_deterministic_model : forall order1 order2 hist1 hist2 ps1 ps2 inp,
  set_preserving order1 -> set_preserving order2 ->
  last (snd (run_history (conversion order1) ps1 (hist1 ++ [inp]))) (Err EFuel)
  = last (snd (run_history (conversion order2) ps2 (hist2 ++ [inp]))) (Err EFuel).
Proof. exact deterministic_model. Qed.
Print Assumptions C18_deterministic_model.

(* VolumeT4.__str__ sorts: the text depends on the SET of ids only *)
Theorem C18_volume_text_order_irrelevant : forall order1 order2 k v,
  set_preserving order1 -> set_preserving order2 ->
  volume_line order1 k v = volume_line order2 k v.
Proof. exact volume_line_order_irrelevant. Qed.
Print Assumptions C18_volume_text_order_irrelevant.

(* `for key in unused: del dic[key]` *)
Theorem C18_remove_keys_order_irrelevant : forall (ks1 ks2 : list Z) (d : list (Z * vol)),
  (forall x, In x ks1 <-> In x ks2) -> remove_keys ks1 d = remove_keys ks2 d.
Proof. exact (@remove_keys_order_irrelevant vol). Qed.
Print Assumptions C18_remove_keys_order_irrelevant.

(* sorted(s) is a function of the set of elements *)
Theorem C18_sorted_depends_on_set_only : forall l1 l2 : list Z,
  (forall x, In x l1 <-> In x l2) -> zsort l1 = zsort l2.
Proof. exact zsort_ext. Qed.
Print Assumptions C18_sorted_depends_on_set_only.

(* PARTIAL — the one order that does reach the output: the insertion order of
   the surface collections (number_items hands out auxiliary ids in that
   order).  Upstream of the modelled stage that order is the iteration order
   of `tr_surf_ids`, a set of ints (audit: CSetLoop KInt); that CPython
   iterates such a set in a seed-independent order is tested, not proved. *)
Theorem C18_numbering_order_sensitive_partial :
  (forall x, In x items_a <-> In x items_b) /\
  dget 1001%Z (snd (number_items items_a)) <> dget 1001%Z (snd (number_items items_b)).
Proof. exact numbering_order_sensitive. Qed.
Print Assumptions C18_numbering_order_sensitive_partial.

(* non-vacuity: a concrete non-trivial input converts, twice in a row, to the
   same non-empty output *)
Example C18_example :
  let outs := snd (run_history (conversion (fun l => l)) ps0 [witness_input; witness_input]) in
  nth 0 outs (Err EFuel) = nth 1 outs (Err EFuel) /\ exists o, nth 0 outs (Err EFuel) = Ok o.
Proof. exact fresh_twice_same. Qed.

(* ---- (a') the same with the upstream phases (C18/Upstream.v): the TRCL,
   lattice and FILL phases thread new_cell_key, new_surf_key, the
   cell_transform cache and the insertion order of dic_surf_t4 through
   pot_transform / cell_transform / apply_trcl / pot_fill; [full_conversion]
   runs them from a FRESH CellConversion state and feeds the counter and the
   surface dictionary they produce to the numbering, the cell loop and the
   writer.  (Which top-level calls the phases make, the transformation tuples
   and the shapes of the transformed surfaces are data of the input.) ---- *)

Theorem C18_full_run_fresh_state : forall order fs1 fs2 x,
  snd (full_conversion order fs1 x) = snd (full_conversion order fs2 x).
Proof. exact full_fresh_state. Qed.
Print Assumptions C18_full_run_fresh_state.

Theorem C18_full_history_independent : forall order hist fs x,
  last (snd (run_full_history order fs (hist ++ [x]))) (Err EFuel)
  = snd (full_conversion order fs0 x).
Proof. exact full_history_independent. Qed.
Print Assumptions C18_full_history_independent.

(* the property's quantifier on the extended model *)
Theorem C18_full_deterministic_model : forall order1 order2 hist1 hist2 fs1 fs2 x,
  set_preserving order1 -> set_preserving order2 ->
  last (snd (run_full_history order1 fs1 (hist1 ++ [x]))) (Err EFuel)
  = last (snd (run_full_history order2 fs2 (hist2 ++ [x]))) (Err EFuel).
Proof. exact full_deterministic_model. Qed.
Print Assumptions C18_full_deterministic_model.

(* contrast: started from the cell_transform cache and the counters a previous
   run of the same deck left behind, the upstream phases do not reproduce what
   a fresh CellConversion gives *)
Theorem C18_upstream_state_relevant :
  (exists r, upstream witness_uinput = Ok r) /\
  forall st', run_ops (fresh_ustate witness_uinput) (ui_ops witness_uinput) = Ok st' ->
    upstream_from (mkU (u_ck st') (u_sk st') (u_cache st') (ui_items0 witness_uinput) []
                       (ui_shapes witness_uinput)) witness_uinput
    <> upstream witness_uinput.
Proof. exact upstream_state_relevant. Qed.
Print Assumptions C18_upstream_state_relevant.

(* ---- (a'') LINKED: the stages other properties model (C18/LinkStages.v).
   A stage = a function of (input, explicit state) + the function building its
   fresh state from the input; a process keeps the state of the last run but
   every run starts from the fresh one.  Generic: any stage, hence any pipeline
   built with [seq] / [par], is history-independent. ---- *)
From T4V Require Import Base.Scalar C18.LinkStages.
From T4V Require C05.Model C06.Model C11.Model C12.Model C12.Cards C13.Model C13.ModelTr C15.Model.

Theorem C18_stage_history_independent : forall (s : stage) hist1 hist2 p1 p2 i d,
  last (snd (proc_history s p1 (hist1 ++ [i]))) d
  = last (snd (proc_history s p2 (hist2 ++ [i]))) d.
Proof. exact stage_history_independent. Qed.
Print Assumptions C18_stage_history_independent.

(* contrast: with the state kept between runs a stage is not history-independent *)
Theorem C18_leaky_stage_depends_on_history :
  snd (proc_step_leaky counter_stage (fst (proc_step_leaky counter_stage None tt)) tt)
  <> snd (proc_step counter_stage (fst (proc_step counter_stage None tt)) tt).
Proof. exact leaky_stage_depends_on_history. Qed.
Print Assumptions C18_leaky_stage_depends_on_history.

(* the owners' models ARE of that shape: each stage's fresh run is, literally,
   the owner's function applied to a state built from the input alone (C12
   parse_deck_text, C15 parse_all, C11 eliminate_all = the pot_complement loop,
   C06 develop_lattice, C05 fill_phase from empty caches, C13 pot_fill_tr, and
   C18's own full_conversion) *)
Theorem C18_stage_shapes_linked :
  forall (F : Type) (SF : Scalar F) (prims12 : C12.Model.prims F) (T5 surf5 : Type)
         (tr_empty : T5 -> bool) (teqb : T5 -> T5 -> bool) (tr_surf : T5 -> surf5 -> surf5)
         (Tr13 : Type) (treqb : Tr13 -> Tr13 -> bool) (fuel cf : nat) (ifd ifg : bool)
         (order : list Z -> list Z),
    (forall i, fst (fresh_run (st_parse12 F SF prims12) i)
               = C12.Cards.parse_deck_text SF prims12 (fst (fst i)) (snd (fst i)) (snd i)) /\
    (forall i, fst (fresh_run (st_like15 F SF) i) = C15.Model.parse_all SF (fst i) (snd i)) /\
    (forall tbl, fst (fresh_run (st_complement11 fuel) tbl) = C11.Model.eliminate_all fuel tbl) /\
    (forall i, fst (fresh_run (st_lattice06 F SF) i)
               = C06.Model.develop_lattice SF (fst (fst i)) (snd (fst i)) (snd i)) /\
    (forall cells surfs nck nsk,
        fst (fresh_run (st_fill05 T5 surf5 tr_empty teqb tr_surf fuel cf ifd ifg)
                       (cells, surfs, nck, nsk))
        = @C05.Model.fill_phase T5 surf5 tr_empty teqb tr_surf fuel cf ifd ifg
                               (@C05.Model.mkSt T5 surf5 cells surfs nck nsk [] [])) /\
    (forall dic0 trs key st,
        fst (fresh_run (st_fill13 Tr13 treqb fuel ifd ifg) (dic0, trs, key, st))
        = C13.ModelTr.pot_fill_tr treqb fuel ifd ifg dic0 trs key st) /\
    (forall fs x, snd (fst (fresh_run (st_c18 order) x)) = snd (full_conversion order fs x)).
Proof. exact stage_shapes. Qed.
Print Assumptions C18_stage_shapes_linked.

(* all those stages side by side (C05 fill -> inline and C18 upstream ->
   conversion composed sequentially): for every history of earlier conversions
   in the same process the outputs of ALL stages for the last input are the
   outputs of a fresh process *)
Theorem C18_history_independent_linked :
  forall (F : Type) (SF : Scalar F) (prims12 : C12.Model.prims F) (T5 surf5 : Type)
         (tr_empty : T5 -> bool) (teqb : T5 -> T5 -> bool) (tr_surf : T5 -> surf5 -> surf5)
         (Tr13 : Type) (treqb : Tr13 -> Tr13 -> bool) (fuel cf : nat) (ifd ifg : bool)
         (order : list Z -> list Z) (num den : Z),
  let pl := pipeline F SF prims12 T5 surf5 tr_empty teqb tr_surf Tr13 treqb fuel cf ifd ifg
                     order num den in
  forall (hist1 hist2 : list (s_in pl)) (p1 p2 : proc pl) (i : s_in pl) (d : s_out pl),
  last (snd (proc_history pl p1 (hist1 ++ [i]))) d
  = last (snd (proc_history pl p2 (hist2 ++ [i]))) d.
Proof. exact history_independent_linked. Qed.
Print Assumptions C18_history_independent_linked.

(* ---- (a3) LINKED, CHAINED (C18/ChainStages.v): where an owner publishes a
   translation between two models the stages are chained, later stages
   consuming what earlier ones produce:
     chain A  C11 eliminate_loop --C01.LinkC11.cells_of--> C01 convert_cells -> prune -> print_table
     chain B  C13 fill_loop ; inline_cells --C13.LinkC01.embed_cells--> C01 convert_cells -> prune -> print_table
   [chained_pipeline] is ONE stage value (state: C11's table, C13's table and
   counter, C01's counter / volume dictionary / two caches, twice). ---- *)
From T4V Require Import C18.ChainStages.
From T4V Require C01.Model C01.Printer C01.LinkC11 C13.LinkC01.

Theorem C18_chained_pipeline_history_independent_linked :
  forall fuel11 fuel13 cfuel
         (hist1 hist2 : list (s_in (chained_pipeline fuel11 fuel13 cfuel)))
         (p1 p2 : proc (chained_pipeline fuel11 fuel13 cfuel))
         (i : s_in (chained_pipeline fuel11 fuel13 cfuel))
         (d : s_out (chained_pipeline fuel11 fuel13 cfuel)),
  last (snd (proc_history (chained_pipeline fuel11 fuel13 cfuel) p1 (hist1 ++ [i]))) d
  = last (snd (proc_history (chained_pipeline fuel11 fuel13 cfuel) p2 (hist2 ++ [i]))) d.
Proof. exact chained_pipeline_history_independent. Qed.
Print Assumptions C18_chained_pipeline_history_independent_linked.

(* what the chains compute is exactly: the owner's first stage, the owner's
   translation, C01's own [pipeline] (convert_cells from mkSt cnt0 [] [] [],
   then prune) and C01's printer *)
Theorem C18_chained_pipeline_shapes_linked :
  (forall fuel11 cfuel tbl r,
     fst (fresh_run (chainA fuel11 cfuel) (tbl, r))
     = (C11.Model.eliminate_all fuel11 tbl,
        match C11.Model.eliminate_all fuel11 tbl with
        | C11.Model.Err _ => None
        | C11.Model.Ok tbl' =>
            Some (fst (fst (fresh_run (st_backend01 cfuel) (C01.LinkC11.cells_of tbl', r))),
                  match C01.Model.pipeline cfuel (C01.LinkC11.cells_of tbl') (r_matching r) (r_u0 r)
                                           (r_u1 r) (r_todo r) (r_cnt0 r) (r_rn r) with
                  | C01.Model.Ok (_, d) => Some (C01.Printer.print_table (r_skipped r) d)
                  | C01.Model.Err _ => None
                  end)
        end)) /\
  (forall fuel13 cfuel o dic counter r,
     fst (fresh_run (chainB fuel13 cfuel) (o, dic, counter, r))
     = (C13.Model.cell_stage fuel13 o dic counter,
        match C13.Model.cell_stage fuel13 o dic counter with
        | C13.Model.Err _ => None
        | C13.Model.Ok (d2, _) =>
            Some (fst (fst (fresh_run (st_backend01 cfuel) (C13.LinkC01.embed_cells d2, r))),
                  match C01.Model.pipeline cfuel (C13.LinkC01.embed_cells d2) (r_matching r) (r_u0 r)
                                           (r_u1 r) (r_todo r) (r_cnt0 r) (r_rn r) with
                  | C01.Model.Ok (_, d) => Some (C01.Printer.print_table (r_skipped r) d)
                  | C01.Model.Err _ => None
                  end)
        end)) /\
  (* non-vacuity: chain A on C01.LinkC11's example deck prints VOLU lines *)
  (exists t x lines,
     fst (fresh_run (chainA 10 3)
            (C01.LinkC11.exl_tbl, mkRest C01.LinkC11.exl_matching 5%Z 6%Z [1%Z; 2%Z] 2%Z None []))
     = (C11.Model.Ok t, Some (x, Some lines)) /\ lines <> []).
Proof. exact (conj chainA_shape (conj chainB_shape chainA_example)). Qed.
Print Assumptions C18_chained_pipeline_shapes_linked.

(* ---- (b) the effect-footprint audit: what [audit_ok] guarantees of ANY
   footprint; coq/generated/Footprint.v instantiates these on the footprint of
   the sources of the day, with [audit_ok allow footprint = true] proved by
   vm_compute on every run ---- *)
Open Scope string_scope.

Theorem C18_audit_globals_readonly : forall al fp, audit_ok al fp = true ->
  forall e v, In e fp -> e_live e = true -> is_global_binding e = Some v ->
  v = VImmutable \/ Allowed al e.
Proof. exact audit_globals_readonly. Qed.
Print Assumptions C18_audit_globals_readonly.

Theorem C18_audit_ord_only_ints : forall al fp, audit_ok al fp = true ->
  forall e k, In e fp -> e_live e = true -> is_set_loop e = Some (k, SinkOrdered) ->
  k = KInt \/ Allowed al e.
Proof. exact audit_ord_only_ints. Qed.
Print Assumptions C18_audit_ord_only_ints.

Theorem C18_audit_effects_allowlisted : forall al fp, audit_ok al fp = true ->
  forall e, In e fp -> e_live e = true ->
  is_store e = true \/ is_write e = true \/ is_unknown e = true -> Allowed al e.
Proof. exact audit_effects_allowlisted. Qed.
Print Assumptions C18_audit_effects_allowlisted.

(* no live read of the environment, the clock, randomness, object identities /
   hash values, directory order or the command line, and no live read of state
   pickled by an earlier run, unless allow-listed *)
Theorem C18_audit_ambient_allowlisted : forall al fp, audit_ok al fp = true ->
  forall e, In e fp -> e_live e = true -> is_ambient e = true -> Allowed al e.
Proof. exact audit_ambient_allowlisted. Qed.
Print Assumptions C18_audit_ambient_allowlisted.

Theorem C18_audit_fail_closed : forall al fp e,
  In e fp -> e_live e = true -> is_unknown e = true -> allowed_by al e = false ->
  audit_ok al fp = false.
Proof. exact audit_fail_closed. Qed.
Print Assumptions C18_audit_fail_closed.

(* non-vacuity of the audit theorems: the decision accepts a harmless entry and
   rejects an unknown one *)
Example C18_audit_example :
  audit_ok allow [mkEntry "a.py" "f" "iterate s" true (CSetLoop KInt SinkOrdered)] = true /\
  audit_ok allow [mkEntry "a.py" "f" "iterate s" true (CSetLoop KStr SinkOrdered)] = false.
Proof. split; vm_compute; reflexivity. Qed.
