(* C18 — Conversion is deterministic and leaves no state between runs.
   PARTIAL: theorems about the state-threaded model and the audit decision;
   the runtime facts are tested by the harness, not proved.
   Only restatements; proofs are in C18/*.v. *)
From Coq Require Import List Bool String Ascii.
From T4V Require Import C18.Audit C18.AuditProofs C18.Allow.
Import ListNotations.
Open Scope string_scope.

(* ---- the effect-footprint audit: what [audit_ok] guarantees of ANY footprint
   (the generated coq/generated/Footprint.v instantiates these on the footprint
   of the sources of the day, with [audit_ok allow footprint = true] proved by
   vm_compute on every run) ---- *)

Theorem C18_audit_globals_readonly : forall al fp, audit_ok al fp = true ->
  forall e v, In e fp -> e_live e = true -> is_global_binding e = Some v ->
  v = VImmutable \/ Allowed al e.
Proof. exact audit_globals_readonly. Qed.
Print Assumptions C18_audit_globals_readonly.

Theorem C18_audit_ord_only_ints : forall al fp, audit_ok al fp = true ->
  forall e k, In e fp -> e_live e = true -> is_set_loop e = Some (k, SinkOrdered) ->
  k = KInt \/ Allowed al e.
Proof. exact audit_ord_only_ints. Qed.
Print Assumptions C18_audit_ord_only_ints.

Theorem C18_audit_effects_allowlisted : forall al fp, audit_ok al fp = true ->
  forall e, In e fp -> e_live e = true ->
  is_store e = true \/ is_write e = true \/ is_unknown e = true -> Allowed al e.
Proof. exact audit_effects_allowlisted. Qed.
Print Assumptions C18_audit_effects_allowlisted.

Theorem C18_audit_fail_closed : forall al fp e,
  In e fp -> e_live e = true -> is_unknown e = true -> allowed_by al e = false ->
  audit_ok al fp = false.
Proof. exact audit_fail_closed. Qed.
Print Assumptions C18_audit_fail_closed.
