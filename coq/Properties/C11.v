(* C11 — Cell expressions denote the Boolean function MCNP assigns to them.
   Only restatements; proofs are in C11/Proofs.v. Spec vocabulary: C11/Spec.v. *)
From Coq Require Import List NArith ZArith Bool String.
From T4V Require Import C11.Model C11.Spec C11.Proofs.
Import ListNotations.
Close Scope string_scope.
Open Scope list_scope.

(* De Morgan: the inverse of a complement-free tree denotes the negation, for
   every sense assignment (surface numbers non-zero) *)
Theorem C11_inverse_den : forall a : ast, a_plain a = true ->
  exists a', inverse a = Ok a' /\ a_plain a' = true /\
    (a_nonzero a = true -> a_nonzero a' = true /\
       forall cd sg, aden cd sg a' = negb (aden cd sg a)).
Proof. exact inverse_plain. Qed.
Print Assumptions C11_inverse_den.

(* ... and a tree that still contains a cell complement (or the raw list built
   for lattice complements) cannot be inverted: AttributeError *)
Theorem C11_inverse_complcell_rejects : forall a : ast, a_plain a = false -> inverse a = Err EAttribute.
Proof. exact inverse_not_plain. Qed.
Print Assumptions C11_inverse_complcell_rejects.

(* complement elimination: for every table of cells whose #n references are
   well founded (rank decreases) and for every sense assignment, the
   complement-free tree denotes what MCNP means by the expression, where
   "cd n" is the membership of the point in cell n *)
Theorem C11_pot_complement_den : forall cells rk, table_ok cells rk ->
  forall k a, refs_below cells rk k a -> a_nonzero a = true ->
  exists F t, (forall f, F <= f -> pot_complement f cells a = Ok t) /\
    a_plain t = true /\ a_nonzero t = true /\
    forall sg cd, cells_meaning cells sg cd -> aden cd sg t = aden cd sg a.
Proof. exact pot_complement_sound. Qed.
Print Assumptions C11_pot_complement_den.

Theorem C11_pot_complement_lattice_empty : forall cells n c z sub f,
  cells n = Some c -> c_lattice c = true -> first_surface (c_geom c) = Some (ASurf z sub) -> z <> 0%Z ->
  pot_complement (S f) cells (ACompl n) = Ok (ARawAnd (ASurf z sub) (ASurf (- z) sub)) /\
  forall cd sg, aden cd sg (ARawAnd (ASurf z sub) (ASurf (- z) sub)) = false.
Proof. exact pot_complement_lattice. Qed.
Print Assumptions C11_pot_complement_lattice_empty.

(* parsing: every admissible MCNP expression, written with MCNP's precedence
   (blank binds tighter than ':', parentheses only where needed, #( ) and #n),
   is accepted and yields GeomSemantics' tree ... *)
Theorem C11_parse_print : forall e : mexpr, admissible e = true ->
  exists a, parse_tokens (toks 0 e) = Ok a /\ sem e = Ok a.
Proof. exact parse_print. Qed.
Print Assumptions C11_parse_print.

(* ... which denotes the Boolean function MCNP assigns to the expression, for
   every sense assignment and every meaning of the referenced cells *)
Theorem C11_parse_print_den : forall e : mexpr, admissible e = true ->
  exists a, parse_tokens (toks 0 e) = Ok a /\ forall cd sg, aden cd sg a = mden cd sg e.
Proof. exact parse_print_den. Qed.
Print Assumptions C11_parse_print_den.

(* [admissible] excludes exactly two classes of well-formed MCNP expressions
   that the code rejects (genuine defects, known findings): *)
Theorem C11_nested_refuted :
  exists e s, nonzero e = true /\ no_colon_hash e = true /\
    tokens_of s = toks 0 e /\ get_ast s = Err EAttribute.
Proof. exact nested_refuted. Qed.
Print Assumptions C11_nested_refuted.

Theorem C11_colon_hash_refuted :
  exists e s, nonzero e = true /\ no_cell_under_not e = true /\
    tokens_of s = toks 0 e /\ get_ast s = Err EParse.
Proof. exact colon_hash_refuted. Qed.
Print Assumptions C11_colon_hash_refuted.

(* non-vacuity: a concrete expression with union, intersection, both kinds of
   complement, a facet; it is admissible and its text lexes to its tokens *)
Example C11_example :
  let e := MOr (MAnd (MNot (MOr (MLit 1 None) (MLit (-2) (Some 3%N)))) (MNotCell 5)) (MLit 4 None) in
  admissible e = true /\ tokens_of "#(1:-2.3) #5:4"%string = toks 0 e /\
  get_ast "#( 1 : -2.3 )#5 : 4"%string = sem e.
Proof. cbv zeta. repeat split; vm_compute; reflexivity. Qed.

(* non-vacuity of the complement theorem: a three-cell table *)
Example C11_example_table :
  let cells := fun n : N => match n with
     | 1%N => Some (mkCell (AAnd (ASurf (-1) None) (ASurf 2 None)) false)
     | 2%N => Some (mkCell (AOr (ACompl 1) (ASurf 3 None)) false)
     | 3%N => Some (mkCell (AAnd (ACompl 2) (ACompl 1)) false)
     | _ => None end in
  table_ok cells N.to_nat /\
  pot_complement 10 cells (AAnd (ACompl 2) (ACompl 1)) =
  Ok (AAnd (AAnd (AAnd (ASurf (-1) None) (ASurf 2 None)) (ASurf (-3) None))
           (AOr (ASurf 1 None) (ASurf (-2) None))).
Proof.
  cbv zeta. split; [|vm_compute; reflexivity].
  intros n c H. destruct n as [|[[|[]|]|[|[]|]|]]; try discriminate; injection H as <-; cbn;
    repeat split; eauto; try (eexists; repeat split; try reflexivity; cbn; lia).
Qed.
