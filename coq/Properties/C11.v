(* C11 — Cell expressions denote the Boolean function MCNP assigns to them.
   Only restatements; proofs are in C11/Proofs.v. Spec vocabulary: C11/Spec.v. *)
From Coq Require Import List NArith ZArith Bool String Ascii Lia.
From T4V Require Import Base.Str C11.Model C11.Spec C11.Proofs C11.LexProofs C11.LexSound C11.Layout C11.Pipeline C11.Sound C11.Complete C11.Loop C11.Card C11.Handover C11.EndToEnd C11.Regex.
From T4V Require C11.Exec C11.RegexProofs C11.RegexBound6 C15.Model.
From T4V Require Import C11.LinkC15 C11.NormalForm C11.PegProofs C11.PegAuto.
Import ListNotations.
Close Scope string_scope.
Open Scope list_scope.

(* De Morgan: the inverse of a complement-free tree denotes the negation, for
   every sense assignment (surface numbers non-zero) *)
Theorem C11_inverse_den : forall a : ast, a_plain a = true ->
  exists a', inverse a = Ok a' /\ a_plain a' = true /\
    (a_nonzero a = true -> a_nonzero a' = true /\
       forall cd sg, aden cd sg a' = negb (aden cd sg a)).
Proof. exact inverse_plain. Qed.
Print Assumptions C11_inverse_den.

(* ... and a tree that still contains a cell complement (or the raw list built
   for lattice complements) cannot be inverted: AttributeError *)
Theorem C11_inverse_complcell_rejects : forall a : ast, a_plain a = false -> inverse a = Err EAttribute.
Proof. exact inverse_not_plain. Qed.
Print Assumptions C11_inverse_complcell_rejects.

(* complement elimination: for every table of cells whose #n references are
   well founded (rank decreases) and for every sense assignment, the
   complement-free tree denotes what MCNP means by the expression, where
   "cd n" is the membership of the point in cell n *)
Theorem C11_pot_complement_den : forall cells rk, table_ok cells rk ->
  forall k a, refs_below cells rk k a -> a_nonzero a = true ->
  exists F t, (forall f, F <= f -> pot_complement f cells a = Ok t) /\
    a_plain t = true /\ a_nonzero t = true /\
    forall sg cd, cells_meaning cells sg cd -> aden cd sg t = aden cd sg a.
Proof. exact pot_complement_sound. Qed.
Print Assumptions C11_pot_complement_den.

(* the loop the converter actually runs (ConstructVolumeT4: every cell of the
   dictionary in order, geometry replaced in place): for every well-founded
   table it terminates, every cell ends complement-free, and each new geometry
   holds exactly where the old one (hence the MCNP cell) does *)
Theorem C11_eliminate_all_den : forall (tbl : table) rk, table_ok (lookup tbl) rk ->
  exists F tbl', (forall f, F <= f -> eliminate_all f tbl = Ok tbl') /\
    forall n c, lookup tbl n = Some c ->
      exists c', lookup tbl' n = Some c' /\ a_plain (c_geom c') = true /\
        a_nonzero (c_geom c') = true /\
        forall sg cd, cells_meaning (lookup tbl) sg cd ->
          aden cd sg (c_geom c') = aden cd sg (c_geom c).
Proof. exact eliminate_all_den. Qed.
Print Assumptions C11_eliminate_all_den.

(* ---- hand-over to C01 (pot_flag and after) ----
   C01's model starts from trees of ('*', l, r) / (':', l, r) nodes with
   Surface leaves of non-zero number.  In this model: [a_plain t] = only
   AAnd / AOr nodes over ASurf leaves (no '^', no raw list), [a_nonzero t] = all
   surface numbers non-zero; C11_eliminate_all_den above gives both, with the
   meaning preserved, for every cell of every well-founded table.
   UNCONDITIONALLY (any table: cyclic, dangling, lattice cells; any fuel):
   whenever complement elimination returns a tree, no '^' node is left in it
   ([no_compl]: AAnd / AOr / the raw '*' list of a lattice complement, over
   ASurf leaves) -- for one call and for the whole in-place loop *)
Theorem C11_handover_no_complement : forall cells f a t,
  pot_complement f cells a = Ok t -> no_compl t = true.
Proof. exact pot_complement_no_compl. Qed.
Print Assumptions C11_handover_no_complement.

Theorem C11_handover_loop : forall f (tbl tbl' : table), eliminate_all f tbl = Ok tbl' ->
  forall n c', lookup tbl' n = Some c' -> no_compl (c_geom c') = true.
Proof. exact eliminate_all_no_compl. Qed.
Print Assumptions C11_handover_loop.

Theorem C11_pot_complement_lattice_empty : forall cells n c z sub f,
  cells n = Some c -> c_lattice c = true -> first_surface (c_geom c) = Some (ASurf z sub) -> z <> 0%Z ->
  pot_complement (S f) cells (ACompl n) = Ok (ARawAnd (ASurf z sub) (ASurf (- z) sub)) /\
  forall cd sg, aden cd sg (ARawAnd (ASurf z sub) (ASurf (- z) sub)) = false.
Proof. exact pot_complement_lattice. Qed.
Print Assumptions C11_pot_complement_lattice_empty.

(* ---- parsing ---- *)
(* token level: the canonical token sequence of every admissible expression
   (MCNP's precedence: blank binds tighter than ':', parentheses only where
   needed, #( ) and #n) is accepted and yields GeomSemantics' tree ... *)
Theorem C11_parse_print_tokens : forall e : mexpr, admissible e = true ->
  exists a, parse_tokens (toks 0 e) = Ok a /\ sem e = Ok a /\
            forall cd sg, aden cd sg a = mden cd sg e.
Proof. exact parse_print_tokens. Qed.
Print Assumptions C11_parse_print_tokens.

(* the layout lemma: the lexer reads EVERY admissible writing of a token
   sequence back to that sequence. A writing fixes, per token, the number of
   blanks in front of it (and at the end of the text), the spelling of numbers
   (any digit string, leading zeros included), an optional '+', the blanks
   between '#' and what follows; the only constraints ([wf_written]) are the
   blanks MCNP itself needs: between two literals, and between #n and an
   unsigned literal *)
Theorem C11_lex_render : forall (ws : written) (trail : nat), wf_written ws = true ->
  tokens_of (render ws trail) = tokens_written ws.
Proof. exact tokens_of_render. Qed.
Print Assumptions C11_lex_render.

(* string level, the canonical writing: decimal numbers, one blank between
   tokens. For every admissible expression (one-digit facets) the text is
   accepted and the tree denotes the Boolean function MCNP assigns to the
   expression, for every sense assignment and every meaning of the referenced
   cells *)
Theorem C11_parse_print_canonical : forall e : mexpr,
  admissible e = true -> facets_ok e = true ->
  exists a, get_ast (print e) = Ok a /\ sem e = Ok a /\
            forall cd sg, aden cd sg a = mden cd sg e.
Proof. exact parse_print_canonical. Qed.
Print Assumptions C11_parse_print_canonical.

(* string level, every layout of the family *)
Theorem C11_parse_print : forall (e : mexpr) (ws : written) (trail : nat),
  admissible e = true -> wf_written ws = true -> tokens_written ws = toks 0 e ->
  exists a, get_ast (render ws trail) = Ok a /\ sem e = Ok a /\
            forall cd sg, aden cd sg a = mden cd sg e.
Proof. exact parse_print_layout. Qed.
Print Assumptions C11_parse_print.

(* the family is inhabited for every expression *)
Theorem C11_layout_exists : forall e : mexpr, facets_ok e = true ->
  exists ws, wf_written ws = true /\ tokens_written ws = toks 0 e.
Proof. exact layout_exists. Qed.
Print Assumptions C11_layout_exists.

(* ---- the property end to end (model level) ----
   any table of admissible cells whose complements are well founded, any
   admissible expression referring to it, written in any layout of the family:
   the text is accepted, complement elimination terminates with a
   complement-free tree, and for EVERY sense assignment the tree holds exactly
   where MCNP says the expression holds ([cd] = membership in the table's cells
   as MCNP defines it) *)
Theorem C11_pipeline : forall mc cells rk (e : mexpr) (ws : written) (trail k : nat),
  parsed_table mc cells -> table_ranked mc rk ->
  admissible e = true -> mrefs (fun m => (exists e', mc m = Some e') /\ rk m < k) e ->
  wf_written ws = true -> tokens_written ws = toks 0 e ->
  exists a F t, get_ast (render ws trail) = Ok a /\
    (forall f, F <= f -> pot_complement f cells a = Ok t) /\ a_plain t = true /\
    forall sg cd, mcnp_meaning mc sg cd -> aden cd sg t = mden cd sg e.
Proof. exact pipeline. Qed.
Print Assumptions C11_pipeline.

(* ---- what happens outside [admissible] ----
   parser o printer is the function [psem] for EVERY expression (errors
   included, in the order the parser meets them); [psem] is GeomSemantics on
   the abstract expression ... *)
Theorem C11_parse_psem : forall (e : mexpr) (ws : written) (trail : nat),
  wf_written ws = true -> tokens_written ws = toks 0 e -> get_ast (render ws trail) = psem e.
Proof. exact get_ast_render_psem. Qed.
Print Assumptions C11_parse_psem.

Theorem C11_psem_is_sem : forall e : mexpr, psem e = sem e.
Proof. exact psem_eq_sem. Qed.
Print Assumptions C11_psem_is_sem.

(* ... so the accepted expressions are exactly those with no cell complement
   below a #( ) (since /repo d73f13e a complement may follow ':' directly) ... *)
Theorem C11_accepted_iff : forall (e : mexpr) (ws : written) (trail : nat),
  wf_written ws = true -> tokens_written ws = toks 0 e ->
  ((exists a, get_ast (render ws trail) = Ok a) <-> no_cell_under_not e = true).
Proof. exact accepted_written_iff. Qed.
Print Assumptions C11_accepted_iff.

(* ... and every well-formed expression with a #n below #( ), in every layout,
   raises AttributeError (known finding nested_complement_of_cellref) *)
Theorem C11_nested_rejected : forall (e : mexpr) (ws : written) (trail : nat),
  wf_written ws = true -> tokens_written ws = toks 0 e ->
  no_cell_under_not e = false ->
  get_ast (render ws trail) = Err EAttribute.
Proof. exact nested_rejected_written. Qed.
Print Assumptions C11_nested_rejected.

(* ---- soundness of acceptance ----
   whatever token sequence the parser accepts is the canonical token sequence
   of an MCNP expression (its parentheses as MParen nodes), the tree is
   [psem e], and it denotes MCNP's meaning of that expression: the parser never
   gives a meaning to something that is not an expression, nor a wrong one.
   (token level first, string level below) *)
Theorem C11_parse_sound : forall (ts : list token) (a : ast), parse_tokens ts = Ok a ->
  exists e, toks 0 e = ts /\ psem e = Ok a /\
    (nonzero e = true -> forall cd sg, aden cd sg a = mden cd sg e).
Proof. exact parse_sound_den. Qed.
Print Assumptions C11_parse_sound.

(* converse of the layout lemma: a text the lexer reads without error IS a
   writing of the layout family, of the tokens it returns *)
Theorem C11_lex_sound : forall s : String.string, ~ In TBad (tokens_of s) ->
  exists ws trail, render ws trail = s /\ wf_written ws = true /\ tokens_written ws = tokens_of s.
Proof. exact tokens_of_sound. Qed.
Print Assumptions C11_lex_sound.

(* string level: every accepted text is a layout of an MCNP expression and the
   tree denotes MCNP's meaning of it *)
Theorem C11_get_ast_sound : forall (s : String.string) (a : ast), get_ast s = Ok a ->
  exists e ws trail, render ws trail = s /\ wf_written ws = true /\
    tokens_written ws = toks 0 e /\ psem e = Ok a /\
    (nonzero e = true -> forall cd sg, aden cd sg a = mden cd sg e).
Proof. exact get_ast_sound_written. Qed.
Print Assumptions C11_get_ast_sound.

(* the accepted texts are exactly the writings of the accepted expressions *)
Theorem C11_get_ast_accepts_iff : forall s : String.string,
  (exists a, get_ast s = Ok a) <->
  (exists e ws trail, render ws trail = s /\ wf_written ws = true /\
     tokens_written ws = toks 0 e /\ no_cell_under_not e = true).
Proof. exact get_ast_accepts_iff. Qed.
Print Assumptions C11_get_ast_accepts_iff.

(* ---- the cell card (MIP/mip/cellcard.py split) ----
   a card  name blanks mat [blanks rho] blanks E options : name and material
   number are digit strings ("0"... = void, then no density), the density is
   any token without blanks and parentheses that does not start with a letter
   or '*' ("-2.7", "1.0E-3"), E consists of expression characters and starts
   with a non-blank and is separated from the material part by g3 blanks
   ([sep_ok]: g3 may be 0 when an opening parenthesis follows a density,
   "3 -2.7(1:2)"), the options (if any) start with a letter or '*' right after
   a ')' or a blank.  split() returns E with its leading blanks as the geometry
   and the options untouched *)
Theorem C11_split_card : forall name g1 mat rho g3 E opts,
  digits_ok name = true -> mat_ok mat rho ->
  str_forall expr_char E = true -> head_sat nonblank E = true -> sep_ok rho g3 E -> opts_ok E opts ->
  split_card (card_body name g1 mat rho g3 E ++ opts)%string = Ok ((blanks g3 ++ E)%string, opts).
Proof. exact split_card_wellformed. Qed.
Print Assumptions C11_split_card.

(* ... and when E is any layout of any expression e, parsing the geometry part
   gives exactly [psem e] (hence, with C11_parse_print / C11_pipeline, MCNP's
   meaning when e is admissible) *)
Theorem C11_card_geometry : forall name g1 mat rho g3 (e : mexpr) w r trail opts,
  let ws := (0, w) :: r in
  digits_ok name = true -> mat_ok mat rho ->
  wf_written ws = true -> tokens_written ws = toks 0 e ->
  sep_ok rho g3 (render ws trail) -> opts_ok (render ws trail) opts ->
  exists geom, split_card (card_body name g1 mat rho g3 (render ws trail) ++ opts)%string = Ok (geom, opts) /\
               get_ast geom = psem e.
Proof. exact card_geometry. Qed.
Print Assumptions C11_card_geometry.

(* ---- the whole property, from the text of the cell cards to the trees
   handed to pot_flag (model level) ----
   a deck = a list of cards, each written in any way the format allows
   ([card_ok]: name / material / density tokens, any layout of an admissible
   expression, options) with well-founded complements.  Then every card is
   split and parsed ([build_table] = split_card + get_ast per card), the
   complement loop terminates, and every cell ends with a tree of '*' / ':'
   nodes over non-zero Surface leaves which, for EVERY sense assignment, holds
   exactly where MCNP says the cell's expression holds *)
Theorem C11_deck_end_to_end : forall (cs : list card) rk,
  Forall card_ok cs -> table_ranked (deck_mc cs) rk ->
  exists tbl F tbl',
    build_table (deck_cards cs) = Ok tbl /\
    (forall f, F <= f -> eliminate_all f tbl = Ok tbl') /\
    forall n e, deck_mc cs n = Some e ->
      exists c', lookup tbl' n = Some c' /\ a_plain (c_geom c') = true /\
        a_nonzero (c_geom c') = true /\
        forall sg cd, mcnp_meaning (deck_mc cs) sg cd -> aden cd sg (c_geom c') = mden cd sg e.
Proof. exact deck_end_to_end. Qed.
Print Assumptions C11_deck_end_to_end.

(* non-vacuity: the deck  "1 0 -1 2 imp:n=1" / "2 3 -2.7 #1:3" *)
Example C11_example_deck :
  let c1 := mkCard 1 "1"%string 0 "0"%string None 1 (MAnd (MLit (-1) None) (MLit 2 None))
              (WLit true false "1"%string None) [(1, WLit false false "2"%string None)] 1 "imp:n=1"%string in
  let c2 := mkCard 2 "2"%string 0 "3"%string (Some (0, "-2.7"%string)) 1 (MOr (MNotCell 1) (MLit 3 None))
              (WHashN 0 "1"%string) [(0, WColon); (0, WLit false false "3"%string None)] 0 ""%string in
  Forall card_ok [c1; c2] /\ table_ranked (deck_mc [c1; c2]) N.to_nat /\
  deck_cards [c1; c2] = [(1%N, "1 0 -1 2 imp:n=1"%string); (2%N, "2 3 -2.7 #1:3"%string)] /\
  (match build_table (deck_cards [c1; c2]) with
   | Ok tbl => option_map (map (fun p => (fst p, c_geom (snd p)))) (match eliminate_all 10 tbl with Ok t => Some t | Err _ => None end)
   | Err _ => None end) =
  Some [(1%N, AAnd (ASurf (-1) None) (ASurf 2 None));
        (2%N, AOr (AOr (ASurf 1 None) (ASurf (-2) None)) (ASurf 3 None))].
Proof.
  cbv zeta. split; [|split; [|split]].
  - constructor; [|constructor; [|constructor]]; unfold card_ok, mat_ok, sep_ok; cbn.
    + repeat split; try reflexivity; try (left; discriminate).
      right. exists "-1 2"%string, " "%char, "i"%char, "mp:n=1"%string. repeat split; reflexivity.
    + repeat split; try reflexivity; try discriminate; try (left; discriminate). left. reflexivity.
  - intros n e H. unfold deck_mc in H. cbn [find k_id] in H.
    destruct (N.eqb 1 n) eqn:E1; [injection H as <-; cbn; auto|].
    destruct (N.eqb 2 n) eqn:E2; [|discriminate]. injection H as <-. apply N.eqb_eq in E2. subst n.
    cbn. repeat split; try (eexists; reflexivity); lia.
  - vm_compute. reflexivity.
  - vm_compute. reflexivity.
Qed.

(* ---- the open finding, exactly ----
   every written MCNP expression is in exactly one of two cases: no #n below a
   #( ) and accepted with MCNP's meaning, or one such #n and AttributeError.
   The class nested_complement_of_cellref is therefore precisely the complement
   of the accepted set within the well-formed expressions; MCNP's meaning of a
   rejected expression is [mden cd sg e] as for every expression *)
Theorem C11_written_dichotomy : forall (e : mexpr) (ws : written) (trail : nat),
  wf_written ws = true -> tokens_written ws = toks 0 e ->
  (no_cell_under_not e = true /\
   exists a, get_ast (render ws trail) = Ok a /\
             (nonzero e = true -> forall cd sg, aden cd sg a = mden cd sg e)) \/
  (no_cell_under_not e = false /\ get_ast (render ws trail) = Err EAttribute).
Proof. exact written_dichotomy. Qed.
Print Assumptions C11_written_dichotomy.

Theorem C11_rejected_iff_nested : forall (e : mexpr) (ws : written) (trail : nat),
  wf_written ws = true -> tokens_written ws = toks 0 e ->
  ((exists x, get_ast (render ws trail) = Err x) <-> no_cell_under_not e = false).
Proof. exact rejected_iff_nested. Qed.
Print Assumptions C11_rejected_iff_nested.

(* ---- the code-shaped model ----
   Regex.v models normalize() as the composition of its eight re.sub calls
   (one explicit rewriting function each, tied one by one to the regexes on all
   short strings incl. the private characters) followed by the
   character-level PEG of geom.ebnf with GeomSemantics; that model and the lexer
   + automaton model used by all theorems above are the same function on every
   string of length <= 5 over "123-#(): ." (111 111 strings, by computation;
   the thorough tier extends the computation to length 6 and to length 7 over
   nine characters) *)
Theorem C11_get_ast2_eq_bounded : forall s : String.string, (String.length s <= 5)%nat ->
  (forall c, In c (String.list_ascii_of_string s) -> In c Exec.alpha3) -> get_ast2 s = get_ast s.
Proof. exact RegexProofs.get_ast2_eq_short. Qed.
Print Assumptions C11_get_ast2_eq_bounded.

(* UNBOUNDED: the normal form of normalize2 (the eight rewriting steps as given in
   Regex.v) on the whole layout family: whatever the blanks, the spelling of the
   numbers and the '+' signs, normalize2 (render ws trail) is the concatenation
   of the token texts ('#n' as '^(n)', '#(' as '_(') with one '*' exactly between
   a token that ends an operand (literal, ')', '^(n)') and one that starts an
   operand (literal, '(', '^(n)', '_(') *)
Theorem C11_normalize2_normal_form : forall (ws : written) (trail : nat),
  wf_written ws = true -> ws <> [] -> normalize2 (render ws trail) = normal_form ws.
Proof. exact normalize2_normal_form. Qed.
Print Assumptions C11_normalize2_normal_form.

(* the character-level PEG (as given in Regex.v) on the normal form of any writing
   of any expression returns [psem e]: the PEG against the token automaton, for
   texts of any length *)
Theorem C11_peg_normal_form : forall (e : mexpr) (ws : written),
  wf_written ws = true -> tokens_written ws = toks 0 e -> peg_start (normal_form ws) = psem e.
Proof. exact peg_normal_form. Qed.
Print Assumptions C11_peg_normal_form.

(* UNBOUNDED equality of the two models on the whole layout family: every
   writing of every expression, accepted or rejected, of any length *)
Theorem C11_get_ast2_eq_written : forall (e : mexpr) (ws : written) (trail : nat),
  wf_written ws = true -> tokens_written ws = toks 0 e ->
  get_ast2 (render ws trail) = get_ast (render ws trail).
Proof. exact get_ast2_eq_written. Qed.
Print Assumptions C11_get_ast2_eq_written.

(* ... hence for EVERY string: whatever the lexer + automaton model accepts, the
   code-shaped model accepts with the same tree (C11_get_ast_sound puts every
   accepted string in the layout family) *)
Theorem C11_get_ast2_eq_accepted : forall (s : String.string) (a : ast),
  get_ast s = Ok a -> get_ast2 s = Ok a.
Proof. exact get_ast2_eq_accepted. Qed.
Print Assumptions C11_get_ast2_eq_accepted.

(* round 4: the character-level PEG on the normal form of ANY written token sequence
   (expression or not) equals the pushdown automaton on its tokens, results and
   exceptions alike — a simulation of [run] by the PEG, stack frame by stack frame *)
Theorem C11_peg_any_tokens : forall ws : written, wf_written ws = true ->
  peg_start (normal_form ws) = parse_tokens (tokens_written ws).
Proof. exact peg_any_tokens. Qed.
Print Assumptions C11_peg_any_tokens.

(* UNBOUNDED: the two models agree on EVERY string the lexer can tokenize, accepted
   or rejected, whatever its length *)
Theorem C11_get_ast2_eq_lexable : forall s : String.string,
  ~ In TBad (tokens_of s) -> get_ast2 s = get_ast s.
Proof. exact get_ast2_eq_lexable. Qed.
Print Assumptions C11_get_ast2_eq_lexable.

(* PARTIAL towards "get_ast2 s = get_ast s for all strings s": what is still
   missing are exactly the strings with a LEXICAL error ([tokens_of s] contains
   TBad: a sign without digits, '#' not followed by digits or '(', a literal
   glued to '+', '-', '.', a stray '.'), over the MCNP alphabet (with the private
   characters '_' '^' '*' the equality is false, next theorem).  There
   get_ast s is an error (C11_get_ast_sound); that get_ast2 s is the same error
   needs the rewriting steps on arbitrary malformed text and is covered by the
   bounded theorems (length <= 6) and the thorough tier's computation only.
   Proved besides: on a writing, get_ast2 only depends on the normal form. *)
(* without the alphabet assumption the equality is FALSE: the code-shaped model
   (like the code) accepts the private syntax that normalize() produces, the
   lexer model rejects it — the characters '_' '^' '*' are outside the input
   alphabet of the property (ASSUMPTIONS) *)
Theorem C11_get_ast2_private_syntax_refuted :
  get_ast2 "_(1)"%string = Ok (ASurf (-1) None) /\ get_ast "_(1)"%string = Err EParse /\
  get_ast2 "1*2"%string = Ok (AAnd (ASurf 1 None) (ASurf 2 None)) /\ get_ast "1*2"%string = Err EParse.
Proof. repeat split; vm_compute; reflexivity. Qed.
Print Assumptions C11_get_ast2_private_syntax_refuted.

Theorem C11_get_ast2_layout_partial : forall (ws ws' : written) (trail trail' : nat),
  wf_written ws = true -> wf_written ws' = true -> ws <> [] ->
  map (fun p => watom (snd p)) ws = map (fun p => watom (snd p)) ws' ->
  get_ast2 (render ws trail) = peg_start (normal_form ws) /\
  get_ast2 (render ws trail) = get_ast2 (render ws' trail').
Proof.
  intros ws ws' trail trail' Hw Hw' Hne E. split.
  - now apply get_ast2_normal_form.
  - now apply get_ast2_layout_invariant.
Qed.
Print Assumptions C11_get_ast2_layout_partial.

(* ... and on every string of length <= 6 (1 111 111 strings: ten shards by first
   character, each by computation, combined in RegexBound6.v) *)
Theorem C11_get_ast2_eq_bounded6 : forall s : String.string, (String.length s <= 6)%nat ->
  (forall c, In c (String.list_ascii_of_string s) -> In c Exec.alpha3) -> get_ast2 s = get_ast s.
Proof. exact RegexBound6.get_ast2_eq_len6. Qed.
Print Assumptions C11_get_ast2_eq_bounded6.

(* ---- cellcard.split on every cell card ([split_card_full]: three-field
   check, then the LIKE branch = C15's model of re_likebut, else split_card) ---- *)
Theorem C11_split_full : forall name g1 mat rho g3 E opts,
  digits_ok name = true -> mat_ok mat rho ->
  str_forall expr_char E = true -> head_sat nonblank E = true -> sep_ok rho g3 E -> opts_ok E opts ->
  split_card_full (card_body name g1 mat rho g3 E ++ opts)%string = Ok ((blanks g3 ++ E)%string, opts).
Proof. exact split_full_wellformed. Qed.
Print Assumptions C11_split_full.

(* LINKED with C15 (C15.Proofs.split_like_card): a LIKE card in any letter case
   whose options do not contain "but" is split after BUT *)
Theorem C11_split_full_like_linked : forall name L ds B rest : String.string,
  all_digits name = true -> name <> ""%string -> C15.Model.lower L = "like"%string ->
  all_digits ds = true -> ds <> ""%string -> C15.Model.lower B = "but"%string ->
  C15.Model.has "but" (C15.Model.lower rest) = false ->
  split_card_full (name ++ " " ++ L ++ " " ++ ds ++ " " ++ B ++ rest)%string =
  Ok ((" " ++ L ++ " " ++ ds ++ " " ++ B)%string, rest).
Proof. exact split_full_like. Qed.
Print Assumptions C11_split_full_like_linked.

(* [admissible] excludes exactly one class of well-formed MCNP expressions
   that the code rejects (genuine defect, known finding): *)
Theorem C11_nested_refuted :
  exists e s, nonzero e = true /\ tokens_of s = toks 0 e /\ get_ast s = Err EAttribute.
Proof. exact nested_refuted. Qed.
Print Assumptions C11_nested_refuted.

(* the repaired case: a complement directly after the colon, with or without
   blanks, is an admissible expression inside the layout family *)
Example C11_example_colon_complement :
  let e := MOr (MLit 1 None) (MAnd (MNotCell 2) (MNot (MLit 3 None))) in
  let ws := [(0, WLit false false "1" None); (0, WColon); (0, WHashN 0 "2"); (0, WHashP 0);
             (0, WLit false false "3" None); (0, WRP)]%string in
  admissible e = true /\ wf_written ws = true /\ tokens_written ws = toks 0 e /\
  render ws 0 = "1:#2#(3)"%string /\
  get_ast "1:#2#(3)"%string = Ok (AOr (ASurf 1 None) (AAnd (ACompl 2) (ASurf (-3) None))) /\
  get_ast "1 : # 2 #( 3 )"%string = get_ast "1:#2#(3)"%string.
Proof. cbv zeta. repeat split; vm_compute; reflexivity. Qed.

(* non-vacuity: a concrete expression with union, intersection, both kinds of
   complement, a facet; it is admissible and its text lexes to its tokens *)
Example C11_example :
  let e := MOr (MAnd (MNot (MOr (MLit 1 None) (MLit (-2) (Some 3%N)))) (MNotCell 5)) (MLit 4 None) in
  admissible e = true /\ tokens_of "#(1:-2.3) #5:4"%string = toks 0 e /\
  get_ast "#( 1 : -2.3 )#5 : 4"%string = sem e.
Proof. cbv zeta. repeat split; vm_compute; reflexivity. Qed.

(* a non-canonical writing of the same expression inside the layout family:
   "  #  (+01:-2.3)#005  :4 " *)
Example C11_example_layout :
  let e := MOr (MAnd (MNot (MOr (MLit 1 None) (MLit (-2) (Some 3%N)))) (MNotCell 5)) (MLit 4 None) in
  let ws := [(2, WHashP 2); (0, WLit false true "01" None); (0, WColon); (0, WLit true false "2" (Some "3"%char));
             (0, WRP); (0, WHashN 0 "005"); (2, WColon); (0, WLit false false "4" None)]%string in
  wf_written ws = true /\ tokens_written ws = toks 0 e /\
  render ws 1 = "  #  (+01:-2.3)#005  :4 "%string /\
  print e = "#( 1 : -2.3 ) #5 : 4"%string.
Proof. cbv zeta. repeat split; vm_compute; reflexivity. Qed.

(* redundant parentheses are part of the spec language *)
Example C11_example_paren :
  let e := MAnd (MParen (MParen (MLit 1 None))) (MParen (MOr (MLit 2 None) (MParen (MNotCell 3)))) in
  admissible e = true /\ print e = "( ( 1 ) ) ( 2 : ( #3 ) )"%string /\
  get_ast "((1))(2:(#3))"%string = Ok (AAnd (ASurf 1 None) (AOr (ASurf 2 None) (ACompl 3))).
Proof. cbv zeta. repeat split; vm_compute; reflexivity. Qed.

(* a card: "12 3 -2.7 (1:-2)#5imp:n=1 u=2"? no: options need ')' or a blank in
   front; "12 3 -2.7 #5 (1:-2)imp:n=1 u=2" *)
Example C11_example_card :
  let ws := [(0, WHashN 0 "5"); (1, WLP); (0, WLit false false "1" None); (0, WColon);
             (0, WLit true false "2" None); (0, WRP)]%string in
  mat_ok "3"%string (Some (0, "-2.7"%string)) /\ opts_ok (render ws 0) "imp:n=1 u=2"%string /\
  (card_body "12" 0 "3" (Some (0, "-2.7")) 1 (render ws 0) ++ "imp:n=1 u=2" = "12 3 -2.7 #5 (1:-2)imp:n=1 u=2")%string /\
  split_card "12 3 -2.7 #5 (1:-2)imp:n=1 u=2"%string = Ok (" #5 (1:-2)"%string, "imp:n=1 u=2"%string).
Proof.
  cbv zeta. split; [|split; [|split]].
  - split; [reflexivity|]. split; [reflexivity|]. split; [reflexivity|]. split; [discriminate|reflexivity].
  - right. exists "#5 (1:-2"%string, ")"%char, "i"%char, "mp:n=1 u=2"%string. repeat split; reflexivity.
  - reflexivity.
  - vm_compute. reflexivity.
Qed.

(* the density (with an exponent letter) glued to an opening parenthesis *)
Example C11_example_card_glued :
  mat_ok "3"%string (Some (0, "2.7E-3"%string)) /\
  sep_ok (Some (0, "2.7E-3"%string)) 0 "(1:-2) 3"%string /\
  (card_body "12" 0 "3" (Some (0, "2.7E-3")) 0 "(1:-2) 3" ++ "u=2" = "12 3 2.7E-3(1:-2) 3u=2")%string /\
  split_card "12 3 2.7E-3(1:-2) 3 u=2"%string = Ok ("(1:-2) 3 "%string, "u=2"%string).
Proof.
  split; [|split; [|split]].
  - split; [reflexivity|]. split; [reflexivity|]. split; [reflexivity|]. split; [discriminate|reflexivity].
  - right. split; [discriminate|reflexivity].
  - reflexivity.
  - vm_compute. reflexivity.
Qed.

(* the normal form of the layout of C11_example_layout *)
Example C11_example_normal_form :
  let ws := [(2, WHashP 2); (0, WLit false true "01" None); (0, WColon); (0, WLit true false "2" (Some "3"%char));
             (0, WRP); (0, WHashN 0 "005"); (2, WColon); (0, WLit false false "4" None)]%string in
  wf_written ws = true /\ normal_form ws = "_(+01:-2.3)*^(005):4"%string /\
  normalize2 (render ws 1) = normal_form ws.
Proof. cbv zeta. repeat split; vm_compute; reflexivity. Qed.

(* non-vacuity of the end-to-end theorem: cells 1 = "-1 2", 2 = "#1 : 3",
   and the expression "#2 #1" *)
Example C11_example_pipeline :
  let mc := fun n : N => match n with
     | 1%N => Some (MAnd (MLit (-1) None) (MLit 2 None))
     | 2%N => Some (MOr (MNotCell 1) (MLit 3 None))
     | _ => None end in
  let cells := fun n : N => match n with
     | 1%N => Some (mkCell (AAnd (ASurf (-1) None) (ASurf 2 None)) false)
     | 2%N => Some (mkCell (AOr (ACompl 1) (ASurf 3 None)) false)
     | _ => None end in
  let e := MAnd (MNotCell 2) (MNotCell 1) in
  parsed_table mc cells /\ table_ranked mc N.to_nat /\ admissible e = true /\
  mrefs (fun m => (exists e', mc m = Some e') /\ N.to_nat m < 3) e.
Proof.
  cbv zeta. split; [|split; [|split]].
  - intros n. destruct n as [|[[|[]|]|[|[]|]|]]; try reflexivity.
    + split; [reflexivity|]. eexists. split; reflexivity.
    + split; [reflexivity|]. eexists. split; reflexivity.
  - intros n e H. destruct n as [|[[|[]|]|[|[]|]|]]; try discriminate; injection H as <-; cbn;
      repeat split; try (eexists; reflexivity); lia.
  - reflexivity.
  - cbn. repeat split; try (eexists; reflexivity); lia.
Qed.

(* non-vacuity of the complement theorem: a three-cell table *)
Example C11_example_table :
  let cells := fun n : N => match n with
     | 1%N => Some (mkCell (AAnd (ASurf (-1) None) (ASurf 2 None)) false)
     | 2%N => Some (mkCell (AOr (ACompl 1) (ASurf 3 None)) false)
     | 3%N => Some (mkCell (AAnd (ACompl 2) (ACompl 1)) false)
     | _ => None end in
  table_ok cells N.to_nat /\
  pot_complement 10 cells (AAnd (ACompl 2) (ACompl 1)) =
  Ok (AAnd (AAnd (AAnd (ASurf (-1) None) (ASurf 2 None)) (ASurf (-3) None))
           (AOr (ASurf 1 None) (ASurf (-2) None))).
Proof.
  cbv zeta. split; [|vm_compute; reflexivity].
  intros n c H. destruct n as [|[[|[]|]|[|[]|]|]]; try discriminate; injection H as <-; cbn;
    repeat split; eauto; try (eexists; repeat split; try reflexivity; cbn; lia).
Qed.
