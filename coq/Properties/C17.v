(* C17 — unsupported or malformed input stops the run instead of yielding
   geometry.  Only restatements; proofs are in C17/Proofs.v.  [validate S d] is
   the model of a whole run (Ok tt = the conversion finishes normally); every
   statement holds for any scalar structure S (reals, binary64) and for decks of
   any size. *)
From Coq Require Import List NArith ZArith Bool String Ascii Lia.
From T4V Require Import Base.Str Base.Scalar C17.Model C17.Proofs C17.ProofsStrings C17.ProofsSteps C17.ProofsClasses C17.ProofsSteps2 C17.ProofsSteps3 C17.LinkC06.
Import ListNotations.
Open Scope string_scope.

(* ---------------- transformations with m != 1 ---------------- *)

(* a TR / *TR card with 13 entries whose last entry is not 1, anywhere among
   the TR cards of any deck *)
Theorem C17_tr_card_m_rejected : forall T (S : Scalar T) (d : deckm (T:=T)) t,
  In t (d_trs d) -> List.length (tr_entries t) = 13%nat ->
  seqb S (last (tr_entries t) (s1 S)) (s1 S) = false ->
  is_ok (validate S d) = false.
Proof. exact @run_tr_card_m_rejected. Qed.
Print Assumptions C17_tr_card_m_rejected.

(* normalised transformations never have 13 entries: the m != 1 test of
   ParseMCNPCell.__init__ is unreachable, the rejection above is the one of
   normalize_transform *)
Theorem C17_tr_lengths_never_13 : forall T (S : Scalar T) (l : list (trc (T:=T))) r,
  stage_trs S l [] = Ok r -> forall p, In p r -> snd p <> 13%nat.
Proof. exact @p_C17_tr_lengths_never_13. Qed.
Print Assumptions C17_tr_lengths_never_13.

(* the entry counts normalize_transform accepts: 0-3, 6, 9, 12, 13 with m = 1,
   and anything from 14 up (surplus entries are dropped); a TR card with 4, 5,
   7, 8, 10 or 11 entries stops the run *)
Theorem C17_tr_arity_exact : forall T (S : Scalar T) (t : list T),
  is_ok (norm_tr_len S t) =
  if (List.length t =? 13)%nat then seqb S (last t (s1 S)) (s1 S) else tr_len_ok (List.length t).
Proof. exact @norm_tr_len_exact. Qed.
Print Assumptions C17_tr_arity_exact.

Theorem C17_tr_card_arity_rejected : forall T (S : Scalar T) (d : deckm (T:=T)) t,
  In t (d_trs d) -> List.length (tr_entries t) <> 13%nat ->
  tr_len_ok (List.length (tr_entries t)) = false ->
  is_ok (validate S d) = false.
Proof. exact @run_tr_card_arity_rejected. Qed.
Print Assumptions C17_tr_card_arity_rejected.

Example tr_len_ok_table :
  map tr_len_ok [0; 1; 2; 3; 4; 5; 6; 7; 8; 9; 10; 11; 12; 14; 15]%nat
  = [true; true; true; true; false; false; true; false; false; true; false; false; true; true; true].
Proof. reflexivity. Qed.

(* TRCL=(13 entries) and *TRCL=(13 entries), m != 1, in the options of any cell
   of any deck (e = the keyword token, starred or not), behind any options
   [pre] the keyword loop steps over (IMP:x=v, U=n, LAT=1|2, non-keywords) *)
Theorem C17_inline_trcl_m_rejected : forall T (S : Scalar T) (d : deckm (T:=T)) c
    (pre : list (tok (T:=T))) n e ps rest,
  In c (d_cells d) -> c_toks c = (pre ++ e :: ps ++ rest)%list -> skippable pre n ->
  prefix "imp" (tsp e) = false -> contains_sub "fill" (tsp e) = false ->
  contains_sub "lat" (tsp e) = false -> contains_sub "trcl" (tsp e) = true ->
  forallb numeric_lead ps = true -> forallb (fun p => num_lit (tsp p)) ps = true ->
  stops rest -> List.length ps = 13%nat ->
  seqb S (last (map tval ps) (s1 S)) (s1 S) = false ->
  is_ok (validate S d) = false.
Proof. exact @run_inline_trcl_m_rejected_anywhere. Qed.
Print Assumptions C17_inline_trcl_m_rejected.

(* FILL=n (13 entries) and *FILL=n (13 entries), m != 1 *)
Theorem C17_inline_fill_m_rejected : forall T (S : Scalar T) (d : deckm (T:=T)) c
    (pre : list (tok (T:=T))) n e u ps rest,
  In c (d_cells d) -> c_toks c = (pre ++ e :: u :: ps ++ rest)%list -> skippable pre n ->
  prefix "imp" (tsp e) = false -> contains_sub "fill" (tsp e) = true ->
  has_colon u = false -> float_lit (tsp u) = true ->
  forallb numeric_lead ps = true -> forallb (fun p => num_lit (tsp p)) ps = true ->
  stops rest -> List.length ps = 13%nat ->
  seqb S (last (map tval ps) (s1 S)) (s1 S) = false ->
  is_ok (validate S d) = false.
Proof. exact @run_inline_fill_m_rejected_anywhere. Qed.
Print Assumptions C17_inline_fill_m_rejected.

(* the same at the level of the two keyword functions, wherever the keyword
   sits (parse_trcl_kw; the transformation part of parse_fill_kw) *)
Theorem C17_inline_m_rejected : forall T (S : Scalar T) isfill star trs (ps rest : list (tok (T:=T))),
  forallb numeric_lead ps = true -> forallb (fun p => num_lit (tsp p)) ps = true ->
  stops rest -> List.length ps = 13%nat ->
  seqb S (last (map tval ps) (s1 S)) (s1 S) = false ->
  parse_trcl S star trs (ps ++ rest) = Err ETransformation /\
  fill_params S isfill star trs (ps ++ rest) = Err ETransformation.
Proof. exact @p_C17_inline_m_rejected. Qed.
Print Assumptions C17_inline_m_rejected.

(* ---------------- surfaces ---------------- *)

Theorem C17_unknown_mnemonic_rejected : forall T (S : Scalar T) (d : deckm (T:=T)) s,
  In s (d_surfs d) -> ~ In (sf_mn s) macros -> ~ In (sf_mn s) elementary ->
  is_ok (validate S d) = false.
Proof. exact @run_unknown_mnemonic_rejected. Qed.
Print Assumptions C17_unknown_mnemonic_rejected.

(* macrobodies: exactly the arities of the manual are accepted *)
Theorem C17_macro_arity_rejected : forall T (S : Scalar T) (d : deckm (T:=T)) s,
  In s (d_surfs d) -> In (sf_mn s) macros ->
  ~ In (List.length (sf_params s)) (macro_arities (sf_mn s)) ->
  is_ok (validate S d) = false.
Proof. exact @run_macro_arity_rejected. Qed.
Print Assumptions C17_macro_arity_rejected.

Theorem C17_macro_arity_exact : forall T (S : Scalar T) mn (p : list T),
  In mn macros ->
  (In (List.length p) (macro_arities mn) -> is_ok (surface_check S mn p) = true) /\
  (~ In (List.length p) (macro_arities mn) -> is_ok (surface_check S mn p) = false) /\
  (p <> [] -> ~ In (List.length p) (macro_arities mn) -> surface_check S mn p = Err EMacroBody).
Proof. exact @p_C17_macro_arity_exact. Qed.
Print Assumptions C17_macro_arity_exact.

(* elementary surfaces: a card is accepted exactly when [elem_accepts] says so
   (P: 4 or 9; S: 4; TX/TY/TZ: 5 or 6; X/Y/Z: 2 or 4; but "at least n" for
   SX.. C/X.. K/X.. KX.. SQ and anything for PX.. SO CX.. GQ) *)
Theorem C17_surface_arity_rejected : forall T (S : Scalar T) (d : deckm (T:=T)) s,
  In s (d_surfs d) -> In (sf_mn s) elementary ->
  elem_accepts (sf_mn s) (List.length (sf_params s)) = false ->
  is_ok (validate S d) = false.
Proof. exact @run_surface_arity_rejected. Qed.
Print Assumptions C17_surface_arity_rejected.

Theorem C17_surface_arity_exact : forall T (S : Scalar T) mn (p : list T),
  In mn elementary -> p <> [] ->
  is_ok (surface_check S mn p) = elem_accepts mn (List.length p).
Proof. exact @surface_arity_exact. Qed.
Print Assumptions C17_surface_arity_exact.

(* the full statement "a wrong number of parameters is rejected" is false of the
   code: any number of surplus parameters on SO (likewise PX.. CX.. SX.. C/X..
   K/X.. KX.. SQ GQ), and any number at all on GQ *)
Theorem C17_surplus_surface_params_refuted : forall T (S : Scalar T) (x : T) (surplus : list T),
  surface_check S "so" (x :: surplus) = Ok (1%nat, 1%nat) /\
  surface_check S "px" (x :: surplus) = Ok (1%nat, 1%nat) /\
  surface_check S "cz" (x :: surplus) = Ok (1%nat, 1%nat) /\
  surface_check S "c/z" (x :: x :: x :: surplus) = Ok (1%nat, 1%nat) /\
  surface_check S "sx" (x :: x :: surplus) = Ok (1%nat, 1%nat) /\
  is_ok (surface_check S "sq" (x :: x :: x :: x :: x :: x :: x :: x :: x :: x :: surplus)) = true.
Proof. exact @p_C17_surplus_surface_params_refuted. Qed.
Print Assumptions C17_surplus_surface_params_refuted.

Theorem C17_gq_short_params_refuted : forall T (S : Scalar T) (x : T) (p : list T),
  surface_check S "gq" (x :: p) = Ok (1%nat, 1%nat).
Proof. exact @p_C17_gq_short_params_refuted. Qed.
Print Assumptions C17_gq_short_params_refuted.

(* a boundary flag (star or plus) on a surface made of several pieces (a macrobody
   other than SPH / ELL) is not supported: the run stops in the boundary-condition
   writer, whatever the other options, unless --skip-boundary-conditions *)
Theorem C17_flagged_macrobody_rejected : forall T (S : Scalar T) (d : deckm (T:=T)) id,
  d_skipbc d = false -> In id (d_flagged d) ->
  (forall trs sm, stage_trs S (d_trs d) [] = Ok trs -> stage_surfs S trs (d_surfs d) [] = Ok sm ->
     exists mn nm nt4, lookup id sm = Some (mn, (nm, nt4)) /\ (1 < nm)%nat) ->
  is_ok (validate S d) = false.
Proof. exact @run_flagged_macrobody_rejected. Qed.
Print Assumptions C17_flagged_macrobody_rejected.

(* ---------------- lattices ---------------- *)

(* LAT=1|2 ... FILL=n (no ranges, no transformation) in the options of a cell
   for which no --lattice option is given, with only options the keyword loop
   steps over (IMP:x=v, U=n, non-keywords) in front, between and behind *)
Theorem C17_lattice_no_opt_rejected : forall T (S : Scalar T) (d : deckm (T:=T)) c
    (pre mid post : list (tok (T:=T))) n1 n2 n3 elat vlat z efill u,
  In c (d_cells d) ->
  c_toks c = (pre ++ elat :: vlat :: mid ++ efill :: u :: post)%list ->
  skippable pre n1 -> skippable mid n2 -> skippable post n3 ->
  prefix "imp" (tsp elat) = false -> contains_sub "fill" (tsp elat) = false ->
  contains_sub "lat" (tsp elat) = true -> py_int (tsp vlat) = Some z ->
  ((z =? 1)%Z || (z =? 2)%Z) = true ->
  prefix "imp" (tsp efill) = false -> contains_sub "fill" (tsp efill) = true ->
  has_colon u = false -> float_lit (tsp u) = true -> stops post ->
  (forall lat, parse_lattice (d_latopts d) = Ok lat -> lookup (c_id c) lat = None) ->
  is_ok (validate S d) = false.
Proof. exact @run_lattice_no_opt_rejected_syntactic. Qed.
Print Assumptions C17_lattice_no_opt_rejected.

(* the same for any option list, in terms of what the keyword loop returns *)
Theorem C17_lattice_no_opt_rejected_general : forall T (S : Scalar T) (d : deckm (T:=T)) c,
  In c (d_cells d) ->
  (forall lat, parse_lattice (d_latopts d) = Ok lat -> lookup (c_id c) lat = None) ->
  (forall trs k, parse_kw S (Datatypes.S (List.length (c_toks c))) trs (c_toks c) kws0 = Ok k ->
     exists fr z, k_fill k = Some fr /\ f_bounds fr = None /\ k_lat k = Some z) ->
  is_ok (validate S d) = false.
Proof. exact @run_lattice_no_opt_rejected. Qed.
Print Assumptions C17_lattice_no_opt_rejected_general.

Theorem C17_to_fillid_no_opt : forall T (k : kws (T:=T)) fr z,
  k_fill k = Some fr -> f_bounds fr = None -> k_lat k = Some z ->
  to_fillid k None = Err EMissingLatticeOpt.
Proof. exact @lattice_no_opt_rejected. Qed.
Print Assumptions C17_to_fillid_no_opt.

(* ranges against the number nb of lattice directions (repaired code): accepted
   exactly when at least nb ranges are given and every range beyond the first
   nb is trivial (lo = hi) *)
Theorem C17_lattice_dims_exact : forall nb b,
  lattice_dims_check nb b = Ok tt <->
  ((nb <= List.length b)%nat /\ forall r, In r (skipn nb b) -> fst r = snd r).
Proof. exact lattice_dims_exact. Qed.
Print Assumptions C17_lattice_dims_exact.

Theorem C17_lattice_dims_rejected : forall nb b,
  ((List.length b < nb)%nat \/ exists r, In r (skipn nb b) /\ fst r <> snd r) ->
  lattice_dims_check nb b = Err ELattice.
Proof. exact lattice_dims_rejected. Qed.
Print Assumptions C17_lattice_dims_rejected.

(* (the former finding lattice_trailing_range_unchecked is repaired: a
   non-trivial range where the lattice has no direction is rejected) *)
Example lattice_trailing_range_rejected :
  lattice_dims_check 1 [(0, 0); (0, 0); (0, 1)]%Z = Err ELattice /\
  lattice_dims_check 2 [(0, 0); (0, 1); (0, 1)]%Z = Err ELattice /\
  lattice_dims_check 2 [(0, 0); (0, 1); (0, 0)]%Z = Ok tt.
Proof. repeat split; reflexivity. Qed.

Theorem C17_lattice_nsurf_exact : forall n k,
  square_nb n = Ok k <-> (n = 2 /\ k = 1 \/ n = 4 /\ k = 2 \/ n = 6 /\ k = 3)%nat.
Proof. exact square_nb_exact. Qed.
Print Assumptions C17_lattice_nsurf_exact.

(* in every run that finishes, every LAT=1 cell filled through an array or a
   --lattice option is bounded by 2, 4 or 6 surface pieces, its ranges fit the
   number nb of lattice directions (at least nb ranges, trivial beyond nb),
   and it holds exactly size(ranges) universes *)
Theorem C17_lattice_ranges_checked : forall T (S : Scalar T) (d : deckm (T:=T)),
  validate S d = Ok tt ->
  forall lat trs sm imps cells,
    parse_lattice (d_latopts d) = Ok lat -> stage_trs S (d_trs d) [] = Ok trs ->
    stage_surfs S trs (d_surfs d) [] = Ok sm -> imp_cards_check S (d_imps d) = Ok imps ->
    stage_cells S trs imps lat 0 (d_cells d) = Ok cells ->
    forall c cs b univs, In (c, cs) cells -> cs_lat cs = Some 1%Z ->
      cs_fill cs = Some (FLat b univs) -> c_compl c = [] ->
      exists ns nb, count_subsurfs sm (c_lits c) = Ok ns /\
        (ns = 2 /\ nb = 1 \/ ns = 4 /\ nb = 2 \/ ns = 6 /\ nb = 3)%nat /\
        ((nb <= List.length b)%nat /\ forall r, In r (skipn nb b) -> fst r = snd r) /\
        Z.of_nat (List.length univs) = bounds_size b.
Proof. exact @run_lattice_ranges_checked. Qed.
Print Assumptions C17_lattice_ranges_checked.

(* ---------------- facets ---------------- *)

(* in every run that finishes: facets of directly converted cells are <= the
   number of TRIPOLI-4 pieces; facets of cells moved by TRCL are in 1..number of
   MCNP pieces *)
Theorem C17_facet_range_rejected : forall T (S : Scalar T) (d : deckm (T:=T)),
  validate S d = Ok tt ->
  forall lat trs sm imps cells,
    parse_lattice (d_latopts d) = Ok lat -> stage_trs S (d_trs d) [] = Ok trs ->
    stage_surfs S trs (d_surfs d) [] = Ok sm -> imp_cards_check S (d_imps d) = Ok imps ->
    stage_cells S trs imps lat 0 (d_cells d) = Ok cells ->
    forall c cs l k mn nm nt4,
      In (c, cs) cells -> In l (c_lits c) -> l_facet l = Some k ->
      lookup (l_surf l) sm = Some (mn, (nm, nt4)) ->
      (cs_u cs = 0%Z -> seqb S (cs_imp cs) (s0 S) = false -> cs_lat cs = None ->
       cs_fill cs = None -> cs_trcl cs = None -> (k <= nt4)%nat) /\
      (forall n, cs_trcl cs = Some n -> (1 <= k <= nm)%nat).
Proof. exact @run_facets_in_range. Qed.
Print Assumptions C17_facet_range_rejected.

Theorem C17_facet_check_exact : forall nt4 k,
  (facet_check nt4 k = Ok tt <-> (k <= nt4)%nat) /\
  ((nt4 < k)%nat -> facet_check nt4 k = Err ECellConversion).
Proof. exact @p_C17_facet_check_exact. Qed.
Print Assumptions C17_facet_check_exact.

(* the full statement (facets are 1..n) is false of the code: facet 0 passes
   pot_expand_surfs for every surface *)
Theorem C17_facet_zero_refuted : forall nt4, facet_check nt4 0 = Ok tt.
Proof. exact @p_C17_facet_zero_refuted. Qed.
Print Assumptions C17_facet_zero_refuted.

(* ---------------- FILL arrays ---------------- *)

Theorem C17_fill_array_short_rejected : forall T (S : Scalar T) (d : deckm (T:=T)) c
    (pre : list (tok (T:=T))) n e first rs nums b,
  In c (d_cells d) -> c_toks c = (pre ++ e :: first :: rs ++ nums)%list -> skippable pre n ->
  prefix "imp" (tsp e) = false -> contains_sub "fill" (tsp e) = true ->
  has_colon first = true -> forallb has_colon rs = true ->
  Forall (fun t => has_colon t = false) nums -> Forall (plain (T:=T)) nums ->
  parse_ranges (map tsp (first :: rs)) = Ok b ->
  (Z.of_nat (List.length nums) < bounds_size b)%Z ->
  is_ok (validate S d) = false.
Proof. exact @run_fill_array_short_rejected_anywhere. Qed.
Print Assumptions C17_fill_array_short_rejected.

(* the same at full strength: the array may use nR and nJ ([items]) and may be
   followed by a keyword ([ends_array]: nothing, or a token that is neither a
   number nor a shorthand) *)
Theorem C17_fill_array_short_rejected_gen : forall T (S : Scalar T) (d : deckm (T:=T)) c e first rs t0 l rest b m,
  In c (d_cells d) ->
  (forall trs, stage_trs S (d_trs d) [] = Ok trs ->
     exists k n, arrives S trs (c_toks c) kws0 (e :: first :: rs ++ t0 :: l ++ rest)%list k n) ->
  prefix "imp" (tsp e) = false -> contains_sub "fill" (tsp e) = true ->
  has_colon first = true -> forallb has_colon rs = true -> has_colon t0 = false ->
  parse_ranges (map tsp (first :: rs)) = Ok b ->
  plain t0 -> items l m -> ends_array rest ->
  (Z.of_nat (1 + m) < bounds_size b)%Z ->
  is_ok (validate S d) = false.
Proof. exact @run_fill_array_short_rejected_gen. Qed.
Print Assumptions C17_fill_array_short_rejected_gen.

(* whatever parse_fill_kw accepts holds exactly as many universes as the ranges *)
Theorem C17_fill_array_length_exact : forall T (S : Scalar T) star trs first r1 (fr : fillres) rest b,
  has_colon (T:=T) first = true -> parse_fill S star trs (first :: r1) = Ok (fr, rest) ->
  f_bounds fr = Some b -> Z.of_nat (List.length (f_univs fr)) = bounds_size b.
Proof. exact @fill_array_length_exact. Qed.
Print Assumptions C17_fill_array_length_exact.

(* ... but an over-long array is not rejected: exactly three surplus entries
   become a 12-entry transformation (a translation) *)
Theorem C17_fill_array_surplus_3_refuted : forall T (S : Scalar T),
  parse_fill S false []
    [tk S "0:1" 0; tk S "0:1" 0; tk S "0:0" 0; tk S "2" 2; tk S "2" 2; tk S "2" 2; tk S "2" 2;
     tk S "7" 7; tk S "8" 8; tk S "9" 9]%Z
  = Ok (mkFill (Some [(0, 1); (0, 1); (0, 0)]%Z) [Some 2; Some 2; Some 2; Some 2]%Z 12, []).
Proof. exact @p_C17_fill_array_surplus_3_refuted. Qed.
Print Assumptions C17_fill_array_surplus_3_refuted.

(* ---------------- IMP cards, materials, --lattice strings ---------------- *)

Theorem C17_imp_unequal_rejected : forall T (S : Scalar T) (d : deckm (T:=T)) rows r1 r2,
  expand_cards S (d_imps d) = Ok rows -> In r1 rows -> In r2 rows ->
  List.length r1 <> List.length r2 -> is_ok (validate S d) = false.
Proof. exact @run_imp_unequal_rejected. Qed.
Print Assumptions C17_imp_unequal_rejected.

Theorem C17_mixed_fractions_rejected : forall T (S : Scalar T) (d : deckm (T:=T)) m l p q,
  d_skipcomp d = false -> In m (d_mats d) -> mat_pairs m = Ok l ->
  In p l -> In q l -> frac_negative (snd p) <> frac_negative (snd q) ->
  is_ok (validate S d) = false.
Proof. exact @run_mixed_fractions_rejected. Qed.
Print Assumptions C17_mixed_fractions_rejected.

(* a --lattice argument is accepted exactly when it is
   cell,lo:hi[,lo:hi[,lo:hi]] with Python-int fields *)
Theorem C17_latopt_exact : forall opts, is_ok (parse_lattice opts) = forallb latopt_wf opts.
Proof. exact parse_lattice_exact. Qed.
Print Assumptions C17_latopt_exact.

(* the other direction, for every spelling of integers (optional minus sign,
   digits): the argument cell,lo:hi[,lo:hi[,lo:hi]] is accepted and yields
   exactly those integers *)
Theorem C17_latopt_wellformed_accepted : forall cell rs,
  sp_wf cell -> Forall range_wf2 rs -> (1 <= List.length rs <= 3)%nat ->
  parse_lattice [latopt_text cell rs]
  = Ok [(sp_value cell, map (fun r => (sp_value (fst r), sp_value (snd r))) rs)].
Proof. exact latopt_wellformed_accepted. Qed.
Print Assumptions C17_latopt_wellformed_accepted.

Example latopt_text_example :
  latopt_text (mkSp false "200") [(mkSp false "2", mkSp false "5"); (mkSp true "4", mkSp false "04")]
  = "200,2:5,-4:04".
Proof. reflexivity. Qed.

Theorem C17_latopt_malformed_rejected : forall T (S : Scalar T) (d : deckm (T:=T)) o,
  In o (d_latopts d) -> latopt_wf o = false -> is_ok (validate S d) = false.
Proof. exact @run_latopt_malformed_rejected. Qed.
Print Assumptions C17_latopt_malformed_rejected.

(* ---------------- a faulty keyword behind ANY options ---------------- *)

(* the executed keyword loop is the iteration of [kw_step] (one keyword and its
   arguments per turn); [arrives trs l k l' k' n] = started on l in state k the
   loop stands in front of l' in state k' after n turns.  If the loop does not
   arrive at a keyword, an earlier option failed (the run is not Ok either) or
   the keyword was swallowed as the value of IMP/U/LAT/RHO/MAT. *)
Theorem C17_keyword_loop_unfold : forall T (S : Scalar T) f trs e rest k,
  parse_kw S (Datatypes.S f) trs (e :: rest) k =
  bind (kw_step S trs e rest k) (fun p => parse_kw S f trs (fst p) (snd p)).
Proof. exact @parse_kw_unfold. Qed.
Print Assumptions C17_keyword_loop_unfold.

Theorem C17_inline_trcl_m_rejected_any : forall T (S : Scalar T) (d : deckm (T:=T)) c e ps rest,
  In c (d_cells d) ->
  (forall trs, stage_trs S (d_trs d) [] = Ok trs ->
     exists k n, arrives S trs (c_toks c) kws0 (e :: ps ++ rest)%list k n) ->
  prefix "imp" (tsp e) = false -> contains_sub "fill" (tsp e) = false ->
  contains_sub "lat" (tsp e) = false -> contains_sub "trcl" (tsp e) = true ->
  forallb numeric_lead ps = true -> forallb (fun p => num_lit (tsp p)) ps = true ->
  stops rest -> List.length ps = 13%nat ->
  seqb S (last (map tval ps) (s1 S)) (s1 S) = false ->
  is_ok (validate S d) = false.
Proof. exact @run_inline_trcl_m_rejected_any. Qed.
Print Assumptions C17_inline_trcl_m_rejected_any.

Theorem C17_inline_fill_m_rejected_any : forall T (S : Scalar T) (d : deckm (T:=T)) c e u ps rest,
  In c (d_cells d) ->
  (forall trs, stage_trs S (d_trs d) [] = Ok trs ->
     exists k n, arrives S trs (c_toks c) kws0 (e :: u :: ps ++ rest)%list k n) ->
  prefix "imp" (tsp e) = false -> contains_sub "fill" (tsp e) = true ->
  has_colon u = false -> float_lit (tsp u) = true ->
  forallb numeric_lead ps = true -> forallb (fun p => num_lit (tsp p)) ps = true ->
  stops rest -> List.length ps = 13%nat ->
  seqb S (last (map tval ps) (s1 S)) (s1 S) = false ->
  is_ok (validate S d) = false.
Proof. exact @run_inline_fill_m_rejected_any. Qed.
Print Assumptions C17_inline_fill_m_rejected_any.

Theorem C17_fill_array_short_rejected_any : forall T (S : Scalar T) (d : deckm (T:=T)) c e first rs nums b,
  In c (d_cells d) ->
  (forall trs, stage_trs S (d_trs d) [] = Ok trs ->
     exists k n, arrives S trs (c_toks c) kws0 (e :: first :: rs ++ nums)%list k n) ->
  prefix "imp" (tsp e) = false -> contains_sub "fill" (tsp e) = true ->
  has_colon first = true -> forallb has_colon rs = true ->
  Forall (fun t => has_colon t = false) nums -> Forall (plain (T:=T)) nums ->
  parse_ranges (map tsp (first :: rs)) = Ok b ->
  (Z.of_nat (List.length nums) < bounds_size b)%Z ->
  is_ok (validate S d) = false.
Proof. exact @run_fill_array_short_rejected_any. Qed.
Print Assumptions C17_fill_array_short_rejected_any.

Theorem C17_lattice_no_opt_rejected_any : forall T (S : Scalar T) (d : deckm (T:=T)) c,
  In c (d_cells d) ->
  (forall lat, parse_lattice (d_latopts d) = Ok lat -> lookup (c_id c) lat = None) ->
  (forall trs, stage_trs S (d_trs d) [] = Ok trs ->
     exists k n fr, arrives S trs (c_toks c) kws0 [] k n /\
                    k_fill k = Some fr /\ f_bounds fr = None /\ k_lat k <> None) ->
  is_ok (validate S d) = false.
Proof. exact @run_lattice_no_opt_rejected_any. Qed.
Print Assumptions C17_lattice_no_opt_rejected_any.

(* options the loop is proved to consume exactly: the skippable ones, and TRCL /
   FILL=n with an inline transformation of an accepted length; they compose *)
Theorem C17_arrives_options : forall T (S : Scalar T) trs,
  (forall pre n, skippable pre n -> forall suffix k, exists k', arrives S trs (pre ++ suffix)%list k suffix k' n) /\
  (forall e ps rest k,
     prefix "imp" (tsp e) = false -> contains_sub "fill" (tsp e) = false ->
     contains_sub "lat" (tsp e) = false -> contains_sub "trcl" (tsp e) = true ->
     forallb numeric_lead ps = true -> forallb (fun p => num_lit (tsp p)) ps = true ->
     stops rest -> List.length ps <> 1%nat -> List.length ps <> 13%nat ->
     tr_len_ok (List.length ps) = true ->
     exists k', arrives S trs (e :: ps ++ rest)%list k rest k' 1) /\
  (forall e u ps rest k,
     prefix "imp" (tsp e) = false -> contains_sub "fill" (tsp e) = true ->
     has_colon u = false -> float_lit (tsp u) = true ->
     forallb numeric_lead ps = true -> forallb (fun p => num_lit (tsp p)) ps = true ->
     stops rest -> List.length ps <> 1%nat -> List.length ps <> 13%nat ->
     tr_len_ok (List.length ps) = true ->
     exists k', arrives S trs (e :: u :: ps ++ rest)%list k rest k' 1) /\
  (forall l k l1 k1 l2 k2 n m,
     arrives S trs l k l1 k1 n -> arrives S trs l1 k1 l2 k2 m -> arrives S trs l k l2 k2 (n + m)).
Proof. exact @p_C17_arrives_options. Qed.
Print Assumptions C17_arrives_options.

(* ... and TRCL=n (an existing TR card), FILL arrays of exactly size(ranges)
   plain numbers, with or without an inline transformation behind them *)
Theorem C17_arrives_options_more : forall T (S : Scalar T) trs,
  (forall e p rest k n,
     prefix "imp" (tsp e) = false -> contains_sub "fill" (tsp e) = false ->
     contains_sub "lat" (tsp e) = false -> contains_sub "trcl" (tsp e) = true ->
     numeric_lead p = true -> num_lit (tsp p) = true -> stops rest ->
     lookup (tint p) trs = Some n ->
     exists k', arrives S trs (e :: p :: rest) k rest k' 1) /\
  (forall e first rs nums ps rest b k,
     prefix "imp" (tsp e) = false -> contains_sub "fill" (tsp e) = true ->
     has_colon first = true -> forallb has_colon rs = true ->
     Forall (fun t => has_colon t = false) nums -> Forall (plain (T:=T)) nums ->
     parse_ranges (map tsp (first :: rs)) = Ok b ->
     Z.of_nat (List.length nums) = bounds_size b -> nums <> [] ->
     forallb numeric_lead ps = true -> forallb (fun p => num_lit (tsp p)) ps = true ->
     stops rest -> List.length ps <> 1%nat -> List.length ps <> 13%nat ->
     tr_len_ok (List.length ps) = true ->
     exists k', arrives S trs (e :: first :: rs ++ nums ++ ps ++ rest)%list k rest k' 1).
Proof. exact @p_C17_arrives_options_more. Qed.
Print Assumptions C17_arrives_options_more.

(* ... and FILL arrays written with plain numbers, nR and nJ ([items]), followed
   by nothing, a TR number or an inline transformation; FILL=n (m) *)
Theorem C17_arrives_options_arrays : forall T (S : Scalar T) trs,
  (* a FILL array (first entry a plain number, then plain numbers, nR, nJ, the
     counts adding up to size(ranges)) and whatever the transformation reader
     accepts behind it *)
  (forall e first rs t0 l more b m n rest k,
     prefix "imp" (tsp e) = false -> contains_sub "fill" (tsp e) = true ->
     has_colon first = true -> forallb has_colon rs = true -> has_colon t0 = false ->
     parse_ranges (map tsp (first :: rs)) = Ok b ->
     plain t0 -> items l m -> Z.of_nat (1 + m) = bounds_size b ->
     fill_params S true (contains_char "*" (tsp e)) trs more = Ok (n, rest) ->
     exists k', arrives S trs (e :: first :: rs ++ t0 :: l ++ more)%list k rest k' 1) /\
  (* FILL=n (m) with an existing TR card m *)
  (forall e u p rest k n,
     prefix "imp" (tsp e) = false -> contains_sub "fill" (tsp e) = true ->
     has_colon u = false -> float_lit (tsp u) = true ->
     numeric_lead p = true -> num_lit (tsp p) = true -> stops rest ->
     lookup (tint p) trs = Some n ->
     exists k', arrives S trs (e :: u :: p :: rest) k rest k' 1) /\
  (* what the transformation reader accepts: nothing or 2, 3, 6, 9, 12, 14+
     numbers; one number naming a TR card *)
  (forall isfill star (ps rest : list (tok (T:=T))),
     forallb numeric_lead ps = true -> forallb (fun p => num_lit (tsp p)) ps = true ->
     stops rest -> List.length ps <> 1%nat -> List.length ps <> 13%nat ->
     tr_len_ok (List.length ps) = true ->
     exists n, fill_params S isfill star trs (ps ++ rest)%list = Ok (n, rest)) /\
  (forall isfill star (p : tok (T:=T)) rest k,
     numeric_lead p = true -> num_lit (tsp p) = true -> stops rest ->
     lookup (tint p) trs = Some k ->
     fill_params S isfill star trs (p :: rest) = Ok (Nat.min k 12, rest)).
Proof. exact @p_C17_arrives_options_arrays. Qed.
Print Assumptions C17_arrives_options_arrays.

(* the first entry of a FILL array: nR has nothing to repeat (result[-1] of an
   empty list: a bare IndexError, whatever follows); nJ is consumed like any
   other entry *)
Theorem C17_fill_array_first_entry : forall T (S : Scalar T) trs,
  (forall star first rs t0 (more : list (tok (T:=T))) b n,
     has_colon first = true -> forallb has_colon rs = true -> has_colon t0 = false ->
     parse_ranges (map tsp (first :: rs)) = Ok b -> (0 < bounds_size b)%Z ->
     last_char (strip_ws (tsp t0)) = Some "r"%char -> reps (strip_ws (tsp t0)) = Some n ->
     parse_fill S star trs (first :: rs ++ t0 :: more)%list = Err EIndex) /\
  (forall e first rs t0 n0 l more b m n rest k,
     prefix "imp" (tsp e) = false -> contains_sub "fill" (tsp e) = true ->
     has_colon first = true -> forallb has_colon rs = true -> has_colon t0 = false ->
     parse_ranges (map tsp (first :: rs)) = Ok b ->
     last_char (strip_ws (tsp t0)) = Some "j"%char ->
     reps (strip_ws (tsp t0)) = Some (Z.of_nat n0) -> (1 <= n0)%nat ->
     items l m -> Z.of_nat (n0 + m) = bounds_size b ->
     fill_params S true (contains_char "*" (tsp e)) trs more = Ok (n, rest) ->
     exists k', arrives S trs (e :: first :: rs ++ t0 :: l ++ more)%list k rest k' 1).
Proof. exact @p_C17_fill_array_first_entry. Qed.
Print Assumptions C17_fill_array_first_entry.

(* nI and xM on a card read as floats (IMP cards): 1 2I 4 3M = 1 2 3 4 12 *)
Example expand_interpolate_multiply :
  expand FS [mkTok "1" (sofZ FS 1) 1; mkTok "2i" (sofZ FS 0) 0; mkTok "4" (sofZ FS 4) 4;
             mkTok "3m" (sofZ FS 3) 0]%Z None [] 0
  = XOk [Some (sofZ FS 1, 1%Z); Some (sofZ FS 2, 0%Z); Some (sofZ FS 3, 0%Z); Some (sofZ FS 4, 0%Z);
         Some (sofZ FS 12, 0%Z)] 4.
Proof. vm_compute. reflexivity. Qed.

(* FILL=0:1 0:1 0:0 3 3R : the entries behind the first one *)
Example items_example : forall T (S : Scalar T), items [tk S "3r" 0]%Z 3.
Proof.
  intros. change 3%nat with (3 + 0)%nat. apply its_cons; [|apply its_nil].
  apply it_rep; [reflexivity|reflexivity|auto].
Qed.

(* ---------------- the open finding classes, characterised ---------------- *)

(* surplus_surface_params / gq_short_params: a card of an elementary mnemonic
   whose number of entries is not the manual's ([manual_arity]) is converted
   exactly when [wrongly_accepted]: >= 2 entries on PX PY PZ SO CX CY CZ, >= 3 on
   SX SY SZ, >= 4 on C/X C/Y C/Z and KX KY KZ, >= 6 on K/X K/Y K/Z, >= 11 on SQ,
   any count but 10 on GQ; every other wrong count is rejected *)
Theorem C17_surplus_surface_params_exact : forall T (S : Scalar T) mn (p : list T),
  In mn elementary -> p <> [] -> manual_arity mn (List.length p) = false ->
  is_ok (surface_check S mn p) = wrongly_accepted mn (List.length p).
Proof. exact @surplus_surface_params_exact. Qed.
Print Assumptions C17_surplus_surface_params_exact.

Example wrongly_accepted_table :
  map (fun c => wrongly_accepted (fst c) (snd c))
      [("so", 2); ("kz", 4); ("kz", 1); ("k/z", 6); ("gq", 9); ("gq", 11); ("sq", 9); ("p", 5); ("s", 5);
       ("tz", 7); ("x", 6)]%nat
  = [true; true; false; true; true; true; false; false; false; false; false].
Proof. reflexivity. Qed.

(* fill_array_surplus_3 / _tr / _2_void and C06's array_entry_transformation:
   whatever tokens follow the size(ranges) universes of a FILL array are handed,
   all together, to the function that reads the transformation of FILL=n (...);
   the array is accepted iff that function accepts them (nothing: no
   transformation; one number: a TR card; three: a translation; 2, 6, 9, 12, 14+:
   a matrix, see C17_tr_arity_exact) *)
Theorem C17_fill_array_trailing_numbers : forall T (S : Scalar T) star trs first rs
    (nums more : list (tok (T:=T))) b,
  has_colon first = true -> forallb has_colon rs = true ->
  Forall (fun t => has_colon t = false) nums -> Forall (plain (T:=T)) nums ->
  parse_ranges (map tsp (first :: rs)) = Ok b ->
  Z.of_nat (List.length nums) = bounds_size b -> nums <> [] ->
  parse_fill S star trs (first :: rs ++ nums ++ more)%list =
  bind (fill_params S true star trs more)
       (fun p => Ok (mkFill (Some b) (map (fun t => Some (tint t)) nums) (fst p), snd p)).
Proof. exact @fill_array_trailing_numbers. Qed.
Print Assumptions C17_fill_array_trailing_numbers.

(* facet_unchecked_in_skipped_cell: the conversion stage (the only place where
   facets of untransformed cells are checked) looks at no cell of importance 0,
   of a universe other than 0, or with LAT: whatever their literals *)
Theorem C17_facet_skipped_cells_unchecked : forall T (S : Scalar T) (sm : smap) all
    (cells : list (cellc * cellsum (T:=T))),
  forallb (not_converted S) cells = true -> stage_convert S sm all cells = Ok tt.
Proof. exact @stage_convert_skips. Qed.
Print Assumptions C17_facet_skipped_cells_unchecked.

(* ---------------- linked with C06 (read-only import of C06.Model / C06.ProofsText) ---------------- *)

(* every integer spelling of C06's model is read by Python's int() as modelled
   here, hence every list of ranges C06 reads is read by C17's parse_ranges with
   the same result *)
Theorem C17_reads_c06_ranges_linked :
  (forall s z, M6.int_of_signed s = Some z -> py_int s = Some z) /\
  (forall strs bs, Forall2 T6.spells_range strs bs -> parse_ranges strs = Ok bs) /\
  (forall bs, M6.size bs = bounds_size bs).
Proof. exact (conj int_of_signed_py_int (conj spelled_ranges_read size_is_bounds_size)). Qed.
Print Assumptions C17_reads_c06_ranges_linked.

(* the FILL-array fault classes over BOTH models, on C06's hypotheses about the
   spellings and C06's size: in C06's model the transformation tokens are
   skipn (size bs) of the numeric tokens (C06_parse_fill_kw_flat); in C17's the
   same tokens go to the transformation reader.  fill_array_surplus_* (C17) and
   array_entry_transformation (C06) are two views of this one statement. *)
Theorem C17_fill_array_surplus_linked : forall T (S : Scalar T) star trs
    (ft : tok (T:=T)) (rts nts tl : list (tok (T:=T))) (bs : bounds),
  let n := Z.to_nat (M6.size bs) in
  Forall2 T6.spells_range (map tsp (ft :: rts)) bs ->
  Forall (fun b : Z * Z => (fst b <= snd b)%Z) bs ->
  Forall (fun t => T6.ends_plain t /\ M6.is_num_start t = true /\ M6.has_colon t = false) (map tsp nts) ->
  (M6.size bs <= Z.of_nat (List.length nts))%Z -> T6.keyword_or_end (map tsp tl) ->
  Forall (plain (T:=T)) (firstn n nts) ->
  (forall k, M6.parse_fill_kw (tsp ft) (map tsp rts ++ map tsp nts ++ map tsp tl)%list = M6.Ok k ->
             M6.fk_params k = map tsp (skipn n nts) /\ M6.fk_rest k = map tsp tl /\
             M6.fk_bounds k = Some bs) /\
  parse_fill S star trs (ft :: rts ++ nts ++ tl)%list =
  bind (fill_params S true star trs (skipn n nts ++ tl)%list)
       (fun p => Ok (mkFill (Some bs) (map (fun t => Some (tint t)) (firstn n nts)) (fst p), snd p)).
Proof. exact @fill_array_surplus_linked. Qed.
Print Assumptions C17_fill_array_surplus_linked.

(* ---------------- which rejections name the problem ---------------- *)

(* the exception class of every rejected entry count of every elementary
   mnemonic ([elem_error]); those of S C K SX.. C/X.. K/X.. KX.. SQ T are raised by
   Python itself (TypeError, IndexError, KeyError) and say nothing about the card *)
Theorem C17_surface_rejection_class : forall T (S : Scalar T) mn (p : list T),
  In mn elementary -> p <> [] -> elem_accepts mn (List.length p) = false ->
  surface_check S mn p = Err (elem_error mn).
Proof. exact @surface_rejection_class. Qed.
Print Assumptions C17_surface_rejection_class.

Theorem C17_anonymous_surface_rejections : forall T (S : Scalar T) mn (p : list T),
  In mn ["s";"c";"k";"sx";"sy";"sz";"c/x";"c/y";"c/z";"k/x";"k/y";"k/z";"kx";"ky";"kz";"sq";"t"] ->
  p <> [] -> elem_accepts mn (List.length p) = false ->
  exists e, surface_check S mn p = Err e /\ anonymous e = true.
Proof. exact @anonymous_surface_rejections. Qed.
Print Assumptions C17_anonymous_surface_rejections.

(* a transformation with 8 entries ends in a bare StopIteration, the other
   refused counts in a TransformationError *)
Theorem C17_tr_arity_error_class : forall T (S : Scalar T) (t : list T),
  List.length t <> 13%nat -> tr_len_ok (List.length t) = false ->
  norm_tr_len S t = Err (if (List.length t =? 8)%nat then EStopIteration else ETransformation).
Proof. exact @tr_arity_error_class. Qed.
Print Assumptions C17_tr_arity_error_class.

(* ---------------- transformation lengths at the FILL and lattice stages ---------------- *)

(* in every finished run: FILL=n of a real-world cell with a transformation (its
   own, else its TRCL) into a universe that has a cell with a surface uses 12
   entries (the 10/11-entry results of 1- and 2-entry forms stop the run there) *)
Theorem C17_fill_transformation_length : forall T (S : Scalar T) (d : deckm (T:=T)),
  validate S d = Ok tt ->
  forall lat trs sm imps cells,
    parse_lattice (d_latopts d) = Ok lat -> stage_trs S (d_trs d) [] = Ok trs ->
    stage_surfs S trs (d_surfs d) [] = Ok sm -> imp_cards_check S (d_imps d) = Ok imps ->
    stage_cells S trs imps lat 0 (d_cells d) = Ok cells ->
    forall c cs u k fc, In (c, cs) cells -> cs_fill cs = Some (FUniv u) -> cs_lat cs = None ->
      cs_u cs = 0%Z -> fill_tr_length cs = Some k -> In fc (fillers u cells) ->
      c_lits (fst fc) <> [] -> k = 12%nat.
Proof. exact @run_fill_transformation_length. Qed.
Print Assumptions C17_fill_transformation_length.

(* ... and a lattice with at least one element that is not void has no fill
   transformation or a full one, and without one a full TRCL *)
Theorem C17_lattice_transformation_length : forall T (S : Scalar T) (d : deckm (T:=T)),
  validate S d = Ok tt ->
  forall lat trs sm imps cells,
    parse_lattice (d_latopts d) = Ok lat -> stage_trs S (d_trs d) [] = Ok trs ->
    stage_surfs S trs (d_surfs d) [] = Ok sm -> imp_cards_check S (d_imps d) = Ok imps ->
    stage_cells S trs imps lat 0 (d_cells d) = Ok cells ->
    forall c cs z b univs, In (c, cs) cells -> cs_lat cs = Some z ->
      cs_fill cs = Some (FLat b univs) -> c_compl c = [] ->
      existsb univ_nonzero univs = true ->
      (cs_filltr cs = 0 \/ 12 <= cs_filltr cs)%nat /\
      (cs_filltr cs = 0%nat -> forall k, cs_trcl cs = Some k -> (12 <= k)%nat).
Proof. exact @run_lattice_transformation_length. Qed.
Print Assumptions C17_lattice_transformation_length.

(* ---------------- summary ---------------- *)

(* every run that finishes normally is free of: malformed --lattice arguments,
   13-entry TR cards with m != 1, unknown mnemonics, macrobody / elementary
   arities outside the accepted tables, IMP cards of unequal lengths,
   mixed-sign material cards -- wherever the card sits *)
Theorem C17_finished_run_is_clean : forall T (S : Scalar T) (d : deckm (T:=T)),
  validate S d = Ok tt ->
  (forall o, In o (d_latopts d) -> latopt_wf o = true) /\
  (forall t, In t (d_trs d) -> List.length (tr_entries t) = 13%nat ->
             seqb S (last (tr_entries t) (s1 S)) (s1 S) = true) /\
  (forall s, In s (d_surfs d) ->
     (In (sf_mn s) macros /\ In (List.length (sf_params s)) (macro_arities (sf_mn s))) \/
     (In (sf_mn s) elementary /\ elem_accepts (sf_mn s) (List.length (sf_params s)) = true)) /\
  (forall rows, expand_cards S (d_imps d) = Ok rows ->
     forall r1 r2, In r1 rows -> In r2 rows -> List.length r1 = List.length r2) /\
  (d_skipcomp d = false ->
   forall m l, In m (d_mats d) -> mat_pairs m = Ok l ->
     forall p q, In p l -> In q l -> frac_negative (snd p) = frac_negative (snd q)).
Proof. exact @finished_run_is_clean. Qed.
Print Assumptions C17_finished_run_is_clean.

(* ---------------- non-vacuity ---------------- *)

(* U=1 LAT=1 FILL=2 IMP:N=1 : the option list of the lattice theorem *)
Example lattice_no_opt_shape : forall T (S : Scalar T),
  let toks := [tk S "u" 0; tk S "1" 1; tk S "lat" 0; tk S "1" 1; tk S "fill" 0; tk S "2" 2;
               tk S "imp:n" 0; tk S "1" 1]%Z in
  toks = ([tk S "u" 0; tk S "1" 1] ++ tk S "lat" 0 :: tk S "1" 1 :: [] ++ tk S "fill" 0 :: tk S "2" 2
          :: [tk S "imp:n" 0; tk S "1" 1])%list%Z /\
  skippable [tk S "u" 0; tk S "1" 1]%Z 1 /\ skippable ([] : list (tok (T:=T))) 0 /\
  skippable [tk S "imp:n" 0; tk S "1" 1]%Z 1 /\ stops [tk S "imp:n" 0; tk S "1" 1]%Z /\
  py_int "1" = Some 1%Z /\ has_colon (tk S "2" 2%Z) = false /\ float_lit "2" = true.
Proof.
  intros. repeat split; try reflexivity.
  - apply sk_u; try reflexivity. apply sk_nil.
  - apply sk_nil.
  - apply sk_imp; try reflexivity. apply sk_nil.
Qed.

(* FILL=2 (1 2 3) in front of a TRCL keyword: the loop arrives at the TRCL *)
Example arrives_behind_fill : forall T (S : Scalar T) (suffix : list (tok (T:=T))),
  stops suffix ->
  exists k', arrives S [] ([tk S "fill" 0; tk S "2" 2; tk S "1" 1; tk S "2" 2; tk S "3" 3]%Z ++ suffix)%list
                     kws0 suffix k' 1.
Proof.
  intros T S suffix Hs.
  apply (arrives_fill_n S [] (tk S "fill" 0%Z) (tk S "2" 2%Z) [tk S "1" 1; tk S "2" 2; tk S "3" 3]%Z suffix kws0);
    try reflexivity; try exact Hs; discriminate.
Qed.

(* options the keyword loop steps over: IMP:N=1 U=2 in front of a keyword *)
Example skippable_example : forall T (S : Scalar T),
  skippable [tk S "imp:n" 0; tk S "1" 1; tk S "u" 0; tk S "2" 2]%Z 2.
Proof.
  intros. apply sk_imp; [reflexivity|reflexivity|].
  apply sk_u; try reflexivity. apply sk_nil.
Qed.


(* the doctest arguments are well formed / malformed as the code says *)
Example latopt_examples :
  map latopt_wf ["200,2:5,0:4"; "5902,0:5,0:5,0:5"; "10,-4:4"; "malformed"; "three,-1:5";
                 "100,"; "100,0:4,0:4,0:4,0:4"; "100,0:6.022e23"]
  = [true; true; true; false; false; false; false; false].
Proof. vm_compute. reflexivity. Qed.

Example parse_lattice_doctest :
  parse_lattice ["200,2:5,0:4"; "5902,0:5,0:5,0:5"; "10,-4:4"]
  = Ok [(10, [(-4, 4)]); (5902, [(0, 5); (0, 5); (0, 5)]); (200, [(2, 5); (0, 4)])]%Z.
Proof. vm_compute. reflexivity. Qed.

(* a deck that the model accepts, and the same deck with one fault of several
   classes: the hypotheses of the theorems are satisfiable and the unfaulted
   deck does finish *)
Definition fl (l : list Z) : list PrimFloat.float := map (sofZ FS) l.
Definition ex_tok (s : string) (v : PrimFloat.float) (z : Z) : tok (T:=PrimFloat.float) := mkTok s v z.
Definition ex_deck (m : Z) (so_params : list Z) (facet : option nat)
  : deckm (T:=PrimFloat.float) :=
  mkDeck [] [mkSurf 1%Z None "so" (fl so_params); mkSurf 2%Z (Some 5%Z) "rcc" (fl [0;0;0;0;0;2;1]%Z)]
         [mkTr 5%Z (fl [1;2;3; 1;0;0; 0;1;0; 0;0;1; m]%Z)]
         []
         [mkCellc 1%Z [mkLit 1%Z None; mkLit 2%Z facet] []
                  [ex_tok "imp:n" (sofZ FS 0) 0%Z; ex_tok "1" (sofZ FS 1) 1%Z];
          mkCellc 2%Z [mkLit 1%Z None] []
                  [ex_tok "imp:n" (sofZ FS 0) 0%Z; ex_tok "0" (sofZ FS 0) 0%Z]]
         [["1001"; "0.5"; "8016"; "0.5"]] false [] false.
Example ex_deck_finishes : validate FS (ex_deck 1 [5]%Z (Some 3%nat)) = Ok tt.
Proof. vm_compute. reflexivity. Qed.
Example ex_deck_m_rejected : validate FS (ex_deck (-1) [5]%Z (Some 3%nat)) = Err ETransformation.
Proof. vm_compute. reflexivity. Qed.
Example ex_deck_facet_rejected : validate FS (ex_deck 1 [5]%Z (Some 4%nat)) = Err ECellConversion.
Proof. vm_compute. reflexivity. Qed.
Example ex_deck_facet_zero_finishes : validate FS (ex_deck 1 [5]%Z (Some 0%nat)) = Ok tt.
Proof. vm_compute. reflexivity. Qed.
(* a facet beyond the range in a cell of importance 0 is never looked at *)
Definition ex_deck_skipped : deckm (T:=PrimFloat.float) :=
  let d := ex_deck 1 [5]%Z None in
  mkDeck (d_latopts d) (d_surfs d) (d_trs d) (d_imps d)
         [mkCellc 1%Z [mkLit 1%Z None] [] [ex_tok "imp:n" (sofZ FS 0) 0%Z; ex_tok "1" (sofZ FS 1) 1%Z];
          mkCellc 2%Z [mkLit 2%Z (Some 9%nat)] [] [ex_tok "imp:n" (sofZ FS 0) 0%Z; ex_tok "0" (sofZ FS 0) 0%Z]]
         (d_mats d) false [] false.
Example ex_deck_skipped_finishes : validate FS ex_deck_skipped = Ok tt.
Proof. vm_compute. reflexivity. Qed.
(* the RCC of the example deck written with a star flag: rejected; skipped with the option *)
Definition ex_deck_flagged (skipbc : bool) : deckm (T:=PrimFloat.float) :=
  let d := ex_deck 1 [5]%Z None in
  mkDeck (d_latopts d) (d_surfs d) (d_trs d) (d_imps d) (d_cells d) (d_mats d) false [2%Z] skipbc.
Example ex_deck_flagged_rejected : validate FS (ex_deck_flagged false) = Err ENotImplemented.
Proof. vm_compute. reflexivity. Qed.
Example ex_deck_flagged_skipped : validate FS (ex_deck_flagged true) = Ok tt.
Proof. vm_compute. reflexivity. Qed.
Example ex_deck_surplus_finishes : validate FS (ex_deck 1 [5; 6]%Z None) = Ok tt.
Proof. vm_compute. reflexivity. Qed.
