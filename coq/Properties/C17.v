(* C17 — unsupported or malformed input stops the run: theorem statements. *)
From Coq Require Import List NArith ZArith Bool String Ascii Lia.
From T4V Require Import Base.Str Base.Scalar C17.Model.
Import ListNotations.
