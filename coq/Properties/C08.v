(* C08 — every written file is structurally valid TRIPOLI-4 input.
   Only restatements; proofs are in C08/Proofs*.v, definitions in C08/Model.v
   (what the code does) and C08/Spec.v (what a valid file is; wf_state). *)
From Coq Require Import List NArith ZArith Bool String Ascii Permutation Reals.
From T4V Require Import Base.Str C08.Model C08.Spec C08.ProofsSets C08.ProofsWrite C08.ProofsPrune
     C08.ProofsTail C08.SurfEq C08.Parse C08.ProofsChars C08.ProofsParse C08.ProofsGiven C08.ProofsEnd C08.CheckText C08.Check C08.ProofsRefute C08.LinkC01a C08.LinkC01b C08.LinkC01c C08.LinkC01 C08.ProofsHelpers C08.LinkC09 C08.LinkFull C08.ProofsEmptyTable.
Import ListNotations.

(* VolumeT4.__str__: for EVERY volume (no hypothesis), each declared count equals the
   number of items printed after it; the items are the sorted, duplicate-free sets *)
Theorem C08_volume_str_counts : forall (k : Z) (v : volume),
  let l := volu_line_of k v in
  declared_ok (vl_plus l) /\ declared_ok (vl_minus l) /\
  match vl_op l with None => True | Some (_, n, args) => n = N.of_nat (List.length args) end /\
  items (vl_plus l) = mkset (v_plus v) /\ items (vl_minus l) = mkset (v_minus v) /\
  op_args l = operands v /\ vl_id l = k /\ vl_fictive l = v_fictive v.
Proof. exact volume_str_counts. Qed.
Print Assumptions C08_volume_str_counts.

(* the writers: tables satisfying wf_state are written as a file satisfying every clause
   of the property; the only exception left is the ValueError of the repaired
   writeT4BoundCond (two kinds of boundary condition on coincident surfaces), raised after
   a well-formed file without BOUNDARY_CONDITION block has been written *)
Theorem C08_write_wf : forall (E : Type) (ren : option (list (Z * Z))) (w : wstate E),
  wf_state w ->
  exists f, wf_file f /\
    (write_file ren w = Complete f \/ exists e, write_file ren w = Raised f e /\ f_bc f = None).
Proof. intros E. exact write_wf. Qed.
Print Assumptions C08_write_wf.

(* de-duplication + renumbering (of the volumes AND of the helper planes, fix a12128b) +
   remove_empty_volumes + remove_unused_volumes keep the references closed and ESTABLISH
   "no surface on both sides".  No guard on the pipeline any more: helpers_ok only says
   what construct_volume_t4 inserts (two different planes under two different numbers in a
   dictionary); that they survive de-duplication under their new, still different, numbers
   is now a lemma (helpers_renumbered).  eeqb = SurfaceT4.__eq__, symmetric and transitive *)
Theorem C08_prune_preserves_wf :
  forall (E : Type) (eeqb : E -> E -> bool),
  (forall x y, eeqb x y = eeqb y x) ->
  (forall x y z, eeqb x y = true -> eeqb y z = true -> eeqb x z = true) ->
  forall skip_dedup (surfs : stable E) vols u0 u1 surfs' vols' ren',
  refs_ok surfs vols -> helpers_ok eeqb surfs u0 u1 ->
  prune eeqb skip_dedup surfs vols u0 u1 = Ok (surfs', vols', ren') ->
  refs_ok surfs' vols' /\ sides_ok vols'.
Proof. intros E. exact (@prune_preserves_wf E). Qed.
Print Assumptions C08_prune_preserves_wf.

(* ... and it never raises (no KeyError of renumbering[s] / renumber[surf], no ValueError of
   max(), no exhausted fuel) on a non-empty volume table *)
Theorem C08_prune_total :
  forall (E : Type) (eeqb : E -> E -> bool) skip_dedup (surfs : stable E) vols u0 u1,
  refs_ok surfs vols -> helpers_ok eeqb surfs u0 u1 -> vols <> [] ->
  exists r, prune eeqb skip_dedup surfs vols u0 u1 = Ok r.
Proof. intros E. exact (@prune_total E). Qed.
Print Assumptions C08_prune_total.

(* END TO END: from the tables construct_volume_t4 returns to the file.  If those tables
   have closed references, contain the two helper planes, are not empty, the skip list is
   disjoint from the volume numbers and every non-virtual volume comes from a cell whose
   material has a card and a live cell (stage0_ok: facts about code outside this model,
   checked on every snapshot by tie:stage0), then for EVERY option combination the tail of
   the conversion never raises before the file is opened and either writes a file that
   satisfies every clause of the property (possibly followed by the ValueError of
   conflicting boundary conditions, the file then simply has no BOUNDARY_CONDITION block),
   or every volume was pruned away and nothing but the // header is written *)
Theorem C08_convert_tail_wf :
  forall (E : Type) (eeqb : E -> E -> bool),
  (forall x y, eeqb x y = eeqb y x) ->
  (forall x y z, eeqb x y = true -> eeqb y z = true -> eeqb x z = true) ->
  forall skip_dedup u0 u1 (w : wstate E),
  stage0_ok eeqb u0 u1 w ->
  exists o, convert_tail eeqb skip_dedup u0 u1 w = Ok o /\
    (o = Died false [] EValue \/
     exists f, wf_file f /\ (o = Complete f \/ exists e, o = Raised f e /\ f_bc f = None)).
Proof. intros E. exact (@convert_tail_wf E). Qed.
Print Assumptions C08_convert_tail_wf.

(* remove_empty_volumes terminates within the model's fuel (it never returns None) and
   its result has closed references and no volume with a surface on both sides *)
Theorem C08_remove_empty_volumes_ok : forall (E : Type) (surfs : stable E) vols u0 u1,
  refs_ok surfs vols -> In u0 (keys surfs) -> In u1 (keys surfs) -> u0 <> u1 ->
  exists vols', remove_empty_volumes vols u0 u1 = Some vols' /\ refs_ok surfs vols' /\ sides_ok vols'.
Proof. intros E. exact (@remove_empty_volumes_ok E). Qed.
Print Assumptions C08_remove_empty_volumes_ok.

(* constructGeomCompT4: the groups list exactly the non-virtual volumes, each once *)
Theorem C08_geomcomp_partition : forall vols cells g,
  NoDup (keys vols) -> construct_geomcomp vols cells = Ok g ->
  Permutation (gc_listed g) (live_keys vols) /\
  (forall k v, In (k, v) vols -> v_fictive v = false -> count_occ Z.eq_dec (gc_listed g) k = 1%nat) /\
  (forall k, In k (gc_listed g) -> exists v, In (k, v) vols /\ v_fictive v = false) /\
  Forall (fun l => gc_count l = N.of_nat (List.length (gc_vols l))) g.
Proof. exact geomcomp_partition. Qed.
Print Assumptions C08_geomcomp_partition.

(* the boolean verdict the correspondence runs evaluate on the model's file IS the spec *)
Theorem C08_wf_fileb_ok : forall f, wf_fileb f = true <-> wf_file f.
Proof. exact wf_fileb_ok. Qed.
Print Assumptions C08_wf_fileb_ok.

Theorem C08_wf_stateb_sound : forall (E : Type) (w : wstate E), wf_stateb w = true -> wf_state w.
Proof. intros E. exact wf_stateb_sound. Qed.
Print Assumptions C08_wf_stateb_sound.

Theorem C08_stage0_okb_sound : forall (E : Type) (eeqb : E -> E -> bool) u0 u1 (w : wstate E),
  stage0_okb eeqb u0 u1 w = true -> stage0_ok eeqb u0 u1 w.
Proof. intros E. exact (@stage0_okb_sound E). Qed.
Print Assumptions C08_stage0_okb_sound.

(* boundary conditions (repaired writeT4BoundCond): for EVERY complete run of the writers —
   no hypothesis on the tables, the renumbering or the flags — each listed surface is
   defined in the file and listed once, and the declared count is the number of entries *)
Theorem C08_bc_defined : forall (E : Type) (ren : option (list (Z * Z))) (w : wstate E) f,
  write_file ren w = Complete f ->
  match f_bc f with
  | None => True
  | Some b => wf_bc f b /\ NoDup (map snd (snd b))
  end.
Proof. intros E. exact bc_defined. Qed.
Print Assumptions C08_bc_defined.

(* the pipeline theorems for the concrete SurfaceT4.__eq__ (type, parameters, transform
   compared with the scalar equality; C08/SurfEq.v) read at R: symmetry and transitivity are
   proved there, so the hypothesis disappears *)
Theorem C08_convert_tail_wf_R :
  forall skip_dedup u0 u1 (w : wstate (spayload R)),
  stage0_ok Req_payload u0 u1 w ->
  exists o, convert_tail Req_payload skip_dedup u0 u1 w = Ok o /\
    (o = Died false [] EValue \/
     exists f, wf_file f /\ (o = Complete f \/ exists e, o = Raised f e /\ f_bc f = None)).
Proof. exact convert_tail_wf_R. Qed.
Print Assumptions C08_convert_tail_wf_R.

(* TEXT LEVEL, all blocks, character level: the reader parse_t4 (C08/Parse.v: count-driven,
   splits the text at newlines and blanks, reads decimal numerals, splits the comment off at
   " // ") applied to the text print_t4 emits gives back the abstract file, for every file
   whose word fields are words (no blank, no newline; no '/' in SURF types and parameters;
   type <> "TRANSFORM"), whose comments have no newline and whose declared counts equal the
   lengths (printable).  print_t4 is the printer the byte tie executes; parse_t4 is run on
   the bytes of every real file by tie:reader *)
Theorem C08_print_parse_roundtrip : forall f, printable f -> parse_t4 (print_t4 f) = Some f.
Proof. exact parse_print_roundtrip. Qed.
Print Assumptions C08_print_parse_roundtrip.

(* the written file is printable, so: under wf_state and words_ok (the strings of the tables
   are words; checked on every snapshot by tie:text) the writers leave a file that satisfies
   every clause of the property AND whose text the reader reads back as exactly that file *)
Theorem C08_written_text_wf : forall (E : Type) ren (w : wstate E),
  wf_state w -> words_ok w ->
  exists f, written ren w f /\ wf_file f /\ parse_t4 (print_t4 f) = Some f.
Proof. intros E. exact (@written_text_wf E). Qed.
Print Assumptions C08_written_text_wf.

(* "every numeric field is a finite number": the writers only print what they are given —
   every SURF parameter, TRANSFORM entry, composition density and amount of the written file
   is a numeric string of the tables; so for ANY notion of finite the clause reduces to an
   invariant of the tables (checked with the concrete finiteb on every snapshot by tie:text,
   and on the bytes of every real file through the reader by tie:reader).  No hypothesis
   on the tables *)
Theorem C08_numbers_given : forall (E : Type) ren (w : wstate E) f,
  written ren w f -> forall x, In x (file_numbers f) -> In x (state_numbers w).
Proof. intros E. exact (@numbers_given E). Qed.
Print Assumptions C08_numbers_given.

Theorem C08_numbers_finite : forall (E : Type) (finite : string -> Prop) ren (w : wstate E) f,
  written ren w f -> Forall finite (state_numbers w) -> Forall finite (file_numbers f).
Proof. intros E. exact (@numbers_finite E). Qed.
Print Assumptions C08_numbers_finite.

Theorem C08_words_okb_sound : forall (E : Type) (w : wstate E), words_okb w = true -> words_ok w.
Proof. intros E. exact (@words_okb_sound E). Qed.
Print Assumptions C08_words_okb_sound.

(* THE WHOLE PROPERTY TEXT, END TO END, AT THE LEVEL OF CHARACTERS.  From the tables
   construct_volume_t4 returns (stage0_ok, words_ok: facts about code outside this model,
   checked on every snapshot by tie:stage0 and tie:text), for every option combination: the
   tail of the conversion does not raise before the file is opened, and either every volume
   was pruned away (header only), or the file f it leaves
   - satisfies every structural clause (wf_file),
   - is read back from its own characters by the reader as exactly f,
   - and has only numeric fields that are numeric strings of the tables (so they are finite
     numbers whenever those are, for any notion of finite).
   Stated for the concrete SurfaceT4.__eq__ at R: no hypothesis on the surface equality *)
Theorem C08_convert_tail_text_wf_R :
  forall skip_dedup u0 u1 (w : wstate (spayload R)),
  stage0_ok Req_payload u0 u1 w -> words_ok w ->
  exists o, convert_tail Req_payload skip_dedup u0 u1 w = Ok o /\
    (o = Died false [] EValue \/
     exists f, (o = Complete f \/ exists e, o = Raised f e) /\
               wf_file f /\ parse_t4 (print_t4 f) = Some f /\
               forall finite : string -> Prop,
                 Forall finite (state_numbers w) -> Forall finite (file_numbers f)).
Proof. exact (convert_tail_text_wf Req_payload Req_payload_sym Req_payload_trans). Qed.
Print Assumptions C08_convert_tail_text_wf_R.

(* LINKED WITH C01 (C01's files imported read-only).  The volume table is the one C01's model
   of construct_volume_t4's conversion loop (C01.Model.convert_cells from the empty state)
   builds from the cell trees, read as a C08 table (tr_table).  The volume-number part of
   stage0_ok — distinct keys (C01: convert_cells_keys), no operand is None (C01:
   convert_cells_nonone, the content of C01_to_t4_cell_sound / C01_cells), every operand is a
   key of the table (C08/LinkC01a.v: convert_cells_closed, the same induction over C01's
   model) — is now DERIVED, not assumed.  What is still asked of the other tables is
   stage0_rest (surface numbers are entries of the surface dictionary, helper planes, skip
   list, cells behind the non-virtual volumes, strings are words).  Conclusion: from cell trees
   to the characters of the file, for every option set. *)
Theorem C08_table_refs_linked : forall fuel cells matching u0 u1 todo cnt0 s',
  M1.convert_cells fuel cells matching u0 u1 todo (M1.mkSt cnt0 [] [] []) = M1.Ok s' ->
  NoDup (keys (tr_table (M1.vols s'))) /\
  forall k v x, In (k, v) (tr_table (M1.vols s')) -> In x (operands v) ->
    exists j, x = Some j /\ In j (keys (tr_table (M1.vols s'))).
Proof. exact c01_table_refs. Qed.
Print Assumptions C08_table_refs_linked.

Theorem C08_convert_wf_linked :
  forall fuel cells matching u0 u1 todo cnt0 s' skip_dedup (w : wstate (spayload R)),
  M1.convert_cells fuel cells matching u0 u1 todo (M1.mkSt cnt0 [] [] []) = M1.Ok s' ->
  w_vols w = tr_table (M1.vols s') ->
  stage0_rest u0 u1 w ->
  exists o, convert_tail Req_payload skip_dedup u0 u1 w = Ok o /\
    (o = Died false [] EValue \/
     exists f, (o = Complete f \/ exists e, o = Raised f e) /\
               wf_file f /\ parse_t4 (print_t4 f) = Some f /\
               forall finite : string -> Prop,
                 Forall finite (state_numbers w) -> Forall finite (file_numbers f)).
Proof. exact convert_wf_linked. Qed.
Print Assumptions C08_convert_wf_linked.

(* ... and the surface numbers too (C08/LinkC01b.v, again an induction over C01's model:
   pot_expand_surfs puts only numbers of `matching` into the tree, pot_optimise keeps leaves,
   conv_equa / the helper equations / the stand-in volume use their absolute values and the
   helper ids): "surface numbers of the volumes are entries of the surface dictionary" is now
   asked of `matching` (the output of number_items) and of the helper ids only *)
Theorem C08_convert_wf_surfaces_linked :
  forall fuel cells matching u0 u1 todo cnt0 s' skip_dedup (w : wstate (spayload R)),
  M1.convert_cells fuel cells matching u0 u1 todo (M1.mkSt cnt0 [] [] []) = M1.Ok s' ->
  w_vols w = tr_table (M1.vols s') ->
  stage0_rest2 u0 u1 matching w ->
  exists o, convert_tail Req_payload skip_dedup u0 u1 w = Ok o /\
    (o = Died false [] EValue \/
     exists f, (o = Complete f \/ exists e, o = Raised f e) /\
               wf_file f /\ parse_t4 (print_t4 f) = Some f /\
               forall finite : string -> Prop,
                 Forall finite (state_numbers w) -> Forall finite (file_numbers f)).
Proof. exact convert_wf_linked_surfaces. Qed.
Print Assumptions C08_convert_wf_surfaces_linked.

(* ---- round 3: the three places where the C01 link stopped ---------------------------------- *)
(* (a) the skip list.  A key of the table of C01's conversion loop is a cell of the conversion
   list or a number above the initial counter (C08/LinkC01c.v: structural re-proof over C01's
   definitions, from C01's flag_ids / expand_ok / optimise_ids); so cells of importance 0
   (numbers below the counter, not in the list) are not keys *)
Theorem C08_table_keys_linked : forall fuel cells matching u0 u1 todo cnt0 s',
  M1.convert_cells fuel cells matching u0 u1 todo (M1.mkSt cnt0 [] [] []) = M1.Ok s' ->
  forall k, defined (M1.vols s') k -> In k todo \/ (cnt0 < k)%Z.
Proof. exact convert_cells_table_keys. Qed.
Print Assumptions C08_table_keys_linked.

(* (b) number_items, linked with C02 (C02.ProofsNum.number_items_spec = C02_number_items_spec):
   every TRIPOLI-4 number of the matching is a key of the numbering, whose keys are distinct *)
Theorem C08_matching_numbers_linked : forall (A : Type) (dic : list (Z * list (A * Z))) num mat,
  M2.number_items dic = M2.Ok (num, mat) ->
  (forall k, In k (P2.keys dic) -> (0 < k)%Z) -> NoDup (P2.keys dic) ->
  Forall (fun kv => P2.unit_sides (snd kv)) dic ->
  NoDup (map fst num) /\
  forall key ids, M1.lookup key mat = Some ids -> Forall (fun x => In (Z.abs x) (map fst num)) ids.
Proof. exact @c02_matching_numbers. Qed.
Print Assumptions C08_matching_numbers_linked.

(* (c) the helper planes: construct_volume_t4 inserts them itself (Model.insert_helpers, tied
   to every snapshot by tie:helpers), so helpers_ok is a consequence *)
Theorem C08_insert_helpers_ok :
  forall (E : Type) (eeqb : E -> E -> bool) (surfs surfs' : stable E) h0 h1 u0 u1,
  insert_helpers surfs h0 h1 = Ok (surfs', u0, u1) ->
  NoDup (keys surfs) -> eeqb (s_eq h0) (s_eq h1) = false ->
  helpers_ok eeqb surfs' u0 u1 /\
  (forall k, In k (keys surfs) -> (k < u0)%Z) /\ (u1 = u0 + 1)%Z /\
  keys surfs' = (keys surfs ++ [u0; u1])%list /\
  (forall p, In p surfs -> In p surfs').
Proof. intros E. exact (@insert_helpers_ok E). Qed.
Print Assumptions C08_insert_helpers_ok.

(* ALL LINKS TOGETHER: C02's number_items, the helper-plane insertion, C01's conversion loop,
   C08's tail, writers, printer and reader.  From the dictionary of surface collections and
   the cell trees to the characters of the file, for every option set.  What is still asked
   (stage0_rest3): the volume table is not empty, the skipped cells are numbers below the
   counter outside the conversion list, the cells behind the non-virtual volumes have a
   material card and a live cell, normalize_float is idempotent on stored densities, the
   strings of the tables are words *)
Theorem C08_convert_wf_full_linked :
  forall (A : Type) (dic : list (Z * list (A * Z))) num mat
         (surfs0 : stable (spayload R)) fuel cells u0 u1 todo cnt0 s' skip_dedup (w : wstate (spayload R)),
  M2.number_items dic = M2.Ok (num, mat) ->
  (forall k, In k (P2.keys dic) -> (0 < k)%Z) -> NoDup (P2.keys dic) ->
  Forall (fun kv => P2.unit_sides (snd kv)) dic ->
  keys surfs0 = map fst num -> (exists k, In k (keys surfs0) /\ (0 < k)%Z) ->
  insert_helpers surfs0 (helper_plane "1" 1%R) (helper_plane "-1" (-1)%R) = Ok (w_surfs w, u0, u1) ->
  M1.convert_cells fuel cells mat u0 u1 todo (M1.mkSt cnt0 [] [] []) = M1.Ok s' ->
  w_vols w = tr_table (M1.vols s') ->
  stage0_rest3 cnt0 todo w ->
  exists o, convert_tail Req_payload skip_dedup u0 u1 w = Ok o /\
    (o = Died false [] EValue \/
     exists f, (o = Complete f \/ exists e, o = Raised f e) /\
               wf_file f /\ parse_t4 (print_t4 f) = Some f /\
               forall finite : string -> Prop,
                 Forall finite (state_numbers w) -> Forall finite (file_numbers f)).
Proof. exact convert_wf_full_linked. Qed.
Print Assumptions C08_convert_wf_full_linked.

(* round 4: "normalize_float is idempotent on the stored densities" linked with C09
   (C09.ProofsIdem.normalize_float_idempotent = C09_normalize_float_idempotent): it holds
   whenever the stored density is an output of C09's normalize_float and the writers'
   normalisation is that function (checked on every snapshot by tie:density) *)
Theorem C08_norm_fixed_linked : forall c : cell, density_from_c09 c -> norm_fixed c.
Proof. exact norm_fixed_linked. Qed.
Print Assumptions C08_norm_fixed_linked.

(* the fully linked statement with that hypothesis discharged too.  What is still ASSUMED
   about the tables (stage0_rest4): the volume table is not empty; the skipped cells are
   numbers below the counter outside the conversion list; the material side (a card and a
   live cell for the material of every non-virtual volume: false for the open findings
   material_without_card and negative_importance_no_composition); the strings are words *)
Theorem C08_convert_wf_all_linked :
  forall (A : Type) (dic : list (Z * list (A * Z))) num mat
         (surfs0 : stable (spayload R)) fuel cells u0 u1 todo cnt0 s' skip_dedup (w : wstate (spayload R)),
  M2.number_items dic = M2.Ok (num, mat) ->
  (forall k, In k (P2.keys dic) -> (0 < k)%Z) -> NoDup (P2.keys dic) ->
  Forall (fun kv => P2.unit_sides (snd kv)) dic ->
  keys surfs0 = map fst num -> (exists k, In k (keys surfs0) /\ (0 < k)%Z) ->
  insert_helpers surfs0 (helper_plane "1" 1%R) (helper_plane "-1" (-1)%R) = Ok (w_surfs w, u0, u1) ->
  M1.convert_cells fuel cells mat u0 u1 todo (M1.mkSt cnt0 [] [] []) = M1.Ok s' ->
  w_vols w = tr_table (M1.vols s') ->
  stage0_rest4 cnt0 todo w ->
  exists o, convert_tail Req_payload skip_dedup u0 u1 w = Ok o /\
    (o = Died false [] EValue \/
     exists f, (o = Complete f \/ exists e, o = Raised f e) /\
               wf_file f /\ parse_t4 (print_t4 f) = Some f /\
               forall finite : string -> Prop,
                 Forall finite (state_numbers w) -> Forall finite (file_numbers f)).
Proof. exact convert_wf_all_linked. Qed.
Print Assumptions C08_convert_wf_all_linked.

(* round 5: the hypothesis "the volume table is not empty" removed.  With an empty table
   (every cell of the deck is empty) the tail raises ValueError before the file is opened
   (de-duplication on) or leaves the // header only; so the all-linked statement holds with
   one more disjunct and one assumption less (stage0_rest5: skipped cells, material side,
   densities from C09's normalize_float, strings are words) *)
Theorem C08_convert_wf_all_linked_total :
  forall (A : Type) (dic : list (Z * list (A * Z))) num mat
         (surfs0 : stable (spayload R)) fuel cells u0 u1 todo cnt0 s' skip_dedup (w : wstate (spayload R)),
  M2.number_items dic = M2.Ok (num, mat) ->
  (forall k, In k (P2.keys dic) -> (0 < k)%Z) -> NoDup (P2.keys dic) ->
  Forall (fun kv => P2.unit_sides (snd kv)) dic ->
  keys surfs0 = map fst num -> (exists k, In k (keys surfs0) /\ (0 < k)%Z) ->
  insert_helpers surfs0 (helper_plane "1" 1%R) (helper_plane "-1" (-1)%R) = Ok (w_surfs w, u0, u1) ->
  M1.convert_cells fuel cells mat u0 u1 todo (M1.mkSt cnt0 [] [] []) = M1.Ok s' ->
  w_vols w = tr_table (M1.vols s') ->
  stage0_rest5 cnt0 todo w ->
  convert_tail Req_payload skip_dedup u0 u1 w = Err EValue \/
  exists o, convert_tail Req_payload skip_dedup u0 u1 w = Ok o /\
    (o = Died false [] EValue \/
     exists f, (o = Complete f \/ exists e, o = Raised f e) /\
               wf_file f /\ parse_t4 (print_t4 f) = Some f /\
               forall finite : string -> Prop,
                 Forall finite (state_numbers w) -> Forall finite (file_numbers f)).
Proof. exact convert_wf_all_linked_total. Qed.
Print Assumptions C08_convert_wf_all_linked_total.

(* ---- open defects: a composition that is named but not written.  The hypothesis cell_named
   (s0_cells / ws_cells) of the theorems above cannot be dropped: with closed tables, a cell
   material without M card, or a cell of negative importance, gives a file whose GEOMCOMP
   line names a composition the COMPOSITION block does not define *)
Theorem C08_composition_missing_refuted :
  forall w, w = w_nocard \/ w = w_negimp ->
  refs_ok (w_surfs w) (w_vols w) /\ sides_ok (w_vols w) /\
  exists f g c,
    write_file None w = Complete f /\ ~ wf_file f /\
    f_geomcomp f = Some g /\ f_comps f = Some c /\
    (map gc_name g = ["m7_-1.0"%string] \/ map gc_name g = ["m1_-1.0"%string]) /\
    map cb_name (snd c) = ["m0"%string].
Proof. exact composition_missing_refuted. Qed.
Print Assumptions C08_composition_missing_refuted.

(* ---- non-vacuity (tables of real runs; the first three were refutation witnesses before
   the repairs 3f9f4fd, a12128b, d8902ad) ------------------------------------------------------ *)
Example C08_empty_filler_example :
  refs_ok surfs7 vols7 /\ helpers_ok Nat.eqb surfs7 6 7 /\
  exists surfs' vols' ren' f,
    prune Nat.eqb false surfs7 vols7 6 7 = Ok (surfs', vols', ren') /\
    wf_state (w7 surfs' vols') /\
    write_file ren' (w7 surfs' vols') = Complete f /\ wf_file f /\
    vol_ids f = [15; 16; 18; 19]%Z /\ surf_ids f = [1; 3; 4]%Z.
Proof. exact empty_filler_example. Qed.

Example C08_helper_plane_example :
  refs_ok surfs8 vols8 /\ helpers_ok Nat.eqb surfs8 5 6 /\
  exists surfs' vols' ren' f,
    prune Nat.eqb false surfs8 vols8 5 6 = Ok (surfs', vols', ren') /\
    write_file ren' (w8 surfs' vols') = Complete f /\ wf_file f /\
    In "VOLU 1 EQUA PLUS 1 1 MINUS 1 6 UNION 1 6 ENDV"%string (print_file f) /\
    surf_ids f = [1; 2; 6]%Z.
Proof. exact helper_plane_example. Qed.

Example C08_leading_zero_example :
  wf_state w16 /\
  exists f g c,
    write_file None w16 = Complete f /\ wf_file f /\
    f_geomcomp f = Some g /\ map gc_name g = ["m1_-1.0"%string] /\
    f_comps f = Some c /\ map cb_name (snd c) = ["m1_-1.0"; "m0"]%string.
Proof. exact leading_zero_example. Qed.

(* the hypotheses of C08_convert_tail_wf are satisfiable: the tables of a real run *)
Example C08_stage0_example : stage0_ok Nat.eqb 6 7 (w7 surfs7 vols7).
Proof. apply stage0_okb_sound. vm_compute. reflexivity. Qed.

Example C08_example :
  refs_ok surfs_ex vols_ex /\ helpers_ok Nat.eqb surfs_ex 7 8 /\
  exists surfs' vols' ren' f,
    prune Nat.eqb false surfs_ex vols_ex 7 8 = Ok (surfs', vols', ren') /\
    wf_state (w_ex surfs' vols') /\
    write_file ren' (w_ex surfs' vols') = Complete f /\ wf_file f /\
    f_bc f = Some (1%N, [("REFLECTION"%string, 2%Z)]) /\
    List.length (f_vols f) = 4%nat /\ surf_ids f = [1; 2; 3; 7; 8]%Z.
Proof. exact example_pipeline. Qed.

(* the hypotheses of C08_convert_wf_linked are satisfiable: C01's example deck (five cells,
   a union, a cell reference, a cell of importance 0) through C01's model, its table in a
   C08 state *)
Example C08_convert_wf_linked_example :
  M1.convert_cells 6 T4V.C01.ProofsCells.ex_cells T4V.C01.ProofsCells.ex_matching 6 7
                   T4V.C01.ProofsCells.ex_todo (M1.mkSt 50 [] [] []) = M1.Ok ex_s' /\
  w_vols ex_w = tr_table (M1.vols ex_s') /\ stage0_rest 6 7 ex_w /\
  List.length (w_vols ex_w) = 9%nat /\
  map fst (filter (fun p => negb (v_fictive (snd p))) (w_vols ex_w)) = [10; 20; 30]%Z.
Proof. exact convert_wf_linked_example. Qed.

(* (d) orphan FICTIVE volumes left by the single pass of remove_unused_volumes (observed by
   C16) are harmless for every clause of the property: an instance *)
Example C08_orphan_fictive_harmless :
  refs_ok surfs_orphan vols_orphan /\
  exists surfs' vols' ren' f,
    prune Nat.eqb false surfs_orphan vols_orphan 6 7 = Ok (surfs', vols', ren') /\
    keys vols' = [3; 4]%Z /\ used_ids vols' = [] /\
    write_file ren' (mkW surfs' vols' [] [(4%Z, cell_m1 true)] mat_h [] [] false false false) = Complete f /\
    wf_file f /\ In "VOLU 3 EQUA PLUS 1 2 FICTIVE ENDV"%string (print_file f).
Proof. exact orphan_fictive_harmless. Qed.

(* flagged surfaces: unused one dropped, merged one listed under the survivor's number,
   conflicting kinds -> ValueError after a well-formed file without the block *)
Example C08_bc_example :
  exists f, write_file (Some [(1, 1); (2, 2); (3, 2); (5, 5)]%Z) w12 = Complete f /\ wf_file f /\
            f_bc f = Some (1%N, [("REFLECTION"%string, 2%Z)]) /\ surf_ids f = [1; 2]%Z /\
  exists f' , write_file (Some [(1, 1); (2, 2); (3, 2); (5, 5)]%Z)
                (mkW (w_surfs w12) (w_vols w12) [] (w_cells w12) mat_h []
                     [(2%Z, "*"%string); (3%Z, "+"%string)] false false false) = Raised f' EValue /\
              wf_file f' /\ f_bc f' = None.
Proof. exact bc_example. Qed.
