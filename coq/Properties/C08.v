(* C08 — every written file is structurally valid TRIPOLI-4 input.
   Only restatements; proofs are in C08/Proofs.v. *)
From Coq Require Import List NArith ZArith Bool String Ascii.
From T4V Require Import Base.Str C08.Model.
Import ListNotations.
