(* C01 — cell regions: every point stays in the volume of the cell that owns it.
   Only restatements; proofs are in coq/C01/Proofs*.v.  Surfaces are abstract ids;
   a point off all surfaces is its sense assignment sigma : Z -> bool. *)
From Coq Require Import List ZArith Bool.
From T4V Require Import C01.Model C01.Spec C01.ProofsTree.
Import ListNotations.
Open Scope Z_scope.

(* pot_flag only numbers the nodes *)
Theorem C01_flag_den : forall sigma cden matching (t : tree msurf) n,
  mden sigma cden matching (fst (flag t n)) = mden sigma cden matching t.
Proof. exact flag_den. Qed.
Print Assumptions C01_flag_den.

(* pot_expand_surfs: the tree over TRIPOLI-4 ids means what the tree over MCNP
   surfaces means (collection: -s = all members negative, +s = one member
   positive; facet s.k = k-th member), for surface ids <> 0 and facets >= 1 *)
Theorem C01_expand_surfs_den : forall sigma cden matching (t : tree msurf) n t' n',
  expand matching t n = Ok (t', n') -> leaves_ok (msurf_ok matching) t ->
  tden sigma cden t' = mden sigma cden matching t.
Proof. exact expand_den. Qed.
Print Assumptions C01_expand_surfs_den.

(* pot_optimise: flattening and pruning keep the region; None only for a region
   that is empty for every sense assignment *)
Theorem C01_optimise_den : forall sigma cden (t : tree Z),
  (forall t', optimise t = Some t' -> tden sigma cden t' = tden sigma cden t) /\
  (optimise t = None -> tden sigma cden t = false).
Proof. exact optimise_den. Qed.
Print Assumptions C01_optimise_den.
