(* C01 — cell regions: every point stays in the volume of the cell that owns it.
   Only restatements; proofs are in coq/C01/Proofs*.v.  Surfaces are abstract ids;
   a point off all surfaces is its sense assignment sigma : Z -> bool. *)
From Coq Require Import List ZArith Bool.
From T4V Require Import C01.Model C01.Spec C01.ProofsTree.
Import ListNotations.
Open Scope Z_scope.

(* pot_flag only numbers the nodes *)
Theorem C01_flag_den : forall sigma cden matching (t : tree msurf) n,
  mden sigma cden matching (fst (flag t n)) = mden sigma cden matching t.
Proof. exact flag_den. Qed.
Print Assumptions C01_flag_den.

(* pot_expand_surfs: the tree over TRIPOLI-4 ids means what the tree over MCNP
   surfaces means (collection: -s = all members negative, +s = one member
   positive; facet s.k = k-th member), for surface ids <> 0 and facets >= 1 *)
Theorem C01_expand_surfs_den : forall sigma cden matching (t : tree msurf) n t' n',
  expand matching t n = Ok (t', n') -> leaves_ok (msurf_ok matching) t ->
  tden sigma cden t' = mden sigma cden matching t.
Proof. exact expand_den. Qed.
Print Assumptions C01_expand_surfs_den.

From T4V Require Import C01.ProofsT4 C01.ProofsCells C01.ProofsExpand.

(* pot_expand_surfs, the error branch characterised instead of assumed: the
   expansion succeeds exactly when no surface leaf is in error, and otherwise
   raises the error of the FIRST offending leaf (left to right): EKey = surface
   not in `matching` (KeyError), EFacet = facet number above the number of facets
   (CellConversionError), EIndex = facet number so small that Python's negative
   index leaves the list (IndexError).  A facet number 0 is not an error: it
   selects the last facet (Python index -1), which is why C01_expand_surfs_den
   asks for facets >= 1. *)
Theorem C01_expand_surfs_errors : forall matching (t : tree msurf) n,
  match expand matching t n with
  | Ok _ => first_err matching (all_leaves t) = None
  | Err e => first_err matching (all_leaves t) = Some e
  end.
Proof. exact expand_err. Qed.
Print Assumptions C01_expand_surfs_errors.

Theorem C01_expand_surfs_facet0 : forall matching s ids n,
  lookup (Z.abs s) matching = Some ids -> ids <> [] ->
  exists x, nth_error ids (length ids - 1) = Some x /\
            expand_leaf matching (s, Some 0) n = Ok (Leaf (signed s x), n).
Proof. exact expand_facet0. Qed.
Print Assumptions C01_expand_surfs_facet0.

(* pot_optimise: flattening and pruning keep the region; None only for a region
   that is empty for every sense assignment *)
Theorem C01_optimise_den : forall sigma cden (t : tree Z),
  (forall t', optimise t = Some t' -> tden sigma cden t' = tden sigma cden t) /\
  (optimise t = None -> tden sigma cden t = false).
Proof. exact optimise_den. Qed.
Print Assumptions C01_optimise_den.

From T4V Require Import C01.ProofsT4 C01.ProofsCells C01.ProofsPrune.

(* pot_to_t4_cell.  State: [inv] = every key of the table is <= the counter;
   [fresh] = the node ids of the tree (given by pot_flag) are distinct, not yet in
   the table and <= the counter; [nonone] = no operand of the table is None;
   [sem] = each entry of the surface cache is an operator-free volume denoting its
   literal, each entry of the cell-reference cache denotes its cell.  [cref] is
   convert_cellref, specified by the same contract (discharged for the real
   convert_cellref in C01_convert_cellref).  Conclusion: a volume id is returned
   that denotes the tree at sigma; earlier volumes are untouched (extends: the
   frame), the counter grows, new keys are node ids of the tree or fresh counter
   values, the table still has no None operand and the caches stay coherent. *)
Theorem C01_to_t4_cell_sound : forall sigma cden cref orig u0 u1,
  0 < u0 -> 0 < u1 -> consistent sigma u0 u1 ->
  (forall c s r s', cref c s = Ok (r, s') -> inv s -> fresh [] s ->
     extends (vols s) (vols s') /\ cnt s <= cnt s' /\ inv s' /\ bound [] s s' /\
     (nonone (vols s') -> sem sigma cden s -> sem sigma cden s' /\ rden sigma (vols s') r (cden c))) ->
  (forall c s r s', cref c s = Ok (r, s') -> nonone (vols s) -> nonone (vols s') /\ r <> None) ->
  forall (t : tree Z) s r s',
  leaves_ok nz t -> to_t4 cref orig u0 u1 t s = Ok (r, s') ->
  inv s -> fresh (ids_of t) s -> nonone (vols s) -> sem sigma cden s ->
  exists id, r = Some id /\ extends (vols s) (vols s') /\ cnt s <= cnt s' /\ inv s' /\
             bound (ids_of t) s s' /\ nonone (vols s') /\ sem sigma cden s' /\
             Vden sigma (vols s') id (tden sigma cden t).
Proof.
  intros sigma cden cref orig u0 u1 H0 H1 Hc Hspec Hsome.
  exact (to_t4_sound_total sigma cden cref orig u0 u1 H0 H1 Hc Hspec Hsome).
Qed.
Print Assumptions C01_to_t4_cell_sound.

(* the real convert_cellref (any fuel) meets both halves of that contract when
   [cden] is the region of every cell of the table and the cells' surfaces are
   well formed (ids <> 0, facets >= 1): it always returns a volume id, which
   denotes the referenced cell (the stand-in PLUS u0 MINUS u0 when the cell is
   empty).  Inside: pot_flag/pot_expand_surfs/pot_optimise hand pot_to_t4_cell a
   tree with distinct fresh node ids (flag_ids, expand_ok, optimise_ids). *)
Theorem C01_convert_cellref : forall sigma cden cells matching u0 u1,
  0 < u0 -> 0 < u1 -> consistent sigma u0 u1 ->
  (forall c g orig, lookup c cells = Some (g, orig) ->
     leaves_ok (msurf_ok matching) g /\ cden c = mden sigma cden matching g) ->
  forall fuel c s r s', convert_cellref fuel cells matching u0 u1 c s = Ok (r, s') ->
  inv s -> nonone (vols s) -> sem sigma cden s ->
  exists id, r = Some id /\ extends (vols s) (vols s') /\ cnt s <= cnt s' /\ inv s' /\
             bound [] s s' /\ nonone (vols s') /\ sem sigma cden s' /\
             Vden sigma (vols s') id (cden c).
Proof. exact convert_cellref_total. Qed.
Print Assumptions C01_convert_cellref.

(* the table left by construct_volume_t4's loop (pot_convert of every cell of the
   conversion list from the empty state, root copied under the cell number,
   fictive = False): no operand is None; each listed cell k has a non-FICTIVE
   volume numbered k that denotes the cell, or has no volume and is empty at
   sigma; and every non-FICTIVE volume is a listed cell. *)
Theorem C01_cells : forall sigma cden cells matching u0 u1 fuel todo cnt0 s',
  0 < u0 -> 0 < u1 -> consistent sigma u0 u1 ->
  (forall c g orig, lookup c cells = Some (g, orig) ->
     leaves_ok (msurf_ok matching) g /\ cden c = mden sigma cden matching g) ->
  NoDup todo -> (forall k, In k todo -> k <= cnt0) ->
  convert_cells fuel cells matching u0 u1 todo (mkSt cnt0 [] [] []) = Ok s' ->
  nonone (vols s') /\
  (forall k, In k todo ->
     (exists v, lookup k (vols s') = Some v /\ v_fict v = false /\ Vden sigma (vols s') k (cden k)) \/
     (lookup k (vols s') = None /\ cden k = false)) /\
  (forall k v, lookup k (vols s') = Some v -> v_fict v = false -> In k todo).
Proof.
  intros sigma cden cells matching u0 u1 fuel todo cnt0 s' H0 H1 Hc Hok Hnd Hle H.
  exact (cells_table sigma cden cells matching u0 u1 H0 H1 Hc Hok fuel todo cnt0 s' Hnd Hle H).
Qed.
Print Assumptions C01_cells.

From T4V Require Import C01.ProofsEmpty C01.ProofsWritten.

(* remove_empty_volumes, for a table with distinct keys: every surviving volume
   keeps its denotation for every sigma consistent on the helper planes it is
   given; only volumes whose denotation is false for every such sigma are
   deleted (patently empty ones, e.g. the stand-in of an empty referenced cell,
   and the INTE volumes using a deleted one); UNION operands pointing at deleted
   volumes are dropped and a patently empty UNION volume gets the EQUA
   PLUS u0 MINUS u1, which denotes false under the consistency fact; nothing is
   added and FICTIVE flags are kept.  The loop terminates within the model's fuel
   (each later round deletes a volume), so no fuel hypothesis is needed. *)
Theorem C01_remove_empty_sound : forall u0 u1 d0, NoDup (keys d0) ->
  NoDup (keys (remove_empty u0 u1 d0)) /\
  (forall id v', lookup id (remove_empty u0 u1 d0) = Some v' ->
     exists v, lookup id d0 = Some v /\ v_fict v' = v_fict v) /\
  forall sigma, consistent sigma u0 u1 ->
    (forall id v' b, lookup id (remove_empty u0 u1 d0) = Some v' -> Vden sigma d0 id b ->
       Vden sigma (remove_empty u0 u1 d0) id b) /\
    (forall id v b, lookup id d0 = Some v -> lookup id (remove_empty u0 u1 d0) = None ->
       Vden sigma d0 id b -> b = false).
Proof. exact remove_empty_sound. Qed.
Print Assumptions C01_remove_empty_sound.

(* the passes of convertMCNPGeometry after construct_volume_t4 (prune =
   renumber_surfaces with the helper planes renumbered too, remove_empty_volumes,
   remove_unused_volumes), for a table with distinct keys and a sigma that gives
   merged surfaces the same sense: every surviving volume keeps its denotation;
   a non-FICTIVE volume either survives (non-FICTIVE, same denotation) or is
   deleted and then denotes false; nothing is added, FICTIVE flags are kept; a
   deleted volume denotes false or is FICTIVE. *)
Theorem C01_prune_sound : forall sigma u0 u1 rn d d',
  NoDup (keys d) -> prune u0 u1 rn d = Ok d' -> consistent sigma u0 u1 ->
  (forall r, rn = Some r -> respects sigma r) ->
  NoDup (keys d') /\
  (forall id v' b, lookup id d' = Some v' -> Vden sigma d id b -> Vden sigma d' id b) /\
  (forall id v b, lookup id d = Some v -> v_fict v = false -> Vden sigma d id b ->
     (exists v', lookup id d' = Some v' /\ v_fict v' = false /\ Vden sigma d' id b) \/
     (lookup id d' = None /\ b = false)) /\
  (forall id v', lookup id d' = Some v' -> exists v, lookup id d = Some v /\ v_fict v' = v_fict v) /\
  (forall id v b, lookup id d = Some v -> lookup id d' = None -> Vden sigma d id b ->
     b = false \/ v_fict v = true).
Proof. exact prune_sound. Qed.
Print Assumptions C01_prune_sound.

(* THE PROPERTY, on the table that is written (conversion loop from the empty
   state, prune, the writer's skipped-cells filter; the table of the loop has
   distinct keys: convert_cells_keys).  For every sigma consistent on the helper
   planes that gives merged surfaces the same sense: if the MCNP cell c owns sigma
   and no other converted cell contains sigma (the cells partition the sense
   assignments), then sigma lies in exactly one written non-FICTIVE volume, and
   that volume has the number c, when c is in the conversion list (importance
   <> 0); and in no written non-FICTIVE volume otherwise. *)
Theorem C01_partition :
  forall sigma cden cells matching u0 u1 fuel todo cnt0 s' rn skipped d' c,
  0 < u0 -> 0 < u1 -> consistent sigma u0 u1 ->
  (forall c g orig, lookup c cells = Some (g, orig) ->
     leaves_ok (msurf_ok matching) g /\ cden c = mden sigma cden matching g) ->
  NoDup todo -> (forall k, In k todo -> k <= cnt0) ->
  convert_cells fuel cells matching u0 u1 todo (mkSt cnt0 [] [] []) = Ok s' ->
  prune u0 u1 rn (vols s') = Ok d' ->
  (forall r, rn = Some r -> respects sigma r) ->
  (forall k, In k skipped -> k <= cnt0 /\ ~ In k todo) ->
  cden c = true -> (forall c', In c' todo -> cden c' = true -> c' = c) ->
  (In c todo -> forall k, in_volume sigma (written skipped d') k <-> k = c) /\
  (~ In c todo -> forall k, ~ in_volume sigma (written skipped d') k).
Proof.
  intros sigma cden cells matching u0 u1 fuel todo cnt0 s' rn skipped d' c
         H0 H1 Hc Hok Hnd Hle Hrun Hpr Hresp Hskip Hown Huniq.
  exact (written_partition sigma cden cells matching u0 u1 H0 H1 Hc Hok fuel todo cnt0 s'
           Hnd Hle Hrun rn skipped d' Hpr Hresp Hskip c Hown Huniq).
Qed.
Print Assumptions C01_partition.

From Coq Require Import Reals.
From T4V Require Import C01.ProofsPoints.

(* THE PROPERTY for points of R^3.  Surfaces are ANY family of real functions
   fval : id -> point -> R (PLUS s = {fval s > 0}, MINUS s = {fval s < 0}); the two
   helper planes are x - 1 and x + 1 (PLANEX 1, PLANEX -1 as construct_volume_t4
   inserts them); surfaces merged by the de-duplication are the same function.
   Membership of a point in a written volume is Pin (EQUA / UNION / INTE read
   directly on the table, no Booleans; ProofsPoints.v shows Pin = Vden at the sense
   assignment of the point).  For every point p off every surface: if MCNP cell c
   owns p and no other converted cell contains p, then p lies in exactly one
   written non-FICTIVE volume, numbered c, when c has non-zero importance, and in
   none otherwise.  The consistency of the helper planes and the equality of
   senses of merged surfaces are now PROVED (sigma_consistent, sigma_respects),
   not assumed. *)
Theorem C01_partition_points :
  forall (fval : Z -> point -> R) (u0 u1 : Z),
  (forall p, fval u0 p = (px p - 1)%R) -> (forall p, fval u1 p = (px p + 1)%R) ->
  forall (cden : point -> Z -> bool) cells matching fuel todo cnt0 s' rn skipped d' p c,
  0 < u0 -> 0 < u1 -> off_surfaces fval p ->
  (forall c g orig, lookup c cells = Some (g, orig) ->
     leaves_ok (msurf_ok matching) g /\
     cden p c = mden (sigma_of fval p) (cden p) matching g) ->
  NoDup todo -> (forall k, In k todo -> k <= cnt0) ->
  convert_cells fuel cells matching u0 u1 todo (mkSt cnt0 [] [] []) = Ok s' ->
  prune u0 u1 rn (vols s') = Ok d' ->
  (forall r, rn = Some r -> merged_equal fval r) ->
  (forall k, In k skipped -> k <= cnt0 /\ ~ In k todo) ->
  cden p c = true -> (forall c', In c' todo -> cden p c' = true -> c' = c) ->
  (In c todo -> forall k, pt_in fval (written skipped d') p k <-> k = c) /\
  (~ In c todo -> forall k, ~ pt_in fval (written skipped d') p k).
Proof. intros fval u0 u1 Hh0 Hh1. exact (partition_points fval u0 u1 Hh0 Hh1). Qed.
Print Assumptions C01_partition_points.

From T4V Require Import C01.Printer C01.ProofsPrinter C01.ProofsFile.

(* the printer (VolumeT4.__str__ + the writer's VOLU loop, as token lines) and a
   reader of such lines: a printed volume without None operand reads back as
   itself with PLUS/MINUS sorted and duplicate free *)
Theorem C01_print_read : forall k v, ops_ok (v_ops v) = true ->
  read_line (print_line k v) =
  Some (k, mkVol (canon (v_plus v)) (canon (v_minus v)) (v_ops v) [] (v_fict v)).
Proof. exact read_line_print. Qed.
Print Assumptions C01_print_read.

(* THE PROPERTY about the printed VOLU lines: every line is readable, and the
   partition statement holds of the table the reader returns *)
Theorem C01_partition_file :
  forall sigma cden cells matching u0 u1 fuel todo cnt0 s' rn skipped d' c,
  0 < u0 -> 0 < u1 -> consistent sigma u0 u1 ->
  (forall c g orig, lookup c cells = Some (g, orig) ->
     leaves_ok (msurf_ok matching) g /\ cden c = mden sigma cden matching g) ->
  NoDup todo -> (forall k, In k todo -> k <= cnt0) ->
  convert_cells fuel cells matching u0 u1 todo (mkSt cnt0 [] [] []) = Ok s' ->
  prune u0 u1 rn (vols s') = Ok d' ->
  (forall r, rn = Some r -> respects sigma r) ->
  (forall k, In k skipped -> k <= cnt0 /\ ~ In k todo) ->
  cden c = true -> (forall c', In c' todo -> cden c' = true -> c' = c) ->
  exists T, read_table (print_table skipped d') = Some T /\
            (In c todo -> forall k, in_volume sigma T k <-> k = c) /\
            (~ In c todo -> forall k, ~ in_volume sigma T k).
Proof.
  intros sigma cden cells matching u0 u1 fuel todo cnt0 s' rn skipped d' c
         H0 H1 Hc Hok Hnd Hle Hrun Hpr Hresp Hskip Hown Huniq.
  exact (file_partition sigma cden cells matching u0 u1 H0 H1 Hc Hok fuel todo cnt0 s'
           Hnd Hle Hrun rn skipped d' Hpr Hresp Hskip c Hown Huniq).
Qed.
Print Assumptions C01_partition_file.

(* END TO END: points of R^3 (any surface functions, helper planes x-1 and x+1,
   merged surfaces equal) against the printed VOLU lines read back: a point off
   every surface owned by cell c lies in exactly one read-back non-FICTIVE volume,
   numbered c, when c has non-zero importance, and in none otherwise *)
Theorem C01_partition_file_points :
  forall (fval : Z -> point -> R) (u0 u1 : Z),
  (forall p, fval u0 p = (px p - 1)%R) -> (forall p, fval u1 p = (px p + 1)%R) ->
  forall (cden : point -> Z -> bool) cells matching fuel todo cnt0 s' rn skipped d' p c,
  0 < u0 -> 0 < u1 -> off_surfaces fval p ->
  (forall c g orig, lookup c cells = Some (g, orig) ->
     leaves_ok (msurf_ok matching) g /\
     cden p c = mden (sigma_of fval p) (cden p) matching g) ->
  NoDup todo -> (forall k, In k todo -> k <= cnt0) ->
  convert_cells fuel cells matching u0 u1 todo (mkSt cnt0 [] [] []) = Ok s' ->
  prune u0 u1 rn (vols s') = Ok d' ->
  (forall r, rn = Some r -> merged_equal fval r) ->
  (forall k, In k skipped -> k <= cnt0 /\ ~ In k todo) ->
  cden p c = true -> (forall c', In c' todo -> cden p c' = true -> c' = c) ->
  exists T, read_table (print_table skipped d') = Some T /\
            (In c todo -> forall k, pt_in fval T p k <-> k = c) /\
            (~ In c todo -> forall k, ~ pt_in fval T p k).
Proof. exact file_partition_points. Qed.
Print Assumptions C01_partition_file_points.

From T4V Require Import Base.Scalar.
From T4V Require C13.Model.
From T4V Require Import C01.LinkC13.

(* LINK C13 -> C01: the hypothesis "merged surfaces are the same function" is
   discharged for the renumbering remove_duplicate_surfaces produces (C13's model,
   at R) by C13_dedup_merges_equal.  [surfs] is C13's descriptor table, [dval] ANY
   meaning of descriptors, [fval] the surface functions read off the table. *)
Theorem C01_partition_file_points_linked :
  forall (dval : C13.Model.desc R -> point -> R) (surfs : list (Z * C13.Model.desc R))
         (fval : Z -> point -> R) (u0 u1 : Z),
  (forall k d, In (k, d) surfs -> forall p, fval k p = dval d p) ->
  (forall p, fval u0 p = (px p - 1)%R) -> (forall p, fval u1 p = (px p + 1)%R) ->
  forall (skip_dedup : bool) (cden : point -> Z -> bool) cells matching fuel todo cnt0 s' skipped d' p c,
  0 < u0 -> 0 < u1 -> off_surfaces fval p ->
  (forall c g orig, lookup c cells = Some (g, orig) ->
     leaves_ok (msurf_ok matching) g /\ cden p c = mden (sigma_of fval p) (cden p) matching g) ->
  NoDup todo -> (forall k, In k todo -> k <= cnt0) ->
  convert_cells fuel cells matching u0 u1 todo (mkSt cnt0 [] [] []) = Ok s' ->
  prune u0 u1 (if skip_dedup then None
               else Some (snd (C13.Model.remove_duplicate_surfaces RS surfs))) (vols s') = Ok d' ->
  (forall k, In k skipped -> k <= cnt0 /\ ~ In k todo) ->
  cden p c = true -> (forall c', In c' todo -> cden p c' = true -> c' = c) ->
  exists T, read_table (print_table skipped d') = Some T /\
            (In c todo -> forall k, pt_in fval T p k <-> k = c) /\
            (~ In c todo -> forall k, ~ pt_in fval T p k).
Proof. exact partition_file_points_linked. Qed.
Print Assumptions C01_partition_file_points_linked.

From T4V Require C11.Model C11.Spec C11.Pipeline C11.EndToEnd.
From T4V Require Import C01.LinkC11 C01.LinkAll.

(* LINK C11 -> C01.  The cells handed to pot_flag are C11's trees after parsing and
   complement elimination, translated node by node ([tr]: ('*',l,r) / (':',l,r) /
   the raw ['*',l,r] list -> binary Node, Surface(z, sub) -> leaf); C11's sense of
   an MCNP surface / facet is read off the TRIPOLI-4 senses through `matching`
   ([sg_of]); [tr_den]: mden (tr a) = C11's aden a.  C01's hypothesis "cden is the
   region of every cell" is DISCHARGED by C11_deck_end_to_end: the region of cell n
   is C11's mden of the MCNP expression written on card n. *)
Theorem C01_cells_linked : forall (cs : list C11.EndToEnd.card) rk,
  Forall C11.EndToEnd.card_ok cs -> C11.Pipeline.table_ranked (C11.EndToEnd.deck_mc cs) rk ->
  exists tbl F tbl',
    C11.EndToEnd.build_table (C11.EndToEnd.deck_cards cs) = C11.Model.Ok tbl /\
    (forall f, (F <= f)%nat -> C11.Model.eliminate_all f tbl = C11.Model.Ok tbl') /\
    forall sigma matching u0 u1 (cd : N -> bool) fuel todo cnt0 s',
      0 < u0 -> 0 < u1 -> consistent sigma u0 u1 ->
      C11.Pipeline.mcnp_meaning (C11.EndToEnd.deck_mc cs) (sg_of sigma matching) cd ->
      (forall k ids, lookup k matching = Some ids -> Forall (fun x => x <> 0) ids) ->
      (forall n c', C11.Model.lookup tbl' n = Some c' -> a_known matching (C11.Model.c_geom c') = true) ->
      NoDup todo -> (forall k, In k todo -> k <= cnt0) ->
      convert_cells fuel (cells_of tbl') matching u0 u1 todo (mkSt cnt0 [] [] []) = Ok s' ->
      nonone (vols s') /\
      (forall n e, C11.EndToEnd.deck_mc cs n = Some e -> In (Z.of_N n) todo ->
         (exists v, lookup (Z.of_N n) (vols s') = Some v /\ v_fict v = false /\
                    Vden sigma (vols s') (Z.of_N n) (C11.Spec.mden cd (sg_of sigma matching) e)) \/
         (lookup (Z.of_N n) (vols s') = None /\ C11.Spec.mden cd (sg_of sigma matching) e = false)) /\
      (forall k v, lookup k (vols s') = Some v -> v_fict v = false -> In k todo).
Proof. exact cells_linked. Qed.
Print Assumptions C01_cells_linked.

(* BOTH LINKS, END TO END: from the cell cards (C11) through pot_flag ...
   pot_to_t4_cell, the de-duplication's own renumbering (C13), remove_empty /
   remove_unused and the printer to the VOLU lines read back, for points of R^3:
   if MCNP puts the point p (off every surface) in the cell of card c - C11's mden
   of the card's expression - and in no other converted cell, then p lies in
   exactly one read-back non-FICTIVE volume, numbered c, when c is converted
   (importance <> 0), and in none otherwise.  Remaining hypotheses: the surface
   functions agree with C13's descriptor table, the helper planes are x-1 / x+1,
   `matching` has non-zero ids and knows every surface (facets from 1), the
   conversion and prune did not raise. *)
Theorem C01_partition_linked : forall (cs : list C11.EndToEnd.card) rk,
  Forall C11.EndToEnd.card_ok cs -> C11.Pipeline.table_ranked (C11.EndToEnd.deck_mc cs) rk ->
  exists tbl F tbl',
    C11.EndToEnd.build_table (C11.EndToEnd.deck_cards cs) = C11.Model.Ok tbl /\
    (forall f, (F <= f)%nat -> C11.Model.eliminate_all f tbl = C11.Model.Ok tbl') /\
    forall (dval : C13.Model.desc R -> point -> R) (surfs : list (Z * C13.Model.desc R))
           (fval : Z -> point -> R) (u0 u1 : Z) (skip_dedup : bool) matching
           (cd : point -> N -> bool) fuel todo cnt0 s' skipped d' p (c : N),
      (forall k d, In (k, d) surfs -> forall q, fval k q = dval d q) ->
      (forall q, fval u0 q = (px q - 1)%R) -> (forall q, fval u1 q = (px q + 1)%R) ->
      0 < u0 -> 0 < u1 -> off_surfaces fval p ->
      C11.Pipeline.mcnp_meaning (C11.EndToEnd.deck_mc cs) (sg_of (sigma_of fval p) matching) (cd p) ->
      (forall k ids, lookup k matching = Some ids -> Forall (fun x => x <> 0) ids) ->
      (forall n c', C11.Model.lookup tbl' n = Some c' -> a_known matching (C11.Model.c_geom c') = true) ->
      NoDup todo -> (forall k, In k todo -> k <= cnt0) ->
      convert_cells fuel (cells_of tbl') matching u0 u1 todo (mkSt cnt0 [] [] []) = Ok s' ->
      prune u0 u1 (if skip_dedup then None
                   else Some (snd (C13.Model.remove_duplicate_surfaces RS surfs))) (vols s') = Ok d' ->
      (forall k, In k skipped -> k <= cnt0 /\ ~ In k todo) ->
      cd p c = true -> (forall k, In k todo -> cd p (Z.to_N k) = true -> k = Z.of_N c) ->
      exists T, read_table (print_table skipped d') = Some T /\
                (In (Z.of_N c) todo -> forall k, pt_in fval T p k <-> k = Z.of_N c) /\
                (~ In (Z.of_N c) todo -> forall k, ~ pt_in fval T p k).
Proof. exact partition_linked. Qed.
Print Assumptions C01_partition_linked.

From T4V Require C05.Model C05.Spec C05.Proofs.
From T4V Require Import C01.LinkC05.

(* LINK C05 -> C01: decks with universes (no lattices).  The parsed deck s0 goes
   through C05's model of the TRCL loop, the FILL loop and inline_cells; the
   resulting table (generated cells = trees with CellRefs to filler cells, their
   idorigin = the chain) is what C01 converts ([cells_of5], node-by-node [trF]).
   C01's hypothesis cells_ok is DISCHARGED from C05_pipeline_located through
   [Den_mden]: C05's value of a tree at p = C01's mden of its image, given
   [surf_agree] (layer S: the T4 surfaces a MCNP surface became give it the same
   sense at p) and a value for every cell at p.
   Statement: key is a level-0 cell with a FILL, ks the cells generated for it, p a
   point located along the descent ch of the deck as written (LocW), universes are
   partitions, level-0 cells other than the container do not contain p.  Then one
   generated cell k stands for ch (RepresentsW: no FILL left, idorigin = prov ch,
   the leaf's material and density, the value of the descent everywhere), and p
   lies in exactly one read-back non-FICTIVE volume, numbered k, when k is in the
   conversion list, and in none otherwise.
   Where it stops: "k is in the conversion list iff the container has importance
   <> 0" is pot_fill's `new_cell = cell.copy()` (C05's model copies c_imp; no
   exported theorem), and the printed `// idorigin` comment is tied, not proved
   (the example below computes it on the pruned table). *)
Theorem C01_partition_fill_linked :
  forall (T surf P : Type) (tr_empty : T -> bool) (teqb : T -> T -> bool)
         (tr_surf : T -> surf -> surf) (inv : T -> P -> P) (sense : surf -> P -> bool),
  (forall t o p, sense (tr_surf t o) p = sense o (inv t p)) ->
  (forall a b, teqb a b = true -> tr_empty a = tr_empty b /\ forall p, inv a p = inv b p) ->
  forall fuel5 cf ifd ifg num den (s0 s1 s2 : C05.Model.state T surf) rs cells3,
  C05.Proofs.fresh_ok T surf s0 -> C05.Model.s_cache s0 = [] ->
  NoDup (map fst (C05.Model.s_cells s0)) -> C05.Proofs.all_ref_free T surf s0 ->
  (forall c cl, C05.Model.dget c (C05.Model.s_cells s0) = Some cl -> C05.Model.c_orig cl = []) ->
  C05.Model.trcl_phase T surf tr_empty teqb tr_surf fuel5 (map fst (C05.Model.s_cells s0)) s0
    = C05.Model.Ok s1 ->
  C05.Model.fill_phase T surf tr_empty teqb tr_surf fuel5 cf ifd ifg s1 = C05.Model.Ok (rs, s2) ->
  C05.Model.inline_cells T fuel5 num den (C05.Model.s_cells s2) = C05.Model.Ok cells3 ->
  let s3 := C05.Proofs.set_cells T surf s2 cells3 in
  let du := C05.Model.by_universe (C05.Model.s_cells s0) in
  forall (key : Z) (ks : list Z) (p : P) (ch : list Z)
         sigma matching val u0 u1 fuel todo cnt0 s' rn skipped d',
  In (key, ks) (combine (C05.Model.fill_keys (C05.Model.s_cells s0)) rs) ->
  C05.Spec.LocW T surf P tr_empty inv sense s0 du key p ch true ->
  C05.Spec.universe_partitionW T surf P tr_empty inv sense s0 du ->
  (forall chs ch', C05.Spec.Paths T surf s0 du key chs -> In ch' chs ->
     exists b', C05.Spec.LocW T surf P tr_empty inv sense s0 du key p ch' b') ->
  (forall k o, C05.Model.dget k (C05.Model.s_surfs s3) = Some o ->
     k <> 0 /\ exists ids, lookup k matching = Some ids /\ existsb (lit sigma) ids = sense o p) ->
  (forall k ids, lookup k matching = Some ids -> Forall (fun x => x <> 0) ids) ->
  (forall c cl, C05.Model.dget c (C05.Model.s_cells s3) = Some cl ->
     C05.Spec.Den T surf P sense s3 p (C05.Model.c_geom cl) (val c)) ->
  0 < u0 -> 0 < u1 -> consistent sigma u0 u1 ->
  NoDup todo -> (forall k, In k todo -> k <= cnt0) ->
  convert_cells fuel (cells_of5 (C05.Model.s_cells s3)) matching u0 u1 todo (mkSt cnt0 [] [] []) = Ok s' ->
  prune u0 u1 rn (vols s') = Ok d' ->
  (forall r, rn = Some r -> respects sigma r) ->
  (forall k, In k skipped -> k <= cnt0 /\ ~ In k todo) ->
  (forall k', In k' todo ->
     (exists cl, C05.Model.dget k' (C05.Model.s_cells s0) = Some cl /\ C05.Model.c_univ cl = 0) \/
     (exists key' ks', In (key', ks') (combine (C05.Model.fill_keys (C05.Model.s_cells s0)) rs) /\
                       In k' ks')) ->
  (forall c cl, C05.Model.dget c (C05.Model.s_cells s0) = Some cl -> C05.Model.c_univ cl = 0 ->
     c <> key -> val c = false) ->
  ~ In key todo ->
  exists k, In k ks /\
    C05.Spec.RepresentsW T surf P tr_empty inv sense s0 du s3 key k ch /\
    exists Tb, read_table (print_table skipped d') = Some Tb /\
               (In k todo -> forall j, in_volume sigma Tb j <-> j = k) /\
               (~ In k todo -> forall j, ~ in_volume sigma Tb j).
Proof. exact partition_fill_level0_linked. Qed.
Print Assumptions C01_partition_fill_linked.

From T4V Require C13.LinkC01Orig.
From T4V Require Import C01.PrinterC C01.LinkFill2 C01.LinkNode C01.LinkKey C01.LinkFillPoints C01.LinkC11C05.

(* the FILL theorem SHARPENED (round 4), about the printed lines WITH their
   `// idorigin` comment read back (PrinterC.v):
   (b) the generated cell k is converted iff the CONTAINER kcl has importance <> 0
       (pot_fill's cell.copy(): C05's fill_phase_spec / GenOK; the TRCL loop and
       inline_cells keep the fields; todo is conv_keys of construct_volume_t4);
   (c) the read-back volume k carries the provenance of the descent, v_orig =
       prov ch (C13's convert_cells_orig / written_orig over C01's definitions).
   So: a point located along the descent ch below the level-0 container key lies,
   when the container's importance is non-zero, in exactly one read-back
   non-FICTIVE volume, which is numbered k and commented with the chain; and in
   no volume when the importance is 0. *)
Theorem C01_partition_fill_written_linked :
  forall (T surf P : Type) (tr_empty : T -> bool) (teqb : T -> T -> bool)
         (tr_surf : T -> surf -> surf) (inv : T -> P -> P) (sense : surf -> P -> bool),
  (forall t o p, sense (tr_surf t o) p = sense o (inv t p)) ->
  (forall a b, teqb a b = true -> tr_empty a = tr_empty b /\ forall p, inv a p = inv b p) ->
  forall fuel5 cf ifd ifg num den (s0 s1 s2 : C05.Model.state T surf) rs cells3,
  C05.Proofs.fresh_ok T surf s0 -> C05.Model.s_cache s0 = [] ->
  NoDup (map fst (C05.Model.s_cells s0)) -> C05.Proofs.all_ref_free T surf s0 ->
  (forall c cl, C05.Model.dget c (C05.Model.s_cells s0) = Some cl -> C05.Model.c_orig cl = []) ->
  C05.Model.trcl_phase T surf tr_empty teqb tr_surf fuel5 (map fst (C05.Model.s_cells s0)) s0
    = C05.Model.Ok s1 ->
  C05.Model.fill_phase T surf tr_empty teqb tr_surf fuel5 cf ifd ifg s1 = C05.Model.Ok (rs, s2) ->
  C05.Model.inline_cells T fuel5 num den (C05.Model.s_cells s2) = C05.Model.Ok cells3 ->
  let s3 := C05.Proofs.set_cells T surf s2 cells3 in
  let du := C05.Model.by_universe (C05.Model.s_cells s0) in
  forall (key : Z) (ks : list Z) (kcl : C05.Model.cell T) (p : P) (ch : list Z)
         sigma matching val u0 u1 fuel todo cnt0 s' rn skipped d',
  In (key, ks) (combine (C05.Model.fill_keys (C05.Model.s_cells s0)) rs) ->
  C05.Model.dget key (C05.Model.s_cells s0) = Some kcl ->
  C05.Spec.LocW T surf P tr_empty inv sense s0 du key p ch true ->
  C05.Spec.universe_partitionW T surf P tr_empty inv sense s0 du ->
  (forall chs ch', C05.Spec.Paths T surf s0 du key chs -> In ch' chs ->
     exists b', C05.Spec.LocW T surf P tr_empty inv sense s0 du key p ch' b') ->
  (forall k o, C05.Model.dget k (C05.Model.s_surfs s3) = Some o ->
     k <> 0 /\ exists ids, lookup k matching = Some ids /\ existsb (lit sigma) ids = sense o p) ->
  (forall k ids, lookup k matching = Some ids -> Forall (fun x => x <> 0) ids) ->
  (forall c cl, C05.Model.dget c (C05.Model.s_cells s3) = Some cl ->
     C05.Spec.Den T surf P sense s3 p (C05.Model.c_geom cl) (val c)) ->
  0 < u0 -> 0 < u1 -> consistent sigma u0 u1 ->
  NoDup todo -> (forall k, In k todo -> k <= cnt0) ->
  (forall k, In k todo <-> exists cl, C05.Model.dget k cells3 = Some cl /\ C05.Model.c_imp cl <> 0 /\
                                      C05.Model.c_univ cl = 0 /\ C05.Model.c_fill cl = None) ->
  convert_cells fuel (cells_of5 (C05.Model.s_cells s3)) matching u0 u1 todo (mkSt cnt0 [] [] []) = Ok s' ->
  prune u0 u1 rn (vols s') = Ok d' ->
  (forall r, rn = Some r -> respects sigma r) ->
  (forall k, In k skipped -> k <= cnt0 /\ ~ In k todo) ->
  (forall k', In k' todo ->
     (exists cl, C05.Model.dget k' (C05.Model.s_cells s0) = Some cl /\ C05.Model.c_univ cl = 0) \/
     (exists key' ks', In (key', ks') (combine (C05.Model.fill_keys (C05.Model.s_cells s0)) rs) /\
                       In k' ks')) ->
  (forall c cl, C05.Model.dget c (C05.Model.s_cells s0) = Some cl -> C05.Model.c_univ cl = 0 ->
     c <> key -> val c = false) ->
  exists k, In k ks /\
    C05.Spec.RepresentsW T surf P tr_empty inv sense s0 du s3 key k ch /\
    (In k todo <-> C05.Model.c_imp kcl <> 0) /\
    exists Tb, read_table_c (print_table_c skipped d') = Some Tb /\
      (C05.Model.c_imp kcl <> 0 ->
         (forall j, in_volume sigma Tb j <-> j = k) /\
         exists v, lookup k Tb = Some v /\ v_fict v = false /\ v_orig v = C05.Spec.prov ch) /\
      (C05.Model.c_imp kcl = 0 -> forall j, ~ in_volume sigma Tb j).
Proof. exact partition_fill_written_linked3. Qed.
Print Assumptions C01_partition_fill_written_linked.

(* the same for POINTS of R^3 (round 5): C05's abstract point type is R^3, surfaces
   are any real functions fval, the helper planes x-1 / x+1, merged surfaces equal as
   functions; membership in a read-back volume is Pin.  The container is shown to
   keep its FILL (it is never converted itself), consistency of the helper planes
   and equal senses of merged surfaces are proved, not assumed. *)
Theorem C01_partition_fill_points_linked :
  forall (fval : Z -> point -> R) (u0 u1 : Z),
  (forall q, fval u0 q = (px q - 1)%R) -> (forall q, fval u1 q = (px q + 1)%R) ->
  forall (T surf : Type) (tr_empty : T -> bool) (teqb : T -> T -> bool)
         (tr_surf : T -> surf -> surf) (inv : T -> point -> point) (sense : surf -> point -> bool)
         (Hsense : forall t o p, sense (tr_surf t o) p = sense o (inv t p))
         (Hkey : forall a b, teqb a b = true -> tr_empty a = tr_empty b /\ forall p, inv a p = inv b p)
         fuel5 cf ifd ifg num den (s0 s1 s2 : C05.Model.state T surf) rs cells3
         (Hf : C05.Proofs.fresh_ok T surf s0) (Hc : C05.Model.s_cache s0 = [])
         (Hnd : NoDup (map fst (C05.Model.s_cells s0))) (Hrf : C05.Proofs.all_ref_free T surf s0)
         (Ho : forall c cl, C05.Model.dget c (C05.Model.s_cells s0) = Some cl -> C05.Model.c_orig cl = [])
         (Ht : C05.Model.trcl_phase T surf tr_empty teqb tr_surf fuel5 (map fst (C05.Model.s_cells s0)) s0
               = C05.Model.Ok s1)
         (Hfill : C05.Model.fill_phase T surf tr_empty teqb tr_surf fuel5 cf ifd ifg s1 = C05.Model.Ok (rs, s2))
         (Hinl : C05.Model.inline_cells T fuel5 num den (C05.Model.s_cells s2) = C05.Model.Ok cells3),
  let s3 := C05.Proofs.set_cells T surf s2 cells3 in
  let du := C05.Model.by_universe (C05.Model.s_cells s0) in
  forall (key : Z) (ks : list Z) (kcl : C05.Model.cell T) (p : point) (ch : list Z)
         matching val fuel todo cnt0 s' rn skipped d',
  off_surfaces fval p ->
  In (key, ks) (combine (C05.Model.fill_keys (C05.Model.s_cells s0)) rs) ->
  C05.Model.dget key (C05.Model.s_cells s0) = Some kcl ->
  C05.Spec.LocW T surf point tr_empty inv sense s0 du key p ch true ->
  C05.Spec.universe_partitionW T surf point tr_empty inv sense s0 du ->
  (forall chs ch', C05.Spec.Paths T surf s0 du key chs -> In ch' chs ->
     exists b', C05.Spec.LocW T surf point tr_empty inv sense s0 du key p ch' b') ->
  (forall k o, C05.Model.dget k (C05.Model.s_surfs s3) = Some o ->
     k <> 0 /\ exists ids, lookup k matching = Some ids /\
                           existsb (lit (sigma_of fval p)) ids = sense o p) ->
  (forall k ids, lookup k matching = Some ids -> Forall (fun x => x <> 0) ids) ->
  (forall c cl, C05.Model.dget c (C05.Model.s_cells s3) = Some cl ->
     C05.Spec.Den T surf point sense s3 p (C05.Model.c_geom cl) (val c)) ->
  0 < u0 -> 0 < u1 ->
  NoDup todo -> (forall k, In k todo -> k <= cnt0) ->
  (forall k, In k todo <-> exists cl, C05.Model.dget k cells3 = Some cl /\ C05.Model.c_imp cl <> 0 /\
                                      C05.Model.c_univ cl = 0 /\ C05.Model.c_fill cl = None) ->
  convert_cells fuel (cells_of5 (C05.Model.s_cells s3)) matching u0 u1 todo (mkSt cnt0 [] [] []) = Ok s' ->
  prune u0 u1 rn (vols s') = Ok d' ->
  (forall r, rn = Some r -> merged_equal fval r) ->
  (forall k, In k skipped -> k <= cnt0 /\ ~ In k todo) ->
  (forall k', In k' todo ->
     (exists cl, C05.Model.dget k' (C05.Model.s_cells s0) = Some cl /\ C05.Model.c_univ cl = 0) \/
     (exists key' ks', In (key', ks') (combine (C05.Model.fill_keys (C05.Model.s_cells s0)) rs) /\
                       In k' ks')) ->
  (forall c cl, C05.Model.dget c (C05.Model.s_cells s0) = Some cl -> C05.Model.c_univ cl = 0 ->
     c <> key -> val c = false) ->
  exists k, In k ks /\
    C05.Spec.RepresentsW T surf point tr_empty inv sense s0 du s3 key k ch /\
    (In k todo <-> C05.Model.c_imp kcl <> 0) /\
    exists Tb, read_table_c (print_table_c skipped d') = Some Tb /\
      (C05.Model.c_imp kcl <> 0 ->
         (forall j, pt_in fval Tb p j <-> j = k) /\
         exists v, lookup k Tb = Some v /\ v_fict v = false /\ v_orig v = C05.Spec.prov ch) /\
      (C05.Model.c_imp kcl = 0 -> forall j, ~ pt_in fval Tb p j).
Proof. exact partition_fill_points_linked. Qed.
Print Assumptions C01_partition_fill_points_linked.

(* COMPOSING the C11 link and the C05 link: C05's parsed deck s0 is built from
   C11's table after complement elimination (tr5: C11 tree -> C05 tree; the other
   card fields from an attribute function).  Its structural hypotheses (empty
   cache, no CellRef yet, no provenance yet) hold, and the trees C05 starts from
   denote, in C05's own Den, C11's mden of the MCNP expressions written on the
   cards - so C05's LocW (location in the deck as written) and with it
   C01_partition_fill_written_linked speak about the cell cards.  Faithful for decks
   without TRCL on cell cards (the converter eliminates complements AFTER the TRCL
   loop; fill transformations are unaffected). *)
Theorem C01_cards_fill_linked : forall (cs : list C11.EndToEnd.card) rk,
  Forall C11.EndToEnd.card_ok cs -> C11.Pipeline.table_ranked (C11.EndToEnd.deck_mc cs) rk ->
  exists tbl F tbl',
    C11.EndToEnd.build_table (C11.EndToEnd.deck_cards cs) = C11.Model.Ok tbl /\
    (forall f, (F <= f)%nat -> C11.Model.eliminate_all f tbl = C11.Model.Ok tbl') /\
    forall (T surf P : Type) (sense : surf -> P -> bool) (attr : N -> C05.Model.cell T)
           (surfs : list (Z * surf)) (nck nsk : Z),
      let s0 := s0_of T surf tbl' attr surfs nck nsk in
      (forall n, C05.Model.c_orig (attr n) = []) ->
      C05.Model.s_cache s0 = [] /\ C05.Proofs.all_ref_free T surf s0 /\
      (forall c cl, C05.Model.dget c (C05.Model.s_cells s0) = Some cl -> C05.Model.c_orig cl = []) /\
      (forall n e p (cd : N -> bool), C11.EndToEnd.deck_mc cs n = Some e ->
         C11.Pipeline.mcnp_meaning (C11.EndToEnd.deck_mc cs) (sg5 surf P sense surfs p) cd ->
         exists c' cl, C11.Model.lookup tbl' n = Some c' /\
           C05.Model.dget (Z.of_N n) (C05.Model.s_cells s0) = Some cl /\
           C05.Model.c_geom cl = tr5 (C11.Model.c_geom c') /\
           (a_known5 surf surfs (C11.Model.c_geom c') = true ->
            C05.Spec.Den T surf P sense s0 p (C05.Model.c_geom cl)
                         (C11.Spec.mden cd (sg5 surf P sense surfs p) e))).
Proof. exact cards_fill_linked. Qed.
Print Assumptions C01_cards_fill_linked.

(* non-vacuity: C05's example deck (two levels of universes) through TRCL / FILL /
   inlining and then through C01's conversion, prune and printer: the plain level-0
   cell 2 and the generated cells 27, 31, 34 are written under their numbers, and
   volume 31 carries the provenance of the chain 1 -> 11 -> 20 *)
Example C01_example_fill_linked :
  exists cells3 surf_ids s' d',
    ex5_table = Some (cells3, surf_ids) /\
    convert_cells 40 (cells_of5 cells3) (map (fun k => (k, [k])) surf_ids) 100 101 [2; 27; 31; 34]
                  (mkSt 50 [] [] []) = Ok s' /\
    prune 100 101 None (vols s') = Ok d' /\
    map fst (filter (fun kv => negb (v_fict (snd kv))) (written [] d')) = [2; 27; 31; 34] /\
    option_map v_orig (lookup 31 d') = Some (C05.Spec.prov [1; 11; 20]).
Proof. exact ex5_runs. Qed.

(* non-vacuity of the link: the table C11_example_deck computes for the deck
   "1 0 -1 2 imp:n=1" / "2 3 -2.7 #1:3" meets the side conditions, converts and
   prunes; both cells are written *)
Example C01_example_linked :
  (forall n c', C11.Model.lookup exl_tbl n = Some c' -> a_known exl_matching (C11.Model.c_geom c') = true) /\
  (forall k ids, lookup k exl_matching = Some ids -> Forall (fun x => x <> 0) ids) /\
  exists s' d', convert_cells 3 (cells_of exl_tbl) exl_matching 5 6 [1; 2] (mkSt 2 [] [] []) = Ok s' /\
                prune 5 6 None (vols s') = Ok d' /\
                map fst (filter (fun kv => negb (v_fict (snd kv))) (written [] d')) = [1; 2].
Proof. exact exl_ok. Qed.

(* non-vacuity: five cells (three converted, one of importance 0, one filler kept
   by reference), a union without pure-intersection member, a surface of
   reversed side; every hypothesis of C01_cells / C01_partition holds, with a
   renumbering and the skipped list [40] *)
Example C01_example :
  (forall sigma c g orig, lookup c ex_cells = Some (g, orig) ->
     leaves_ok (msurf_ok ex_matching) g /\
     ex_cden sigma c = mden sigma (ex_cden sigma) ex_matching g) /\
  (forall sigma, exists c, In c [10; 20; 30; 40] /\ ex_cden sigma c = true /\
     forall c', In c' [10; 20; 30; 40] -> ex_cden sigma c' = true -> c' = c) /\
  (forall sigma, respects sigma ex_rn) /\
  NoDup ex_todo /\ (forall k, In k ex_todo -> k <= 50) /\
  (exists s' d', convert_cells 6 ex_cells ex_matching 6 7 ex_todo (mkSt 50 [] [] []) = Ok s' /\
     prune 6 7 (Some ex_rn) (vols s') = Ok d' /\
     map fst (filter (fun kv => negb (v_fict (snd kv))) (written [40] d')) = [10; 20; 30] /\
     (forall k, In k [40] -> k <= 50 /\ ~ In k ex_todo)).
Proof.
  split; [exact ex_cells_ok|]. split; [exact ex_partition|]. split; [exact ex_rn_respects|].
  destruct ex_run as (s' & _ & _ & Hnd & Hle & _). split; [exact Hnd|]. split; [exact Hle|].
  exact ex_written.
Qed.
