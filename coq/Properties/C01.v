(* C01 — placeholder, theorems follow *)
From T4V Require Import C01.Model.
