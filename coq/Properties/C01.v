(* C01 — cell regions: every point stays in the volume of the cell that owns it.
   Only restatements; proofs are in coq/C01/Proofs*.v.  Surfaces are abstract ids;
   a point off all surfaces is its sense assignment sigma : Z -> bool. *)
From Coq Require Import List ZArith Bool.
From T4V Require Import C01.Model C01.Spec C01.ProofsTree.
Import ListNotations.
Open Scope Z_scope.

(* pot_flag only numbers the nodes *)
Theorem C01_flag_den : forall sigma cden matching (t : tree msurf) n,
  mden sigma cden matching (fst (flag t n)) = mden sigma cden matching t.
Proof. exact flag_den. Qed.
Print Assumptions C01_flag_den.

(* pot_expand_surfs: the tree over TRIPOLI-4 ids means what the tree over MCNP
   surfaces means (collection: -s = all members negative, +s = one member
   positive; facet s.k = k-th member), for surface ids <> 0 and facets >= 1 *)
Theorem C01_expand_surfs_den : forall sigma cden matching (t : tree msurf) n t' n',
  expand matching t n = Ok (t', n') -> leaves_ok (msurf_ok matching) t ->
  tden sigma cden t' = mden sigma cden matching t.
Proof. exact expand_den. Qed.
Print Assumptions C01_expand_surfs_den.

(* pot_optimise: flattening and pruning keep the region; None only for a region
   that is empty for every sense assignment *)
Theorem C01_optimise_den : forall sigma cden (t : tree Z),
  (forall t', optimise t = Some t' -> tden sigma cden t' = tden sigma cden t) /\
  (optimise t = None -> tden sigma cden t = false).
Proof. exact optimise_den. Qed.
Print Assumptions C01_optimise_den.

From T4V Require Import C01.ProofsT4.

(* pot_to_t4_cell.  State: [inv] = every key of the table is <= the counter;
   [fresh] = the node ids of the tree (given by pot_flag) are distinct, not yet
   in the table and <= the counter; [sem] = each entry of the surface cache is an
   operator-free volume denoting its literal, each entry of the cell-reference
   cache denotes its cell.  [cref] is convert_cellref, specified by the same
   post-condition (discharged for the real convert_cellref in C01_convert_cellref).
   Conclusion: earlier volumes are untouched (extends: the frame), the counter
   grows, new keys are node ids of the tree or fresh counter values, and - when
   the resulting table has no None operand - the caches stay coherent and the
   returned id denotes the tree for the sense assignment sigma (a None result
   means the tree is empty at sigma). *)
Theorem C01_to_t4_cell_sound : forall sigma cden cref orig u0 u1,
  0 < u0 -> 0 < u1 -> consistent sigma u0 u1 ->
  (forall c s r s', cref c s = Ok (r, s') -> inv s -> fresh [] s ->
     extends (vols s) (vols s') /\ cnt s <= cnt s' /\ inv s' /\ bound [] s s' /\
     (nonone (vols s') -> sem sigma cden s -> sem sigma cden s' /\ rden sigma (vols s') r (cden c))) ->
  forall (t : tree Z) s r s',
  leaves_ok nz t -> to_t4 cref orig u0 u1 t s = Ok (r, s') -> inv s -> fresh (ids_of t) s ->
  extends (vols s) (vols s') /\ cnt s <= cnt s' /\ inv s' /\ bound (ids_of t) s s' /\
  (nonone (vols s') -> sem sigma cden s ->
   sem sigma cden s' /\ rden sigma (vols s') r (tden sigma cden t)).
Proof.
  intros sigma cden cref orig u0 u1 H0 H1 Hc Hcref t s r s' Hnz H Hi Hf.
  exact (to_t4_sound sigma cden cref orig u0 u1 H0 H1 Hc Hcref t Hnz s r s' H Hi Hf).
Qed.
Print Assumptions C01_to_t4_cell_sound.

From T4V Require Import C01.ProofsRefuted.

(* without the guard "no None operand" the statement is false of the faithful
   model: cell 1 = -1 (cell 2), cell 2 = 2 -2.  The emitted non-FICTIVE volume 1
   is `EQUA MINUS 1 1 INTE 1 None`; it has no denotation for any sigma. *)
Theorem C01_to_t4_cell_emptyref_refuted :
  exists s, convert_cells 3 w_cells w_matching 4 5 [1] (mkSt 2 [] [] []) = Ok s /\
            no_none (vols s) = false /\
            (exists v, lookup 1 (vols s) = Some v /\ v_fict v = false /\
                       v_ops v = Some (OInter, [None])) /\
            forall sigma b, ~ Vden sigma (vols s) 1 b.
Proof. exact emptyref_refuted. Qed.
Print Assumptions C01_to_t4_cell_emptyref_refuted.
