(* C07 — hexagonal lattices follow MCNP's hexagonal index convention.
   Only restatements; proofs are in C07/Proofs*.v.  The model functions named
   here (pointInPlaneIntersection, planeSide, projectPointOnPlane,
   areHexSidesAdjacent, hex_vertices_abs = hexSortSides' double loop +
   hexVertices' while loop, hexLatticeBaseVectors) are the definitions of
   C07/Model.v that the correspondence ties execute at binary64. *)
From Coq Require Import List Arith ZArith Bool Reals.
From T4V Require Import Base.Scalar C07.Model C07.ProofsAlgebra C07.ProofsComb C07.ProofsMain
  C07.ProofsGeom C07.ProofsExample C07.ProofsDomain C07.ProofsRhp C07.ModelDevelop C07.ProofsDevelop
  C07.ProofsErrors C07.LinkC03 C07.ProofsCaps C07.ProofsFlip C07.ProofsFlipSet C07.LinkC04 C07.ProofsShape C07.ProofsAxial.
Import ListNotations.
Open Scope R_scope.

(* ---------- algebra of the numeric helpers ---------- *)

(* two non-parallel planes: the point the code constructs lies on both, the
   direction is the normalised cross product of the normals *)
Theorem C07_plane_intersection_on_both : forall p1 n1 p2 n2 : rvec,
  cross n1 n2 <> (0, 0, 0) ->
  exists pt d,
    pointInPlaneIntersection RS (p1, n1) (p2, n2) = Ok (pt, d) /\
    on_plane pt (p1, n1) /\ on_plane pt (p2, n2) /\
    d = vscale (1 / sqrt (dot (cross n1 n2) (cross n1 n2))) (cross n1 n2).
Proof. exact plane_intersection. Qed.

Theorem C07_plane_intersection_direction : forall n1 n2 : rvec,
  cross n1 n2 <> (0, 0, 0) ->
  let d := vscale (1 / sqrt (dot (cross n1 n2) (cross n1 n2))) (cross n1 n2) in
  dot d n1 = 0 /\ dot d n2 = 0 /\ dot d d = 1.
Proof. exact plane_intersection_direction. Qed.

(* projection along a direction that is not parallel to the plane *)
Theorem C07_project_on_plane : forall pt pp n dir : rvec,
  dot dir n <> 0 ->
  exists q t,
    projectPointOnPlane RS pt (pp, n) dir = Ok q /\
    on_plane q (pp, n) /\ q = vadd pt (vscale t dir) /\ t = dot (vsub pp pt) n / dot dir n.
Proof. exact project_on_plane. Qed.

(* a3: top projection minus bottom projection is along the axis and carries
   the eighth plane onto the seventh *)
Theorem C07_axial_vector : forall (v axis p7 n7 p8 n8 : rvec) (lam : R),
  dot axis n7 <> 0 -> dot axis n8 <> 0 -> n7 = vscale lam n8 ->
  exists top bottom t,
    projectPointOnPlane RS v (p7, n7) axis = Ok top /\
    projectPointOnPlane RS v (p8, n8) axis = Ok bottom /\
    vsub top bottom = vscale t axis /\
    forall q, on_plane q (p8, n8) -> on_plane (vadd q (vsub top bottom)) (p7, n7).
Proof. exact axial_vector. Qed.

(* the algebraic fact the code relies on: in a centrally symmetric hexagon
   w0..w5 the difference of the first and third vertex of a traversal that
   starts on side [w5, w0] is the sum of the two vertices of that side about the
   centre; it carries the opposite side onto that side, and a point of the cell
   (between the two planes) to the far side of the plane of [w5, w0] *)
Theorem C07_hex_translation : forall c w0 w1 w2 : rvec,
  let w3 := vsub (vscale 2 c) w0 in
  let w5 := vsub (vscale 2 c) w2 in
  let t := vsub w0 w2 in
  t = vadd (vsub w0 c) (vsub w5 c) /\
  vadd w2 t = w0 /\ vadd w3 t = w5 /\
  forall (n p : rvec),
    dot (vsub w0 w5) n = 0 ->
    dot (vsub w2 w0) n <= dot (vsub p w0) n ->
    dot (vsub p w0) n <= 0 ->
    0 <= dot (vsub (vadd p t) w0) n /\ dot (vsub (vsub p t) w2) n <= 0.
Proof. exact hex_translation. Qed.

(* ---------- geometry: reduction of areHexSidesAdjacent ---------- *)

(* a plane parallel to the intersection line of two planes sees every common
   point of the two on the same side *)
Theorem C07_side_constant_along_line : forall (n1 n2 p1 p2 q q' : rvec) (other : rplane),
  cross n1 n2 <> (0, 0, 0) ->
  dot (snd other) (cross n1 n2) = 0 ->
  on_plane q (p1, n1) -> on_plane q (p2, n2) ->
  on_plane q' (p1, n1) -> on_plane q' (p2, n2) ->
  planeSide RS q other = planeSide RS q' other.
Proof. exact side_constant_along_line. Qed.

(* areHexSidesAdjacent is decided by the sides of ANY common point of the two planes *)
Theorem C07_adjacent_at_vertex : forall (p1 n1 p2 n2 V : rvec) (o1 o2 : rplane) (s1 s2 : Z),
  cross n1 n2 <> (0, 0, 0) ->
  dot (snd o1) (cross n1 n2) = 0 -> dot (snd o2) (cross n1 n2) = 0 ->
  on_plane V (p1, n1) -> on_plane V (p2, n2) ->
  exists pt d,
    on_plane pt (p1, n1) /\ on_plane pt (p2, n2) /\
    d = vscale (1 / sqrt (dot (cross n1 n2) (cross n1 n2))) (cross n1 n2) /\
    areHexSidesAdjacent RS (p1, n1) (p2, n2) (o1, s1) (o2, s2) =
    Ok (if Z.eqb s1 (planeSide RS V o1) && Z.eqb s2 (planeSide RS V o2)
        then Some (pt, d) else None).
Proof. exact adjacent_at_vertex. Qed.

(* ---------- combinatorics: the traversal on the 48 listing orders ---------- *)

(* the 48 listings are exactly the lists naming each side once with the second
   opposite to the first and the fourth opposite to the third *)
Theorem C07_admissible_listings : forall l : list nat,
  admissible l = true <-> In l all_listings.
Proof. exact admissible_iff. Qed.

(* for each of the 48 listing orders and every first_side in 0..5 (the code
   uses 0 and 2): hexSortSides' loop accepts the adjacency (six intersections)
   and hexVertices' loop returns six dictionary keys, each an adjacent pair,
   naming the vertices in consecutive order from a vertex of the requested side
   round to its other vertex.  Swept by vm_compute (48 x 6 closed runs). *)
Theorem C07_sort_and_vertices_all_orders : forall (l : list nat) (first : nat),
  In l all_listings -> (first < 6)%nat ->
  exists ks,
    hex_vertices_abs (adjb_of_listing l) first = Ok ks /\
    (forall k, In k ks -> (fst k < snd k < 6)%nat /\ adjb_of_listing l (fst k) (snd k) = true) /\
    (map (vertex_of l) ks = fwd (side_at l first) \/ map (vertex_of l) ks = bwd (side_at l first)).
Proof. exact sort_and_vertices_all_orders. Qed.

(* the unbounded [while] loop of hexVertices terminates on every hexagon *)
Theorem C07_walk_never_hangs_on_hexagons : forall (l : list nat) (first : nat),
  In l all_listings -> (first < 6)%nat ->
  exists ks, hex_vertices_abs (adjb_of_listing l) first = Ok ks /\ List.length ks = 6%nat.
Proof. exact walk_never_hangs_on_hexagons. Qed.

Example C07_listing_example :
  In [4; 1; 0; 3; 5; 2]%nat all_listings /\
  hex_vertices_abs (adjb_of_listing [4; 1; 0; 3; 5; 2]%nat) 2 =
  Ok [(1, 2); (1, 5); (3, 5); (0, 3); (0, 4); (2, 4)]%nat.
Proof. split; [vm_compute; tauto|vm_compute; reflexivity]. Qed.

(* ---------- the base vectors, with the sign facts as hypotheses ---------- *)

(* Prism: centre c, axis u, vertices w (indexed modulo 6, wv k = w (k mod 6)),
   central symmetry wv (k+3) = 2c - wv k; side a = [wv (a+5), wv a].  The six
   first surfaces are listed in one of the 48 MCNP orders l; surface i is a plane
   parallel to u through the two vertices of side l[i] (any point, any normal
   length and sense).  Hypotheses Hindep/Hsides are piece (i) of DESIGN 5.8
   (geometry of a convex hexagon): planes of different groups are not parallel;
   the vertex shared by two neighbouring sides is seen by the two planes of the
   third group on the listed sense; no common point of two non-neighbouring
   planes is.  Under them hexLatticeBaseVectors returns
     a1 = across(first-listed side), a2 = across(third-listed side)
   (across a = sum of the two vertices of side a about the centre, the
   translation of C07_hex_translation) made parallel to the top plane by a shift
   along the axis (no shift when the hexagon is perpendicular to the axis), and
   with eight planes a3 = tau u carrying the eighth plane onto the seventh. *)
Theorem C07_hex_base_vectors_partial :
  forall (c u : rvec) (w : nat -> rvec) (l : list nat) (surfs : list rsurf),
  In l all_listings ->
  u <> (0, 0, 0) ->
  (forall i, (i < 6)%nat -> carries u w (pl surfs i) (side_at l i)) ->
  (forall i j, (i < j < 6)%nat -> (i / 2 <> j / 2)%nat ->
               cross (snd (pl surfs i)) (snd (pl surfs j)) <> (0, 0, 0)) ->
  (forall i j, (i < j < 6)%nat -> (i / 2 <> j / 2)%nat ->
     let k1 := (2 * other_group i j)%nat in
     if adjb_of_listing l i j
     then inside surfs k1 (wv w (vertex_of l (i, j))) /\ inside surfs (k1 + 1) (wv w (vertex_of l (i, j)))
     else forall X, on_plane X (pl surfs i) -> on_plane X (pl surfs j) ->
                    ~ (inside surfs k1 X /\ inside surfs (k1 + 1) X)) ->
  (forall k, wv w (k + 3) = vsub (vscale 2 c) (wv w k)) ->
  (List.length surfs = 6%nat ->
     hexLatticeBaseVectors RS surfs =
     Ok [proj_par u u (across c w (side_at l 0)); proj_par u u (across c w (side_at l 2))]) /\
  (List.length surfs = 8%nat ->
   dot u (snd (pl surfs 6)) <> 0 -> dot u (snd (pl surfs 7)) <> 0 ->
   exists tau,
     hexLatticeBaseVectors RS surfs =
     Ok [proj_par u (snd (pl surfs 6)) (across c w (side_at l 0));
         proj_par u (snd (pl surfs 6)) (across c w (side_at l 2));
         vscale tau u] /\
     (forall lam, snd (pl surfs 6) = vscale lam (snd (pl surfs 7)) ->
        tau = dot (vsub (fst (pl surfs 6)) (fst (pl surfs 7))) (snd (pl surfs 6)) / dot u (snd (pl surfs 6)) /\
        forall q, on_plane q (pl surfs 7) -> on_plane (vadd q (vscale tau u)) (pl surfs 6))).
Proof. exact hex_base_vectors_partial. Qed.

(* what the shift along the axis does: nothing to a vector perpendicular to the
   axis (hexagon drawn perpendicular to the axis, six planes), and in general
   the result is parallel to the top plane and differs from the in-plane
   translation by a multiple of the axis *)
Theorem C07_proj_par_meaning : forall u nrm x : rvec,
  dot u nrm <> 0 ->
  dot (proj_par u nrm x) nrm = 0 /\
  (exists t, proj_par u nrm x = vadd x (vscale t u)) /\
  (dot x nrm = 0 -> proj_par u nrm x = x).
Proof. exact proj_par_meaning. Qed.

(* ---------- geometry of a strictly convex centrally symmetric hexagon ---------- *)

(* Piece (i) of DESIGN 5.8.  Hexagon wv 0 .. wv 5 about c, wv (k+3) = 2c - wv k,
   turning left about u at every vertex (strictly convex); the six planes carry
   the sides in a listing order l, with any point, any normal length and sense,
   the listed sense being the side of the centre.  Then planes of different
   groups are not parallel, the vertex shared by two neighbouring sides is seen
   on the listed sense by both planes of the third group, and no common point of
   two non-neighbouring side planes is (it lies strictly beyond the side between
   them): exactly the hypotheses of C07_hex_base_vectors_partial, i.e.
   areHexSidesAdjacent answers Some for the six neighbouring pairs only. *)
Theorem C07_hex_adjacency_geometry :
  forall (c u : rvec) (w : nat -> rvec) (l : list nat) (surfs : list rsurf),
  In l all_listings ->
  (forall i, (i < 6)%nat -> carries u w (pl surfs i) (side_at l i)) ->
  (forall i, (i < 6)%nat -> sd surfs i = planeSide RS c (pl surfs i) /\ sd surfs i <> 0%Z) ->
  (forall k, wv w (k + 3) = vsub (vscale 2 c) (wv w k)) ->
  (forall k, 0 < det3 (vsub (wv w (k + 1)) (wv w k)) (vsub (wv w (k + 2)) (wv w (k + 1))) u) ->
  forall i j, (i < j < 6)%nat -> (i / 2 <> j / 2)%nat ->
    cross (snd (pl surfs i)) (snd (pl surfs j)) <> (0, 0, 0) /\
    let k1 := (2 * other_group i j)%nat in
    if adjb_of_listing l i j
    then inside surfs k1 (wv w (vertex_of l (i, j))) /\ inside surfs (k1 + 1) (wv w (vertex_of l (i, j)))
    else forall X, on_plane X (pl surfs i) -> on_plane X (pl surfs j) ->
                   ~ (inside surfs k1 X /\ inside surfs (k1 + 1) X).
Proof. exact hex_adjacency_geometry. Qed.

(* ---------- C07: the base vectors of every admissible hexagonal prism ---------- *)

(* For every strictly convex, centrally symmetric hexagon (regular or not, either
   sense of rotation about the axis, any orientation in space), its six side
   planes listed in any of the 48 MCNP orders (both orders of the last two),
   each given by any point, any non-zero normal of either sense and the sense on
   which the centre lies, with or without a seventh and eighth plane (of any
   tilt not parallel to the axis): the model of hexLatticeBaseVectors returns
     a1 = the translation across the first-listed side  (sum of its two vertices
          about the centre, C07_hex_translation),
     a2 = the translation across the third-listed side,
   both sheared along the axis to be parallel to the top plane (unchanged when
   already parallel, C07_proj_par_meaning), and
     a3 = tau u, the translation along the axis that carries the eighth plane
          onto the seventh (when the two are parallel). *)
Theorem C07_hex_base_vectors :
  forall (c u : rvec) (w : nat -> rvec) (l : list nat) (surfs : list rsurf),
  In l all_listings ->
  (forall i, (i < 6)%nat -> carries u w (pl surfs i) (side_at l i)) ->
  (forall i, (i < 6)%nat -> sd surfs i = planeSide RS c (pl surfs i) /\ sd surfs i <> 0%Z) ->
  (forall k, wv w (k + 3) = vsub (vscale 2 c) (wv w k)) ->
  ((forall k, 0 < det3 (vsub (wv w (k + 1)) (wv w k)) (vsub (wv w (k + 2)) (wv w (k + 1))) u) \/
   (forall k, det3 (vsub (wv w (k + 1)) (wv w k)) (vsub (wv w (k + 2)) (wv w (k + 1))) u < 0)) ->
  (List.length surfs = 6%nat ->
     hexLatticeBaseVectors RS surfs =
     Ok [proj_par u u (across c w (side_at l 0)); proj_par u u (across c w (side_at l 2))]) /\
  (List.length surfs = 8%nat ->
   dot u (snd (pl surfs 6)) <> 0 -> dot u (snd (pl surfs 7)) <> 0 ->
   exists tau,
     hexLatticeBaseVectors RS surfs =
     Ok [proj_par u (snd (pl surfs 6)) (across c w (side_at l 0));
         proj_par u (snd (pl surfs 6)) (across c w (side_at l 2));
         vscale tau u] /\
     (forall lam, snd (pl surfs 6) = vscale lam (snd (pl surfs 7)) ->
        tau = dot (vsub (fst (pl surfs 6)) (fst (pl surfs 7))) (snd (pl surfs 6)) / dot u (snd (pl surfs 6)) /\
        forall q, on_plane q (pl surfs 7) -> on_plane (vadd q (vscale tau u)) (pl surfs 6))).
Proof. exact hex_base_vectors. Qed.

(* "a1 carries the unit cell across the first-listed plane, a2 across the
   third-listed plane": the vectors returned (sheared or not) map the plane listed
   second onto the plane listed first and the plane listed fourth onto the plane
   listed third, so the element (1,0,0) touches the cell along the first-listed
   plane and (0,1,0) along the third-listed one *)
Theorem C07_base_vector_carries_opposite_plane :
  forall (c u : rvec) (w : nat -> rvec) (l : list nat) (surfs : list rsurf),
  In l all_listings ->
  (forall i, (i < 6)%nat -> carries u w (pl surfs i) (side_at l i)) ->
  (forall i, (i < 6)%nat -> sd surfs i = planeSide RS c (pl surfs i) /\ sd surfs i <> 0%Z) ->
  (forall k, wv w (k + 3) = vsub (vscale 2 c) (wv w k)) ->
  ((forall k, 0 < det3 (vsub (wv w (k + 1)) (wv w k)) (vsub (wv w (k + 2)) (wv w (k + 1))) u) \/
   (forall k, det3 (vsub (wv w (k + 1)) (wv w k)) (vsub (wv w (k + 2)) (wv w (k + 1))) u < 0)) ->
  forall (nrm q : rvec), dot u nrm <> 0 ->
    (on_plane q (pl surfs 1) -> on_plane (vadd q (proj_par u nrm (across c w (side_at l 0)))) (pl surfs 0)) /\
    (on_plane q (pl surfs 3) -> on_plane (vadd q (proj_par u nrm (across c w (side_at l 2)))) (pl surfs 2)).
Proof. exact base_vector_carries_opposite_plane. Qed.

(* the regular hexagon c +- e1, c +- (e1/2 + h e2), c +- (-e1/2 + h e2)
   (e1, e2 perpendicular of equal length, h = sqrt 3 / 2) and all its affine
   images (any e1, e2 independent modulo u, any h > 0) belong to the family *)
Theorem C07_regular_hexagon_in_family : forall (c e1 e2 u : rvec) (h : R),
  0 < h -> 0 < det3 e1 e2 u ->
  (forall k, wv (hexagon_of c e1 e2 h) (k + 3) = vsub (vscale 2 c) (wv (hexagon_of c e1 e2 h) k)) /\
  (forall k, 0 < det3 (vsub (wv (hexagon_of c e1 e2 h) (k + 1)) (wv (hexagon_of c e1 e2 h) k))
                      (vsub (wv (hexagon_of c e1 e2 h) (k + 2)) (wv (hexagon_of c e1 e2 h) (k + 1))) u).
Proof. exact regular_hexagon_in_family. Qed.

(* non-vacuity: a concrete irregular prism with eight planes, mixed senses and
   points, listing 0 3 1 4 2 5 — every hypothesis of C07_hex_base_vectors holds
   and the model returns the expected vectors *)
Example C07_example_base_vectors :
  (forall i, (i < 6)%nat -> carries ex_u ex_w (pl ex_surfs i) (side_at ex_l i)) /\
  (forall i, (i < 6)%nat -> sd ex_surfs i = planeSide RS ex_c (pl ex_surfs i) /\ sd ex_surfs i <> 0%Z) /\
  hexLatticeBaseVectors RS ex_surfs = Ok [(3, -1, 0); (3, 1, 0); (0, 0, 4)].
Proof. exact example_all. Qed.

(* ---------- develop_lattice: ranges against base vectors, element translation ---------- *)

(* develop_lattice accepts the FILL ranges exactly when there is one range per
   base vector and every range beyond them is lo = hi (a six-plane prism has two
   base vectors: FILL=-1:1 0:0 0:0 is accepted, FILL=-1:1 0:0 -1:1 is not);
   this is the code after /repo commit 9b5a8f0, which repaired the finding
   six_planes_trivial_range of the previous round *)
Theorem C07_domain_check_spec : forall (nvec : nat) (bounds : list (Z * Z)),
  domain_check nvec bounds = Ok tt <->
  (nvec <= List.length bounds)%nat /\ Forall (fun r => fst r = snd r) (skipn nvec bounds).
Proof. exact domain_check_spec. Qed.

Theorem C07_domain_check_error : forall (nvec : nat) (bounds : list (Z * Z)),
  domain_check nvec bounds = Ok tt \/ domain_check nvec bounds = Err ELattice.
Proof. exact domain_check_error. Qed.

Example C07_domain_check_examples :
  domain_check 2 [(-1, 1); (0, 0); (0, 0)]%Z = Ok tt /\
  domain_check 2 [(-1, 1); (0, 0); (-1, 1)]%Z = Err ELattice /\
  domain_check 3 [(0, 0); (2, 2); (0, 1)]%Z = Ok tt.
Proof. repeat split. Qed.

(* element (i, j, k) is translated by i a1 + j a2 + k a3; with the two base
   vectors of a six-plane prism the third index does not move the element *)
Theorem C07_lattice_vector : forall (a1 a2 a3 : rvec) (i j k : Z),
  latticeVector RS [a1; a2; a3] [i; j; k] =
  vadd (vadd (vscale (IZR i) a1) (vscale (IZR j) a2)) (vscale (IZR k) a3) /\
  latticeVector RS [a1; a2] [i; j; k] = vadd (vscale (IZR i) a1) (vscale (IZR j) a2).
Proof. exact lattice_vector. Qed.

(* ---------- from the RHP / HEX card to the base vectors ---------- *)

(* A LAT=2 cell "-b" whose surface b is an RHP/HEX card v h r s t (15 entries).
   rhp_cell_surfaces = MacroBodies.rhp, then forcad.p on each facet, then
   extract_surfaces under the negative literal: the (plane, side) list that
   develop_lattice hands to hexLatticeBaseVectors (tie:rhpcell observes it at
   that call).  If r, s, t are perpendicular to h and v + r, v + s, v + t are the
   feet of the perpendiculars from the axis to the lines of sides a, b, d of a
   centrally symmetric hexagon about v, that list has eight entries, lists the
   sides in the order a, a+3, b, b+3, d, d+3, each plane carries its side and
   is listed with the sense of the centre: the hypotheses of C07_hex_base_vectors *)
Theorem C07_rhp_cell_hypotheses :
  forall (c h r s t : rvec) (w : nat -> rvec) (a b d : nat),
  h <> (0, 0, 0) -> r <> (0, 0, 0) -> s <> (0, 0, 0) -> t <> (0, 0, 0) ->
  dot r h = 0 -> dot s h = 0 -> dot t h = 0 ->
  (forall k, wv w (k + 3) = vsub (vscale 2 c) (wv w k)) ->
  dot (vsub (wv w a) (vadd c r)) r = 0 /\ dot (vsub (wv w (a + 5)) (vadd c r)) r = 0 ->
  dot (vsub (wv w b) (vadd c s)) s = 0 /\ dot (vsub (wv w (b + 5)) (vadd c s)) s = 0 ->
  dot (vsub (wv w d) (vadd c t)) t = 0 /\ dot (vsub (wv w (d + 5)) (vadd c t)) t = 0 ->
  exists surfs,
    rhp_cell_surfaces RS (params15 c h r s t) = Ok surfs /\ List.length surfs = 8%nat /\
    (forall i, (i < 6)%nat -> carries h w (pl surfs i) (side_at [a; opp a; b; opp b; d; opp d] i)) /\
    (forall i, (i < 6)%nat -> sd surfs i = planeSide RS c (pl surfs i) /\ sd surfs i <> 0%Z) /\
    snd (pl surfs 6) = vscale (1 / norm h) h /\ snd (pl surfs 7) = vscale (1 / norm h) h /\
    (forall q, pf (pl surfs 6) q = dot (vsub q (vadd c h)) h / norm h) /\
    (forall q, pf (pl surfs 7) q = dot (vsub q c) h / norm h).
Proof. exact rhp_cell_hypotheses. Qed.

(* ... and therefore, for a strictly convex hexagon drawn in the plane through v
   perpendicular to h, the base vectors computed from the card are the
   translations across the sides of r and of s, and h *)
Theorem C07_rhp15_lattice_vectors :
  forall (c h r s t : rvec) (w : nat -> rvec) (a b d : nat),
  In [a; opp a; b; opp b; d; opp d] all_listings ->
  h <> (0, 0, 0) -> r <> (0, 0, 0) -> s <> (0, 0, 0) -> t <> (0, 0, 0) ->
  dot r h = 0 -> dot s h = 0 -> dot t h = 0 ->
  (forall k, wv w (k + 3) = vsub (vscale 2 c) (wv w k)) ->
  dot (vsub (wv w a) (vadd c r)) r = 0 /\ dot (vsub (wv w (a + 5)) (vadd c r)) r = 0 ->
  dot (vsub (wv w b) (vadd c s)) s = 0 /\ dot (vsub (wv w (b + 5)) (vadd c s)) s = 0 ->
  dot (vsub (wv w d) (vadd c t)) t = 0 /\ dot (vsub (wv w (d + 5)) (vadd c t)) t = 0 ->
  (forall k, dot (vsub (wv w k) c) h = 0) ->
  ((forall k, 0 < det3 (vsub (wv w (k + 1)) (wv w k)) (vsub (wv w (k + 2)) (wv w (k + 1))) h) \/
   (forall k, det3 (vsub (wv w (k + 1)) (wv w k)) (vsub (wv w (k + 2)) (wv w (k + 1))) h < 0)) ->
  hexLatticeBaseVectors_rhp RS (params15 c h r s t) = Ok [across c w a; across c w b; h].
Proof. exact rhp_lattice_vectors. Qed.

(* nine entries v h r, r perpendicular to h (the regular prism of the manual):
   the code completes the card with s, t = r rotated by 60 and 120 degrees about
   h, and the base vectors are a1 = 2 r, a2 = 2 s, a3 = h — the pitch vectors of
   the MCNP manual; s is r/2 + (sqrt 3 / 2) (h/|h| x r) *)
Theorem C07_rhp9_lattice_vectors : forall c h r : rvec,
  h <> (0, 0, 0) -> r <> (0, 0, 0) -> dot r h = 0 ->
  hexLatticeBaseVectors_rhp RS (params9 c h r) =
  Ok [vscale 2 r; vscale 2 (rotate RS r (unit_of h) (PI / 3)); h] /\
  rotate RS r (unit_of h) (PI / 3) =
  vadd (vscale (1 / 2) r) (vscale (sqrt 3 / 2) (cross (unit_of h) r)).
Proof. exact rhp9_lattice_vectors. Qed.

(* ---------- the elements of a hexagonal lattice, end to end on the models ---------- *)

(* develop_lattice_hex = C06's model of develop_lattice (develop_lattice_with,
   generic in the base vectors, tied there) fed with hexLatticeBaseVectors.  For
   every admissible prism (hypotheses of C07_hex_base_vectors, six or eight
   planes) and every FILL array over ranges with one range per base vector and
   the surplus ranges lo = hi: the generated elements are, in enumeration order,
   exactly the index tuples of the ranges whose array entry (first index
   fastest, as for rectangular lattices) is not 0, each once; element idx is the
   unit cell moved by lattice_point vecs idx = i a1 + j a2 (+ k a3) with a1, a2
   the translations across the first- and third-listed sides, filled with its
   entry (own universe: the cell's own material), the filler placed by the fill
   transformation / TRCL first and the element translation after
   (D6.elem_located). *)
Theorem C07_hex_lattice_developed :
  forall (c u : rvec) (w : nat -> rvec) (l : list nat) (surfs : list rsurf)
         (cell : M6.lat_cell (T:=R)) (bs : M6.bounds) (spec : list Z),
  In l all_listings ->
  (forall i, (i < 6)%nat -> carries u w (pl surfs i) (side_at l i)) ->
  (forall i, (i < 6)%nat -> sd surfs i = planeSide RS c (pl surfs i) /\ sd surfs i <> 0%Z) ->
  (forall k, wv w (k + 3) = vsub (vscale 2 c) (wv w k)) ->
  ((forall k, 0 < det3 (vsub (wv w (k + 1)) (wv w k)) (vsub (wv w (k + 2)) (wv w (k + 1))) u) \/
   (forall k, det3 (vsub (wv w (k + 1)) (wv w k)) (vsub (wv w (k + 2)) (wv w (k + 1))) u < 0)) ->
  (List.length surfs = 6%nat \/
   (List.length surfs = 8%nat /\ dot u (snd (pl surfs 6)) <> 0 /\ dot u (snd (pl surfs 7)) <> 0)) ->
  M6.lc_fill cell = M6.FSpec bs spec -> bs <> [] -> I6.wf_bounds bs ->
  Z.of_nat (List.length spec) = M6.size bs ->
  (List.length surfs / 2 - 1 <= List.length bs)%nat ->
  Forall I6.trivial_range (skipn (List.length surfs / 2 - 1) bs) ->
  D6.cell_shape_ok cell ->
  exists vecs elems,
    hexLatticeBaseVectors RS surfs = Ok vecs /\
    List.length vecs = (List.length surfs / 2 - 1)%nat /\
    nth 0 vecs (0, 0, 0) = proj_par u (if Nat.eqb (List.length surfs) 6 then u else snd (pl surfs 6))
                                    (across c w (side_at l 0)) /\
    nth 1 vecs (0, 0, 0) = proj_par u (if Nat.eqb (List.length surfs) 6 then u else snd (pl surfs 6))
                                    (across c w (side_at l 2)) /\
    develop_lattice_hex surfs cell = M6.Ok elems /\
    map (@M6.ne_index R) elems = map fst (filter D6.nonzero (combine (M6.indices bs) spec)) /\
    NoDup (map (@M6.ne_index R) elems) /\
    Forall (fun e =>
      I6.in_ranges (M6.ne_index e) bs /\
      let v := nth (Z.to_nat (I6.flat_index bs (M6.ne_index e))) spec 0%Z in
      v <> 0%Z /\ D6.elem_located cell vecs v e) elems.
Proof. exact hex_lattice_developed. Qed.

(* ---------- outside the family: the error behaviour of the model ---------- *)

(* a plane list that has neither six nor eight entries: AssertionError *)
Theorem C07_base_vectors_wrong_count : forall surfs : list rsurf,
  List.length surfs <> 6%nat -> List.length surfs <> 8%nat ->
  hexLatticeBaseVectors RS surfs = Err EAssert.
Proof. exact base_vectors_wrong_count. Qed.

(* pointInPlaneIntersection raises exactly on parallel planes (ZeroDivisionError) *)
Theorem C07_intersection_error_iff : forall p1 n1 p2 n2 : rvec,
  (pointInPlaneIntersection RS (p1, n1) (p2, n2) = Err EZeroDiv <-> cross n1 n2 = (0, 0, 0)) /\
  (cross n1 n2 <> (0, 0, 0) -> exists L, pointInPlaneIntersection RS (p1, n1) (p2, n2) = Ok L).
Proof. exact intersection_error_iff. Qed.

(* hexSortSides on six planes has three outcomes: ZeroDivisionError iff two
   planes of different groups are parallel; else the dictionary with exactly six
   intersections, or LatticeError *)
Theorem C07_sort_sides_outcomes : forall surfs : list rsurf,
  List.length surfs = 6%nat ->
  ((exists i j, (i < j < 6)%nat /\ (i / 2 <> j / 2)%nat /\
                cross (snd (pl surfs i)) (snd (pl surfs j)) = (0, 0, 0)) /\
   hexSortSides RS surfs = Err EZeroDiv) \/
  ((forall i j, (i < j < 6)%nat -> (i / 2 <> j / 2)%nat ->
                cross (snd (pl surfs i)) (snd (pl surfs j)) <> (0, 0, 0)) /\
   ((exists adj, hexSortSides RS surfs = Ok adj /\ count_some adj = 6%nat) \/
    hexSortSides RS surfs = Err ELattice)).
Proof. exact sort_sides_outcomes. Qed.

(* degenerate prisms: two side planes of different groups parallel =>
   ZeroDivisionError from hexLatticeBaseVectors, whatever the other planes *)
Theorem C07_base_vectors_parallel_planes : forall surfs : list rsurf,
  List.length surfs = 6%nat \/ List.length surfs = 8%nat ->
  (exists i j, (i < j < 6)%nat /\ (i / 2 <> j / 2)%nat /\
               cross (snd (pl surfs i)) (snd (pl surfs j)) = (0, 0, 0)) ->
  hexLatticeBaseVectors RS surfs = Err EZeroDiv.
Proof. exact base_vectors_parallel_planes. Qed.

(* ... which is what a non strictly convex hexagon gives: two consecutive sides
   on one line (a flat vertex) have parallel planes *)
Theorem C07_collinear_sides_parallel : forall (u q0 q1 q2 : rvec) (pa pb : rplane),
  cross (vsub q1 q0) u <> (0, 0, 0) -> vsub q2 q1 <> (0, 0, 0) ->
  cross (vsub q2 q1) (vsub q1 q0) = (0, 0, 0) ->
  dot (snd pa) u = 0 -> on_plane q0 pa -> on_plane q1 pa ->
  dot (snd pb) u = 0 -> on_plane q1 pb -> on_plane q2 pb ->
  cross (snd pa) (snd pb) = (0, 0, 0).
Proof. exact collinear_sides_parallel. Qed.

(* the while loop of hexVertices, on EVERY dictionary with exactly six
   intersections among the twelve pairs of different groups (924 dictionaries x 6
   first sides, by vm_compute): it ends, with six vertices, iff the intersections
   form one closed tour of the six sides; otherwise it never ends (ELoop) *)
Theorem C07_walk_ends_iff_closed_tour : forall (ps : list (nat * nat)) (first : nat),
  In ps (sublists 6 cross_pairs) -> (first < 6)%nat ->
  (closed_tour ps = true /\
   exists ks, hex_vertices_abs (pair_in ps) first = Ok ks /\ List.length ks = 6%nat) \/
  (closed_tour ps = false /\ hex_vertices_abs (pair_in ps) first = Err ELoop).
Proof. exact walk_ends_iff_closed_tour. Qed.

(* any other number of intersections: LatticeError before the traversal *)
Theorem C07_sort_count_error : forall adjb : nat -> nat -> bool,
  (exists adj, sort_sides_abs adjb = Ok adj /\ count_some adj = 6%nat) \/
  sort_sides_abs adjb = Err ELattice.
Proof. exact sort_count_error. Qed.

Example C07_open_chain_never_ends :
  hex_vertices_abs (pair_in [(0, 2); (0, 4); (1, 3); (1, 5); (2, 4); (3, 5)]%nat) 0 = Err ELoop.
Proof. vm_compute. reflexivity. Qed.

(* ---------- link with C03 (macrobodies) ---------- *)

(* C07's model of MacroBodies.rhp (under rhp_cell_surfaces and the
   C07_rhp*_lattice_vectors theorems) IS C03's model of it (about which C03 proves
   the RHP/HEX facets), at every Scalar — reals and binary64 alike: same
   exceptions, same eight (P, [A; B; C; D], side) entries *)
Theorem C07_rhp_is_C03_rhp_linked : forall (T : Type) (S : Scalar T) (p : list T),
  res03 (rhp S p) = M3.rhp S p.
Proof. exact @rhp_is_C03_rhp. Qed.

(* the definition executed by tie:develophex is the develop_lattice_hex of
   C07_hex_lattice_developed *)
Theorem C07_develop_lattice_hex_is_tied : forall (dic : Z -> list rsurf) (ids : list Z) (cell : M6.lat_cell (T:=R)),
  develop_lattice_hex_gen RS dic ids cell = develop_lattice_hex (extract_surfaces dic ids) cell.
Proof. exact develop_lattice_hex_is_gen. Qed.

(* an admissible prism whose seventh or eighth plane is parallel to the axis:
   ZeroDivisionError (hexVertices' first projection, or the projection on the
   eighth plane) *)
Theorem C07_caps_parallel_to_axis :
  forall (c u : rvec) (w : nat -> rvec) (l : list nat) (surfs : list rsurf),
  In l all_listings ->
  (forall i, (i < 6)%nat -> carries u w (pl surfs i) (side_at l i)) ->
  (forall i, (i < 6)%nat -> sd surfs i = planeSide RS c (pl surfs i) /\ sd surfs i <> 0%Z) ->
  (forall k, wv w (k + 3) = vsub (vscale 2 c) (wv w k)) ->
  ((forall k, 0 < det3 (vsub (wv w (k + 1)) (wv w k)) (vsub (wv w (k + 2)) (wv w (k + 1))) u) \/
   (forall k, det3 (vsub (wv w (k + 1)) (wv w k)) (vsub (wv w (k + 2)) (wv w (k + 1))) u < 0)) ->
  List.length surfs = 8%nat ->
  dot u (snd (pl surfs 6)) = 0 \/ dot u (snd (pl surfs 7)) = 0 ->
  hexLatticeBaseVectors RS surfs = Err EZeroDiv.
Proof. exact caps_parallel. Qed.

(* an admissible prism with exactly one of its six side senses flipped (the cell
   written on the wrong side of the plane listed at position i0): the two
   neighbouring intersections judged by that plane are rejected, the one that
   meets beyond it is accepted, hexSortSides counts five intersections and
   raises LatticeError — for every listing order, every position, 6 or 8 planes *)
Theorem C07_flipped_sense_lattice_error :
  forall (c u : rvec) (w : nat -> rvec) (l : list nat) (surfs : list rsurf) (i0 : nat),
  In l all_listings -> (i0 < 6)%nat ->
  (forall i, (i < 6)%nat -> carries u w (pl surfs i) (side_at l i)) ->
  (forall i, (i < 6)%nat -> i <> i0 -> sd surfs i = planeSide RS c (pl surfs i) /\ sd surfs i <> 0%Z) ->
  (sd surfs i0 = (- planeSide RS c (pl surfs i0))%Z /\ sd surfs i0 <> 0%Z) ->
  (forall k, wv w (k + 3) = vsub (vscale 2 c) (wv w k)) ->
  ((forall k, 0 < det3 (vsub (wv w (k + 1)) (wv w k)) (vsub (wv w (k + 2)) (wv w (k + 1))) u) \/
   (forall k, det3 (vsub (wv w (k + 1)) (wv w k)) (vsub (wv w (k + 2)) (wv w (k + 1))) u < 0)) ->
  (List.length surfs = 6%nat \/ List.length surfs = 8%nat) ->
  hexLatticeBaseVectors RS surfs = Err ELattice.
Proof. exact flipped_sense_lattice_error. Qed.

(* ANY set of flipped side senses (fl = table of the six positions): the
   dictionary of hexSortSides holds exactly 6 - (number of flipped senses)
   intersections — all 48 orders x 64 subsets by vm_compute on top of the per-pair
   geometry — hence LatticeError as soon as one sense is wrong; never a wrong
   set of base vectors, never the endless loop *)
Theorem C07_flipped_set_lattice_error :
  forall (c u : rvec) (w : nat -> rvec) (l : list nat) (surfs : list rsurf) (fl : list bool),
  In l all_listings -> In fl (bool_lists 6) ->
  (forall i, (i < 6)%nat -> carries u w (pl surfs i) (side_at l i)) ->
  (forall i, (i < 6)%nat ->
     sd surfs i = (if nth i fl false then - planeSide RS c (pl surfs i) else planeSide RS c (pl surfs i))%Z /\
     sd surfs i <> 0%Z) ->
  (forall k, wv w (k + 3) = vsub (vscale 2 c) (wv w k)) ->
  ((forall k, 0 < det3 (vsub (wv w (k + 1)) (wv w k)) (vsub (wv w (k + 2)) (wv w (k + 1))) u) \/
   (forall k, det3 (vsub (wv w (k + 1)) (wv w k)) (vsub (wv w (k + 2)) (wv w (k + 1))) u < 0)) ->
  (List.length surfs = 6%nat \/ List.length surfs = 8%nat) ->
  (exists ca, sort_pairs (hex_adjf RS (firstn 6 surfs)) hex_pairs = Ok ca /\
              count_some ca = (6 - List.length (filter (fun k => nth k fl false) (seq 0 6)))%nat) /\
  (existsb (fun k => nth k fl false) (seq 0 6) = true -> hexLatticeBaseVectors RS surfs = Err ELattice).
Proof. exact flipped_set_lattice_error. Qed.

(* ANY plane list whatever (planes that carry no hexagon, random planes, ...):
   the complete list of outcomes of hexLatticeBaseVectors — base vectors (two for
   six planes, three for eight), AssertionError exactly when there are neither
   six nor eight planes, ZeroDivisionError, LatticeError, or the endless loop;
   nothing else (no StopIteration from next(...), no IndexError) *)
Theorem C07_base_vectors_outcomes : forall surfs : list rsurf,
  (exists vs, hexLatticeBaseVectors RS surfs = Ok vs /\ List.length vs = (List.length surfs / 2 - 1)%nat) \/
  (hexLatticeBaseVectors RS surfs = Err EAssert /\ List.length surfs <> 6%nat /\ List.length surfs <> 8%nat) \/
  ((List.length surfs = 6%nat \/ List.length surfs = 8%nat) /\
   (hexLatticeBaseVectors RS surfs = Err EZeroDiv \/ hexLatticeBaseVectors RS surfs = Err ELattice \/
    hexLatticeBaseVectors RS surfs = Err ELoop)).
Proof. exact base_vectors_outcomes. Qed.

(* ANY six or eight planes on which hexSortSides accepted six intersections: the
   outcome is decided by the SHAPE of the dictionary (some_keys adj = the pairs
   that hold a line, one of the 924 six-subsets of the twelve pairs of different
   groups): no closed tour of the six positions -> the while loop never ends
   (unless a projection divides by zero first); a closed tour -> base vectors
   (unless a projection divides by zero).  Together with C07_sort_sides_outcomes
   this decides the outcome of every plane list from parallelism, the number of
   accepted pairs, their shape and the projection denominators. *)
Theorem C07_base_vectors_by_shape : forall (surfs : list rsurf) (adj : adjacency rline),
  List.length surfs = 6%nat \/ List.length surfs = 8%nat ->
  hexSortSides RS (firstn 6 surfs) = Ok adj ->
  In (some_keys adj) (sublists 6 cross_pairs) /\
  (closed_tour (some_keys adj) = false ->
     hexLatticeBaseVectors RS surfs = Err ELoop \/ hexLatticeBaseVectors RS surfs = Err EZeroDiv) /\
  (closed_tour (some_keys adj) = true ->
     (exists vs, hexLatticeBaseVectors RS surfs = Ok vs) \/ hexLatticeBaseVectors RS surfs = Err EZeroDiv).
Proof. exact base_vectors_by_shape. Qed.

(* ... and EXACTLY decided when the six side planes are all parallel to one axis
   (planes of a hexagonal prism listed in a wrong order, with flipped senses, a
   pair of sides pushed away, ...; with eight planes, caps not parallel to the
   axis): then no projection can divide by zero — no closed tour: the loop never
   ends; a closed tour: two (three) base vectors *)
Theorem C07_axial_planes_exact : forall (surfs : list rsurf) (adj : adjacency rline) (u : rvec),
  u <> (0, 0, 0) ->
  (forall k, (k < 6)%nat -> dot (snd (pl surfs k)) u = 0) ->
  (List.length surfs = 6%nat \/
   (List.length surfs = 8%nat /\ dot u (snd (pl surfs 6)) <> 0 /\ dot u (snd (pl surfs 7)) <> 0)) ->
  hexSortSides RS (firstn 6 surfs) = Ok adj ->
  (closed_tour (some_keys adj) = false -> hexLatticeBaseVectors RS surfs = Err ELoop) /\
  (closed_tour (some_keys adj) = true ->
     exists vs, hexLatticeBaseVectors RS surfs = Ok vs /\ List.length vs = (List.length surfs / 2 - 1)%nat).
Proof. exact axial_planes_exact. Qed.

(* ---------- link with C04 (coordinate transformations) ---------- *)

(* A hexagonal prism under TRCL / a TRn on its plane cards.  moved_surfs o b is
   what C04's model of Transformation.transformation does to every plane frame
   (first conjunct: point -> O + B^T point = C04's to_main, normal -> B^T normal =
   C04's tvec); for rows_orthonormal b (C04's spec of a TR card) and an admissible
   prism (hypotheses of C07_hex_base_vectors; with eight planes, parallel caps),
   hexLatticeBaseVectors of the moved planes is the rotated list: a_i' = B^T a_i *)
Theorem C07_hex_base_vectors_trcl_linked :
  forall (o : S4.R3) (b : V4.M3 R) (c u : rvec) (w : nat -> rvec) (l : list nat) (surfs : list rsurf),
  (forall (P N : rvec) cp nap,
     C04.Model.transformation RS (V4.vlist o ++ V4.mlist b) (C04.Model.mkMS C04.Model.KP (t3 P) (t3 N) cp nap)
     = C04.Model.Ok (C04.Model.mkMS C04.Model.KP (t3 (mov o b P)) (t3 (rot b N)) cp nap)) /\
  (S4.rows_orthonormal b ->
   In l all_listings ->
   (forall i, (i < 6)%nat -> carries u w (pl surfs i) (side_at l i)) ->
   (forall i, (i < 6)%nat -> sd surfs i = planeSide RS c (pl surfs i) /\ sd surfs i <> 0%Z) ->
   (forall k, wv w (k + 3) = vsub (vscale 2 c) (wv w k)) ->
   ((forall k, 0 < det3 (vsub (wv w (k + 1)) (wv w k)) (vsub (wv w (k + 2)) (wv w (k + 1))) u) \/
    (forall k, det3 (vsub (wv w (k + 1)) (wv w k)) (vsub (wv w (k + 2)) (wv w (k + 1))) u < 0)) ->
   (List.length surfs = 6%nat \/
    (List.length surfs = 8%nat /\ dot u (snd (pl surfs 6)) <> 0 /\ dot u (snd (pl surfs 7)) <> 0 /\
     exists lam, snd (pl surfs 6) = vscale lam (snd (pl surfs 7)))) ->
   exists vecs,
     hexLatticeBaseVectors RS surfs = Ok vecs /\
     hexLatticeBaseVectors RS (moved_surfs o b surfs) = Ok (map (rot b) vecs)).
Proof.
  intros o b c u w l surfs. split.
  - intros P N cp nap. apply moved_plane_is_C04_transformation.
  - intros Hb Hl Hc Hs Hsym Ht Hlen. exact (hex_base_vectors_moved o b c u w l surfs Hb Hl Hc Hs Hsym Ht Hlen).
Qed.

(* ================================================================== *)
(* Families: each is literally the conjunction of the member theorems  *)
(* above, so that one Print Assumptions audits the whole group.        *)
(* ================================================================== *)
(* algebra of the numeric helpers, reduction of areHexSidesAdjacent, latticeVector *)
Theorem C07_family_algebra :
  ltac:(let t := type of (conj C07_plane_intersection_on_both (conj C07_plane_intersection_direction (conj C07_project_on_plane (conj C07_axial_vector (conj C07_hex_translation (conj C07_proj_par_meaning (conj C07_side_constant_along_line (conj C07_adjacent_at_vertex C07_lattice_vector)))))))) in exact t).
Proof. exact (conj C07_plane_intersection_on_both (conj C07_plane_intersection_direction (conj C07_project_on_plane (conj C07_axial_vector (conj C07_hex_translation (conj C07_proj_par_meaning (conj C07_side_constant_along_line (conj C07_adjacent_at_vertex C07_lattice_vector)))))))). Qed.
Print Assumptions C07_family_algebra.

(* the traversal on the 48 listings and on all six-intersection dictionaries; the range test of develop_lattice (no real numbers: closed under the global context) *)
Theorem C07_family_combinatorics :
  ltac:(let t := type of (conj C07_admissible_listings (conj C07_sort_and_vertices_all_orders (conj C07_walk_never_hangs_on_hexagons (conj C07_walk_ends_iff_closed_tour (conj C07_sort_count_error (conj C07_domain_check_spec C07_domain_check_error)))))) in exact t).
Proof. exact (conj C07_admissible_listings (conj C07_sort_and_vertices_all_orders (conj C07_walk_never_hangs_on_hexagons (conj C07_walk_ends_iff_closed_tour (conj C07_sort_count_error (conj C07_domain_check_spec C07_domain_check_error)))))). Qed.
Print Assumptions C07_family_combinatorics.

(* the base vectors: geometry of the hexagon, main theorem, RHP/HEX cards *)
Theorem C07_family_base_vectors :
  ltac:(let t := type of (conj C07_hex_base_vectors_partial (conj C07_hex_adjacency_geometry (conj C07_hex_base_vectors (conj C07_base_vector_carries_opposite_plane (conj C07_regular_hexagon_in_family (conj C07_rhp_cell_hypotheses (conj C07_rhp15_lattice_vectors C07_rhp9_lattice_vectors))))))) in exact t).
Proof. exact (conj C07_hex_base_vectors_partial (conj C07_hex_adjacency_geometry (conj C07_hex_base_vectors (conj C07_base_vector_carries_opposite_plane (conj C07_regular_hexagon_in_family (conj C07_rhp_cell_hypotheses (conj C07_rhp15_lattice_vectors C07_rhp9_lattice_vectors))))))). Qed.
Print Assumptions C07_family_base_vectors.

(* error behaviour outside the family of the main theorem *)
Theorem C07_family_errors :
  ltac:(let t := type of (conj C07_base_vectors_wrong_count (conj C07_intersection_error_iff (conj C07_sort_sides_outcomes (conj C07_base_vectors_parallel_planes (conj C07_collinear_sides_parallel (conj C07_caps_parallel_to_axis (conj C07_flipped_sense_lattice_error (conj C07_flipped_set_lattice_error (conj C07_base_vectors_outcomes (conj C07_base_vectors_by_shape C07_axial_planes_exact)))))))))) in exact t).
Proof. exact (conj C07_base_vectors_wrong_count (conj C07_intersection_error_iff (conj C07_sort_sides_outcomes (conj C07_base_vectors_parallel_planes (conj C07_collinear_sides_parallel (conj C07_caps_parallel_to_axis (conj C07_flipped_sense_lattice_error (conj C07_flipped_set_lattice_error (conj C07_base_vectors_outcomes (conj C07_base_vectors_by_shape C07_axial_planes_exact)))))))))). Qed.
Print Assumptions C07_family_errors.

(* statements that import another property (C06: develop_lattice; C03: rhp) *)
Theorem C07_family_linked :
  ltac:(let t := type of (conj C07_hex_lattice_developed (conj C07_develop_lattice_hex_is_tied (conj C07_rhp_is_C03_rhp_linked C07_hex_base_vectors_trcl_linked))) in exact t).
Proof. exact (conj C07_hex_lattice_developed (conj C07_develop_lattice_hex_is_tied (conj C07_rhp_is_C03_rhp_linked C07_hex_base_vectors_trcl_linked))). Qed.
Print Assumptions C07_family_linked.

