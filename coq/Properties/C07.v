(* C07 — stub *)
From T4V Require Import C07.Model.
