(* C14 — Output does not depend on MCNP-insignificant formatting of the deck.
   Only restatements; proofs are in C14/Proofs*.v. *)
From Coq Require Import List NArith Bool String Ascii.
From T4V Require Import Base.Str C14.Model C14.ProofsContent C14.ProofsCards C14.ProofsCase
  C14.ProofsSplit.
Import ListNotations.
Open Scope string_scope.

(* re_spaces.sub(' ', s) in closed form: an optional leading blank, the words
   of s (str.split()) joined by single blanks, an optional trailing blank. *)
Theorem C14_squeeze_closed_form : forall s : string,
  squeeze s =
  pad (starts_ws s) ++ join " " (words s) ++ pad (ends_ws s && nonnil (words s)).
Proof. exact squeeze_closed_form. Qed.
Print Assumptions C14_squeeze_closed_form.

(* Card.content on any placement of a card's tokens on its (non-comment)
   physical lines: whatever blanks and tabs stand between the tokens, wherever
   the lines are broken, whatever "$ ..." or "& ..." trailers end the lines, the
   content is the tokens joined by single blanks (with at most one blank in
   front and one behind), and splitting it gives the tokens back. *)
Theorem C14_content_layout : forall ls : list pline,
  Forall line_ok ls ->
  content (map line_text ls) =
    pad (starts_ws (joined ls)) ++ join " " (flat_map ptoks ls)
    ++ pad (ends_ws (joined ls) && nonnil (flat_map ptoks ls))
  /\ words (content (map line_text ls)) = flat_map ptoks ls.
Proof. intros ls H. split; [exact (content_layout ls H)|exact (content_words ls H)]. Qed.
Print Assumptions C14_content_layout.

(* get_cards(block, skipcomments=True): a block whose cards start on lines that
   are not continuations and continue on lines that are (5 leading blanks after
   tab expansion, or the previous card line ends with "&"), with c-comment
   lines anywhere between the lines, yields exactly the cards' own lines. *)
Theorem C14_cards_grouping : forall (cs : list pcard) (tailc : list string),
  block_ok "" cs -> comment_lines tailc ->
  get_cards_lines (flat_map pc_phys cs ++ tailc)%list = map pc_lines cs.
Proof. exact cards_grouping. Qed.
Print Assumptions C14_cards_grouping.

(* the two together, with every condition stated on the layout itself:
   contents of the cards of a block = tokens joined by single blanks. *)
Theorem C14_cards_layout : forall (cs : list lcard) (tailc : list string),
  lblock_ok noline cs -> comment_lines tailc ->
  map content (get_cards_lines (flat_map pc_phys (map lc_pcard cs) ++ tailc)%list)
  = map card_content_form cs
  /\ map words (map content (get_cards_lines (flat_map pc_phys (map lc_pcard cs) ++ tailc)%list))
     = map lc_toks cs.
Proof.
  intros cs tailc H Ht. split; [exact (cards_layout cs tailc H Ht)|exact (cards_layout_words cs tailc H Ht)].
Qed.
Print Assumptions C14_cards_layout.

(* non-vacuity: two cards on five lines with a tab, an & continuation followed
   by a comment line, a 5-blank continuation, $ trailers *)
Definition ex_c1 : lcard :=
  [ ([], mk_pline [("", "1"); (" ", "so")] " " "&  $ x");
    (["c a comment"], mk_pline [(" ", "5.0")] "" "$ r") ].
Definition ex_c2 : lcard :=
  [ (["C"], mk_pline [("  ", "2"); (String tab "", "PX")] "" "");
    ([], mk_pline [("      ", "1")] "" "") ].

Example C14_cards_layout_nonvacuous :
  lblock_ok noline [ex_c1; ex_c2] /\ comment_lines ["c end"] /\
  (flat_map pc_phys (map lc_pcard [ex_c1; ex_c2]) ++ ["c end"])%list
  = ["1 so &  $ x"; "c a comment"; " 5.0$ r"; "C"; "  2" ++ String tab "PX"; "      1"; "c end"] /\
  map card_content_form [ex_c1; ex_c2] = ["1 so 5.0 "; " 2 PX 1"].
Proof.
  split; [|split; [|split]]; try reflexivity.
  - cbn. unfold line_ok, not_c, comment_lines, item_ok, gap_nonempty, trailer_ok. cbn.
    repeat match goal with
           | |- _ /\ _ => split
           | |- Forall _ [] => constructor
           | |- Forall _ (_ :: _) => constructor
           | |- True => exact I
           | |- _ <> _ => discriminate
           | |- _ = _ => reflexivity
           | |- "" = "" \/ _ => left; reflexivity
           | |- _ \/ (exists c r, String ?x ?y = String c r /\ _) => right; exists x, y; split; reflexivity
           end.
    all: try (left; reflexivity); try (right; reflexivity).
  - repeat constructor.
Qed.

(* ---- letter case ---- *)

(* option tokenisation of a cell card (re.sub(' *: *', ':'), lower(), the
   replacement of ( ) = by blanks, split()): spellings that differ only in
   letter case give the same keyword list *)
Theorem C14_case_invariant_options : forall s s' : string,
  lower s = lower s' -> opt_tokens s = opt_tokens s'.
Proof. exact opt_tokens_case. Qed.
Print Assumptions C14_case_invariant_options.

(* the surface and data splits cut a card at the same places whatever the
   case of its letters (their consumers lower-case the pieces) *)
Theorem C14_case_invariant_splits : forall s : string,
  surf_split (lower s) = map_res lower4 (surf_split s) /\
  data_split (lower s) = map_res lower4 (data_split s).
Proof. intros s. split; [apply surf_split_lower|apply data_split_lower]. Qed.
Print Assumptions C14_case_invariant_splits.

Example C14_case_invariant_nonvacuous :
  lower "IMP:N = 1 *FILL=3 ( 1 0 0 )" = lower "imp:n = 1 *fill=3 ( 1 0 0 )" /\
  opt_tokens "IMP:N = 1 *FILL=3 ( 1 0 0 )" = ["imp:n"; "1"; "*fill"; "3"; "1"; "0"; "0"] /\
  surf_split "*7 3 C/z 1 2 3" = Ok ("*7", "3 ", "C/z", "1 2 3").
Proof. repeat split; reflexivity. Qed.

(* ---- the splits on the content of laid-out cards ---- *)

(* surface card: optional blanks, [+*]* number, blanks, mnemonic, blanks, rest *)
Theorem C14_split_surface : forall w0 bc ds w1 mn w3 rest : string,
  all_chars is_ws w0 = true -> all_chars is_bc bc = true ->
  all_chars is_digit ds = true -> ds <> "" ->
  all_chars is_ws w1 = true -> w1 <> "" ->
  all_chars is_mnemo mn = true -> mn <> "" ->
  all_chars is_ws w3 = true -> w3 <> "" -> head_fails is_ws rest ->
  surf_split (w0 ++ bc ++ ds ++ w1 ++ mn ++ w3 ++ rest) = Ok (bc ++ ds, "", mn, rest).
Proof. exact surf_split_plain. Qed.
Print Assumptions C14_split_surface.

(* the same with a transformation number between the name and the mnemonic *)
Theorem C14_split_surface_tr : forall w0 bc ds w1 sg d2 w2 mn w3 rest : string,
  all_chars is_ws w0 = true -> all_chars is_bc bc = true ->
  all_chars is_digit ds = true -> ds <> "" ->
  all_chars is_ws w1 = true -> w1 <> "" ->
  all_chars is_sign sg = true -> all_chars is_digit d2 = true -> d2 <> "" ->
  all_chars is_ws w2 = true ->
  all_chars is_mnemo mn = true -> mn <> "" ->
  all_chars is_ws w3 = true -> w3 <> "" -> head_fails is_ws rest ->
  surf_split (w0 ++ bc ++ ds ++ w1 ++ sg ++ d2 ++ w2 ++ mn ++ w3 ++ rest)
  = Ok (bc ++ ds, sg ++ d2 ++ w2, mn, rest).
Proof. exact surf_split_tr. Qed.
Print Assumptions C14_split_surface_tr.

(* on the content computed by Card.content for a laid-out surface card
   (C14_cards_layout: pad, tokens joined by single blanks, pad) *)
Theorem C14_split_surface_rendered : forall (bl br : bool) (bc ds mn p : string) (ps : list string),
  all_chars is_bc bc = true -> all_chars is_digit ds = true -> ds <> "" ->
  all_chars is_mnemo mn = true -> mn <> "" -> is_token p ->
  surf_split (pad bl ++ join " " ((bc ++ ds) :: mn :: p :: ps) ++ pad br)
  = Ok (bc ++ ds, "", mn, join " " (p :: ps) ++ pad br).
Proof. exact surf_split_rendered. Qed.
Print Assumptions C14_split_surface_rendered.

(* numbered data card (M7, TR3, *TR3, ...) on the content of a laid-out card *)
Theorem C14_split_data_rendered : forall (bl br : bool) (st ty ds : string) (ps : list string),
  all_chars (ceq "*") st = true ->
  all_chars nondigit ty = true -> (exists c ty', ty = String c ty' /\ is_letter c = true) ->
  all_chars is_digit ds = true -> ds <> "" ->
  data_split (pad bl ++ join " " ((st ++ ty ++ ds) :: ps) ++ pad br)
  = Ok (st ++ ty, ds, "", match ps with [] => "" | _ => " " ++ join " " ps end ++ pad br).
Proof. exact data_split_rendered. Qed.
Print Assumptions C14_split_data_rendered.

Example C14_split_nonvacuous :
  surf_split (pad true ++ join " " (("*" ++ "12") :: "c/z" :: "1.5" :: ["0"; "2"]) ++ pad true)
  = Ok ("*12", "", "c/z", "1.5 0 2 ") /\
  data_split (pad false ++ join " " (("*" ++ "tr" ++ "7") :: ["1"; "2"; "3"]) ++ pad false)
  = Ok ("*tr", "7", "", " 1 2 3").
Proof. split; reflexivity. Qed.
