(* C14 — Output does not depend on MCNP-insignificant formatting of the deck.
   Only restatements; proofs are in C14/Proofs*.v. *)
From Coq Require Import List NArith Bool String Ascii.
From T4V Require Import Base.Str C14.Model.
Import ListNotations.
Open Scope string_scope.
