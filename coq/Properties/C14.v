(* C14 — Output does not depend on MCNP-insignificant formatting of the deck.
   Only restatements; proofs are in C14/Proofs*.v. *)
From Coq Require Import List NArith Bool String Ascii.
From T4V Require Import Base.Str C14.Model C14.ProofsContent C14.ProofsCards C14.ProofsCase
  C14.ProofsSplit C14.ProofsBlocks C14.ProofsCell C14.ProofsFront C14.ProofsNumber
  C14.ProofsDeck C14.ProofsCell2 C14.ProofsMeta C14.ProofsExpand C14.Exec C14.LinkC15Front.
From T4V Require C15.Model C14.LinkC15 C09.Model C02.Text C14.LinkC02 C14.LinkC02Real.
From T4V Require Import Base.Scalar.
Import ListNotations.
Open Scope string_scope.

(* re_spaces.sub(' ', s) in closed form: an optional leading blank, the words
   of s (str.split()) joined by single blanks, an optional trailing blank. *)
Theorem C14_squeeze_closed_form : forall s : string,
  squeeze s =
  pad (starts_ws s) ++ join " " (words s) ++ pad (ends_ws s && nonnil (words s)).
Proof. exact squeeze_closed_form. Qed.
Print Assumptions C14_squeeze_closed_form.

(* Card.content on any placement of a card's tokens on its (non-comment)
   physical lines: whatever blanks and tabs stand between the tokens, wherever
   the lines are broken, whatever "$ ..." or "& ..." trailers end the lines, the
   content is the tokens joined by single blanks (with at most one blank in
   front and one behind), and splitting it gives the tokens back. *)
Theorem C14_content_layout : forall ls : list pline,
  Forall line_ok ls ->
  content (map line_text ls) =
    pad (starts_ws (joined ls)) ++ join " " (flat_map ptoks ls)
    ++ pad (ends_ws (joined ls) && nonnil (flat_map ptoks ls))
  /\ words (content (map line_text ls)) = flat_map ptoks ls.
Proof. intros ls H. split; [exact (content_layout ls H)|exact (content_words ls H)]. Qed.
Print Assumptions C14_content_layout.

(* get_cards(block, skipcomments=True): a block whose cards start on lines that
   are not continuations and continue on lines that are (5 leading blanks after
   tab expansion, or the previous card line ends with "&"), with c-comment
   lines anywhere between the lines, yields exactly the cards' own lines. *)
Theorem C14_cards_grouping : forall (cs : list pcard) (tailc : list string),
  block_ok "" cs -> comment_lines tailc ->
  get_cards_lines (flat_map pc_phys cs ++ tailc)%list = map pc_lines cs.
Proof. exact cards_grouping. Qed.
Print Assumptions C14_cards_grouping.

(* the two together, with every condition stated on the layout itself:
   contents of the cards of a block = tokens joined by single blanks. *)
Theorem C14_cards_layout : forall (cs : list lcard) (tailc : list string),
  lblock_ok noline cs -> comment_lines tailc ->
  map content (get_cards_lines (flat_map pc_phys (map lc_pcard cs) ++ tailc)%list)
  = map card_content_form cs
  /\ map words (map content (get_cards_lines (flat_map pc_phys (map lc_pcard cs) ++ tailc)%list))
     = map lc_toks cs.
Proof.
  intros cs tailc H Ht. split; [exact (cards_layout cs tailc H Ht)|exact (cards_layout_words cs tailc H Ht)].
Qed.
Print Assumptions C14_cards_layout.

(* non-vacuity: two cards on five lines with a tab, an & continuation followed
   by a comment line, a 5-blank continuation, $ trailers *)
Definition ex_c1 : lcard :=
  [ ([], mk_pline [("", "1"); (" ", "so")] " " "&  $ x");
    (["c a comment"], mk_pline [(" ", "5.0")] "" "$ r") ].
Definition ex_c2 : lcard :=
  [ (["C"], mk_pline [("  ", "2"); (String tab "", "PX")] "" "");
    ([], mk_pline [("      ", "1")] "" "") ].

Example C14_cards_layout_nonvacuous :
  lblock_ok noline [ex_c1; ex_c2] /\ comment_lines ["c end"] /\
  (flat_map pc_phys (map lc_pcard [ex_c1; ex_c2]) ++ ["c end"])%list
  = ["1 so &  $ x"; "c a comment"; " 5.0$ r"; "C"; "  2" ++ String tab "PX"; "      1"; "c end"] /\
  map card_content_form [ex_c1; ex_c2] = ["1 so 5.0 "; " 2 PX 1"].
Proof.
  split; [|split; [|split]]; try reflexivity.
  - cbn. unfold line_ok, not_c, comment_lines, item_ok, gap_nonempty, trailer_ok. cbn.
    repeat match goal with
           | |- _ /\ _ => split
           | |- Forall _ [] => constructor
           | |- Forall _ (_ :: _) => constructor
           | |- True => exact I
           | |- _ <> _ => discriminate
           | |- _ = _ => reflexivity
           | |- "" = "" \/ _ => left; reflexivity
           | |- _ \/ (exists c r, String ?x ?y = String c r /\ _) => right; exists x, y; split; reflexivity
           end.
    all: try (left; reflexivity); try (right; reflexivity).
  - repeat constructor.
Qed.

(* ---- letter case ---- *)

(* option tokenisation of a cell card (re.sub(' *: *', ':'), lower(), the
   replacement of ( ) = by blanks, split()): spellings that differ only in
   letter case give the same keyword list *)
Theorem C14_case_invariant_options : forall s s' : string,
  lower s = lower s' -> opt_tokens s = opt_tokens s'.
Proof. exact opt_tokens_case. Qed.
Print Assumptions C14_case_invariant_options.

(* the surface and data splits cut a card at the same places whatever the
   case of its letters (their consumers lower-case the pieces) *)
Theorem C14_case_invariant_splits : forall s : string,
  surf_split (lower s) = map_res lower4 (surf_split s) /\
  data_split (lower s) = map_res lower4 (data_split s).
Proof. intros s. split; [apply surf_split_lower|apply data_split_lower]. Qed.
Print Assumptions C14_case_invariant_splits.

Example C14_case_invariant_nonvacuous :
  lower "IMP:N = 1 *FILL=3 ( 1 0 0 )" = lower "imp:n = 1 *fill=3 ( 1 0 0 )" /\
  opt_tokens "IMP:N = 1 *FILL=3 ( 1 0 0 )" = ["imp:n"; "1"; "*fill"; "3"; "1"; "0"; "0"] /\
  surf_split "*7 3 C/z 1 2 3" = Ok ("*7", "3 ", "C/z", "1 2 3").
Proof. repeat split; reflexivity. Qed.

(* ---- the splits on the content of laid-out cards ---- *)

(* surface card: optional blanks, [+*]* number, blanks, mnemonic, blanks, rest *)
Theorem C14_split_surface : forall w0 bc ds w1 mn w3 rest : string,
  all_chars is_ws w0 = true -> all_chars is_bc bc = true ->
  all_chars is_digit ds = true -> ds <> "" ->
  all_chars is_ws w1 = true -> w1 <> "" ->
  all_chars is_mnemo mn = true -> mn <> "" ->
  all_chars is_ws w3 = true -> w3 <> "" -> head_fails is_ws rest ->
  surf_split (w0 ++ bc ++ ds ++ w1 ++ mn ++ w3 ++ rest) = Ok (bc ++ ds, "", mn, rest).
Proof. exact surf_split_plain. Qed.
Print Assumptions C14_split_surface.

(* the same with a transformation number between the name and the mnemonic *)
Theorem C14_split_surface_tr : forall w0 bc ds w1 sg d2 w2 mn w3 rest : string,
  all_chars is_ws w0 = true -> all_chars is_bc bc = true ->
  all_chars is_digit ds = true -> ds <> "" ->
  all_chars is_ws w1 = true -> w1 <> "" ->
  all_chars is_sign sg = true -> all_chars is_digit d2 = true -> d2 <> "" ->
  all_chars is_ws w2 = true ->
  all_chars is_mnemo mn = true -> mn <> "" ->
  all_chars is_ws w3 = true -> w3 <> "" -> head_fails is_ws rest ->
  surf_split (w0 ++ bc ++ ds ++ w1 ++ sg ++ d2 ++ w2 ++ mn ++ w3 ++ rest)
  = Ok (bc ++ ds, sg ++ d2 ++ w2, mn, rest).
Proof. exact surf_split_tr. Qed.
Print Assumptions C14_split_surface_tr.

(* on the content computed by Card.content for a laid-out surface card
   (C14_cards_layout: pad, tokens joined by single blanks, pad) *)
Theorem C14_split_surface_rendered : forall (bl br : bool) (bc ds mn p : string) (ps : list string),
  all_chars is_bc bc = true -> all_chars is_digit ds = true -> ds <> "" ->
  all_chars is_mnemo mn = true -> mn <> "" -> is_token p ->
  surf_split (pad bl ++ join " " ((bc ++ ds) :: mn :: p :: ps) ++ pad br)
  = Ok (bc ++ ds, "", mn, join " " (p :: ps) ++ pad br).
Proof. exact surf_split_rendered. Qed.
Print Assumptions C14_split_surface_rendered.

(* numbered data card (M7, TR3, *TR3, ...) on the content of a laid-out card *)
Theorem C14_split_data_rendered : forall (bl br : bool) (st ty ds : string) (ps : list string),
  all_chars (ceq "*") st = true ->
  all_chars nondigit ty = true -> (exists c ty', ty = String c ty' /\ is_letter c = true) ->
  all_chars is_digit ds = true -> ds <> "" ->
  data_split (pad bl ++ join " " ((st ++ ty ++ ds) :: ps) ++ pad br)
  = Ok (st ++ ty, ds, "", match ps with [] => "" | _ => " " ++ join " " ps end ++ pad br).
Proof. exact data_split_rendered. Qed.
Print Assumptions C14_split_data_rendered.

Example C14_split_nonvacuous :
  surf_split (pad true ++ join " " (("*" ++ "12") :: "c/z" :: "1.5" :: ["0"; "2"]) ++ pad true)
  = Ok ("*12", "", "c/z", "1.5 0 2 ") /\
  data_split (pad false ++ join " " (("*" ++ "tr" ++ "7") :: ["1"; "2"; "3"]) ++ pad false)
  = Ok ("*tr", "7", "", " 1 2 3").
Proof. split; reflexivity. Qed.

(* ---- blocks ---- *)

(* get_block_positions on a deck laid out as title, cell lines, a non-empty run
   of blank lines (blanks and tabs allowed on them), surface lines, blank
   lines, data lines, any run of blank lines at the end: exactly the title and
   the three blocks come back, whatever the number and content of the blank
   delimiter lines *)
Theorem C14_blocks_layout : forall d : deck_layout,
  deck_ok d -> first_word_message (deck_text d) = Some false ->
  blocks (deck_text d) =
  Ok [("t"%char, d_title d); ("c"%char, unlines (d_cells d));
      ("s"%char, unlines (d_surfs d)); ("d"%char, unlines (d_data d))].
Proof. exact blocks_layout. Qed.
Print Assumptions C14_blocks_layout.

(* the same deck behind a message block and its blank-line delimiter *)
Theorem C14_blocks_layout_message : forall (msg gap0 : list string) (d : deck_layout),
  lines_ok msg -> nonblank_lines msg -> msg <> [] ->
  lines_ok gap0 -> blank_lines gap0 -> gap0 <> [] ->
  deck_ok d -> first_word_message (unlines msg ++ unlines gap0 ++ deck_text d) = Some true ->
  blocks (unlines msg ++ unlines gap0 ++ deck_text d) =
  Ok [("m"%char, unlines msg); ("t"%char, d_title d); ("c"%char, unlines (d_cells d));
      ("s"%char, unlines (d_surfs d)); ("d"%char, unlines (d_data d))].
Proof. exact blocks_layout_message. Qed.
Print Assumptions C14_blocks_layout_message.

Example C14_blocks_layout_nonvacuous :
  deck_ok ex_deck /\ first_word_message (deck_text ex_deck) = Some false /\
  first_word_message (unlines ["MESSAGE: outp=x"] ++ unlines [""] ++ deck_text ex_deck) = Some true.
Proof. split; [exact (proj1 ex_deck_ok)|split; [exact (proj2 ex_deck_ok)|reflexivity]]. Qed.

(* ---- cell cards ---- *)

(* cellcard.split on: blanks, cell number, blanks, zero material, geometry
   (starting with a blank), then the options from the first letter or star that
   follows a blank or a closing parenthesis *)
Theorem C14_split_cell_void : forall (w0 ds w1 m : string) (x : ascii) (g : string) (c d : ascii) (o : string),
  all_chars is_ws w0 = true -> all_chars is_digit ds = true -> ds <> "" ->
  all_chars is_ws w1 = true -> w1 <> "" ->
  all_chars (ceq "0") m = true -> m <> "" -> is_ws x = true ->
  opt_free (w0 ++ ds ++ w1 ++ m ++ String x g ++ String c "") = true ->
  is_opt_lead c = true -> is_opt_start d = true ->
  cell_split (w0 ++ ds ++ w1 ++ m ++ String x g ++ String c (String d o))
  = Ok (w0 ++ ds, w1 ++ m, String x g ++ String c "", String d o).
Proof. exact cell_split_void_options. Qed.
Print Assumptions C14_split_cell_void.

(* the same with a material number and a density *)
Theorem C14_split_cell_material :
  forall (w0 ds w1 m w2 rho : string) (x : ascii) (g : string) (c d : ascii) (o : string),
  all_chars is_ws w0 = true -> all_chars is_digit ds = true -> ds <> "" ->
  all_chars is_ws w1 = true -> w1 <> "" ->
  all_chars is_digit m = true -> all_chars (ceq "0") m = false ->
  all_chars is_ws w2 = true -> w2 <> "" ->
  all_chars dens_char rho = true -> rho <> "" -> is_ws x = true ->
  opt_free (w0 ++ ds ++ w1 ++ m ++ w2 ++ rho ++ String x g ++ String c "") = true ->
  is_opt_lead c = true -> is_opt_start d = true ->
  cell_split (w0 ++ ds ++ w1 ++ m ++ w2 ++ rho ++ String x g ++ String c (String d o))
  = Ok (w0 ++ ds, w1 ++ m ++ w2 ++ rho, String x g ++ String c "", String d o).
Proof. exact cell_split_material_options. Qed.
Print Assumptions C14_split_cell_material.

Example C14_split_cell_nonvacuous :
  opt_free (" " ++ "12" ++ " " ++ "3" ++ "  " ++ "-1.5e-3" ++ String " " "(1:-2) #(3 4)" ++ String ")" "") = true /\
  cell_split (" " ++ "12" ++ " " ++ "3" ++ "  " ++ "-1.5e-3" ++ String " " "(1:-2) #(3 4)" ++ String ")" (String "*" "FILL=2 imp:n=1"))
  = Ok (" 12", " 3  -1.5e-3", " (1:-2) #(3 4))", "*FILL=2 imp:n=1").
Proof. split; reflexivity. Qed.

(* ---- the whole text front end ---- *)

(* MIP.cards(blocks, skipcomments=True) + Card.content on a deck laid out as in
   C14_blocks_layout whose block lines are laid-out cards as in
   C14_cards_layout: the three lists of card contents are the cards' tokens
   joined by single blanks -- independent of blanks, tabs, continuation
   breaks, comment lines, $ and & trailers and blank delimiter lines *)
Theorem C14_front_layout_plain :
  forall (d : deck_layout) (ccs : list lcard) (ctail : list string) (scs : list lcard)
         (stail : list string) (dcs : list lcard) (dtail : list string),
  deck_ok d -> first_word_message (deck_text d) = Some false ->
  d_cells d = block_lines ccs ctail -> d_surfs d = block_lines scs stail ->
  d_data d = block_lines dcs dtail ->
  lblock_ok noline ccs -> lblock_ok noline scs -> lblock_ok noline dcs ->
  comment_lines ctail -> comment_lines stail -> comment_lines dtail ->
  Forall (fun l => no_break l = true) (d_cells d) ->
  Forall (fun l => no_break l = true) (d_surfs d) ->
  Forall (fun l => no_break l = true) (d_data d) ->
  front (deck_text d) =
  Ok (map card_content_form ccs, map card_content_form scs, map card_content_form dcs).
Proof. exact front_layout. Qed.
Print Assumptions C14_front_layout_plain.

(* non-vacuity: the two cards of C14_cards_layout_nonvacuous as surface block *)
Definition ex_front : deck_layout :=
  {| d_title := "Title $ & c"; d_cells := block_lines [[([], mk_pline [("", "1"); (" ", "0"); ("  ", "-1")] "" "")]] [];
     d_gap1 := ["  "]; d_surfs := block_lines [ex_c1; ex_c2] ["c end"]; d_gap2 := [""; ""];
     d_data := block_lines [[(["c m"], mk_pline [("", "nps"); (String tab "", "10")] " " "$ x")]] [];
     d_tail := [] |}.

Example C14_front_layout_nonvacuous :
  front (deck_text ex_front) = Ok (["1 0 -1"], ["1 so 5.0 "; " 2 PX 1"], ["nps 10 "]) /\
  deck_ok ex_front /\ first_word_message (deck_text ex_front) = Some false.
Proof.
  split; [reflexivity|split; [|reflexivity]].
  unfold deck_ok, lines_ok, nonblank_lines, blank_lines. cbn.
  repeat split; repeat constructor; discriminate.
Qed.

(* ---- layout -> split ---- *)

(* a surface card laid out in ANY way (C14_content_layout) is split into the
   same name, mnemonic and parameter string; the layout only decides whether
   the parameter string ends with one blank *)
Theorem C14_surface_card_layout :
  forall (ls : list pline) (bc ds mn p : string) (ps : list string),
  Forall line_ok ls -> flat_map ptoks ls = (bc ++ ds) :: mn :: p :: ps ->
  all_chars is_bc bc = true -> all_chars is_digit ds = true -> ds <> "" ->
  all_chars is_mnemo mn = true -> mn <> "" ->
  surf_split (content (map line_text ls))
  = Ok (bc ++ ds, "", mn, join " " (p :: ps) ++ pad (ends_ws (joined ls))).
Proof. exact surface_card_layout. Qed.
Print Assumptions C14_surface_card_layout.

Theorem C14_surface_layout_invariant :
  forall (ls ls' : list pline) (bc ds mn p : string) (ps : list string),
  Forall line_ok ls -> Forall line_ok ls' ->
  flat_map ptoks ls = (bc ++ ds) :: mn :: p :: ps -> flat_map ptoks ls' = flat_map ptoks ls ->
  all_chars is_bc bc = true -> all_chars is_digit ds = true -> ds <> "" ->
  all_chars is_mnemo mn = true -> mn <> "" ->
  exists b b',
    surf_split (content (map line_text ls)) = Ok (bc ++ ds, "", mn, join " " (p :: ps) ++ pad b) /\
    surf_split (content (map line_text ls')) = Ok (bc ++ ds, "", mn, join " " (p :: ps) ++ pad b').
Proof. exact surface_layout_invariant. Qed.
Print Assumptions C14_surface_layout_invariant.

(* numbered data card (M7, TR3, *TR3 ...) laid out in any way *)
Theorem C14_data_card_layout :
  forall (ls : list pline) (st ty ds : string) (ps : list string),
  Forall line_ok ls -> flat_map ptoks ls = (st ++ ty ++ ds) :: ps ->
  all_chars (ceq "*") st = true ->
  all_chars nondigit ty = true -> (exists c ty', ty = String c ty' /\ is_letter c = true) ->
  all_chars is_digit ds = true -> ds <> "" ->
  data_split (content (map line_text ls))
  = Ok (st ++ ty, ds, "", match ps with [] => "" | _ => " " ++ join " " ps end
                          ++ pad (ends_ws (joined ls))).
Proof. exact data_card_layout. Qed.
Print Assumptions C14_data_card_layout.

Example C14_surface_card_layout_nonvacuous :
  let ls := map snd ex_c1 in
  Forall line_ok ls /\ flat_map ptoks ls = ("" ++ "1") :: "so" :: "5.0" :: [] /\
  surf_split (content (map line_text ls)) = Ok ("1", "", "so", "5.0 ").
Proof.
  cbn. split; [|split; reflexivity].
  unfold line_ok, item_ok, gap_nonempty, trailer_ok. cbn.
  repeat (cbn; match goal with
         | |- _ /\ _ => split
         | |- Forall _ [] => constructor
         | |- Forall _ (_ :: _) => constructor
         | |- True => exact I
         | |- _ <> _ => discriminate
         | |- _ = _ => reflexivity
         | |- _ \/ (exists c r, String ?x ?y = String c r /\ _) => right; exists x, y; split; reflexivity
         end).
Qed.

(* ---- number spellings (token level) ---- *)

(* MIP.mip.datacard.to_float: for one decimal number -- sign s, mantissa
   digits[.digits] or .digits, exponent [+-]?digits -- the spellings with a d
   or D exponent marker, and with no marker when the exponent carries a sign
   (1.5d3, 1.5D3, 1.5+3), are all read, and what is handed to float() is the
   same mantissa and exponent digits joined by "e"; the e/E spellings are read
   as they stand. (What float() makes of "1.5e3" is not modelled.) *)
Theorem C14_to_float_spellings :
  forall (s d1 : string) (frac : option string) (e : string),
  sign_str s -> mant_ok d1 frac -> exp_ok e = true ->
  let m := mantissa d1 frac in
  to_float_form (s ++ m ++ "d" ++ e) = ReadFortran (s ++ m ++ "e" ++ e) /\
  to_float_form (s ++ m ++ "D" ++ e) = ReadFortran (s ++ m ++ "e" ++ e) /\
  (starts_sign e -> to_float_form (s ++ m ++ e) = ReadFortran (s ++ m ++ "e" ++ e)) /\
  to_float_form (s ++ m ++ "e" ++ e) = ReadAsIs (s ++ m ++ "e" ++ e) /\
  to_float_form (s ++ m ++ "E" ++ e) = ReadAsIs (s ++ m ++ "E" ++ e).
Proof. exact to_float_spellings. Qed.
Print Assumptions C14_to_float_spellings.

Example C14_to_float_spellings_nonvacuous :
  sign_str "-" /\ mant_ok "6" (Some "40875") /\ exp_ok "-2" = true /\ starts_sign "-2" /\
  to_float_form "-6.40875-2" = ReadFortran "-6.40875e-2" /\
  to_float_form ".5D+1" = ReadFortran ".5e+1" /\
  to_float_form "5.0+0" = ReadFortran "5.0e+0" /\
  to_float_form "1.5e3d2" = NotRead /\ to_float_form "1.5+-3" = NotRead.
Proof.
  repeat split; try reflexivity; try discriminate.
  - right; right; reflexivity.
  - left; discriminate.
Qed.

(* ==== deepening round ==== *)

(* get_block_positions for every combination: message block or not, final
   newline (then any run of blank lines) or not *)
Theorem C14_blocks_layout_any :
  forall (msg : option (list string * list string)) (fin : bool) (d : deck_layout),
  msg_ok msg -> deck_ok d ->
  first_word_message (full_text msg fin d) = Some (message_flag msg) ->
  blocks (full_text msg fin d) = Ok (expected_blocks msg fin d).
Proof. exact blocks_layout_any. Qed.
Print Assumptions C14_blocks_layout_any.

(* the whole text front end on ANY laid-out deck (no final-newline hypothesis,
   optional message block): the card contents of the three blocks are the
   cards' tokens joined by single blanks *)
Theorem C14_front_layout : forall L : laid_deck,
  laid_ok L -> front (laid_text L) = Ok (laid_contents L).
Proof. exact front_layout_any. Qed.
Print Assumptions C14_front_layout.

(* metamorphic form: two layouts of the same abstract deck (same tokens card by
   card) -- whatever their blanks, tabs, continuation breaks, comment lines,
   trailers, delimiter lines, message block, final newline -- give the same
   token lists to every consumer of the front end *)
Theorem C14_front_metamorphic : forall L1 L2 : laid_deck,
  laid_ok L1 -> laid_ok L2 -> laid_tokens L1 = laid_tokens L2 ->
  front_tokens (laid_text L1) = front_tokens (laid_text L2).
Proof. exact front_metamorphic. Qed.
Print Assumptions C14_front_metamorphic.

(* ... and when the tokens differ only in letter case, the same lists after
   lower() (what the case-insensitive consumers compare) *)
Theorem C14_front_metamorphic_case : forall L1 L2 : laid_deck,
  laid_ok L1 -> laid_ok L2 -> lower_toks (laid_tokens L1) = lower_toks (laid_tokens L2) ->
  map_res lower_toks (front_tokens (laid_text L1)) = map_res lower_toks (front_tokens (laid_text L2)).
Proof. exact front_metamorphic_case. Qed.
Print Assumptions C14_front_metamorphic_case.

(* through the surface split: name, transformation, lower-cased mnemonic and
   parameter list of a surface card do not depend on its layout nor on the
   case of the mnemonic *)
Theorem C14_surface_metamorphic :
  forall (ls ls' : list pline) (bc ds mn mn' p : string) (ps : list string),
  Forall line_ok ls -> Forall line_ok ls' ->
  flat_map ptoks ls = (bc ++ ds) :: mn :: p :: ps -> flat_map ptoks ls' = (bc ++ ds) :: mn' :: p :: ps ->
  lower mn = lower mn' ->
  all_chars is_bc bc = true -> all_chars is_digit ds = true -> ds <> "" ->
  all_chars is_mnemo mn = true -> mn <> "" -> all_chars is_mnemo mn' = true -> mn' <> "" ->
  surf_parsed (content (map line_text ls)) = surf_parsed (content (map line_text ls')) /\
  surf_parsed (content (map line_text ls)) = Ok (bc ++ ds, [], lower mn, p :: ps).
Proof.
  intros. split; [now apply (surface_metamorphic ls ls' bc ds mn mn' p ps)|now apply surface_card_parsed].
Qed.
Print Assumptions C14_surface_metamorphic.

(* cellcard.split on the content Card.content renders for a void cell and for
   a cell with material and density (density without letters) *)
Theorem C14_split_cell_rendered :
  forall (bl br : bool) (name m rho : string) (gs : list string) (d : ascii) (o : string) (os : list string),
  all_chars is_digit name = true -> name <> "" ->
  gs <> [] -> Forall geom_token gs -> is_opt_start d = true ->
  (all_chars (ceq "0") m = true -> m <> "" ->
   cell_split (pad bl ++ join " " (name :: m :: gs ++ String d o :: os) ++ pad br)
   = Ok (pad bl ++ name, " " ++ m, " " ++ join " " gs ++ " ", join " " (String d o :: os) ++ pad br)) /\
  (all_chars is_digit m = true -> all_chars (ceq "0") m = false ->
   all_chars dens_char rho = true -> all_chars nostart rho = true -> rho <> "" ->
   cell_split (pad bl ++ join " " (name :: m :: rho :: gs ++ String d o :: os) ++ pad br)
   = Ok (pad bl ++ name, " " ++ m ++ " " ++ rho, " " ++ join " " gs ++ " ",
         join " " (String d o :: os) ++ pad br)).
Proof.
  intros bl br name m rho gs d o os Hn Nn Ng Hg Hd. split.
  - intros Hm Nm. now apply cell_split_rendered_void.
  - intros Hm Hm0 Hr Hrs Nr. now apply cell_split_rendered_material.
Qed.
Print Assumptions C14_split_cell_rendered.

(* through cellcard.split and the option tokenisation: a void cell card laid
   out in any way, with options in any letter case *)
Theorem C14_cell_metamorphic :
  forall (ls ls' : list pline) (name m : string) (gs : list string)
         (d : ascii) (o : string) (os : list string) (d' : ascii) (o' : string) (os' : list string),
  Forall line_ok ls -> Forall line_ok ls' ->
  flat_map ptoks ls = (name :: m :: gs ++ String d o :: os)%list ->
  flat_map ptoks ls' = (name :: m :: gs ++ String d' o' :: os')%list ->
  lower (join " " (String d o :: os)) = lower (join " " (String d' o' :: os')) ->
  all_chars is_digit name = true -> name <> "" ->
  all_chars (ceq "0") m = true -> m <> "" ->
  gs <> [] -> Forall geom_token gs -> is_opt_start d = true -> is_opt_start d' = true ->
  cell_parsed (content (map line_text ls)) = cell_parsed (content (map line_text ls')) /\
  cell_parsed (content (map line_text ls))
  = Ok ([name], [m], " " ++ join " " gs ++ " ", opt_tokens (join " " (String d o :: os))).
Proof.
  intros. split; [now apply (void_cell_metamorphic ls ls' name m gs d o os d' o' os')|
                  now apply void_cell_card_parsed].
Qed.
Print Assumptions C14_cell_metamorphic.

(* the same for a cell with material and density *)
Theorem C14_material_cell_parsed :
  forall (ls : list pline) (name m rho : string) (gs : list string) (d : ascii) (o : string) (os : list string),
  Forall line_ok ls -> flat_map ptoks ls = (name :: m :: rho :: gs ++ String d o :: os)%list ->
  all_chars is_digit name = true -> name <> "" ->
  all_chars is_digit m = true -> all_chars (ceq "0") m = false ->
  all_chars dens_char rho = true -> all_chars nostart rho = true -> rho <> "" ->
  gs <> [] -> Forall geom_token gs -> is_opt_start d = true ->
  cell_parsed (content (map line_text ls))
  = Ok ([name], [m; rho], " " ++ join " " gs ++ " ", opt_tokens (join " " (String d o :: os))).
Proof. exact material_cell_card_parsed. Qed.
Print Assumptions C14_material_cell_parsed.

(* LIKE n BUT: number, blanks, like, anything, the last but, options *)
Theorem C14_split_likebut :
  forall (w0 ds w1 : string) (l1 l2 l3 l4 : ascii) (mid : string) (b1 b2 b3 : ascii) (rest : string),
  all_chars is_ws w0 = true -> all_chars is_digit ds = true -> ds <> "" ->
  all_chars is_ws w1 = true -> w1 <> "" ->
  lower (String l1 (String l2 (String l3 (String l4 "")))) = "like" ->
  is_but b1 b2 b3 -> has_but rest = false ->
  likebut_split (w0 ++ ds ++ w1 ++ String l1 (String l2 (String l3 (String l4
                   (mid ++ String b1 (String b2 (String b3 rest)))))))
  = Ok (w0 ++ ds,
        w1 ++ String l1 (String l2 (String l3 (String l4 (mid ++ String b1 (String b2 (String b3 "")))))),
        rest).
Proof. exact likebut_split_shape. Qed.
Print Assumptions C14_split_likebut.

(* the option string may end with the blank Card.content leaves behind *)
Theorem C14_options_trailing_blank : forall s : string, opt_tokens (s ++ " ") = opt_tokens s.
Proof. exact opt_tokens_trailing_blank. Qed.
Print Assumptions C14_options_trailing_blank.

(* non-vacuity: the deck of C14_front_layout_nonvacuous without final newline
   and behind a message block; a LIKE BUT card; rendered cell cards *)
Definition ex_laid (msg : option (list string * list string)) (fin : bool) : laid_deck :=
  {| l_msg := msg; l_fin := fin; l_deck := ex_front;
     l_cells := [[([], mk_pline [("", "1"); (" ", "0"); ("  ", "-1")] "" "")]]; l_ctail := [];
     l_surfs := [ex_c1; ex_c2]; l_stail := ["c end"];
     l_data := [[(["c m"], mk_pline [("", "nps"); (String tab "", "10")] " " "$ x")]]; l_dtail := [] |}.

Example C14_front_metamorphic_nonvacuous :
  front (laid_text (ex_laid None false)) = Ok (["1 0 -1"], ["1 so 5.0 "; " 2 PX 1"], ["nps 10 "]) /\
  front (laid_text (ex_laid (Some (["MESSAGE: outp=x"; "     runtpe=r"], [" "])) true))
  = Ok (["1 0 -1"], ["1 so 5.0 "; " 2 PX 1"], ["nps 10 "]) /\
  front_tokens (laid_text (ex_laid None false))
  = Ok ([["1"; "0"; "-1"]], [["1"; "so"; "5.0"]; ["2"; "PX"; "1"]], [["nps"; "10"]]) /\
  first_word_message (laid_text (ex_laid (Some (["MESSAGE: outp=x"; "     runtpe=r"], [" "])) true)) = Some true /\
  likebut_split " 7  LiKe 3 bUt  TRCL=(1 0 0)" = Ok (" 7", "  LiKe 3 bUt", "  TRCL=(1 0 0)") /\
  cell_split (pad true ++ join " " ("12" :: "0" :: ["(1:-2)"; "#(3"; "4)"] ++ "*FILL=2" :: ["imp:n=1"]) ++ pad true)
  = Ok (" 12", " 0", " (1:-2) #(3 4) ", "*FILL=2 imp:n=1 ").
Proof. repeat split; reflexivity. Qed.

Ltac c14_solve :=
  repeat (cbn; match goal with
         | |- _ /\ _ => split
         | |- Forall _ [] => constructor
         | |- Forall _ (_ :: _) => constructor
         | |- True => exact I
         | |- _ <> _ => discriminate
         | |- _ = _ => reflexivity
         | |- "" = "" \/ _ => left; reflexivity
         | |- _ \/ (exists c r, String ?x ?y = String c r /\ _) => right; exists x, y; split; reflexivity
         | |- (_ = true) \/ (_ = true) => first [left; reflexivity | right; reflexivity]
         | |- comment_lines _ => unfold comment_lines
         | |- line_ok _ => unfold line_ok, item_ok, gap_nonempty, trailer_ok
         | |- not_c _ => unfold not_c
         end).

Example C14_laid_ok_nonvacuous :
  laid_ok (ex_laid None false) /\
  laid_ok (ex_laid (Some (["MESSAGE: outp=x"; "     runtpe=r"], [" "])) true).
Proof.
  split; unfold laid_ok, msg_ok, deck_ok, lines_ok, nonblank_lines, blank_lines, breaks_ok,
           comment_lines, line_ok, not_c, item_ok, gap_nonempty, trailer_ok; c14_solve.
Qed.

(* ---- data-card shorthand (token level) ---- *)

(* expand_data_card, for ANY reading of the numbers (V, rd = to_float on a
   plain entry, lin = the interpolates, mul = the product): after an entry
   that reads as v,
     nR   gives the same values as the entry written n more times,
     nJ   the same as n single J,
     nI u the same as the n interpolates written out followed by u,
     xM   the same as the product written out;
   shorthand letters in either case (tokens are lower-cased first). Stated
   for expected=None (the whole card is consumed), values only: the count of
   consumed tokens differs by construction. *)
Theorem C14_shorthand_invariant :
  forall (V : Type) (rd : string -> option V) (lin : V -> V -> nat -> list V) (mul : V -> V -> V)
         (acc : list (option V)) (k : nat) (ts : list string),
  (forall t pre n x v,
     kind_of (lower t) = KRep pre -> count_of pre = Some n -> plain V rd x v ->
     vals V (run V rd lin mul None (Some v :: acc) k (t :: ts))
     = vals V (run V rd lin mul None (Some v :: acc) k (repeat x n ++ ts)%list)) /\
  (forall t pre n,
     kind_of (lower t) = KJump pre -> count_of pre = Some n ->
     vals V (run V rd lin mul None acc k (t :: ts))
     = vals V (run V rd lin mul None acc k (repeat "j" n ++ ts)%list)) /\
  (forall t pre n lo u hi xs,
     kind_of (lower t) = KInt pre -> count_of pre = Some n -> plain V rd u hi ->
     Forall2 (plain V rd) xs (lin lo hi n) ->
     vals V (run V rd lin mul None (Some lo :: acc) k (t :: u :: ts))
     = vals V (run V rd lin mul None (Some lo :: acc) k (xs ++ u :: ts)%list)) /\
  (forall t c pre f v x,
     kind_of (lower t) = KMul (String c pre) -> rd (String c pre) = Some f -> plain V rd x (mul v f) ->
     vals V (run V rd lin mul None (Some v :: acc) k (t :: ts))
     = vals V (run V rd lin mul None (Some v :: acc) k (x :: ts))).
Proof.
  intros V rd lin mul acc k ts. repeat split; intros.
  - eapply expand_repeat; eauto.
  - eapply expand_jump; eauto.
  - eapply expand_interpolate; eauto.
  - eapply expand_multiply; eauto.
Qed.
Print Assumptions C14_shorthand_invariant.

(* non-vacuity at exact rationals: 1 2R 2I 7 3M J  =  1 1 1 3 5 7 21 j *)
Example C14_shorthand_invariant_nonvacuous :
  kind_of (lower "2R") = KRep "2" /\ count_of "2" = Some 2 /\
  plain QArith_base.Q rd_int "1" (QArith_base.inject_Z (BinNums.Zpos BinNums.xH)) /\ kind_of (lower "2I") = KInt "2" /\
  kind_of (lower "3M") = KMul "3" /\ kind_of (lower "J") = KJump "" /\
  vals _ (expand _ rd_int lin_q mul_q None ["1"; "2R"; "2I"; "7"; "3M"; "J"])
  = vals _ (expand _ rd_int lin_q mul_q None ["1"; "1"; "1"; "3"; "5"; "7"; "21"; "j"]) /\
  expand_q None ["1"; "2R"; "2I"; "7"; "3M"; "J"]
  = ser_list ["1/1"; "1/1"; "1/1"; "3/1"; "5/1"; "7/1"; "21/1"; "J"] ++ sep2 ++ "6".
Proof. repeat split; vm_compute; reflexivity. Qed.

(* ==== deepening round 2 ==== *)

(* shorthand with an expected count (FILL arrays): nR equals its expansion when
   the repeated entries fit the count ... *)
Theorem C14_shorthand_expected_fits :
  forall (V : Type) (rd : string -> option V) (lin : V -> V -> nat -> list V) (mul : V -> V -> V)
         (e : nat) (t pre : string) (n : nat) (x : string) (v : V) (acc : list (option V)) (k : nat)
         (ts : list string),
  kind_of (lower t) = KRep pre -> count_of pre = Some n -> plain V rd x v ->
  List.length acc + 1 + n <= e -> n <> 0 ->
  vals V (run V rd lin mul (Some e) (Some v :: acc) k (t :: ts))
  = vals V (run V rd lin mul (Some e) (Some v :: acc) k (repeat x n ++ ts)%list).
Proof. exact expand_repeat_expected. Qed.
Print Assumptions C14_shorthand_expected_fits.

(* ... and is NOT invariant on an over-long card: the shorthand form raises
   ValueError, its expansion is silently cut after the expected number of
   entries (both cards hold too many entries for MCNP) *)
Theorem C14_shorthand_expected_overlong_refuted :
  forall (V : Type) (rd : string -> option V) (lin : V -> V -> nat -> list V) (mul : V -> V -> V)
         (e : nat) (t pre : string) (n : nat) (x : string) (v : V) (acc : list (option V)) (k : nat),
  kind_of (lower t) = KRep pre -> count_of pre = Some n -> plain V rd x v ->
  List.length acc + 1 < e -> e < List.length acc + 1 + n ->
  vals V (run V rd lin mul (Some e) (Some v :: acc) k [t]) = XErr XValue /\
  exists r, vals V (run V rd lin mul (Some e) (Some v :: acc) k (repeat x n)) = XOk r /\ List.length r = e.
Proof. exact expand_repeat_overlong. Qed.
Print Assumptions C14_shorthand_expected_overlong_refuted.

Example C14_shorthand_expected_nonvacuous :
  expand_q (Some 4) ["1"; "5r"] = ser_xerr XValue /\
  expand_q (Some 4) ["1"; "1"; "1"; "1"; "1"; "1"] = ser_list ["1/1"; "1/1"; "1/1"; "1/1"] ++ sep2 ++ "4" /\
  expand_q (Some 4) ["1"; "3r"] = ser_list ["1/1"; "1/1"; "1/1"; "1/1"] ++ sep2 ++ "2".
Proof. repeat split; vm_compute; reflexivity. Qed.

(* rendered cell card whose density holds letters (1.5e-3, 6.4d-2) *)
Theorem C14_split_cell_rendered_density :
  forall (bl br : bool) (name m : string) (r0 : ascii) (rho : string) (gs : list string)
         (d : ascii) (o : string) (os : list string),
  all_chars is_digit name = true -> name <> "" ->
  all_chars is_digit m = true -> all_chars (ceq "0") m = false ->
  all_chars dens_char (String r0 rho) = true -> all_chars nolead (String r0 rho) = true ->
  is_opt_start r0 = false ->
  gs <> [] -> Forall geom_token gs -> is_opt_start d = true ->
  cell_split (pad bl ++ join " " (name :: m :: String r0 rho :: gs ++ String d o :: os) ++ pad br)
  = Ok (pad bl ++ name, " " ++ m ++ " " ++ String r0 rho, " " ++ join " " gs ++ " ",
        join " " (String d o :: os) ++ pad br).
Proof. exact cell_split_rendered_density. Qed.
Print Assumptions C14_split_cell_rendered_density.

(* rendered LIKE n BUT card *)
Theorem C14_split_cell_rendered_like :
  forall (bl br : bool) (name : string) (l1 l2 l3 l4 : ascii) (n : string) (b1 b2 b3 : ascii)
         (opts : list string),
  all_chars is_digit name = true -> name <> "" ->
  lower (String l1 (String l2 (String l3 (String l4 "")))) = "like" -> is_but b1 b2 b3 ->
  is_token n -> has_but (match opts with [] => "" | _ => " " ++ join " " opts end ++ pad br) = false ->
  cell_split (pad bl ++ join " " (name :: String l1 (String l2 (String l3 (String l4 ""))) :: n
                                   :: String b1 (String b2 (String b3 "")) :: opts) ++ pad br)
  = Ok (pad bl ++ name, "",
        " " ++ String l1 (String l2 (String l3 (String l4 (" " ++ n ++ " " ++ String b1 (String b2 (String b3 "")))))),
        match opts with [] => "" | _ => " " ++ join " " opts end ++ pad br).
Proof. exact cell_split_rendered_like. Qed.
Print Assumptions C14_split_cell_rendered_like.

(* LINK to C15 (cell parser: LIKE n BUT resolution through apply_but, keyword
   parsing, defaults): C15's parse_all does not distinguish two card tables
   whose option strings are tokenised alike and whose LIKE geometries agree up
   to case *)
Theorem C14_parse_all_congruence_linked :
  forall (T : Type) (SC : Scalar T) (e : C15.Model.env (T:=T)) (t t' : C15.Model.table),
  C14.LinkC15.table_eq t t' -> C15.Model.parse_all SC e t = C15.Model.parse_all SC e t'.
Proof. intros T SC e t t'. apply C14.LinkC15.parse_all_eq. Qed.
Print Assumptions C14_parse_all_congruence_linked.

(* LINKED metamorphic statement: the cell cards of a deck (void cells, cells
   with material and density, LIKE n BUT cells) laid out in two ways -- any
   blanks, tabs, continuation breaks, comment lines, trailers (C14_content_layout)
   -- with options, LIKE and BUT in any letter case: C14's front end
   (Card.content, cellcard.split, get_cells' int(name)) produces two tables on
   which C15's model of parse_all_cells returns the SAME cells, for every
   environment (importances of the IMP data cards as modelled by C12,
   normalize_float as modelled by C09, float(), TR table, get_ast ...) *)
Theorem C14_parse_metamorphic_linked :
  forall (T : Type) (SC : Scalar T) (e : C15.Model.env (T:=T))
         (Ls Ls' : list (list pline)) (As As' : list acell),
  Forall2 layout_of Ls As -> Forall2 layout_of Ls' As' ->
  Forall acell_ok As -> Forall acell_ok As' -> Forall2 avariant As As' ->
  exists t t',
    entries Ls = map Some t /\ entries Ls' = map Some t' /\
    C15.Model.parse_all SC e t = C15.Model.parse_all SC e t'.
Proof. intros T SC e Ls Ls' As As' H1 H2 H3 H4 H5. exact (parse_metamorphic_linked SC e Ls Ls' As As' H1 H2 H3 H4 H5). Qed.
Print Assumptions C14_parse_metamorphic_linked.

(* in particular with C09's model of normalize_float in the environment *)
Definition c09_normfloat (s : string) : string :=
  match C09.Model.normalize_float s with C09.Model.Ok r => r | C09.Model.Err _ => s end.

Corollary C14_parse_metamorphic_c09_linked :
  forall (T : Type) (SC : Scalar T) (e : C15.Model.env (T:=T))
         (Ls Ls' : list (list pline)) (As As' : list acell),
  Forall2 layout_of Ls As -> Forall2 layout_of Ls' As' ->
  Forall acell_ok As -> Forall acell_ok As' -> Forall2 avariant As As' ->
  let e9 := C15.Model.mkEnv (C15.Model.pyfloat e) (C15.Model.pytrunc e) (C15.Model.tround e)
              (C15.Model.pytotrunc e) (C15.Model.trtab e) (C15.Model.normtr e) c09_normfloat
              (C15.Model.getast e) (C15.Model.imps e) (C15.Model.latopt e) in
  exists t t',
    entries Ls = map Some t /\ entries Ls' = map Some t' /\
    C15.Model.parse_all SC e9 t = C15.Model.parse_all SC e9 t'.
Proof. intros T SC e Ls Ls' As As' H1 H2 H3 H4 H5 e9. exact (parse_metamorphic_linked SC e9 Ls Ls' As As' H1 H2 H3 H4 H5). Qed.
Print Assumptions C14_parse_metamorphic_c09_linked.

(* non-vacuity: a void cell, a material cell and a LIKE cell, twice *)
Definition ex_As : list acell :=
  [AVoid "1" "0" ["-1"; "2"] "i" "mp:n=1" ["u=2"];
   AMat "2" "3" "-" "1.5e-3" ["(1:-2)"] "*" "fill=4" ["(1"; "0"; "0)"];
   ALike "7" "l" "i" "k" "e" "2" "b" "u" "t" ["trcl=(1"; "0"; "0)"]].
Definition ex_As' : list acell :=
  [AVoid "1" "0" ["-1"; "2"] "I" "MP:N=1" ["U=2"];
   AMat "2" "3" "-" "1.5e-3" ["(1:-2)"] "*" "FILL=4" ["(1"; "0"; "0)"];
   ALike "7" "L" "I" "K" "E" "2" "B" "u" "T" ["TRCL=(1"; "0"; "0)"]].
Definition one_line (toks : list string) : list pline :=
  [mk_pline (map (fun t => (" ", t)) toks) "" "$ x"].
Definition two_lines (toks : list string) : list pline :=
  match toks with
  | t :: r => [mk_pline [("", t)] " " "& c"; mk_pline (map (fun t => (String tab "", t)) r) "  " ""]
  | [] => []
  end.

Example C14_parse_metamorphic_linked_nonvacuous :
  Forall2 layout_of (map (fun a => one_line (atoks a)) ex_As) ex_As /\
  Forall2 layout_of (map (fun a => two_lines (atoks a)) ex_As') ex_As' /\
  Forall acell_ok ex_As /\ Forall acell_ok ex_As' /\ Forall2 avariant ex_As ex_As' /\
  entries (map (fun a => two_lines (atoks a)) ex_As')
  = [Some (BinNums.Zpos 1%positive, (" 0", " -1 2 ", "IMP:N=1 U=2 "));
     Some (BinNums.Zpos 2%positive, (" 3 -1.5e-3", " (1:-2) ", "*FILL=4 (1 0 0) "));
     Some (BinNums.Zpos 7%positive, ("", " LIKE 2 BuT", " TRCL=(1 0 0) "))].
Proof.
  unfold layout_of, acell_ok, avariant, ex_As, ex_As', C14.LinkC15.owf, is_but, geom_token, is_token,
    one_line, two_lines, like_word, but_word.
  repeat (cbn; match goal with
         | |- _ /\ _ => split
         | |- Forall _ [] => constructor
         | |- Forall _ (_ :: _) => constructor
         | |- Forall2 _ [] [] => constructor
         | |- Forall2 _ (_ :: _) (_ :: _) => constructor
         | |- True => exact I
         | |- _ <> _ => discriminate
         | |- forall b : bool, _ => intros []
         | |- _ = _ => reflexivity
         | |- "" = "" \/ _ => left; reflexivity
         | |- _ \/ (exists c r, String ?x ?y = String c r /\ _) => right; exists x, y; split; reflexivity
         | |- line_ok _ => unfold line_ok, item_ok, gap_nonempty, trailer_ok
         end).
Qed.

(* open finding message_block_no_blank_after_colon, at model level: a deck
   that is split into its blocks is no longer split when a message block
   "message:outp=x" (no blank after the colon) and a blank line stand in front;
   with the blank it is *)
Theorem C14_message_no_blank_refuted :
  exists d : deck_layout,
    deck_ok d /\ first_word_message (deck_text d) = Some false /\
    (exists l, blocks (deck_text d) = Ok l) /\
    blocks ("message:outp=x" ++ String nl (String nl (deck_text d))) = Err EValue /\
    (exists l, blocks ("message: outp=x" ++ String nl (String nl (deck_text d))) = Ok (("m"%char, "message: outp=x" ++ String nl "") :: l)).
Proof.
  exists ex_deck. split; [exact (proj1 ex_deck_ok)|]. split; [exact (proj2 ex_deck_ok)|].
  split; [eexists; vm_compute; reflexivity|]. split; [vm_compute; reflexivity|].
  eexists; vm_compute; reflexivity.
Qed.
Print Assumptions C14_message_no_blank_refuted.

(* ==== deepening round 3 ==== *)

(* LINK to C02 (reader of surface cards: surfacecard.split, get_surfaces,
   datacard.to_float): a surface card laid out in two ways (C14_content_layout),
   with the mnemonic in any letter case and every parameter in any spelling
   that C02's to_float reads as the same value (same_value; implied by
   same_number, i.e. equal numerals): C02's
   parse_surface_card gives the same (flags, number, TR entry, lower-cased
   mnemonic, parameter VALUES) on the two contents, over every scalar domain
   (reals and binary64) *)
Theorem C14_surface_reader_linked :
  forall (T : Type) (S : Scalar T) (ls ls' : list pline) (bc ds mn mn' p : string) (ps : list string)
         (p' : string) (ps' : list string),
  Forall line_ok ls -> Forall line_ok ls' ->
  flat_map ptoks ls = (bc ++ ds) :: mn :: p :: ps ->
  flat_map ptoks ls' = (bc ++ ds) :: mn' :: p' :: ps' ->
  C02.Text.lower mn = C02.Text.lower mn' ->
  Forall2 (C14.LinkC02.same_value S) (p :: ps) (p' :: ps') ->
  C02.ProofsText.all_chars C02.Text.is_flag bc = true ->
  C02.ProofsText.all_chars is_digit ds = true -> ds <> "" ->
  C02.ProofsText.all_chars C02.Text.is_type_char mn = true -> mn <> "" ->
  C02.ProofsText.all_chars C02.Text.is_type_char mn' = true -> mn' <> "" ->
  C02.Text.parse_surface_card S (content (map line_text ls))
  = C02.Text.parse_surface_card S (content (map line_text ls')) /\
  C02.Text.parse_surface_card S (content (map line_text ls))
  = C02.Model.bind (C02.Text.map_res (C02.Text.to_float S) (p :: ps))
      (fun prm => C02.Model.Ok (bc, parse_digits ds 0, "", C02.Text.lower mn, prm)).
Proof. intros T S. apply C14.LinkC02.surface_reader_linked. Qed.
Print Assumptions C14_surface_reader_linked.

(* the spellings of C14_to_float_spellings denote the same number for C02's
   to_float: 1.5d3 = 1.5D3 = 1.5E3 = 1.5e3 = (signed exponent) 1.5+3 *)
Theorem C14_spellings_same_number_linked :
  forall (s d1 : string) (frac : option string) (e : string),
  sign_str s -> mant_ok d1 frac -> exp_ok e = true ->
  let m := mantissa d1 frac in
  C14.LinkC02.same_number (s ++ m ++ "d" ++ e) (s ++ m ++ "e" ++ e) /\
  C14.LinkC02.same_number (s ++ m ++ "D" ++ e) (s ++ m ++ "e" ++ e) /\
  C14.LinkC02.same_number (s ++ m ++ "E" ++ e) (s ++ m ++ "e" ++ e) /\
  (starts_sign e -> C14.LinkC02.same_number (s ++ m ++ e) (s ++ m ++ "e" ++ e)).
Proof. exact C14.LinkC02.spellings_same_number. Qed.
Print Assumptions C14_spellings_same_number_linked.

Example C14_surface_reader_linked_nonvacuous :
  let ls := map snd ex_c1 in
  let ls' := [mk_pline [("   ", "1")] "" "&"; mk_pline [("", "SO"); (String tab "", "5.0D+0")] " " "$ c"] in
  Forall line_ok ls /\ Forall line_ok ls' /\
  flat_map ptoks ls = ("" ++ "1") :: "so" :: "5.0" :: [] /\
  flat_map ptoks ls' = ("" ++ "1") :: "SO" :: "5.0D+0" :: [] /\
  C02.Text.lower "so" = C02.Text.lower "SO" /\
  Forall2 C14.LinkC02.same_number ["5.0"] ["5.0D+0"] /\
  content (map line_text ls') = " 1 SO 5.0D+0 ".
Proof.
  cbn. unfold line_ok, item_ok, gap_nonempty, trailer_ok, C14.LinkC02.same_number.
  repeat (cbn; match goal with
         | |- _ /\ _ => split
         | |- Forall _ [] => constructor
         | |- Forall _ (_ :: _) => constructor
         | |- Forall2 _ [] [] => constructor
         | |- Forall2 _ (_ :: _) (_ :: _) => constructor
         | |- True => exact I
         | |- _ <> _ => discriminate
         | |- _ = _ => reflexivity
         | |- "" = "" \/ _ => left; reflexivity
         | |- _ \/ (exists c r, String ?x ?y = String c r /\ _) => right; exists x, y; split; reflexivity
         end).
Qed.

(* shorthand with an expected count, the remaining forms: nJ and nI fit-guarded,
   xM without any condition (it stands for one entry) *)
Theorem C14_shorthand_expected_jim :
  forall (V : Type) (rd : string -> option V) (lin : V -> V -> nat -> list V) (mul : V -> V -> V)
         (e : nat) (acc : list (option V)) (k : nat) (ts : list string),
  (forall t pre n,
     kind_of (lower t) = KJump pre -> count_of pre = Some n ->
     List.length acc + n <= e -> n <> 0 ->
     vals V (run V rd lin mul (Some e) acc k (t :: ts))
     = vals V (run V rd lin mul (Some e) acc k (repeat "j" n ++ ts)%list)) /\
  (forall t pre n lo u hi xs,
     kind_of (lower t) = KInt pre -> count_of pre = Some n -> plain V rd u hi ->
     Forall2 (plain V rd) xs (lin lo hi n) ->
     List.length acc + 1 + List.length xs + 1 <= e ->
     vals V (run V rd lin mul (Some e) (Some lo :: acc) k (t :: u :: ts))
     = vals V (run V rd lin mul (Some e) (Some lo :: acc) k (xs ++ u :: ts)%list)) /\
  (forall t c pre f v x,
     kind_of (lower t) = KMul (String c pre) -> rd (String c pre) = Some f -> plain V rd x (mul v f) ->
     vals V (run V rd lin mul (Some e) (Some v :: acc) k (t :: ts))
     = vals V (run V rd lin mul (Some e) (Some v :: acc) k (x :: ts))).
Proof.
  intros V rd lin mul e acc k ts. repeat split; intros.
  - eapply expand_jump_expected; eauto.
  - eapply expand_interpolate_expected; eauto.
  - eapply expand_multiply_expected; eauto.
Qed.
Print Assumptions C14_shorthand_expected_jim.

(* LINK C15 + C09, density in another spelling of its exponent marker: as
   C14_parse_metamorphic_linked, and the densities of a material cell may be any
   two strings that the environment's normalize_float maps to the same string *)
Theorem C14_parse_metamorphic_density_linked :
  forall (T : Type) (SC : Scalar T) (e : C15.Model.env (T:=T))
         (Ls Ls' : list (list pline)) (As As' : list acell),
  Forall2 layout_of Ls As -> Forall2 layout_of Ls' As' ->
  Forall acell_ok As -> Forall acell_ok As' -> Forall2 (avariant_d e) As As' ->
  exists t t',
    entries Ls = map Some t /\ entries Ls' = map Some t' /\
    C15.Model.parse_all SC e t = C15.Model.parse_all SC e t'.
Proof. intros T SC e Ls Ls' As As' H1 H2 H3 H4 H5. exact (parse_metamorphic_density_linked SC e Ls Ls' As As' H1 H2 H3 H4 H5). Qed.
Print Assumptions C14_parse_metamorphic_density_linked.

(* C09's model of normalize_float maps the marker spellings of one density to
   the same string (instances; the general marker-insensitivity of C09's four
   passes is not proved here) *)
Example C14_density_case_c09_nonvacuous :
  c09_normfloat "-1.5E-3" = c09_normfloat "-1.5e-3" /\
  c09_normfloat "-1.5D-3" = c09_normfloat "-1.5e-3" /\
  c09_normfloat "-1.5-3" = c09_normfloat "-1.5e-3" /\
  c09_normfloat "-1.50d-3" = "-1.5e-3".
Proof. repeat split; vm_compute; reflexivity. Qed.

(* ==== round 4 ==== *)
From Coq Require Import ZArith Lia.
Open Scope string_scope.

(* LINK C02 at the reals: spellings that MOVE THE DECIMAL POINT. Two tokens
   that C02's scan_real reads as numerals with the same sign whose mantissas
   agree once scaled to a common power of ten (m * 10^(x-k) = m' * 10^(x'-k))
   are read by C02's to_float as the same real number -- so 5.0, .5e1, 50.-1,
   0.05d2 may stand for each other in C14_surface_reader_linked over RS *)
Theorem C14_decimal_point_same_value_linked :
  forall (p p' : string) (s : bool) (m : N) (x : Z) (m' : N) (x' k : Z),
  C02.Text.scan_real p = Some (C02.Text.mkNum s m x) ->
  C02.Text.scan_real p' = Some (C02.Text.mkNum s m' x') ->
  (k <= x)%Z -> (k <= x')%Z ->
  (Z.of_N m * 10 ^ (x - k) = Z.of_N m' * 10 ^ (x' - k))%Z ->
  C14.LinkC02.same_value RS p p'.
Proof. exact C14.LinkC02Real.same_value_scaled. Qed.
Print Assumptions C14_decimal_point_same_value_linked.

Example C14_decimal_point_nonvacuous :
  C14.LinkC02.same_value RS "5.0" ".5e1" /\ C14.LinkC02.same_value RS "-5.0" "-0.05d2" /\
  C14.LinkC02.same_value RS "5.0" "5" /\ C14.LinkC02.same_value RS "2.50" "+2.5E+0" /\
  C02.Text.scan_real "5.0" <> C02.Text.scan_real ".5e1".
Proof.
  split; [|split; [|split; [|split]]].
  - apply (C14.LinkC02Real.same_value_scaled _ _ false 50 (-1) 5 0 (-1)); try reflexivity; lia.
  - apply (C14.LinkC02Real.same_value_scaled _ _ true 50 (-1) 5 0 (-1)); try reflexivity; lia.
  - apply (C14.LinkC02Real.same_value_scaled _ _ false 50 (-1) 5 0 (-1)); try reflexivity; lia.
  - apply (C14.LinkC02Real.same_value_scaled _ _ false 250 (-2) 25 (-1) (-2)); try reflexivity; lia.
  - vm_compute. discriminate.
Qed.
