(* C14 — Output does not depend on MCNP-insignificant formatting of the deck.
   Only restatements; proofs are in C14/Proofs*.v. *)
From Coq Require Import List NArith Bool String Ascii.
From T4V Require Import Base.Str C14.Model C14.ProofsContent C14.ProofsCards.
Import ListNotations.
Open Scope string_scope.

(* re_spaces.sub(' ', s) in closed form: an optional leading blank, the words
   of s (str.split()) joined by single blanks, an optional trailing blank. *)
Theorem C14_squeeze_closed_form : forall s : string,
  squeeze s =
  pad (starts_ws s) ++ join " " (words s) ++ pad (ends_ws s && nonnil (words s)).
Proof. exact squeeze_closed_form. Qed.
Print Assumptions C14_squeeze_closed_form.

(* Card.content on any placement of a card's tokens on its (non-comment)
   physical lines: whatever blanks and tabs stand between the tokens, wherever
   the lines are broken, whatever "$ ..." or "& ..." trailers end the lines, the
   content is the tokens joined by single blanks (with at most one blank in
   front and one behind), and splitting it gives the tokens back. *)
Theorem C14_content_layout : forall ls : list pline,
  Forall line_ok ls ->
  content (map line_text ls) =
    pad (starts_ws (joined ls)) ++ join " " (flat_map ptoks ls)
    ++ pad (ends_ws (joined ls) && nonnil (flat_map ptoks ls))
  /\ words (content (map line_text ls)) = flat_map ptoks ls.
Proof. intros ls H. split; [exact (content_layout ls H)|exact (content_words ls H)]. Qed.
Print Assumptions C14_content_layout.

(* get_cards(block, skipcomments=True): a block whose cards start on lines that
   are not continuations and continue on lines that are (5 leading blanks after
   tab expansion, or the previous card line ends with "&"), with c-comment
   lines anywhere between the lines, yields exactly the cards' own lines. *)
Theorem C14_cards_grouping : forall (cs : list pcard) (tailc : list string),
  block_ok "" cs -> comment_lines tailc ->
  get_cards_lines (flat_map pc_phys cs ++ tailc)%list = map pc_lines cs.
Proof. exact cards_grouping. Qed.
Print Assumptions C14_cards_grouping.

(* the two together, with every condition stated on the layout itself:
   contents of the cards of a block = tokens joined by single blanks. *)
Theorem C14_cards_layout : forall (cs : list lcard) (tailc : list string),
  lblock_ok noline cs -> comment_lines tailc ->
  map content (get_cards_lines (flat_map pc_phys (map lc_pcard cs) ++ tailc)%list)
  = map card_content_form cs
  /\ map words (map content (get_cards_lines (flat_map pc_phys (map lc_pcard cs) ++ tailc)%list))
     = map lc_toks cs.
Proof.
  intros cs tailc H Ht. split; [exact (cards_layout cs tailc H Ht)|exact (cards_layout_words cs tailc H Ht)].
Qed.
Print Assumptions C14_cards_layout.

(* non-vacuity: two cards on five lines with a tab, an & continuation followed
   by a comment line, a 5-blank continuation, $ trailers *)
Definition ex_c1 : lcard :=
  [ ([], mk_pline [("", "1"); (" ", "so")] " " "&  $ x");
    (["c a comment"], mk_pline [(" ", "5.0")] "" "$ r") ].
Definition ex_c2 : lcard :=
  [ (["C"], mk_pline [("  ", "2"); (String tab "", "PX")] "" "");
    ([], mk_pline [("      ", "1")] "" "") ].

Example C14_cards_layout_nonvacuous :
  lblock_ok noline [ex_c1; ex_c2] /\ comment_lines ["c end"] /\
  (flat_map pc_phys (map lc_pcard [ex_c1; ex_c2]) ++ ["c end"])%list
  = ["1 so &  $ x"; "c a comment"; " 5.0$ r"; "C"; "  2" ++ String tab "PX"; "      1"; "c end"] /\
  map card_content_form [ex_c1; ex_c2] = ["1 so 5.0 "; " 2 PX 1"].
Proof.
  split; [|split; [|split]]; try reflexivity.
  - cbn. unfold line_ok, not_c, comment_lines, item_ok, gap_nonempty, trailer_ok. cbn.
    repeat match goal with
           | |- _ /\ _ => split
           | |- Forall _ [] => constructor
           | |- Forall _ (_ :: _) => constructor
           | |- True => exact I
           | |- _ <> _ => discriminate
           | |- _ = _ => reflexivity
           | |- "" = "" \/ _ => left; reflexivity
           | |- _ \/ (exists c r, String ?x ?y = String c r /\ _) => right; exists x, y; split; reflexivity
           end.
    all: try (left; reflexivity); try (right; reflexivity).
  - repeat constructor.
Qed.
