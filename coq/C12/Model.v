(* C12 / C15 — model of the cell-parameter path (token level):
     MIP/mip/datacard.py    expand_data_card, linspace, logspace     [expand]
     MIP/geom/cells.py      get_cell_importances (dict by card name),
                            get_cells (dict by cell number)           [dict_set]
     Parser/ParseMCNPCell.py parse_importance_cards                   [importance_cards]
                            parse_keywords + parse_fill_kw/lat/trcl   [parse_kw]
                            parse_material, to_fillid,
                            parse_one_cell_worker                     [cell_worker]
                            LIKE_RE loop + apply_but                  [resolve_like]
                            parse_all_cells + skipped_cells           [parse_cells]
     Volume/ConstructVolumeT4.py conv_keys filter                     [conv_keys]
   What is NOT modelled and enters as a parameter (record [prims]): Python's
   float() on a token, int()/round() of a float, x**y, normalize_float, and the
   table of TR cards (get_mcnp_transforms). The numerical post-processing of
   transformation parameters (to_cos, normalize_transform; property C04) stays
   symbolic: [trparams] says which numbers go through them.
   The regex tokenisation of cards (cellcard.split, datacard.split) is not
   modelled: the model starts from (material, geometry | LIKE n, options) and
   from the (name, entries) of the IMP cards; the tie runs the real tokenisation.
   Executable; proofs live in C12/Proofs*.v and C15/Proofs.v. *)
From Coq Require Import List NArith ZArith Bool String Ascii.
From T4V Require Import Base.Str Base.Scalar C12.Text.
Import ListNotations.
Open Scope string_scope.
Open Scope list_scope.

(* Python exception classes the path can raise (ECell = ParseMCNPCellError,
   ELoop = the LIKE loop does not terminate: the model ran out of fuel) *)
Inductive err := EIndex | EValue | EType | EZeroDiv | EKey | ECell | EMissingLattice | EAssert | ETransf | EAttr | ELoop.
Inductive res (A : Type) := Ok (a : A) | Err (e : err).
Arguments Ok {A}. Arguments Err {A}.

Definition bind {A B} (r : res A) (f : A -> res B) : res B :=
  match r with Ok a => f a | Err e => Err e end.
Notation "'do' x <- r ; k" := (bind r (fun x => k)) (at level 200, x pattern, r at level 100, k at level 200).

Definition of_opt {A} (e : err) (o : option A) : res A :=
  match o with Some a => Ok a | None => Err e end.

(* OrderedDict assignment d[k] = v: the position of the first insertion is kept *)
Fixpoint dict_set {K V} (eqb : K -> K -> bool) (k : K) (v : V) (d : list (K * V)) : list (K * V) :=
  match d with
  | [] => [(k, v)]
  | (k', v') :: r => if eqb k k' then (k, v) :: r else (k', v') :: dict_set eqb k v r
  end.

Definition dict_of {K V} (eqb : K -> K -> bool) (l : list (K * V)) : list (K * V) :=
  fold_left (fun d kv => dict_set eqb (fst kv) (snd kv) d) l [].

Fixpoint dict_get {K V} (eqb : K -> K -> bool) (k : K) (d : list (K * V)) : option V :=
  match d with
  | [] => None
  | (k', v) :: r => if eqb k k' then Some v else dict_get eqb k r
  end.

(* what the code keeps as filltr / trcl; the numbers that still have to go
   through to_cos and/or normalize_transform are tagged, not computed *)
Inductive trparams (T : Type) :=
| TPVals (l : list T)        (* the numbers as stored: (), a TR card, a translation + identity *)
| TPNorm (l : list T)        (* un-starred inline parameters: normalize_transform l *)
| TPNormCos (l : list T).    (* starred inline parameters: normalize_transform (l[:3] ++ map to_cos l[3:12] ++ l[12:]) *)
Arguments TPVals {T}. Arguments TPNorm {T}. Arguments TPNormCos {T}.

Inductive funivs := FUInt (u : Z) | FUList (l : list (option Z)).

Inductive fillid :=
| FNone
| FUniv (u : Z)
| FLattice (bounds : list (Z * Z)) (univs : list (option Z)).

Record prims (T : Type) := mkPrims {
  fl : string -> option T;        (* float(tok); None = ValueError *)
  tf : string -> option T;        (* datacard.to_float(tok): float(), else the Fortran spellings 5.0+0, 5.0d0, 6.40875-2 *)
  tz : T -> Z;                    (* int(x) *)
  rnd : T -> Z;                   (* round(x) *)
  pw : T -> T -> T;               (* x ** y on floats *)
  nf : string -> string;          (* Utils.normalize_float *)
  trs : Z -> option (list T)      (* get_mcnp_transforms(parser).get(n) *)
}.
Arguments fl {T}. Arguments tf {T}. Arguments tz {T}. Arguments rnd {T}. Arguments pw {T}. Arguments nf {T}. Arguments trs {T}.

Section Model.
  Context {T : Type} (Sc : Scalar T) (P : prims T).

  (* ================= expand_data_card ================= *)

  (* int(token[:-k]) if len(token) > k else 1 *)
  Definition count_tok (body : string) : res Z :=
    if is_empty body then Ok 1%Z else of_opt EValue (int_tok body).

  Definition zrange (n : Z) : list Z := map (fun i => Z.of_nat i) (seq 1 (Z.to_nat n)).

  (* linspace(result[-1], upper_token, n_vals_token) *)
  Definition linspace (lower : option T) (upper_tok body : string) : res (list (option T)) :=
    do upper <- of_opt EValue (tf P upper_tok);
    do lo <- of_opt EType lower;
    do n <- count_tok body;
    if (n + 1 =? 0)%Z then Err EZeroDiv else
    let step := sdiv Sc (ssub Sc upper lo) (sofZ Sc (n + 1)) in
    Ok (map (fun i => Some (sadd Sc lo (smul Sc (sofZ Sc i) step))) (zrange n) ++ [Some upper]).

  (* logspace(result[-1], upper_token, n_vals_token); [tok] is the lower-cased
     token, which ends in "log" *)
  Definition logspace (lower : option T) (upper_tok tok : string) : res (list (option T)) :=
    do upper <- of_opt EValue (fl P upper_tok);
    do lo <- of_opt EType lower;
    let body3 := but_last_n 3 tok in
    let ilog := match last_char body3 with Some "i"%char => true | _ => false end in
    (* None = the float 1.0 the code uses for a bare "ilog": range() raises TypeError *)
    do n <- (if ilog
             then (if is_empty (but_last body3) then Ok None
                   else do z <- of_opt EValue (int_tok (but_last body3)); Ok (Some z))
             else do z <- of_opt EValue (int_tok body3); Ok (Some z));
    if seqb Sc lo (s0 Sc) then Err EZeroDiv else
    match n with
    | None => Err EType
    | Some n =>
        if (n + 1 =? 0)%Z then Err EZeroDiv else
        let ratio := sdiv Sc upper lo in
        if sltb Sc ratio (s0 Sc) && (1 <=? n)%Z then Err EType (* complex power *) else
        let factor := pw P ratio (sdiv Sc (s1 Sc) (sofZ Sc (n + 1))) in
        Ok (map (fun i => Some (smul Sc lo (pw P factor (sofZ Sc i)))) (zrange n) ++ [Some upper])
    end.

  Definition char_is (c : ascii) (o : option ascii) : bool :=
    match o with Some d => Ascii.eqb c d | None => false end.

  (* one iteration of the while loop on the lower-cased token [tok]; [rest] =
     the tokens after it; [acc] = result so far, REVERSED (head = result[-1]).
     Returns the new result and how many tokens of [rest] were popped too. *)
  Definition expand_step (tok : string) (rest : list string) (acc : list (option T))
    : res (list (option T) * nat) :=
    let last := last_char tok in
    let body := but_last tok in
    match last with
    | None => Err EIndex
    | Some _ =>
      if char_is "r"%char last then
        do n <- count_tok body;
        match acc with
        | [] => Err EIndex
        | v :: _ => Ok (repeat v (Z.to_nat n) ++ acc, O)
        end
      else if char_is "i"%char last then
        match acc with
        | [] => Err EIndex
        | v :: _ =>
            match rest with
            | [] => Err EIndex
            | up :: _ => do vals <- linspace v (lower up) body; Ok (rev vals ++ acc, 1%nat)
            end
        end
      else if char_is "m"%char last then
        if is_empty body then Err EValue else
        do f <- of_opt EValue (tf P body);
        match acc with
        | [] => Err EIndex
        | None :: _ => Err EType
        | Some v :: _ => Ok (Some (smul Sc v f) :: acc, O)
        end
      else if char_is "j"%char last then
        do n <- count_tok body;
        Ok (repeat None (Z.to_nat n) ++ acc, O)
      else if ends_with "log" tok then
        match acc with
        | [] => Err EIndex
        | v :: _ =>
            match rest with
            | [] => Err EIndex
            | up :: _ => do vals <- logspace v (lower up) tok; Ok (rev vals ++ acc, 1%nat)
            end
        end
      else
        do v <- of_opt EValue (tf P tok); Ok (Some v :: acc, O)
    end.

  Definition reached (expected : option Z) (acc : list (option T)) : bool :=
    match expected with
    | None => false
    | Some e => negb (Z.of_nat (List.length acc) <? e)%Z
    end.

  (* the while loop; [skip] tokens were already popped by the previous step *)
  Fixpoint expand_loop (toks : list string) (skip : nat) (expected : option Z)
           (acc : list (option T)) (consumed : nat) : res (list (option T) * nat) :=
    match toks with
    | [] => Ok (acc, consumed)
    | t :: rest =>
        match skip with
        | S k => expand_loop rest k expected acc consumed
        | O =>
            if reached expected acc then Ok (acc, consumed) else
            do (acc', extra) <- expand_step (lower t) rest acc;
            expand_loop rest extra expected acc' (consumed + 1 + extra)
        end
    end.

  (* expand_data_card(tokens, expected=..., dtype='float'): values in order and
     the number of tokens consumed *)
  Definition expand (toks : list string) (expected : option Z) : res (list (option T) * nat) :=
    do (acc, consumed) <- expand_loop toks O expected [] O;
    match expected with
    | Some e => if (Z.of_nat (List.length acc) =? e)%Z then Ok (rev acc, consumed) else Err EValue
    | None => Ok (rev acc, consumed)
    end.

  (* ================= parse_importance_cards ================= *)

  Fixpoint expand_all (cards : list (string * list string)) : res (list (list (option T))) :=
    match cards with
    | [] => Ok []
    | (_, toks) :: r =>
        do (vals, _) <- expand toks None;
        do rest <- expand_all r;
        Ok (vals :: rest)
    end.

  (* Python max(a, b): TypeError on None; first maximal element *)
  Definition pmax (a b : option T) : res (option T) :=
    match a, b with
    | Some x, Some y => Ok (Some (if sltb Sc x y then y else x))
    | _, _ => Err EType
    end.

  Fixpoint zip_max (a b : list (option T)) : res (list (option T)) :=
    match a, b with
    | x :: a', y :: b' => do m <- pmax x y; do r <- zip_max a' b'; Ok (m :: r)
    | _, _ => Ok []
    end.

  Fixpoint fold_max (a : list (option T)) (others : list (list (option T))) : res (list (option T)) :=
    match others with
    | [] => Ok a
    | b :: r => do m <- zip_max a b; fold_max m r
    end.

  (* [cards]: (card name lower-cased, entries) of every IMP data card, in deck order *)
  Definition importance_cards (cards : list (string * list string)) : res (list (option T)) :=
    match dict_of String.eqb cards with
    | [] => Ok []
    | d =>
        do imps <- expand_all d;
        match imps with
        | [] => Ok []
        | first :: others =>
            if forallb (fun l => Nat.eqb (List.length l) (List.length first)) others
            then fold_max first others
            else Err ECell
        end
    end.

  (* ================= parse_keywords ================= *)

  Record kws := mkKws {
    k_imp : option T;
    k_fbounds : option (list (Z * Z));
    k_funivs : option funivs;
    k_fparams : option (trparams T);
    k_lat : option Z;
    k_trcl : option (trparams T);
    k_u : option Z;
    k_rho : option string;
    k_mat : option string;
    k_impmap : list (string * T)    (* imp_by_particle, in insertion order *)
  }.

  Definition kws0 : kws := mkKws None None None None None None None None None [].

  (* max(d.values()) of a non-empty dictionary: the first largest value *)
  Definition max_values (d : list (string * T)) : option T :=
    match map snd d with
    | [] => None
    | x :: r => Some (fold_left (fun m y => if sltb Sc m y then y else m) r x)
    end.

  (* for particle in particles: imp_by_particle[particle] = x *)
  Definition assign (ps : list string) (x : T) (d : list (string * T)) : list (string * T) :=
    fold_left (fun d p => dict_set String.eqb p x d) ps d.

  Definition identity9 : list T :=
    [s1 Sc; s0 Sc; s0 Sc; s0 Sc; s1 Sc; s0 Sc; s0 Sc; s0 Sc; s1 Sc].

  Fixpoint floats_of (toks : list string) : res (list T) :=
    match toks with
    | [] => Ok []
    | t :: r => do v <- of_opt EValue (tf P t); do l <- floats_of r; Ok (v :: l)
    end.

  (* parse_ranges *)
  Fixpoint parse_ranges (toks : list string) : res (list (Z * Z)) :=
    match toks with
    | [] => Ok []
    | t :: r =>
        match split_colon t with
        | [a; b] =>
            do lo <- of_opt EValue (int_tok a);
            do hi <- of_opt EValue (int_tok b);
            do l <- parse_ranges r;
            Ok ((lo, hi) :: l)
        | _ => Err EValue
        end
    end.

  Definition bounds_size (b : list (Z * Z)) : Z :=
    fold_left (fun x y => (x * (snd y - fst y + 1))%Z) b 1%Z.

  (* the numeric tokens that follow FILL's universe specification, or TRCL
     (parse_fill_kw and parse_trcl_kw treat them in the same way) *)
  Definition fill_params (trcl star : bool) (ptoks : list string) : res (trparams T) :=
    do vals <- floats_of ptoks;
    match vals with
    | [] => Ok (if trcl && star then TPNormCos [] else TPVals [])   (* '*trcl' alone: normalize_transform([]); '*fill=n' alone: () *)
    | [x] => do l <- of_opt EKey (trs P (tz P x)); Ok (TPVals (firstn 12 l))
    | [a; b; c] => Ok (TPVals ([a; b; c] ++ identity9))
    | _ =>
        (* what normalize_transform refuses (TransformationError): a 13th entry
           other than 1, or 1, 2, 4, 7, 8 matrix entries *)
        let m_bad := match nth_error vals 12, Nat.eqb (List.length vals) 13 with
                     | Some m, true => negb (seqb Sc m (s1 Sc))
                     | _, _ => false
                     end in
        let nmat := (Nat.min (List.length vals) 12 - 3)%nat in
        if m_bad || existsb (Nat.eqb nmat) [1; 2; 4; 7; 8]%nat then Err ETransf
        else Ok (if star then TPNormCos vals else TPNorm vals)
    end.

  (* parse_fill_kw: value and number of tokens popped from [rest] *)
  Definition parse_fill (star : bool) (rest : list string)
    : res (option (list (Z * Z)) * funivs * trparams T * nat) :=
    match rest with
    | [] => Err EIndex
    | first :: _ =>
        if contains_char ":" first then
          let rtoks := take_ranges rest in
          let after := skipn (List.length rtoks) rest in
          do bounds <- parse_ranges rtoks;
          let size := bounds_size bounds in
          do (vals, consumed) <-
             match expand after (Some size) with
             | Err EValue => Err ECell
             | r => r
             end;
          (* del kw_list[-consumed:] removes everything when consumed = 0 *)
          let after' := if Nat.eqb consumed 0 then [] else skipn consumed after in
          let used := (List.length rtoks + (if Nat.eqb consumed 0 then List.length after else consumed))%nat in
          let ptoks := take_numeric after' in
          do fp <- fill_params false star ptoks;
          Ok (Some bounds, FUList (map (option_map (rnd P)) vals), fp, (used + List.length ptoks)%nat)
        else
          do x <- of_opt EValue (fl P first);
          let ptoks := take_numeric (tl rest) in
          do fp <- fill_params false star ptoks;
          Ok (None, FUInt (tz P x), fp, (1 + List.length ptoks)%nat)
    end.

  (* parse_trcl_kw *)
  Definition parse_trcl (star : bool) (rest : list string) : res (trparams T * nat) :=
    let ptoks := take_numeric rest in
    do fp <- fill_params true star ptoks;
    Ok (fp, List.length ptoks).

  (* parse_lat_kw *)
  Definition parse_lat (rest : list string) : res Z :=
    match rest with
    | [] => Err EIndex
    | v :: _ =>
        do z <- of_opt ECell (int_tok v);
        if (z =? 1)%Z || (z =? 2)%Z then Ok z else Err ECell
    end.

  Definition pop1 (rest : list string) : res string :=
    match rest with [] => Err EIndex | v :: _ => Ok v end.

  (* one iteration of parse_keywords' loop on keyword token [elt]: the code's
     dispatch, in the code's order *)
  Definition kw_step (elt : string) (rest : list string) (k : kws) : res (kws * nat) :=
    if String.prefix "imp" elt then
      do v <- pop1 rest;
      do x <- of_opt EValue (tf P v);   (* to_float(kw_list.pop()) *)
      (* a later entry replaces an earlier one for the same particle; the
         importance is the largest over the particles *)
      let m := assign (imp_particles elt) x (k_impmap k) in
      Ok (mkKws (max_values m) (k_fbounds k) (k_funivs k) (k_fparams k) (k_lat k) (k_trcl k) (k_u k) (k_rho k) (k_mat k) m, 1%nat)
    else if contains_sub "fill" elt then
      do (b, u, p, n) <- parse_fill (contains_char "*" elt) rest;
      Ok (mkKws (k_imp k) b (Some u) (Some p) (k_lat k) (k_trcl k) (k_u k) (k_rho k) (k_mat k) (k_impmap k), n)
    else if contains_sub "lat" elt then
      do z <- parse_lat rest;
      Ok (mkKws (k_imp k) (k_fbounds k) (k_funivs k) (k_fparams k) (Some z) (k_trcl k) (k_u k) (k_rho k) (k_mat k) (k_impmap k), 1%nat)
    else if contains_sub "trcl" elt then
      do (p, n) <- parse_trcl (contains_char "*" elt) rest;
      Ok (mkKws (k_imp k) (k_fbounds k) (k_funivs k) (k_fparams k) (k_lat k) (Some p) (k_u k) (k_rho k) (k_mat k) (k_impmap k), n)
    else if String.eqb elt "u" then
      do v <- pop1 rest;
      do x <- of_opt EValue (fl P v);
      Ok (mkKws (k_imp k) (k_fbounds k) (k_funivs k) (k_fparams k) (k_lat k) (k_trcl k) (Some (Z.abs (tz P x))) (k_rho k) (k_mat k) (k_impmap k), 1%nat)   (* abs(int(float(v))): U=-n is universe n *)
    else if contains_sub "rho" elt then
      do v <- pop1 rest;
      Ok (mkKws (k_imp k) (k_fbounds k) (k_funivs k) (k_fparams k) (k_lat k) (k_trcl k) (k_u k) (Some v) (k_mat k) (k_impmap k), 1%nat)
    else if contains_sub "mat" elt then
      do v <- pop1 rest;
      Ok (mkKws (k_imp k) (k_fbounds k) (k_funivs k) (k_fparams k) (k_lat k) (k_trcl k) (k_u k) (k_rho k) (Some v) (k_impmap k), 1%nat)
    else Ok (k, O).

  (* parse_keywords on the tokens in reading order *)
  Fixpoint parse_kw (toks : list string) (skip : nat) (k : kws) : res kws :=
    match toks with
    | [] => Ok k
    | t :: rest =>
        match skip with
        | S n => parse_kw rest n k
        | O => do (k', n) <- kw_step t rest k; parse_kw rest n k'
        end
    end.

  (* ================= parse_one_cell_worker ================= *)

  Record cell := mkCell {
    c_mat : string;
    c_rho : option string;
    c_geom : string;              (* the geometry text: get_ast is C11's subject *)
    c_imp : option T;             (* None = Python None (a jump in the IMP card) *)
    c_u : Z;
    c_fill : fillid;
    c_filltr : option (trparams T);
    c_lat : option Z;
    c_trcl : option (trparams T)  (* None = [] *)
  }.

  (* parse_material *)
  Definition parse_material (mat : string) : res (string * option string) :=
    match split_ws mat with
    | [] => Err EIndex
    | id :: r =>
        do z <- of_opt EValue (int_tok id);
        if (z =? 0)%Z then Ok (id, None)
        else match r with
             | [] => Err EIndex
             | d :: _ => Ok (id, Some (nf P d))
             end
    end.

  (* to_fillid *)
  Definition to_fillid (k : kws) (lat_opt : option (list (Z * Z))) : res fillid :=
    match k_fbounds k, k_funivs k with
    | None, None => Ok FNone
    | fb, fu =>
        match k_lat k with
        | Some _ =>
            match fu with
            | Some (FUInt u) =>
                match lat_opt with
                | None => Err EMissingLattice
                | Some b => Ok (FLattice b (repeat (Some u) (Z.to_nat (bounds_size b))))
                end
            | Some (FUList l) =>
                match fb with Some b => Ok (FLattice b l) | None => Err EType end
            | None => Err EType
            end
        | None =>
            match fb with
            | Some _ => Err EAssert
            | None => match fu with
                      | Some (FUInt u) => Ok (FUniv u)
                      | _ => Err EType
                      end
            end
        end
    end.

  Definition is_empty_params (p : trparams T) : bool :=
    match p with
    | TPVals [] => true
    | _ => false
    end.

  Definition cell_worker (importances : list (option T)) (rank : nat)
             (lat_opt : option (list (Z * Z))) (mat geom opts : string) : res cell :=
    do (mid, rho) <- parse_material mat;
    do k <- parse_kw (option_tokens opts) O kws0;
    do imp <- match k_imp k with
              | Some v => Ok (Some v)
              | None => of_opt ECell (nth_error importances rank)
              end;
    let u := match k_u k with Some u => u | None => 0%Z end in
    let mid := match k_mat k with Some m => m | None => mid end in
    let rho := match k_rho k with Some d => Some (nf P d) | None => rho end in
    (* if int(material_id) == 0: density = None (LIKE n BUT MAT=0 is void) *)
    do z <- of_opt EValue (int_tok mid);
    let rho := if (z =? 0)%Z then None else rho in
    do fid <- to_fillid k lat_opt;
    let trcl := match k_trcl k with
                | Some p => if is_empty_params p then None else Some p
                | None => None
                end in
    Ok (mkCell mid rho geom imp u fid (k_fparams k) (k_lat k) trcl).

  (* ================= LIKE n BUT ================= *)

  (* a card after cellcard.split *)
  Inductive body := Explicit (mat geom : string) | Like (n : Z).
  Definition card := (Z * (body * string))%type.       (* number, body, options *)

  (* the LIKE_RE loop with apply_but: the card finally handed to the worker.
     [fuel] bounds the chain length (the code loops for ever on a cycle). *)
  Fixpoint resolve_like (fuel : nat) (d : list card) (b : body) (opts : string)
    : res (string * string * string) :=
    match b with
    | Explicit mat geom => Ok (mat, geom, opts)
    | Like n =>
        match fuel with
        | O => Err ELoop
        | S f =>
            match dict_get Z.eqb n d with
            | None => Err EKey
            | Some (b', opts') => resolve_like f d b' (opts' ++ " " ++ opts)%string
            end
        end
    end.

  (* parse_all_cells: cells in dict order with their rank, and the skip list *)
  Fixpoint parse_ranked (d : list card) (importances : list (option T))
           (lats : list (Z * list (Z * Z))) (todo : list card) (rank : nat)
    : res (list (Z * cell) * list Z) :=
    match todo with
    | [] => Ok ([], [])
    | (key, (b, opts)) :: r =>
        do (mat, geom, o) <- resolve_like (S (List.length d)) d b opts;
        do c <- cell_worker importances rank (dict_get Z.eqb key lats) mat geom o;
        do (cells, skipped) <- parse_ranked d importances lats r (S rank);
        let zero := match c_imp c with Some v => seqb Sc v (s0 Sc) | None => false end in
        Ok ((key, c) :: cells, if zero then key :: skipped else skipped)
    end.

  (* ParseMCNPCell(parser, None, lattice_params).parse() *)
  Definition parse_cells (imp_cards : list (string * list string)) (cards : list card)
             (lats : list (Z * list (Z * Z))) : res (list (Z * cell) * list Z) :=
    do importances <- importance_cards imp_cards;
    let d := dict_of Z.eqb cards in
    match d with
    | [] => Err EValue        (* max() of an empty sequence *)
    | _ => parse_ranked d importances lats d O
    end.

  (* construct_volume_t4: the level-0 cells handed to pot_convert *)
  Definition converted (c : cell) : bool :=
    negb (match c_imp c with Some v => seqb Sc v (s0 Sc) | None => false end)
    && (c_u c =? 0)%Z
    && match c_fill c with FNone => true | _ => false end.

  Definition conv_keys (cells : list (Z * cell)) : list Z :=
    map fst (filter (fun kc => converted (snd kc)) cells).

  (* ---- cells generated by FILL (CellConversion.pot_fill) ---- *)

  (* the cells of the filling universe whose copies are made for the cell
     [key] (nested FILLs followed; a lattice FILL is developed elsewhere and is
     not modelled: no leaves) *)
  Fixpoint fill_leaves (fuel : nat) (cells : list (Z * cell)) (key : Z) : list Z :=
    match fuel with
    | O => []
    | S f =>
        match dict_get Z.eqb key cells with
        | None => []
        | Some c =>
            match c_fill c with
            | FNone => [key]
            | FUniv u =>
                flat_map (fill_leaves f cells)
                         (map fst (filter (fun kc => (c_u (snd kc) =? u)%Z) cells))
            | FLattice _ _ => []
            end
        end
    end.

  (* new_cell = cell.copy(): the container's importance and universe, no FILL,
     material and density of the universe cell *)
  Definition fill_copy (container leaf : cell) : cell :=
    mkCell (c_mat leaf) (c_rho leaf) (c_geom container) (c_imp container) (c_u container)
           FNone (c_filltr container) (c_lat container) (c_trcl container).

  (* (universe cell, container, generated cell) for every level-0 cell filled
     with a universe *)
  Definition generated (cells : list (Z * cell)) : list (Z * Z * cell) :=
    flat_map (fun kc =>
      match c_fill (snd kc) with
      | FUniv _ =>
          if (c_u (snd kc) =? 0)%Z then
            flat_map (fun leaf =>
                        match dict_get Z.eqb leaf cells with
                        | Some lc => [(leaf, fst kc, fill_copy (snd kc) lc)]
                        | None => []
                        end)
                     (fill_leaves (S (List.length cells)) cells (fst kc))
          else []
      | _ => []
      end) cells.

  (* the generated cells that pass the conv_keys filter: (universe cell, container) *)
  Definition conv_generated (cells : list (Z * cell)) : list (Z * Z) :=
    map (fun g => (fst (fst g), snd (fst g))) (filter (fun g => converted (snd g)) (generated cells)).

  (* writeT4Geometry on a deck without FILL: a VOLU line for every converted
     cell unless its key is in the skip list *)
  Definition written_ids (cells : list (Z * cell)) (skipped : list Z) : list Z :=
    filter (fun k => negb (existsb (Z.eqb k) skipped)) (conv_keys cells).

  (* main.py: the NOTE with the skip list is printed iff the list is not empty *)
  Definition note (skipped : list Z) : option (list Z) :=
    match skipped with [] => None | _ => Some skipped end.
End Model.

(* str(list of int): "[1, 2, 30]" *)
Fixpoint join_comma (ws : list string) : string :=
  match ws with
  | [] => ""
  | [w] => w
  | w :: r => (w ++ ", " ++ join_comma r)%string
  end.
Definition py_int_list (l : list Z) : string := ("[" ++ join_comma (map dec_Z l) ++ "]")%string.

(* main.py, end of conversion(): what print() sends to stdout for the skip list,
   as the list of lines separated by newline characters (the text starts with
   an empty line and ends with a newline); nothing for an empty list *)
Definition note_lines (skipped : list Z) : list string :=
  match skipped with
  | [] => []
  | _ => [ "";
           "NOTE: the following cells have been omitted from the conversion";
           "      because their importance is equal to zero:";
           ("      " ++ py_int_list skipped)%string;
           "" ]
  end.
