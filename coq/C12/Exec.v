(* C12 / C15 — execution side of the correspondence: the primitives of the
   model instantiated at binary64 from tables the harness fills in by calling
   Python (float(), normalize_float, the TR cards), float -> int conversions,
   a float power, a numerical reading of the symbolic transformation
   parameters on the cases where it is elementary, and the comparison
   functions used by coq/generated/c12_*.v and c15_*.v. Nothing here is used by
   a theorem. *)
From Coq Require Import List NArith ZArith Bool String Ascii PrimFloat FloatOps.
From Coq Require Uint63.
From T4V Require Import Base.Str Base.Scalar Base.Cases C12.Text C12.Model C12.Cards.
Import ListNotations.
Open Scope string_scope.
Open Scope list_scope.

(* ---------- float -> Z ---------- *)
Definition f_is_finite (x : float) : bool :=
  negb (PrimFloat.is_nan x) && negb (PrimFloat.is_infinity x).

(* int(x): truncation towards zero (0 for nan/inf, where Python raises) *)
Definition f_truncZ (x : float) : Z :=
  if negb (f_is_finite x) || PrimFloat.is_zero x then 0%Z else
  let '(r, e) := FloatOps.Z.frexp (PrimFloat.abs x) in
  let m := Uint63.to_Z (PrimFloat.normfr_mantissa r) in
  let k := (e - 53)%Z in
  let a := if (0 <=? k)%Z then (m * 2 ^ k)%Z else (m / 2 ^ (- k))%Z in
  if PrimFloat.ltb x 0 then (- a)%Z else a.

(* round(x): nearest integer, ties to even *)
Definition f_roundZ (x : float) : Z :=
  if PrimFloat.ltb (PrimFloat.abs x) 0x1p+51%float then f_truncZ (f_round x) else f_truncZ x.

(* ---------- x ** y for x > 0 (tolerance 1e-9 is all the tie needs) ---------- *)
Open Scope float_scope.
Definition f_ln2 : float := 0x1.62e42fefa39efp-1.

Fixpoint atanh_series (n : nat) (k : float) (t2 : float) : float :=
  match n with
  | O => 0
  | S m => 1 / k + t2 * atanh_series m (k + 2) t2
  end.

Definition f_ln (x : float) : float :=
  let '(r, e) := FloatOps.Z.frexp x in
  let '(r, e) := if r <? 0x1.6a09e667f3bcdp-1 then (r * 2, (e - 1)%Z) else (r, e) in
  let t := (r - 1) / (r + 1) in
  f_ofZ e * f_ln2 + 2 * t * atanh_series 16 1 (t * t).

Fixpoint exp_series (n : nat) (k : float) (r : float) : float :=
  match n with
  | O => 1
  | S m => 1 + r / k * exp_series m (k + 1) r
  end.

Definition f_exp (y : float) : float :=
  let k := f_round (y / f_ln2) in
  let r := (y - k * 0x1.62e42fee00000p-1) - k * 0x1.a39ef35793c76p-33 in
  let e := exp_series 22 1 r in
  PrimFloat.ldshiftexp e (Uint63.of_Z (f_truncZ k + FloatOps.shift)).

Definition f_pow (x y : float) : float :=
  if y =? 0 then 1 else if y =? 1 then x else if x =? 0 then 0 else
  if x <? 0 then nan else f_exp (y * f_ln x).
Close Scope float_scope.

(* ---------- primitives from tables ---------- *)
Fixpoint assoc {V} (k : string) (l : list (string * V)) : option V :=
  match l with
  | [] => None
  | (k', v) :: r => if String.eqb k k' then Some v else assoc k r
  end.

Record tables := mkTables {
  t_float : list (string * option float);   (* token -> float(token) or None (ValueError) *)
  t_tofloat : list (string * option float); (* token -> datacard.to_float(token) or None *)
  t_norm : list (string * string);          (* token -> normalize_float(token) *)
  t_trs : list (Z * list float)             (* TR number -> 12 parameters *)
}.

Definition prims_of (t : tables) : prims float := {|
  fl := fun s => match assoc s (t_float t) with Some v => v | None => None end;
  tf := fun s => match assoc s (t_tofloat t) with Some v => v | None => None end;
  tz := f_truncZ;
  rnd := f_roundZ;
  pw := f_pow;
  nf := fun s => match assoc s (t_norm t) with Some v => v | None => "?missing?" end;
  trs := fun n => dict_get Z.eqb n (t_trs t)
|}.

(* ---------- numerical reading of trparams where it is elementary ---------- *)
Inductive tpval :=
| EVals (l : list float)
| EStrs (l : list string)
| EOpaque.                      (* normalize_transform of an abbreviated matrix: C04 *)

Definition f_tocos (a : float) : float :=
  f_cos (PrimFloat.mul a (PrimFloat.div f_pi 180%float)).

Definition cos_tail (l : list float) : list float :=
  firstn 3 l ++ map f_tocos (firstn 9 (skipn 3 l)) ++ skipn 12 l.

Definition f_identity9 : list float := [1;0;0;0;1;0;0;0;1]%float.

Definition f_norm (l : list float) : tpval :=
  match List.length l with
  | 0%nat => EVals ([0;0;0]%float ++ f_identity9)
  | 3%nat => EVals (l ++ f_identity9)
  | 2%nat => EVals (l ++ f_identity9)   (* transf[:3] ++ identity: 11 numbers *)
  | 12%nat => EVals l           (* a complete orthonormal matrix is kept up to 1e-9 *)
  | 13%nat => EVals (firstn 12 l)
  | _ => EOpaque
  end.

Definition eval_tp (p : trparams float) : tpval :=
  match p with
  | TPVals l => EVals l
  | TPNorm l => f_norm l
  | TPNormCos l => f_norm (cos_tail l)
  end.

Definition tpval_eqb (model impl : tpval) : bool :=
  match model, impl with
  | EVals a, EVals b => list_eqb f_close9 a b
  | EStrs a, EStrs b => list_eqb String.eqb a b
  | EOpaque, EVals b => Nat.eqb (List.length b) 12
  | _, _ => false
  end.

Fixpoint list_eqb2 {A B} (e : A -> B -> bool) (a : list A) (b : list B) : bool :=
  match a, b with
  | [], [] => true
  | x :: a', y :: b' => e x y && list_eqb2 e a' b'
  | _, _ => false
  end.

(* ---------- observed cells ---------- *)
Record ocell := mkO {
  o_mat : string; o_rho : option string; o_geom : string; o_imp : option float;
  o_u : Z; o_fill : fillid; o_filltr : option tpval; o_lat : option Z; o_trcl : option tpval
}.

Definition zpair_eqb (a b : Z * Z) : bool := Z.eqb (fst a) (fst b) && Z.eqb (snd a) (snd b).

Definition fillid_eqb (a b : fillid) : bool :=
  match a, b with
  | FNone, FNone => true
  | FUniv u, FUniv v => Z.eqb u v
  | FLattice b1 l1, FLattice b2 l2 =>
      list_eqb zpair_eqb b1 b2 && list_eqb (option_eqb Z.eqb) l1 l2
  | _, _ => false
  end.

(* s.strip() on blanks *)
Definition trim (s : string) : string := srev (lstrip (srev (lstrip s))).

Definition cell_eqb (c : cell (T:=float)) (o : ocell) : bool :=
  String.eqb (c_mat c) (o_mat o)
  && option_eqb String.eqb (c_rho c) (o_rho o)
  && String.eqb (trim (c_geom c)) (o_geom o)   (* get_ast ignores the blanks around the geometry part *)
  && option_eqb f_close9 (c_imp c) (o_imp o)
  && Z.eqb (c_u c) (o_u o)
  && fillid_eqb (c_fill c) (o_fill o)
  && option_eqb tpval_eqb (option_map eval_tp (c_filltr c)) (o_filltr o)
  && option_eqb Z.eqb (c_lat c) (o_lat o)
  && option_eqb tpval_eqb (option_map eval_tp (c_trcl c)) (o_trcl o).

Definition err_eqb (a b : err) : bool :=
  match a, b with
  | EIndex, EIndex | EValue, EValue | EType, EType | EZeroDiv, EZeroDiv | EKey, EKey
  | ECell, ECell | EMissingLattice, EMissingLattice | EAssert, EAssert | ETransf, ETransf | EAttr, EAttr | ELoop, ELoop => true
  | _, _ => false
  end.

(* ---------- case (a): expand_data_card ---------- *)
Definition expand_out := res (list (option float) * nat).

Definition check_expand (c : tables * list string * option Z * expand_out) : bool :=
  let '(t, toks, expected, out) := c in
  match expand FS (prims_of t) toks expected, out with
  | Ok (l1, n1), Ok (l2, n2) => list_eqb (option_eqb f_close9) l1 l2 && Nat.eqb n1 n2
  | Err e1, Err e2 => err_eqb e1 e2
  | _, _ => false
  end.

(* ---------- case (b): ParseMCNPCell(...).parse() ---------- *)
Record pcase := mkCase {
  pc_tables : tables;
  pc_imps : list (string * list string);
  pc_cards : list card;
  pc_lats : list (Z * list (Z * Z));
  pc_ctexts : list string;       (* Card.content() of the cell cards *)
  pc_dtexts : list string;       (* Card.content() of the data cards *)
  pc_out : res (list (Z * ocell) * list Z)
}.

(* the same from the text of the cards *)
Definition run_case_text (c : pcase) :=
  parse_deck_text FS (prims_of (pc_tables c)) (pc_ctexts c) (pc_dtexts c) (pc_lats c).

Definition run_case (c : pcase) :=
  parse_cells FS (prims_of (pc_tables c)) (pc_imps c) (pc_cards c) (pc_lats c).

Definition out_eqb (r : res (list (Z * cell (T:=float)) * list Z)) (o : res (list (Z * ocell) * list Z)) : bool :=
  match r, o with
  | Ok (cells, skipped), Ok (ocells, oskipped) =>
      list_eqb2 (fun a b => Z.eqb (fst a) (fst b) && cell_eqb (snd a) (snd b)) cells ocells
      && list_eqb Z.eqb skipped oskipped
  | Err e1, Err e2 => err_eqb e1 e2
  | _, _ => false
  end.

(* both routes: from the parts the generator wrote, and from the card texts *)
Definition check_parse (c : pcase) : bool :=
  out_eqb (run_case c) (pc_out c) && out_eqb (run_case_text c) (pc_out c).

(* what a whole conversion must show for a deck without FILL: the VOLU ids of
   the file (in the order of the cell dictionary) and the list of the NOTE on
   stdout (None: no NOTE) *)
Definition check_conv (c : pcase * list Z * option (list Z) * list string) : bool :=
  let '(pc, volu, nt, lines) := c in
  match run_case pc with
  | Ok (cells, skipped) =>
      list_eqb Z.eqb (written_ids FS cells skipped) volu
      && option_eqb (list_eqb Z.eqb) (note skipped) nt
      && list_eqb String.eqb (note_lines skipped) lines   (* the bytes of the NOTE *)
  | Err _ => false
  end.

(* decks with FILL=n on level-0 cells (no nesting, no lattice): the written
   non-virtual volumes that stem from a FILL carry the comment (universe cell,
   container); as a multiset these pairs are the model's conv_generated *)
Definition zz_eqb (a b : Z * Z) : bool := Z.eqb (fst a) (fst b) && Z.eqb (snd a) (snd b).
Definition sub_list (a b : list (Z * Z)) : bool := forallb (fun x => existsb (zz_eqb x) b) a.

Definition check_fill (c : pcase * list (Z * Z)) : bool :=
  match run_case (fst c) with
  | Ok (cells, _) =>
      let m := conv_generated FS cells in
      Nat.eqb (List.length m) (List.length (snd c)) && sub_list m (snd c) && sub_list (snd c) m
  | Err _ => false
  end.

(* the option normalisation alone *)
Definition check_tokens (c : string * list string) : bool :=
  list_eqb String.eqb (option_tokens (fst c)) (snd c).
