(* C12 — the property itself on the model, over the reals: a cell is in the
   skip list iff its importance is zero for every particle type (non-negative
   importances), for importances given on data cards and on the cell card; and
   the two witnesses showing where the model (= the code) departs from it. *)
From Coq Require Import List NArith ZArith Bool String Ascii Lia Reals Lra.
From T4V Require Import Base.Str Base.Scalar C12.Text C12.Model C12.Spec C12.ProofsExpand C12.ProofsText C12.ProofsCells.
Import ListNotations.
Open Scope string_scope.
Open Scope list_scope.

(* ================= reals ================= *)
Lemma max2_Rmax a b : max2 RS a b = Rmax a b.
Proof.
  unfold max2. cbn [sltb RS]. unfold Rmax. destruct (Rltb a b) eqn:E.
  - apply Rltb_true in E. destruct (Rle_dec a b); [reflexivity|lra].
  - apply Rltb_false in E. destruct (Rle_dec a b); [lra|reflexivity].
Qed.

Definition nonneg (l : list R) : Prop := Forall (fun x => 0 <= x)%R l.
Definition all_zero (l : list R) : Prop := Forall (fun x => x = 0%R) l.

Lemma fold_pymax_zero r : forall m, (0 <= m)%R -> nonneg r ->
  (fold_left (fun m y => if Rltb m y then y else m) r m = 0%R <-> m = 0%R /\ all_zero r).
Proof.
  induction r as [|y r IH]; intros m Hm Hr.
  - cbn. split; [intros ->; split; [reflexivity|constructor]|intros [-> _]; reflexivity].
  - inversion Hr as [|? ? Hy Hr']; subst. cbn [fold_left].
    assert (0 <= (if Rltb m y then y else m))%R as Hmax by (destruct (Rltb m y); assumption).
    rewrite (IH _ Hmax Hr'). unfold all_zero. split.
    + intros [H0 Hz]. assert (y = 0 /\ m = 0)%R as [-> ->].
      { destruct (Rltb m y) eqn:E; [apply Rltb_true in E|apply Rltb_false in E]; split; lra. }
      split; [reflexivity|constructor; [reflexivity|exact Hz]].
    + intros [-> Hz]. inversion Hz as [|? ? Hy0 Hz']; subst. split; [|exact Hz'].
      destruct (Rltb 0 0); reflexivity.
Qed.

(* the largest value of a dictionary of non-negative numbers is zero iff all are *)
Lemma max_values_zero (d : list (string * R)) m :
  nonneg (map snd d) -> max_values RS d = Some m -> (m = 0%R <-> all_zero (map snd d)).
Proof.
  unfold max_values. cbn [sltb RS]. destruct (map snd d) as [|x r]; [discriminate|].
  intros Hn Hm. injection Hm as <-. inversion Hn as [|? ? Hx Hr]; subst.
  rewrite (fold_pymax_zero r x Hx Hr). unfold all_zero. split.
  - intros [-> Hz]. constructor; [reflexivity|exact Hz].
  - intros Hz. inversion Hz; subst. split; [reflexivity|assumption].
Qed.

(* IMP entries of a cell card: the importance kept by the parser (largest over
   the particles of the last value given to each) is zero iff the importance of
   every particle named is zero *)
Lemma entries_zero_iff (P : prims R) (es : list (imp_entry (T:=R))) :
  es <> [] -> Forall (fun e => fst e <> []) es -> Forall (fun e => 0 <= snd e)%R es ->
  exists m, imp_of_entries RS es = Some m /\
            (m = 0%R <-> forall p, In p (named es) -> last_value p es = Some 0%R).
Proof.
  intros Hne Hps Hnn.
  set (M := assign_all es []).
  assert (NoDup (map fst M)) as Hnd by (apply assign_all_nodup; constructor).
  assert (forall p, dict_get String.eqb p M = last_value p es) as Hget.
  { intros p. unfold M. rewrite get_assign_all. destruct (last_value p es); reflexivity. }
  assert (forall p v, In (p, v) M -> last_value p es = Some v) as Hin.
  { intros p v H. rewrite <- Hget. apply (dict_get_in String.eqb String.eqb_eq); assumption. }
  assert (nonneg (map snd M)) as Hvals.
  { apply Forall_forall. intros v Hv. apply in_map_iff in Hv. destruct Hv as ([p v'] & <- & Hpv).
    cbn [snd]. destruct (last_value_in p es v' (Hin p v' Hpv)) as (ps & Hes & _).
    rewrite Forall_forall in Hnn. exact (Hnn (ps, v') Hes). }
  assert (exists m, max_values RS M = Some m) as [m Hm].
  { destruct es as [|[ps x] r]; [congruence|]. inversion Hps as [|? ? Hp0 _]; subst. cbn [fst] in Hp0.
    destruct ps as [|q ps]; [congruence|].
    destruct (last_value_named q ((q :: ps, x) :: r)) as (y & Hy); [left; reflexivity|].
    rewrite <- Hget in Hy. apply (dict_get_some_in String.eqb String.eqb_eq) in Hy.
    unfold max_values. destruct M as [|[k v] M']; [destruct Hy|]. cbn [map snd]. eexists. reflexivity. }
  exists m. split.
  - unfold imp_of_entries. destruct es; [congruence|exact Hm].
  - rewrite (max_values_zero M m Hvals Hm). unfold all_zero. rewrite Forall_forall. split.
    + intros Hz p Hp. destruct (last_value_named p es Hp) as (y & Hy). rewrite Hy. f_equal.
      apply Hz. rewrite <- Hget in Hy. apply (dict_get_some_in String.eqb String.eqb_eq) in Hy.
      apply in_map_iff. exists (p, y). split; [reflexivity|exact Hy].
    + intros Hz v Hv. apply in_map_iff in Hv. destruct Hv as ([p v'] & <- & Hpv). cbn [snd].
      pose proof (Hin p v' Hpv) as Hl. destruct (last_value_in p es v' Hl) as (ps & Hes & Hpp).
      assert (In p (named es)) as Hnamed
        by (unfold named; apply in_flat_map; exists (ps, v'); split; assumption).
      rewrite (Hz p Hnamed) in Hl. injection Hl as <-. reflexivity.
Qed.

Lemma zip_max2_length (a b : list R) :
  List.length b = List.length a -> List.length (zip_max2 RS a b) = List.length a.
Proof.
  revert b. induction a as [|x a IH]; intros [|y b] H; try discriminate; [reflexivity|].
  cbn [zip_max2 List.length]. f_equal. apply IH. injection H as H. exact H.
Qed.

Lemma zip_max2_nth (a b : list R) r :
  List.length b = List.length a -> (r < List.length a)%nat ->
  nth r (zip_max2 RS a b) 0%R = Rmax (nth r a 0%R) (nth r b 0%R).
Proof.
  revert b r. induction a as [|x a IH]; intros [|y b] r H Hr; try discriminate; [cbn in Hr; lia|].
  destruct r as [|r]; cbn [zip_max2 nth]; [apply max2_Rmax|].
  apply IH; [injection H as H; exact H|cbn in Hr; lia].
Qed.

Lemma zip_max2_nonneg (a b : list R) : nonneg a -> nonneg (zip_max2 RS a b).
Proof.
  revert b. induction a as [|x a IH]; intros [|y b] Ha; try constructor.
  - inversion Ha; subst. rewrite max2_Rmax. unfold Rmax. destruct (Rle_dec x y); lra.
  - inversion Ha; subst. apply IH. assumption.
Qed.

Lemma nonneg_nth l r : nonneg l -> (0 <= nth r l 0)%R.
Proof.
  revert r. induction l as [|x l IH]; intros [|r] H; cbn [nth]; try lra; inversion H; subst; auto.
Qed.

(* per rank: the largest over the particle types is zero iff every one is *)
Lemma col_max_zero others : forall first r,
  Forall (fun l => List.length l = List.length first) others ->
  nonneg first -> Forall nonneg others -> (r < List.length first)%nat ->
  List.length (col_max RS first others) = List.length first /\
  (nth r (col_max RS first others) 0%R = 0%R <->
   nth r first 0%R = 0%R /\ Forall (fun l => nth r l 0%R = 0%R) others).
Proof.
  induction others as [|b others IH]; intros first r Hl Hf Ho Hr.
  - cbn. split; [reflexivity|]. split; [intros H; split; [exact H|constructor]|intros [H _]; exact H].
  - inversion Hl as [|? ? Hb Hl']; subst. inversion Ho as [|? ? Hbn Ho']; subst.
    unfold col_max. cbn [fold_left]. fold (col_max RS (zip_max2 RS first b) others).
    pose proof (zip_max2_length first b Hb) as Hlen.
    destruct (IH (zip_max2 RS first b) r) as [H1 H2].
    + rewrite Hlen. exact Hl'.
    + apply zip_max2_nonneg. exact Hf.
    + exact Ho'.
    + rewrite Hlen. exact Hr.
    + split; [rewrite H1; exact Hlen|]. rewrite H2, (zip_max2_nth first b r Hb Hr).
      pose proof (nonneg_nth first r Hf) as Hx. pose proof (nonneg_nth b r Hbn) as Hy.
      split.
      * intros [Hm Hz]. assert (nth r first 0 = 0 /\ nth r b 0 = 0)%R as [Ha Hb0]
          by (revert Hm; unfold Rmax; destruct (Rle_dec (nth r first 0%R) (nth r b 0%R)); intros; split; lra).
        split; [exact Ha|constructor; assumption].
      * intros [Ha Hz]. inversion Hz as [|? ? Hb0 Hz']; subst. split; [|exact Hz'].
        rewrite Ha, Hb0. unfold Rmax. destruct (Rle_dec 0 0); reflexivity.
Qed.

Lemma col_max_nil others : col_max RS [] others = [].
Proof.
  induction others as [|b o IH]; [reflexivity|].
  unfold col_max in *. cbn [fold_left zip_max2]. exact IH.
Qed.

Lemma is_zero_real (c : cell (T:=R)) : is_zero RS c = true <-> c_imp c = Some 0%R.
Proof.
  unfold is_zero. destruct (c_imp c) as [v|]; cbn [seqb s0 RS].
  - rewrite Reqb_true. split; [intros ->; reflexivity|intros H; injection H as ->; reflexivity].
  - split; discriminate.
Qed.

Section Deck.
  Context (P : prims R).

  Lemma resolve_explicit fuel (d : list card) mat geom opts :
    resolve_like (S fuel) d (Explicit mat geom) opts = Ok (mat, geom, opts).
  Proof. reflexivity. Qed.

  (* what the cell at position r of the cell block is parsed to *)
  Lemma cell_at imp_cards cards lats cells skipped r key mat geom opts :
    parse_cells RS P imp_cards cards lats = Ok (cells, skipped) ->
    nth_error (dict_of Z.eqb cards) r = Some (key, (Explicit mat geom, opts)) ->
    exists imps c, importance_cards RS P imp_cards = Ok imps /\
                   cell_worker RS P imps r (dict_get Z.eqb key lats) mat geom opts = Ok c /\
                   In (key, c) cells.
  Proof.
    intros H Hn. unfold parse_cells in H.
    destruct (importance_cards RS P imp_cards) as [imps|]; cbn [bind] in H; [|discriminate].
    destruct (dict_of Z.eqb cards) as [|d0 d] eqn:Ed; [discriminate|]. rewrite <- Ed in H, Hn.
    destruct (parse_ranked_nth RS P _ _ _ _ _ _ _ _ _ _ _ H Hn) as (m & g & o & c & H1 & H2 & H3).
    rewrite resolve_explicit in H1. injection H1 as <- <- <-.
    exists imps, c. split; [reflexivity|]. split; [exact H2|]. apply (nth_error_In _ _ H3).
  Qed.

  (* any card, explicit or LIKE n BUT *)
  Lemma cell_at_any imp_cards cards lats cells skipped r key b opts :
    parse_cells RS P imp_cards cards lats = Ok (cells, skipped) ->
    nth_error (dict_of Z.eqb cards) r = Some (key, (b, opts)) ->
    exists imps mat geom o c,
      importance_cards RS P imp_cards = Ok imps /\
      resolve_like (S (List.length (dict_of Z.eqb cards))) (dict_of Z.eqb cards) b opts = Ok (mat, geom, o) /\
      cell_worker RS P imps r (dict_get Z.eqb key lats) mat geom o = Ok c /\
      In (key, c) cells.
  Proof.
    intros H Hn. unfold parse_cells in H.
    destruct (importance_cards RS P imp_cards) as [imps|]; cbn [bind] in H; [|discriminate].
    destruct (dict_of Z.eqb cards) as [|d0 d] eqn:Ed; [discriminate|]. rewrite <- Ed in H, Hn.
    destruct (parse_ranked_nth RS P _ _ _ _ _ _ _ _ _ _ _ H Hn) as (m & g & o & c & H1 & H2 & H3).
    exists imps, m, g, o, c. rewrite <- Ed. split; [reflexivity|]. split; [exact H1|].
    split; [exact H2|]. apply (nth_error_In _ _ H3).
  Qed.

  (* LIKE n BUT: the card handed to the parser is card n with the BUT options
     appended to its own *)
  Lemma resolve_like_base fuel (d : list card) n mat geom o1 o2 :
    dict_get Z.eqb n d = Some (Explicit mat geom, o1) ->
    resolve_like (S (S fuel)) d (Like n) o2 = Ok (mat, geom, (o1 ++ " " ++ o2)%string).
  Proof. intros Hd. cbn [resolve_like]. rewrite Hd. reflexivity. Qed.

  (* any card (explicit, LIKE n BUT, chains of LIKE): with [o] the options the
     chain resolves to and [es] the IMP entries met in [o] - those of the cards
     it is LIKE, then its own -, the cell is skipped iff for every particle
     named the LAST entry naming it gives zero, i.e. iff its importance is zero
     for every particle: a BUT importance replaces the base card's. *)
  Theorem chain_zero_iff imp_cards cards lats cells skipped r key b opts mat geom o es :
    parse_cells RS P imp_cards cards lats = Ok (cells, skipped) ->
    nth_error (dict_of Z.eqb cards) r = Some (key, (b, opts)) ->
    resolve_like (S (List.length (dict_of Z.eqb cards))) (dict_of Z.eqb cards) b opts = Ok (mat, geom, o) ->
    opt_imps RS P (option_tokens o) es -> es <> [] -> Forall (fun e => 0 <= snd e)%R es ->
    (In key skipped <-> forall p, In p (named es) -> last_value p es = Some 0%R).
  Proof.
    intros H Hn Hres Hopt Hne Hnn.
    destruct (cell_at_any _ _ _ _ _ _ _ _ _ H Hn) as (imps & m & g & o' & c & Hi & Hr & Hw & Hin).
    rewrite Hres in Hr. injection Hr as <- <- <-.
    pose proof (importance_of_cell RS P _ _ _ _ _ _ _ _ Hopt Hw) as Himp.
    destruct (entries_zero_iff P es Hne (opt_imps_particles RS P _ _ Hopt) Hnn) as (mx & Em & Hz).
    rewrite Em in Himp.
    destruct (skipped_iff_zero RS P _ _ _ _ _ H) as (_ & _ & Hs).
    rewrite (Hs key c Hin), is_zero_real, Himp, <- Hz.
    split; [intros E; injection E as ->; reflexivity|intros ->; reflexivity].
  Qed.

  (* the same for the cards AS WRITTEN: [l] = the options of the cards the LIKE
     chain of the cell visits (nearest first; [] for an explicit card), every
     card of the deck has option text without a colon at either end, the options
     are IMP keywords with a number, one-argument keywords (U RHO MAT LAT) and
     inert words; [ess] = the IMP entries of the base card, of every card of the
     chain, and finally of the card itself *)
  Theorem like_written_zero_iff imp_cards cards lats cells skipped r key b opts l ess :
    parse_cells RS P imp_cards cards lats = Ok (cells, skipped) ->
    nth_error (dict_of Z.eqb cards) r = Some (key, (b, opts)) ->
    chain_cards (S (List.length (dict_of Z.eqb cards))) (dict_of Z.eqb cards) b = Ok l ->
    Forall (fun c => clean_opts (snd (snd c))) (dict_of Z.eqb cards) ->
    Forall2 (fun o es => scan_imps P (option_tokens o) = Some es) (rev l ++ [opts]) ess ->
    List.concat ess <> [] -> Forall (fun e => 0 <= snd e)%R (List.concat ess) ->
    (In key skipped <->
     forall p, In p (named (List.concat ess)) -> last_value p (List.concat ess) = Some 0%R).
  Proof.
    intros H Hn Hc Hd Hs Hne Hnn.
    assert (lead_colon opts = false) as Ho.
    { rewrite Forall_forall in Hd. exact (proj2 (Hd _ (nth_error_In _ _ Hn))). }
    destruct (resolve_chain_tokens _ _ _ opts l Hc Hd Ho) as (mat & geom & o & Hr & _ & Ht).
    apply (chain_zero_iff _ _ _ _ _ _ _ _ _ mat geom o (List.concat ess) H Hn Hr); [|exact Hne|exact Hnn].
    rewrite Ht.
    replace (flat_map option_tokens (rev l) ++ option_tokens opts)
      with (List.concat (map option_tokens (rev l ++ [opts])))
      by (rewrite map_app, concat_app, <- flat_map_concat_map; cbn; rewrite app_nil_r; reflexivity).
    apply (scan_imps_sound RS P _ _ _ (le_n _)). apply scan_imps_concat.
    clear - Hs. induction Hs as [|x y lx ly Hxy _ IH]; [constructor|]. cbn [map]. constructor; assumption.
  Qed.

  (* the same with FILL = n (...) and TRCL = (...) allowed on the cards of the
     chain: every card's tokens are read locally ([loc_imps]) and every card
     after the base starts with a keyword, not with a number *)
  Theorem like_written_local_zero_iff imp_cards cards lats cells skipped r key b opts l ess :
    parse_cells RS P imp_cards cards lats = Ok (cells, skipped) ->
    nth_error (dict_of Z.eqb cards) r = Some (key, (b, opts)) ->
    chain_cards (S (List.length (dict_of Z.eqb cards))) (dict_of Z.eqb cards) b = Ok l ->
    Forall (fun c => clean_opts (snd (snd c))) (dict_of Z.eqb cards) ->
    Forall2 (fun o es => loc_imps RS P (option_tokens o) es) (rev l ++ [opts]) ess ->
    Forall (fun o => hd_not_num (option_tokens o)) (tl (rev l ++ [opts])) ->
    List.concat ess <> [] -> Forall (fun e => 0 <= snd e)%R (List.concat ess) ->
    (In key skipped <->
     forall p, In p (named (List.concat ess)) -> last_value p (List.concat ess) = Some 0%R).
  Proof.
    intros H Hn Hc Hd Hs Hh Hne Hnn.
    assert (lead_colon opts = false) as Ho.
    { rewrite Forall_forall in Hd. exact (proj2 (Hd _ (nth_error_In _ _ Hn))). }
    destruct (resolve_chain_tokens _ _ _ opts l Hc Hd Ho) as (mat & geom & o & Hr & _ & Ht).
    apply (chain_zero_iff _ _ _ _ _ _ _ _ _ mat geom o (List.concat ess) H Hn Hr); [|exact Hne|exact Hnn].
    rewrite Ht.
    replace (flat_map option_tokens (rev l) ++ option_tokens opts)
      with (List.concat (map option_tokens (rev l ++ [opts])))
      by (rewrite map_app, concat_app, <- flat_map_concat_map; cbn; rewrite app_nil_r; reflexivity).
    apply loc_imps_opt. apply loc_imps_concat.
    - clear - Hs. induction Hs as [|x y lx ly Hxy _ IH]; [constructor|]. cbn [map]. constructor; assumption.
    - clear - Hh. destruct (rev l ++ [opts]) as [|x0 xs]; [constructor|]. cbn [map tl] in *.
      induction Hh as [|x lx Hx _ IH]; [constructor|]. cbn [map]. constructor; assumption.
  Qed.

  (* importances on data cards: the cell at rank r (no IMP keyword on its card)
     is skipped iff the entry at rank r of every IMP card is zero *)
  Theorem data_card_zero_iff imp_cards cards lats cells skipped first others r key mat geom opts :
    parse_cells RS P imp_cards cards lats = Ok (cells, skipped) ->
    NoDup (map fst imp_cards) -> cards_read RS P imp_cards (first :: others) ->
    Forall (fun l => List.length l = List.length first) others ->
    nonneg first -> Forall nonneg others ->
    nth_error (dict_of Z.eqb cards) r = Some (key, (Explicit mat geom, opts)) ->
    opt_imps RS P (option_tokens opts) [] ->
    (r < List.length first)%nat /\
    (In key skipped <-> Forall (fun vals => nth r vals 0%R = 0%R) (first :: others)).
  Proof.
    intros H Hnd Hcr Hlen Hf Ho Hn Hopt.
    destruct (cell_at _ _ _ _ _ _ _ _ _ _ H Hn) as (imps & c & Hi & Hw & Hin).
    rewrite (importance_cards_max RS P _ _ _ Hnd Hcr Hlen) in Hi. injection Hi as <-.
    pose proof (importance_of_cell RS P _ _ _ _ _ _ _ _ Hopt Hw) as Himp. cbn [imp_of_entries] in Himp.
    assert (r < List.length first)%nat as Hr.
    { assert (r < List.length (map Some (col_max RS first others)))%nat as Hlt
        by (apply nth_error_Some; rewrite Himp; discriminate).
      rewrite map_length in Hlt.
      destruct first as [|x first'].
      - exfalso. rewrite col_max_nil in Hlt. cbn in Hlt. lia.
      - destruct (col_max_zero others (x :: first') 0 Hlen Hf Ho) as [Hl _]; [cbn; lia|].
        rewrite Hl in Hlt. exact Hlt. }
    split; [exact Hr|].
    destruct (col_max_zero others first r Hlen Hf Ho Hr) as [Hl Hz].
    destruct (skipped_iff_zero RS P _ _ _ _ _ H) as (_ & _ & Hs).
    rewrite (Hs key c Hin), is_zero_real.
    rewrite nth_error_map in Himp.
    destruct (nth_error (col_max RS first others) r) as [v|] eqn:Ev; [|discriminate].
    cbn [option_map] in Himp. injection Himp as Himp. rewrite <- Himp.
    rewrite (nth_error_nth _ _ 0%R Ev) in Hz.
    split.
    - intros Hv. injection Hv as ->. destruct (proj1 Hz eq_refl) as [Ha Hb]. constructor; assumption.
    - intros Hall. inversion Hall as [|? ? Ha Hb]; subst. f_equal. apply Hz. split; assumption.
  Qed.

  (* a jumped entry (nJ) of a single IMP card: the code keeps None, which is not
     == 0: the cell at that rank is NOT skipped (it is converted when it is in
     no universe and has no FILL) *)
  Theorem jumped_cell_kept name toks es vals cards lats cells skipped r key mat geom opts :
    parse_cells RS P [(name, toks)] cards lats = Ok (cells, skipped) ->
    reads P toks es -> meaning RS (pw P) es None = Some vals -> nth_error vals r = Some None ->
    nth_error (dict_of Z.eqb cards) r = Some (key, (Explicit mat geom, opts)) ->
    opt_imps RS P (option_tokens opts) [] ->
    ~ In key skipped /\
    exists c, In (key, c) cells /\ c_imp c = None /\
              (c_u c = 0%Z -> c_fill c = FNone -> In key (conv_keys RS cells)).
  Proof.
    intros H Hr Hm Hj Hn Hopt.
    destruct (cell_at _ _ _ _ _ _ _ _ _ _ H Hn) as (imps & c & Hi & Hw & Hin).
    rewrite (importance_cards_single RS P name toks es vals Hr Hm) in Hi. injection Hi as <-.
    pose proof (importance_of_cell RS P _ _ _ _ _ _ _ _ Hopt Hw) as Himp. cbn [imp_of_entries] in Himp.
    rewrite Hj in Himp. injection Himp as Himp.
    destruct (skipped_iff_zero RS P _ _ _ _ _ H) as (_ & Hnd & Hs).
    assert (is_zero RS c = false) as Hz by (unfold is_zero; rewrite <- Himp; reflexivity).
    split.
    - rewrite (Hs key c Hin), Hz. discriminate.
    - exists c. split; [exact Hin|]. split; [symmetry; exact Himp|]. intros Hu Hf.
      apply (converted_iff RS cells key c Hnd Hin). auto.
  Qed.

  (* importances on the cell card (explicit card, whatever the data cards say) *)
  Theorem cell_card_zero_iff imp_cards cards lats cells skipped r key mat geom opts es :
    parse_cells RS P imp_cards cards lats = Ok (cells, skipped) ->
    nth_error (dict_of Z.eqb cards) r = Some (key, (Explicit mat geom, opts)) ->
    opt_imps RS P (option_tokens opts) es -> es <> [] -> Forall (fun e => 0 <= snd e)%R es ->
    (In key skipped <-> forall p, In p (named es) -> last_value p es = Some 0%R).
  Proof.
    intros H Hn Hopt Hne Hnn.
    apply (chain_zero_iff _ _ _ _ _ _ _ _ _ mat geom opts es H Hn); try assumption.
    apply resolve_explicit.
  Qed.

  (* the same, stated on the text of the card: options written as words
     separated by one blank or one '=' sign, made of IMP keywords each followed
     by a number and of words no branch of the keyword dispatch reacts to *)
  Theorem plain_card_zero_iff imp_cards cards lats cells skipped r key mat geom ws last es :
    parse_cells RS P imp_cards cards lats = Ok (cells, skipped) ->
    nth_error (dict_of Z.eqb cards) r = Some (key, (Explicit mat geom, join ws last)) ->
    Forall (fun ws => word (fst ws) /\ sep_ok (snd ws)) ws -> word last ->
    scan_imps P (map fst ws ++ [last]) = Some es -> es <> [] -> Forall (fun e => 0 <= snd e)%R es ->
    (In key skipped <-> forall p, In p (named es) -> last_value p es = Some 0%R).
  Proof.
    intros H Hn Hw Hl Hs Hne Hnn.
    apply (cell_card_zero_iff _ _ _ _ _ _ _ _ _ _ _ H Hn); [|exact Hne|exact Hnn].
    rewrite (option_tokens_join ws last Hw Hl).
    apply (scan_imps_sound RS P _ _ _ (le_n _) Hs).
  Qed.
End Deck.

(* ================= witnesses (reals) ================= *)
Definition wfl (s : string) : option R :=
  if String.eqb s "0" then Some 0%R else if String.eqb s "1" then Some 1%R else None.

(* primitives for decks whose only numbers are 0 and 1 *)
Definition wP : prims R := {|
  fl := wfl;
  tf := wfl;
  tz := fun x => if Reqb x 1 then 1%Z else 0%Z;
  rnd := fun x => if Reqb x 1 then 1%Z else 0%Z;
  pw := fun x _ => x;
  nf := fun s => s;
  trs := fun _ => None |}.

Lemma Rltb_01 : Rltb 0 1 = true. Proof. apply Rltb_true. lra. Qed.
Lemma Rltb_10 : Rltb 1 0 = false. Proof. apply Rltb_false. lra. Qed.
Lemma Rltb_00 : Rltb 0 0 = false. Proof. apply Rltb_false. lra. Qed.
Lemma Rltb_11 : Rltb 1 1 = false. Proof. apply Rltb_false. lra. Qed.
Lemma Reqb_01 : Reqb 0 1 = false. Proof. apply Reqb_false. lra. Qed.
Lemma Reqb_10 : Reqb 1 0 = false. Proof. apply Reqb_false. lra. Qed.
Lemma Reqb_00 : Reqb 0 0 = true. Proof. apply Reqb_true. reflexivity. Qed.
Lemma Reqb_11 : Reqb 1 1 = true. Proof. apply Reqb_true. reflexivity. Qed.

(* evaluate a closed term of the model over the reals: everything but the
   comparisons of 0 and 1 computes *)
Ltac rcompute :=
  cbv -[Rltb Reqb IZR Rplus Rmult Rminus Rdiv Ropp];
  repeat (rewrite ?Rltb_01, ?Rltb_10, ?Rltb_00, ?Rltb_11, ?Reqb_01, ?Reqb_10, ?Reqb_00, ?Reqb_11;
          cbv beta iota).

Definition like_deck : list card :=
  [ (1%Z, (Explicit "0" "-1", "imp:n=1"));
    (2%Z, (Like 1, "imp:n=0"));
    (3%Z, (Explicit "0" "1", "imp:n=1")) ].

(* LIKE 1 BUT IMP:N=0 replaces the base card's IMP:N=1: the cell is skipped *)
Lemma like_deck_skipped :
  exists cells, parse_cells RS wP [] like_deck [] = Ok (cells, [2%Z]) /\
                conv_keys RS cells = [1%Z; 3%Z].
Proof. eexists. split; [rcompute; reflexivity|rcompute; reflexivity]. Qed.

Definition nonu_deck : list card :=
  [ (1%Z, (Explicit "0" "-1", "imp:n=1 nonu=1"));
    (2%Z, (Explicit "0" "1", "imp:n=1")) ].

(* IMP:N=1 NONU=1: NONU is not the U keyword, the cell stays at level 0 and is
   handed to the conversion *)
Lemma nonu_deck_converted :
  exists cells, parse_cells RS wP [] nonu_deck [] = Ok (cells, []) /\
                conv_keys RS cells = [1%Z; 2%Z].
Proof. eexists. split; [rcompute; reflexivity|rcompute; reflexivity]. Qed.
