(* C12 — what MCNP means (DESIGN Appendix A, "Importance"), written without
   looking at the code:
     * the entries of a data card and the list of numbers they stand for
       (nR repeats the previous entry n times, nI inserts n linear interpolates
       between the previous and the following number, xM multiplies the previous
       entry by x, nJ leaves n entries at their default, nLOG / nILOG inserts n
       values with a constant ratio);
     * the importance of a cell given several particle types: the cell is left
       out iff every particle's importance is zero, i.e. (importances being
       non-negative) iff the largest one is zero;
     * IMP keywords on a cell card (including the options a LIKE n BUT card
       inherits, read in order): each entry names particle types and gives one
       number; for a particle the LAST entry that names it counts.
   Numbers live in a [Scalar T]; at T = R these are the mathematical
   definitions. *)
From Coq Require Import List NArith ZArith Bool String.
From T4V Require Import Base.Scalar.
Import ListNotations.

Section Spec.
  Context {T : Type} (Sc : Scalar T).
  (* x ** y, needed only by the logarithmic interpolation nLOG / nILOG *)
  Context (pw : T -> T -> T).

  Inductive entry :=
  | EVal (x : T)              (* a number *)
  | ERep (n : nat)            (* nR *)
  | EInt (n : nat) (b : T)    (* nI followed by the number b *)
  | EMul (x : T)              (* xM *)
  | EJump (n : nat)           (* nJ *)
  | ELog (n : nat) (b : T).   (* nLOG / nILOG followed by the number b *)

  (* the k-th (k = 1..n) of n values evenly spaced between a and b *)
  Definition interp (a b : T) (n k : nat) : T :=
    sadd Sc a (smul Sc (sofZ Sc (Z.of_nat k))
                    (sdiv Sc (ssub Sc b a) (sofZ Sc (Z.of_nat n + 1)%Z))).

  Definition interpolates (a b : T) (n : nat) : list T :=
    map (interp a b n) (seq 1 n).

  (* the k-th (k = 1..n) of n values between a and b with a constant ratio:
     a * ((b/a) ** (1/(n+1))) ** k *)
  Definition log_interp (a b : T) (n k : nat) : T :=
    smul Sc a (pw (pw (sdiv Sc b a) (sdiv Sc (s1 Sc) (sofZ Sc (Z.of_nat n + 1)%Z)))
                  (sofZ Sc (Z.of_nat k))).

  Definition log_interpolates (a b : T) (n : nat) : list T :=
    map (log_interp a b n) (seq 1 n).

  (* logarithmic interpolation needs a non-zero start and, when values are
     inserted, ends of the same sign *)
  Definition log_ok (a b : T) (n : nat) : bool :=
    negb (seqb Sc a (s0 Sc)) && negb (sltb Sc (sdiv Sc b a) (s0 Sc) && (1 <=? n)%nat).

  (* the numbers a list of entries stands for; None in the result = an entry
     left at its default (jumped). [prev] = the entry that precedes (None: there
     is none, Some None: it was jumped). The whole result is None when the
     entries are not well formed (nR/nI/xM without a previous entry, nI or xM
     after a jump). *)
  Fixpoint meaning (es : list entry) (prev : option (option T)) : option (list (option T)) :=
    match es with
    | [] => Some []
    | EVal x :: r => option_map (cons (Some x)) (meaning r (Some (Some x)))
    | ERep n :: r =>
        match prev with
        | Some v => option_map (app (repeat v n)) (meaning r prev)
        | None => None
        end
    | EInt n b :: r =>
        match prev with
        | Some (Some a) =>
            option_map (app (map Some (interpolates a b n) ++ [Some b])) (meaning r (Some (Some b)))
        | _ => None
        end
    | EMul x :: r =>
        match prev with
        | Some (Some a) =>
            option_map (cons (Some (smul Sc a x))) (meaning r (Some (Some (smul Sc a x))))
        | _ => None
        end
    | EJump n :: r =>
        option_map (app (repeat None n))
                   (meaning r (match n with O => prev | S _ => Some None end))
    | ELog n b :: r =>
        match prev with
        | Some (Some a) =>
            if log_ok a b n
            then option_map (app (map Some (log_interpolates a b n) ++ [Some b])) (meaning r (Some (Some b)))
            else None
        | _ => None
        end
    end.

  (* the larger of two numbers (the first one when they are equal) *)
  Definition max2 (a b : T) : T := if sltb Sc a b then b else a.

  (* an IMP entry of a cell card: the particles it names and its value *)
  Definition imp_entry := (list string * T)%type.

  (* the importance of particle p: the value of the last entry naming p *)
  Fixpoint last_value (p : string) (es : list imp_entry) : option T :=
    match es with
    | [] => None
    | (ps, x) :: r =>
        match last_value p r with
        | Some y => Some y
        | None => if existsb (String.eqb p) ps then Some x else None
        end
    end.

  (* the particles the entries name *)
  Definition named (es : list imp_entry) : list string := flat_map fst es.

  Fixpoint zip_max2 (a b : list T) : list T :=
    match a, b with
    | x :: a', y :: b' => max2 x y :: zip_max2 a' b'
    | _, _ => []
    end.

  (* one importance per cell from one list per particle type: the largest *)
  Definition col_max (first : list T) (others : list (list T)) : list T :=
    fold_left zip_max2 others first.
End Spec.

Arguments EVal {T}. Arguments ERep {T}. Arguments EInt {T}. Arguments EMul {T}. Arguments EJump {T}. Arguments ELog {T}.
