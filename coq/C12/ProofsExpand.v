(* C12 — proofs about expand_data_card's model (C12/Model.v [expand]) against
   the meaning of the shorthand (C12/Spec.v [meaning]). *)
From Coq Require Import List NArith ZArith Bool String Ascii Lia Reals Lra.
From T4V Require Import Base.Str Base.Scalar C12.Text C12.Model C12.Spec.
Import ListNotations.
Open Scope string_scope.
Open Scope list_scope.

(* ---------- strings ---------- *)
Lemma int_tok_empty : int_tok "" = None.
Proof. reflexivity. Qed.

Lemma is_empty_false_app s c : is_empty (s ++ String c "")%string = false.
Proof. destruct s; reflexivity. Qed.

Section Expand.
  Context {T : Type} (Sc : Scalar T) (P : prims T).

  (* ---------- how tokens are read as entries ---------- *)

  (* the text before the final letter is a repetition count: absent (= 1) or a
     Python int *)
  Definition count_of (body : string) (n : nat) : Prop :=
    (body = "" /\ n = 1%nat) \/ int_tok body = Some (Z.of_nat n).

  (* a token that the final-letter dispatch does not treat as shorthand *)
  Definition plain (s : string) : Prop :=
    exists c, last_char s = Some c /\ c <> "r"%char /\ c <> "i"%char /\ c <> "m"%char
              /\ c <> "j"%char /\ ends_with "log" s = false.

  (* [reads toks es]: the tokens spell the entries (case-insensitively); a
     number is a token datacard.to_float accepts (float(), or a Fortran spelling) *)
  Inductive reads : list string -> list (entry (T:=T)) -> Prop :=
  | reads_nil : reads [] []
  | reads_val t x ts es :
      tf P (lower t) = Some x -> plain (lower t) -> reads ts es ->
      reads (t :: ts) (EVal x :: es)
  | reads_rep t body n ts es :
      lower t = (body ++ "r")%string -> count_of body n -> reads ts es ->
      reads (t :: ts) (ERep n :: es)
  | reads_int t body n u b ts es :
      lower t = (body ++ "i")%string -> count_of body n -> tf P (lower u) = Some b -> reads ts es ->
      reads (t :: u :: ts) (EInt n b :: es)
  | reads_mul t body x ts es :
      lower t = (body ++ "m")%string -> body <> "" -> tf P body = Some x -> reads ts es ->
      reads (t :: ts) (EMul x :: es)
  | reads_jump t body n ts es :
      lower t = (body ++ "j")%string -> count_of body n -> reads ts es ->
      reads (t :: ts) (EJump n :: es).

  Lemma count_tok_of body n : count_of body n -> count_tok body = Ok (Z.of_nat n).
  Proof.
    intros [[Hb Hn]|Hi]; unfold count_tok.
    - subst. reflexivity.
    - destruct body as [|c r]; [rewrite int_tok_empty in Hi; discriminate|].
      cbn [is_empty]. rewrite Hi. reflexivity.
  Qed.

  Definition prev_of (acc : list (option T)) : option (option T) :=
    match acc with [] => None | v :: _ => Some v end.

  (* ---------- one step of the loop, per kind of entry ---------- *)
  Lemma step_val s x rest acc :
    tf P s = Some x -> plain s -> expand_step Sc P s rest acc = Ok (Some x :: acc, O).
  Proof.
    intros Hfl (c & Hl & Hr & Hi & Hm & Hj & Hlog).
    unfold expand_step. rewrite Hl. cbn [char_is].
    rewrite (proj2 (Ascii.eqb_neq _ _) (not_eq_sym Hr)).
    rewrite (proj2 (Ascii.eqb_neq _ _) (not_eq_sym Hi)).
    rewrite (proj2 (Ascii.eqb_neq _ _) (not_eq_sym Hm)).
    rewrite (proj2 (Ascii.eqb_neq _ _) (not_eq_sym Hj)).
    rewrite Hlog, Hfl. reflexivity.
  Qed.

  Lemma step_rep body n rest v acc :
    count_of body n ->
    expand_step Sc P (body ++ "r")%string rest (v :: acc) = Ok (repeat v n ++ v :: acc, O).
  Proof.
    intros Hc. unfold expand_step. rewrite last_char_app, but_last_app.
    cbn [char_is]. replace (Ascii.eqb "r" "r") with true by reflexivity.
    rewrite (count_tok_of _ _ Hc). cbn [bind]. rewrite Nat2Z.id. reflexivity.
  Qed.

  Lemma step_jump body n rest acc :
    count_of body n ->
    expand_step Sc P (body ++ "j")%string rest acc = Ok (repeat None n ++ acc, O).
  Proof.
    intros Hc. unfold expand_step. rewrite last_char_app, but_last_app.
    cbn [char_is].
    replace (Ascii.eqb "r" "j") with false by reflexivity.
    replace (Ascii.eqb "i" "j") with false by reflexivity.
    replace (Ascii.eqb "m" "j") with false by reflexivity.
    replace (Ascii.eqb "j" "j") with true by reflexivity.
    rewrite (count_tok_of _ _ Hc). cbn [bind]. rewrite Nat2Z.id. reflexivity.
  Qed.

  Lemma step_mul body x rest a acc :
    body <> "" -> tf P body = Some x ->
    expand_step Sc P (body ++ "m")%string rest (Some a :: acc) = Ok (Some (smul Sc a x) :: Some a :: acc, O).
  Proof.
    intros Hne Hfl. unfold expand_step. rewrite last_char_app, but_last_app.
    cbn [char_is].
    replace (Ascii.eqb "r" "m") with false by reflexivity.
    replace (Ascii.eqb "i" "m") with false by reflexivity.
    replace (Ascii.eqb "m" "m") with true by reflexivity.
    destruct body as [|c r]; [congruence|]. cbn [is_empty]. rewrite Hfl. reflexivity.
  Qed.

  Lemma zrange_of_nat n : zrange (Z.of_nat n) = map Z.of_nat (seq 1 n).
  Proof. unfold zrange. rewrite Nat2Z.id. reflexivity. Qed.

  Lemma step_int body n u b rest a acc :
    count_of body n -> tf P (lower u) = Some b ->
    expand_step Sc P (body ++ "i")%string (u :: rest) (Some a :: acc) =
    Ok (Some b :: rev (map Some (interpolates Sc a b n)) ++ Some a :: acc, 1%nat).
  Proof.
    intros Hc Hfl. unfold expand_step. rewrite last_char_app, but_last_app.
    cbn [char_is].
    replace (Ascii.eqb "r" "i") with false by reflexivity.
    replace (Ascii.eqb "i" "i") with true by reflexivity.
    unfold linspace. rewrite Hfl. cbn [of_opt bind].
    rewrite (count_tok_of _ _ Hc). cbn [bind].
    replace (Z.of_nat n + 1 =? 0)%Z with false by (symmetry; apply Z.eqb_neq; lia).
    cbn [bind]. rewrite zrange_of_nat, rev_app_distr. cbn [rev app].
    unfold interpolates, interp. rewrite !map_map. reflexivity.
  Qed.

  Lemma prev_of_repeat (v : option T) n acc : prev_of (repeat v n ++ v :: acc) = Some v.
  Proof. destruct n; reflexivity. Qed.

  Lemma prev_of_jump n (acc : list (option T)) :
    prev_of (repeat None n ++ acc) = match n with O => prev_of acc | S _ => Some None end.
  Proof. destruct n; reflexivity. Qed.

  (* ---------- the loop ---------- *)
  Lemma expand_loop_reads toks es :
    reads toks es ->
    forall acc consumed out,
      meaning Sc es (prev_of acc) = Some out ->
      expand_loop Sc P toks O None acc consumed =
      Ok (rev out ++ acc, (consumed + List.length toks)%nat).
  Proof.
    induction 1 as [|t x ts es Hfl Hpl Hr IH|t body n ts es Hl Hc Hr IH
                    |t body n u b ts es Hl Hc Hfl Hr IH|t body x ts es Hl Hne Hfl Hr IH
                    |t body n ts es Hl Hc Hr IH];
      intros acc consumed out Hm.
    - cbn in Hm. injection Hm as <-. cbn. f_equal. f_equal. lia.
    - cbn [meaning] in Hm.
      destruct (meaning Sc es (Some (Some x))) as [o|] eqn:Em; [|discriminate].
      injection Hm as <-.
      cbn [expand_loop reached]. rewrite (step_val _ _ _ _ Hfl Hpl). cbn [bind].
      rewrite (IH (Some x :: acc) _ o Em).
      cbn [rev List.length]. rewrite <- app_assoc. cbn [app]. f_equal. f_equal. lia.
    - cbn [meaning] in Hm. destruct acc as [|v acc]; [discriminate|]. cbn [prev_of] in Hm.
      destruct (meaning Sc es (Some v)) as [o|] eqn:Em; [|discriminate].
      injection Hm as <-.
      cbn [expand_loop reached]. rewrite Hl, (step_rep _ _ _ _ _ Hc). cbn [bind].
      rewrite (IH (repeat v n ++ v :: acc) _ o); [|rewrite prev_of_repeat; exact Em].
      rewrite rev_app_distr, <- app_assoc.
      replace (rev (repeat v n)) with (repeat v n)
        by (clear; induction n as [|k IHk]; [reflexivity|cbn [repeat rev]; rewrite <- IHk;
            clear IHk; induction k as [|j IHj]; [reflexivity|cbn [repeat app]; f_equal; exact IHj]]).
      cbn [List.length]. f_equal. f_equal. lia.
    - cbn [meaning] in Hm. destruct acc as [|[a|] acc]; try discriminate. cbn [prev_of] in Hm.
      destruct (meaning Sc es (Some (Some b))) as [o|] eqn:Em; [|discriminate].
      injection Hm as <-.
      cbn [expand_loop reached]. rewrite Hl, (step_int _ _ _ _ _ _ _ Hc Hfl). cbn [bind].
      rewrite (IH (Some b :: rev (map Some (interpolates Sc a b n)) ++ Some a :: acc) _ o Em).
      rewrite !rev_app_distr. cbn [rev app List.length]. rewrite <- !app_assoc. cbn [app].
      f_equal. f_equal. lia.
    - cbn [meaning] in Hm. destruct acc as [|[a|] acc]; try discriminate. cbn [prev_of] in Hm.
      destruct (meaning Sc es (Some (Some (smul Sc a x)))) as [o|] eqn:Em; [|discriminate].
      injection Hm as <-.
      cbn [expand_loop reached]. rewrite Hl, (step_mul _ _ _ _ _ Hne Hfl). cbn [bind].
      rewrite (IH (Some (smul Sc a x) :: Some a :: acc) _ o Em).
      cbn [rev List.length]. rewrite <- app_assoc. cbn [app]. f_equal. f_equal. lia.
    - cbn [meaning] in Hm.
      destruct (meaning Sc es (match n with O => prev_of acc | S _ => Some None end)) as [o|] eqn:Em;
        [|discriminate].
      injection Hm as <-.
      cbn [expand_loop reached]. rewrite Hl, (step_jump _ _ _ _ Hc). cbn [bind].
      rewrite (IH (repeat None n ++ acc) _ o); [|rewrite prev_of_jump; exact Em].
      rewrite rev_app_distr, <- app_assoc.
      replace (rev (repeat (@None T) n)) with (repeat (@None T) n)
        by (clear; induction n as [|k IHk]; [reflexivity|cbn [repeat rev]; rewrite <- IHk;
            clear IHk; induction k as [|j IHj]; [reflexivity|cbn [repeat app]; f_equal; exact IHj]]).
      cbn [List.length]. f_equal. f_equal. lia.
  Qed.

  (* expand_data_card(tokens) returns exactly the numbers the entries stand
     for, and consumes every token *)
  Theorem expand_shorthand toks es out :
    reads toks es -> meaning Sc es None = Some out ->
    expand Sc P toks None = Ok (out, List.length toks).
  Proof.
    intros Hr Hm. unfold expand.
    rewrite (expand_loop_reads _ _ Hr [] O out Hm). cbn [bind].
    rewrite app_nil_r, rev_involutive. reflexivity.
  Qed.
End Expand.

(* ---------- the interpolates are evenly spaced (reals) ---------- *)
Lemma interp_real a b n k :
  interp RS a b n k = (a + INR k * (b - a) / (INR n + 1))%R.
Proof.
  unfold interp. cbn [sadd smul sdiv ssub sofZ RS].
  rewrite plus_IZR, <- !INR_IZR_INZ. unfold Rdiv. ring.
Qed.

Lemma interp_ends a b n :
  interp RS a b n 0 = a /\ interp RS a b n (S n) = b.
Proof.
  rewrite !interp_real. split.
  - cbn [INR]. unfold Rdiv. ring.
  - rewrite S_INR. field. pose proof (pos_INR n). lra.
Qed.

Lemma interp_step a b n k :
  (interp RS a b n (S k) - interp RS a b n k = (b - a) / (INR n + 1))%R.
Proof.
  rewrite !interp_real, S_INR. field. pose proof (pos_INR n). lra.
Qed.
