(* C12 — proofs about expand_data_card's model (C12/Model.v [expand]) against
   the meaning of the shorthand (C12/Spec.v [meaning]). *)
From Coq Require Import List NArith ZArith Bool String Ascii Lia Reals Lra.
From T4V Require Import Base.Str Base.Scalar C12.Text C12.Model C12.Spec C12.ProofsText.
Import ListNotations.
Open Scope string_scope.
Open Scope list_scope.

(* ---------- strings ---------- *)
Lemma int_tok_empty : int_tok "" = None.
Proof. reflexivity. Qed.

Lemma is_empty_false_app s c : is_empty (s ++ String c "")%string = false.
Proof. destruct s; reflexivity. Qed.

Section Expand.
  Context {T : Type} (Sc : Scalar T) (P : prims T).

  (* ---------- how tokens are read as entries ---------- *)

  (* the text before the final letter is a repetition count: absent (= 1) or a
     Python int *)
  Definition count_of (body : string) (n : nat) : Prop :=
    (body = "" /\ n = 1%nat) \/ int_tok body = Some (Z.of_nat n).

  (* a token that the final-letter dispatch does not treat as shorthand *)
  Definition plain (s : string) : Prop :=
    exists c, last_char s = Some c /\ c <> "r"%char /\ c <> "i"%char /\ c <> "m"%char
              /\ c <> "j"%char /\ ends_with "log" s = false.

  (* [reads toks es]: the tokens spell the entries (case-insensitively); a
     number is a token datacard.to_float accepts (float(), or a Fortran spelling) *)
  Inductive reads : list string -> list (entry (T:=T)) -> Prop :=
  | reads_nil : reads [] []
  | reads_val t x ts es :
      tf P (lower t) = Some x -> plain (lower t) -> reads ts es ->
      reads (t :: ts) (EVal x :: es)
  | reads_rep t body n ts es :
      lower t = (body ++ "r")%string -> count_of body n -> reads ts es ->
      reads (t :: ts) (ERep n :: es)
  | reads_int t body n u b ts es :
      lower t = (body ++ "i")%string -> count_of body n -> tf P (lower u) = Some b -> reads ts es ->
      reads (t :: u :: ts) (EInt n b :: es)
  | reads_mul t body x ts es :
      lower t = (body ++ "m")%string -> body <> "" -> tf P body = Some x -> reads ts es ->
      reads (t :: ts) (EMul x :: es)
  | reads_jump t body n ts es :
      lower t = (body ++ "j")%string -> count_of body n -> reads ts es ->
      reads (t :: ts) (EJump n :: es)
  (* nLOG / nILOG: the count is a Python int (a bare LOG is a TypeError in the
     code), the bound is read by float() *)
  | reads_log t body n u b ts es :
      lower t = (body ++ "log")%string -> last_char body <> Some "i"%char ->
      int_tok body = Some (Z.of_nat n) -> fl P (lower u) = Some b -> reads ts es ->
      reads (t :: u :: ts) (ELog n b :: es)
  | reads_ilog t body n u b ts es :
      lower t = (body ++ "ilog")%string ->
      int_tok body = Some (Z.of_nat n) -> fl P (lower u) = Some b -> reads ts es ->
      reads (t :: u :: ts) (ELog n b :: es).

  Lemma count_tok_of body n : count_of body n -> count_tok body = Ok (Z.of_nat n).
  Proof.
    intros [[Hb Hn]|Hi]; unfold count_tok.
    - subst. reflexivity.
    - destruct body as [|c r]; [rewrite int_tok_empty in Hi; discriminate|].
      cbn [is_empty]. rewrite Hi. reflexivity.
  Qed.

  Definition prev_of (acc : list (option T)) : option (option T) :=
    match acc with [] => None | v :: _ => Some v end.

  (* ---------- one step of the loop, per kind of entry ---------- *)
  Lemma step_val s x rest acc :
    tf P s = Some x -> plain s -> expand_step Sc P s rest acc = Ok (Some x :: acc, O).
  Proof.
    intros Hfl (c & Hl & Hr & Hi & Hm & Hj & Hlog).
    unfold expand_step. rewrite Hl. cbn [char_is].
    rewrite (proj2 (Ascii.eqb_neq _ _) (not_eq_sym Hr)).
    rewrite (proj2 (Ascii.eqb_neq _ _) (not_eq_sym Hi)).
    rewrite (proj2 (Ascii.eqb_neq _ _) (not_eq_sym Hm)).
    rewrite (proj2 (Ascii.eqb_neq _ _) (not_eq_sym Hj)).
    rewrite Hlog, Hfl. reflexivity.
  Qed.

  Lemma step_rep body n rest v acc :
    count_of body n ->
    expand_step Sc P (body ++ "r")%string rest (v :: acc) = Ok (repeat v n ++ v :: acc, O).
  Proof.
    intros Hc. unfold expand_step. rewrite last_char_app, but_last_app.
    cbn [char_is]. replace (Ascii.eqb "r" "r") with true by reflexivity.
    rewrite (count_tok_of _ _ Hc). cbn [bind]. rewrite Nat2Z.id. reflexivity.
  Qed.

  Lemma step_jump body n rest acc :
    count_of body n ->
    expand_step Sc P (body ++ "j")%string rest acc = Ok (repeat None n ++ acc, O).
  Proof.
    intros Hc. unfold expand_step. rewrite last_char_app, but_last_app.
    cbn [char_is].
    replace (Ascii.eqb "r" "j") with false by reflexivity.
    replace (Ascii.eqb "i" "j") with false by reflexivity.
    replace (Ascii.eqb "m" "j") with false by reflexivity.
    replace (Ascii.eqb "j" "j") with true by reflexivity.
    rewrite (count_tok_of _ _ Hc). cbn [bind]. rewrite Nat2Z.id. reflexivity.
  Qed.

  Lemma step_mul body x rest a acc :
    body <> "" -> tf P body = Some x ->
    expand_step Sc P (body ++ "m")%string rest (Some a :: acc) = Ok (Some (smul Sc a x) :: Some a :: acc, O).
  Proof.
    intros Hne Hfl. unfold expand_step. rewrite last_char_app, but_last_app.
    cbn [char_is].
    replace (Ascii.eqb "r" "m") with false by reflexivity.
    replace (Ascii.eqb "i" "m") with false by reflexivity.
    replace (Ascii.eqb "m" "m") with true by reflexivity.
    destruct body as [|c r]; [congruence|]. cbn [is_empty]. rewrite Hfl. reflexivity.
  Qed.

  Lemma zrange_of_nat n : zrange (Z.of_nat n) = map Z.of_nat (seq 1 n).
  Proof. unfold zrange. rewrite Nat2Z.id. reflexivity. Qed.

  Lemma step_int body n u b rest a acc :
    count_of body n -> tf P (lower u) = Some b ->
    expand_step Sc P (body ++ "i")%string (u :: rest) (Some a :: acc) =
    Ok (Some b :: rev (map Some (interpolates Sc a b n)) ++ Some a :: acc, 1%nat).
  Proof.
    intros Hc Hfl. unfold expand_step. rewrite last_char_app, but_last_app.
    cbn [char_is].
    replace (Ascii.eqb "r" "i") with false by reflexivity.
    replace (Ascii.eqb "i" "i") with true by reflexivity.
    unfold linspace. rewrite Hfl. cbn [of_opt bind].
    rewrite (count_tok_of _ _ Hc). cbn [bind].
    replace (Z.of_nat n + 1 =? 0)%Z with false by (symmetry; apply Z.eqb_neq; lia).
    cbn [bind]. rewrite zrange_of_nat, rev_app_distr. cbn [rev app].
    unfold interpolates, interp. rewrite !map_map. reflexivity.
  Qed.

  (* ---- nLOG / nILOG ---- *)
  Lemma app3 (body : string) a b c :
    (body ++ String a (String b (String c "")))%string
    = (((body ++ String a "") ++ String b "") ++ String c "")%string.
  Proof. induction body as [|x r IH]; [reflexivity|]. cbn. rewrite IH. reflexivity. Qed.

  Lemma last3 (body : string) a b c :
    last_char (body ++ String a (String b (String c "")))%string = Some c
    /\ but_last_n 3 (body ++ String a (String b (String c "")))%string = body.
  Proof.
    rewrite app3. split; [apply last_char_app|].
    cbn [but_last_n]. rewrite !but_last_app. reflexivity.
  Qed.

  Lemma prefix_app (p x : string) : String.prefix p (p ++ x)%string = true.
  Proof.
    induction p as [|c r IH]; [destruct x; reflexivity|].
    cbn [append String.prefix]. destruct (ascii_dec c c); [exact IH|congruence].
  Qed.

  Lemma ends_with_log (body : string) : ends_with "log" (body ++ "log")%string = true.
  Proof. unfold ends_with. rewrite srev_app. apply prefix_app. Qed.

  Lemma not_i_match (o : option ascii) :
    o <> Some "i"%char -> match o with Some "i"%char => true | _ => false end = false.
  Proof.
    intros H. destruct o as [c|]; [|reflexivity].
    destruct c as [b0 b1 b2 b3 b4 b5 b6 b7].
    destruct b0, b1, b2, b3, b4, b5, b6, b7; try reflexivity. exfalso. apply H. reflexivity.
  Qed.

  Lemma leb_nat_Z n : (1 <=? Z.of_nat n)%Z = (1 <=? n)%nat.
  Proof.
    destruct (1 <=? n)%nat eqn:E.
    - apply Nat.leb_le in E. apply Z.leb_le. lia.
    - apply Nat.leb_gt in E. apply Z.leb_gt. lia.
  Qed.

  Lemma logspace_ok a b n upper_tok tok body3 :
    fl P upper_tok = Some b -> but_last_n 3 tok = body3 ->
    (match last_char body3 with Some "i"%char => true | _ => false end = false /\ int_tok body3 = Some (Z.of_nat n)
     \/ exists body, body3 = (body ++ "i")%string /\ int_tok body = Some (Z.of_nat n)) ->
    log_ok Sc a b n = true ->
    logspace Sc P (Some a) upper_tok tok =
    Ok (map Some (log_interpolates Sc (pw P) a b n) ++ [Some b]).
  Proof.
    intros Hfl Hb3 Hn Hok. unfold logspace. rewrite Hfl, Hb3. cbn [of_opt bind].
    assert ((if match last_char body3 with Some "i"%char => true | _ => false end
             then if is_empty (but_last body3) then Ok None
                  else do z <- of_opt EValue (int_tok (but_last body3)); Ok (Some z)
             else do z <- of_opt EValue (int_tok body3); Ok (Some z)) = Ok (Some (Z.of_nat n))) as ->.
    { destruct Hn as [[Hi Hz]|(body & -> & Hz)].
      - rewrite Hi, Hz. reflexivity.
      - rewrite last_char_app, but_last_app. replace (match Some "i"%char with Some "i"%char => true | _ => false end) with true by reflexivity.
        destruct body as [|c r]; [rewrite int_tok_empty in Hz; discriminate|]. cbn [is_empty]. rewrite Hz. reflexivity. }
    cbn [bind]. unfold log_ok in Hok. apply andb_true_iff in Hok. destruct Hok as [H0 H1].
    apply negb_true_iff in H0, H1. rewrite H0.
    replace (Z.of_nat n + 1 =? 0)%Z with false by (symmetry; apply Z.eqb_neq; lia).
    rewrite leb_nat_Z, H1. rewrite zrange_of_nat. unfold log_interpolates, log_interp.
    rewrite !map_map. reflexivity.
  Qed.

  Lemma step_log body n u b rest a acc :
    last_char body <> Some "i"%char -> int_tok body = Some (Z.of_nat n) ->
    fl P (lower u) = Some b -> log_ok Sc a b n = true ->
    expand_step Sc P (body ++ "log") (u :: rest) (Some a :: acc) =
    Ok (Some b :: rev (map Some (log_interpolates Sc (pw P) a b n)) ++ Some a :: acc, 1%nat).
  Proof.
    intros Hi Hz Hfl Hok. unfold expand_step.
    destruct (last3 body "l" "o" "g") as [Hl Hb]. change (String "l" (String "o" (String "g" ""))) with "log" in *.
    rewrite Hl. cbn [char_is].
    replace (Ascii.eqb "r" "g") with false by reflexivity.
    replace (Ascii.eqb "i" "g") with false by reflexivity.
    replace (Ascii.eqb "m" "g") with false by reflexivity.
    replace (Ascii.eqb "j" "g") with false by reflexivity.
    rewrite ends_with_log.
    rewrite (logspace_ok a b n (lower u) _ body Hfl Hb); [|left; split; [apply not_i_match; exact Hi|exact Hz]|exact Hok].
    cbn [bind]. rewrite rev_app_distr. reflexivity.
  Qed.

  Lemma step_ilog body n u b rest a acc :
    int_tok body = Some (Z.of_nat n) ->
    fl P (lower u) = Some b -> log_ok Sc a b n = true ->
    expand_step Sc P (body ++ "ilog") (u :: rest) (Some a :: acc) =
    Ok (Some b :: rev (map Some (log_interpolates Sc (pw P) a b n)) ++ Some a :: acc, 1%nat).
  Proof.
    intros Hz Hfl Hok. unfold expand_step.
    assert ((body ++ "ilog")%string = ((body ++ "i") ++ "log")%string) as E
      by (clear; induction body as [|x r IH]; [reflexivity|]; cbn; rewrite IH; reflexivity).
    rewrite E. destruct (last3 (body ++ "i")%string "l" "o" "g") as [Hl Hb].
    change (String "l" (String "o" (String "g" ""))) with "log" in *.
    rewrite Hl. cbn [char_is].
    replace (Ascii.eqb "r" "g") with false by reflexivity.
    replace (Ascii.eqb "i" "g") with false by reflexivity.
    replace (Ascii.eqb "m" "g") with false by reflexivity.
    replace (Ascii.eqb "j" "g") with false by reflexivity.
    rewrite ends_with_log.
    rewrite (logspace_ok a b n (lower u) _ (body ++ "i")%string Hfl Hb);
      [|right; exists body; split; [reflexivity|exact Hz]|exact Hok].
    cbn [bind]. rewrite rev_app_distr. reflexivity.
  Qed.

  Lemma prev_of_repeat (v : option T) n acc : prev_of (repeat v n ++ v :: acc) = Some v.
  Proof. destruct n; reflexivity. Qed.

  Lemma prev_of_jump n (acc : list (option T)) :
    prev_of (repeat None n ++ acc) = match n with O => prev_of acc | S _ => Some None end.
  Proof. destruct n; reflexivity. Qed.

  (* ---------- the loop ---------- *)
  Lemma expand_loop_reads toks es :
    reads toks es ->
    forall acc consumed out,
      meaning Sc (pw P) es (prev_of acc) = Some out ->
      expand_loop Sc P toks O None acc consumed =
      Ok (rev out ++ acc, (consumed + List.length toks)%nat).
  Proof.
    induction 1 as [|t x ts es Hfl Hpl Hr IH|t body n ts es Hl Hc Hr IH
                    |t body n u b ts es Hl Hc Hfl Hr IH|t body x ts es Hl Hne Hfl Hr IH
                    |t body n ts es Hl Hc Hr IH
                    |t body n u b ts es Hl Hi Hz Hfl Hr IH|t body n u b ts es Hl Hz Hfl Hr IH];
      intros acc consumed out Hm.
    - cbn in Hm. injection Hm as <-. cbn. f_equal. f_equal. lia.
    - cbn [meaning] in Hm.
      destruct (meaning Sc (pw P) es (Some (Some x))) as [o|] eqn:Em; [|discriminate].
      injection Hm as <-.
      cbn [expand_loop reached]. rewrite (step_val _ _ _ _ Hfl Hpl). cbn [bind].
      rewrite (IH (Some x :: acc) _ o Em).
      cbn [rev List.length]. rewrite <- app_assoc. cbn [app]. f_equal. f_equal. lia.
    - cbn [meaning] in Hm. destruct acc as [|v acc]; [discriminate|]. cbn [prev_of] in Hm.
      destruct (meaning Sc (pw P) es (Some v)) as [o|] eqn:Em; [|discriminate].
      injection Hm as <-.
      cbn [expand_loop reached]. rewrite Hl, (step_rep _ _ _ _ _ Hc). cbn [bind].
      rewrite (IH (repeat v n ++ v :: acc) _ o); [|rewrite prev_of_repeat; exact Em].
      rewrite rev_app_distr, <- app_assoc.
      replace (rev (repeat v n)) with (repeat v n)
        by (clear; induction n as [|k IHk]; [reflexivity|cbn [repeat rev]; rewrite <- IHk;
            clear IHk; induction k as [|j IHj]; [reflexivity|cbn [repeat app]; f_equal; exact IHj]]).
      cbn [List.length]. f_equal. f_equal. lia.
    - cbn [meaning] in Hm. destruct acc as [|[a|] acc]; try discriminate. cbn [prev_of] in Hm.
      destruct (meaning Sc (pw P) es (Some (Some b))) as [o|] eqn:Em; [|discriminate].
      injection Hm as <-.
      cbn [expand_loop reached]. rewrite Hl, (step_int _ _ _ _ _ _ _ Hc Hfl). cbn [bind].
      rewrite (IH (Some b :: rev (map Some (interpolates Sc a b n)) ++ Some a :: acc) _ o Em).
      rewrite !rev_app_distr. cbn [rev app List.length]. rewrite <- !app_assoc. cbn [app].
      f_equal. f_equal. lia.
    - cbn [meaning] in Hm. destruct acc as [|[a|] acc]; try discriminate. cbn [prev_of] in Hm.
      destruct (meaning Sc (pw P) es (Some (Some (smul Sc a x)))) as [o|] eqn:Em; [|discriminate].
      injection Hm as <-.
      cbn [expand_loop reached]. rewrite Hl, (step_mul _ _ _ _ _ Hne Hfl). cbn [bind].
      rewrite (IH (Some (smul Sc a x) :: Some a :: acc) _ o Em).
      cbn [rev List.length]. rewrite <- app_assoc. cbn [app]. f_equal. f_equal. lia.
    - cbn [meaning] in Hm.
      destruct (meaning Sc (pw P) es (match n with O => prev_of acc | S _ => Some None end)) as [o|] eqn:Em;
        [|discriminate].
      injection Hm as <-.
      cbn [expand_loop reached]. rewrite Hl, (step_jump _ _ _ _ Hc). cbn [bind].
      rewrite (IH (repeat None n ++ acc) _ o); [|rewrite prev_of_jump; exact Em].
      rewrite rev_app_distr, <- app_assoc.
      replace (rev (repeat (@None T) n)) with (repeat (@None T) n)
        by (clear; induction n as [|k IHk]; [reflexivity|cbn [repeat rev]; rewrite <- IHk;
            clear IHk; induction k as [|j IHj]; [reflexivity|cbn [repeat app]; f_equal; exact IHj]]).
      cbn [List.length]. f_equal. f_equal. lia.
    - cbn [meaning] in Hm. destruct acc as [|[a|] acc]; try discriminate. cbn [prev_of] in Hm.
      destruct (log_ok Sc a b n) eqn:Eok; [|discriminate].
      destruct (meaning Sc (pw P) es (Some (Some b))) as [o|] eqn:Em; [|discriminate].
      injection Hm as <-.
      cbn [expand_loop reached]. rewrite Hl, (step_log _ _ _ _ _ _ _ Hi Hz Hfl Eok). cbn [bind].
      rewrite (IH (Some b :: rev (map Some (log_interpolates Sc (pw P) a b n)) ++ Some a :: acc) _ o Em).
      rewrite !rev_app_distr. cbn [rev app List.length]. rewrite <- !app_assoc. cbn [app].
      f_equal. f_equal. lia.
    - cbn [meaning] in Hm. destruct acc as [|[a|] acc]; try discriminate. cbn [prev_of] in Hm.
      destruct (log_ok Sc a b n) eqn:Eok; [|discriminate].
      destruct (meaning Sc (pw P) es (Some (Some b))) as [o|] eqn:Em; [|discriminate].
      injection Hm as <-.
      cbn [expand_loop reached]. rewrite Hl, (step_ilog _ _ _ _ _ _ _ Hz Hfl Eok). cbn [bind].
      rewrite (IH (Some b :: rev (map Some (log_interpolates Sc (pw P) a b n)) ++ Some a :: acc) _ o Em).
      rewrite !rev_app_distr. cbn [rev app List.length]. rewrite <- !app_assoc. cbn [app].
      f_equal. f_equal. lia.
  Qed.

  (* expand_data_card(tokens) returns exactly the numbers the entries stand
     for, and consumes every token *)
  Theorem expand_shorthand toks es out :
    reads toks es -> meaning Sc (pw P) es None = Some out ->
    expand Sc P toks None = Ok (out, List.length toks).
  Proof.
    intros Hr Hm. unfold expand.
    rewrite (expand_loop_reads _ _ Hr [] O out Hm). cbn [bind].
    rewrite app_nil_r, rev_involutive. reflexivity.
  Qed.
End Expand.

(* ---------- the interpolates are evenly spaced (reals) ---------- *)
Lemma interp_real a b n k :
  interp RS a b n k = (a + INR k * (b - a) / (INR n + 1))%R.
Proof.
  unfold interp. cbn [sadd smul sdiv ssub sofZ RS].
  rewrite plus_IZR, <- !INR_IZR_INZ. unfold Rdiv. ring.
Qed.

Lemma interp_ends a b n :
  interp RS a b n 0 = a /\ interp RS a b n (S n) = b.
Proof.
  rewrite !interp_real. split.
  - cbn [INR]. unfold Rdiv. ring.
  - rewrite S_INR. field. pose proof (pos_INR n). lra.
Qed.

Lemma interp_step a b n k :
  (interp RS a b n (S k) - interp RS a b n k = (b - a) / (INR n + 1))%R.
Proof.
  rewrite !interp_real, S_INR. field. pose proof (pos_INR n). lra.
Qed.

(* ---------- the values of nLOG have a constant ratio (reals, x**y = Rpower) ---------- *)
Lemma log_interp_real a b n k :
  log_interp RS Rpower a b n k = (a * Rpower (b / a) (INR k / (INR n + 1)))%R.
Proof.
  unfold log_interp. cbn [smul sdiv s1 sofZ RS]. rewrite Rpower_mult. f_equal. f_equal.
  rewrite plus_IZR, <- !INR_IZR_INZ. field. pose proof (pos_INR n). lra.
Qed.

Lemma log_interp_ratio a b n k :
  log_interp RS Rpower a b n (S k) =
  (log_interp RS Rpower a b n k * Rpower (b / a) (1 / (INR n + 1)))%R.
Proof.
  rewrite !log_interp_real, Rmult_assoc, <- Rpower_plus. f_equal. f_equal.
  rewrite S_INR. field. pose proof (pos_INR n). lra.
Qed.

Lemma log_interp_ends a b n : (a <> 0 -> 0 < b / a ->
  log_interp RS Rpower a b n 0 = a /\ log_interp RS Rpower a b n (S n) = b)%R.
Proof.
  intros Ha Hr. rewrite !log_interp_real. split.
  - replace (INR 0 / (INR n + 1))%R with 0%R by (cbn; field; pose proof (pos_INR n); lra).
    rewrite Rpower_O by exact Hr. ring.
  - replace (INR (S n) / (INR n + 1))%R with 1%R by (rewrite S_INR; field; pose proof (pos_INR n); lra).
    rewrite Rpower_1 by exact Hr. field. exact Ha.
Qed.
