(* C12 — the option normalisation of parse_one_cell_worker (Text.option_tokens:
   re.sub(' *: *', ':'), lower(), '(' ')' '=' -> blank, split()) on option text
   written as words separated by one blank or one '=' sign: the tokens are the
   words. *)
From Coq Require Import List NArith ZArith Bool String Ascii Lia.
From T4V Require Import Base.Str C12.Text.
Import ListNotations.
Open Scope string_scope.

(* ---------- generalities on strings ---------- *)
Lemma append_nil_r s : s ++ "" = s.
Proof. induction s as [|c r IH]; [reflexivity|]. cbn. rewrite IH. reflexivity. Qed.

Lemma append_assoc' (a b c : string) : (a ++ b) ++ c = a ++ (b ++ c).
Proof. induction a as [|x r IH]; [reflexivity|]. cbn. rewrite IH. reflexivity. Qed.

Lemma srev_aux_twice s : forall acc acc', srev_aux (srev_aux s acc) acc' = srev_aux acc (s ++ acc').
Proof.
  induction s as [|c r IH]; intros acc acc'; [reflexivity|].
  cbn [srev_aux append]. rewrite IH. reflexivity.
Qed.

Lemma srev_involutive s : srev (srev s) = s.
Proof. unfold srev. rewrite srev_aux_twice. cbn. apply append_nil_r. Qed.

Lemma srev_aux_nonempty s : forall acc, is_empty acc = false -> is_empty (srev_aux s acc) = false.
Proof. induction s as [|c r IH]; intros acc H; [exact H|]. cbn [srev_aux]. apply IH. reflexivity. Qed.

(* ---------- adjacent pairs of characters ---------- *)
Definition hd_is (b : ascii) (s : string) : bool :=
  match s with String d _ => Ascii.eqb d b | EmptyString => false end.

Definition last_is (a : ascii) (s : string) : bool :=
  match last_char s with Some c => Ascii.eqb c a | None => false end.

(* the string holds the character a immediately followed by b *)
Fixpoint has_pair (a b : ascii) (s : string) : bool :=
  match s with
  | EmptyString => false
  | String c r => (Ascii.eqb c a && hd_is b r) || has_pair a b r
  end.

Lemma has_pair_app a b x : forall y,
  has_pair a b (x ++ y) = has_pair a b x || (last_is a x && hd_is b y) || has_pair a b y.
Proof.
  induction x as [|c r IH]; intros y; [reflexivity|].
  cbn [append has_pair]. rewrite IH. destruct r as [|d r'].
  - cbn [append has_pair hd_is last_is last_char]. destruct (Ascii.eqb c a), (hd_is b y), (has_pair a b y); reflexivity.
  - replace (hd_is b (String d r' ++ y)) with (hd_is b (String d r')) by reflexivity.
    replace (last_is a (String c (String d r'))) with (last_is a (String d r')) by reflexivity.
    destruct (Ascii.eqb c a), (hd_is b (String d r')), (has_pair a b (String d r')),
      (last_is a (String d r')), (hd_is b y), (has_pair a b y); reflexivity.
Qed.

Lemma has_pair_srev_aux a b s : forall acc,
  has_pair a b (srev_aux s acc) = has_pair b a s || (hd_is a s && hd_is b acc) || has_pair a b acc.
Proof.
  induction s as [|c r IH]; intros acc; [reflexivity|].
  cbn [srev_aux]. rewrite IH. cbn [has_pair hd_is].
  destruct (has_pair b a r), (hd_is a r), (Ascii.eqb c b), (Ascii.eqb c a), (hd_is b acc),
    (has_pair a b acc); reflexivity.
Qed.

Lemma has_pair_srev a b s : has_pair a b (srev s) = has_pair b a s.
Proof.
  unfold srev. rewrite has_pair_srev_aux. cbn [hd_is has_pair].
  rewrite andb_false_r, !orb_false_r. reflexivity.
Qed.

(* ---------- re.sub(' *: *', ':') leaves a string without ": " and " :" alone ---------- *)
Lemma dbc_id s : forall b,
  has_pair ":" " " s = false -> (b = true -> hd_is " " s = false) ->
  drop_blanks_after_colon b s = s.
Proof.
  induction s as [|c r IH]; intros b Hp Hb; [reflexivity|].
  cbn [has_pair] in Hp. apply orb_false_iff in Hp. destruct Hp as [Hh Hp].
  cbn [drop_blanks_after_colon]. destruct (Ascii.eqb c ":") eqn:Ec.
  - f_equal. apply IH; [exact Hp|]. intros _. cbn [andb] in Hh. exact Hh.
  - destruct (Ascii.eqb c " ") eqn:Es.
    + destruct b.
      * specialize (Hb eq_refl). cbn [hd_is] in Hb. congruence.
      * cbn [andb]. f_equal. apply IH; [exact Hp|discriminate].
    + cbn [andb]. f_equal. apply IH; [exact Hp|discriminate].
Qed.

Lemma colon_sub_id s :
  has_pair ":" " " s = false -> has_pair " " ":" s = false -> colon_sub s = s.
Proof.
  intros H1 H2. unfold colon_sub. rewrite (dbc_id s false H1) by discriminate.
  rewrite (dbc_id (srev s) false); [apply srev_involutive| |discriminate].
  rewrite has_pair_srev. exact H2.
Qed.

(* ---------- words ---------- *)
Fixpoint all_chars (p : ascii -> bool) (s : string) : bool :=
  match s with EmptyString => true | String c r => p c && all_chars p r end.

(* a character the normalisation leaves alone: not a blank, parenthesis or '=',
   not an upper-case letter *)
Definition plain_char (c : ascii) : bool :=
  negb (Ascii.eqb c " ") && negb (Ascii.eqb c "(") && negb (Ascii.eqb c ")")
  && negb (Ascii.eqb c "=") && Ascii.eqb (lower_char c) c.

(* a keyword or value as it appears after the normalisation: non-empty, plain
   characters, no colon at either end *)
Definition word (w : string) : Prop :=
  is_empty w = false /\ all_chars plain_char w = true /\ hd_is ":" w = false /\ last_is ":" w = false.

Definition sep_ok (c : ascii) : Prop := c = " "%char \/ c = "="%char.

(* words, each followed by its separator, then a last word *)
Fixpoint join (ws : list (string * ascii)) (last : string) : string :=
  match ws with
  | [] => last
  | (w, sep) :: r => w ++ String sep (join r last)
  end.

Lemma all_chars_app p x y : all_chars p (x ++ y) = all_chars p x && all_chars p y.
Proof. induction x as [|c r IH]; [reflexivity|]. cbn. rewrite IH, andb_assoc. reflexivity. Qed.

Lemma plain_no_pair_l w b : all_chars plain_char w = true -> has_pair " " b w = false.
Proof.
  induction w as [|c r IH]; intros H; [reflexivity|].
  cbn [all_chars] in H. apply andb_true_iff in H. destruct H as [Hc Hr].
  cbn [has_pair]. rewrite (IH Hr). unfold plain_char in Hc.
  destruct (Ascii.eqb c " "); [discriminate|reflexivity].
Qed.

Lemma plain_no_pair_r w a : all_chars plain_char w = true -> has_pair a " " w = false.
Proof.
  induction w as [|c r IH]; intros H; [reflexivity|].
  cbn [all_chars] in H. apply andb_true_iff in H. destruct H as [Hc Hr].
  cbn [has_pair]. rewrite (IH Hr), orb_false_r. destruct r as [|d r']; [apply andb_false_r|].
  cbn [hd_is]. cbn [all_chars] in Hr. apply andb_true_iff in Hr. destruct Hr as [Hd _].
  unfold plain_char in Hd. destruct (Ascii.eqb d " "); [discriminate|apply andb_false_r].
Qed.

Lemma plain_last_not_blank w : all_chars plain_char w = true -> last_is " " w = false.
Proof.
  induction w as [|c r IH]; intros H; [reflexivity|].
  cbn [all_chars] in H. apply andb_true_iff in H. destruct H as [Hc Hr].
  destruct r as [|d r'].
  - unfold last_is. cbn [last_char]. unfold plain_char in Hc. destruct (Ascii.eqb c " "); [discriminate|reflexivity].
  - exact (IH Hr).
Qed.

Lemma hd_is_app b x y : is_empty x = false -> hd_is b (x ++ y) = hd_is b x.
Proof. destruct x; [discriminate|reflexivity]. Qed.

Lemma join_hd ws last :
  Forall (fun ws => word (fst ws)) ws -> word last -> hd_is ":" (join ws last) = false.
Proof.
  intros Hw Hl. destruct ws as [|[w sep] r]; [exact (proj1 (proj2 (proj2 Hl)))|].
  inversion Hw as [|? ? Hw0 _]; subst. cbn [fst] in Hw0. destruct Hw0 as (Hne & _ & Hh & _).
  cbn [join]. rewrite hd_is_app by exact Hne. exact Hh.
Qed.

Lemma join_pairs ws : forall last,
  Forall (fun ws => word (fst ws) /\ sep_ok (snd ws)) ws -> word last ->
  has_pair ":" " " (join ws last) = false /\ has_pair " " ":" (join ws last) = false.
Proof.
  induction ws as [|[w sep] r IH]; intros last Hw Hl.
  - destruct Hl as (_ & Hp & _ & _). cbn [join].
    split; [apply plain_no_pair_r|apply plain_no_pair_l]; exact Hp.
  - inversion Hw as [|? ? [Hw0 Hs] Hr]; subst. cbn [fst snd] in Hw0, Hs.
    destruct (IH last Hr Hl) as [I1 I2]. destruct Hw0 as (Hne & Hp & Hh & Hlast).
    assert (hd_is ":" (join r last) = false) as Hjh.
    { apply join_hd; [|exact Hl]. eapply Forall_impl; [|exact Hr]. intros a [Ha _]. exact Ha. }
    cbn [join]. rewrite !has_pair_app. cbn [has_pair hd_is].
    rewrite (plain_no_pair_r w ":" Hp), (plain_no_pair_l w ":" Hp), Hlast, I1, I2,
      (plain_last_not_blank w Hp), Hjh.
    destruct Hs as [-> | ->]; split; reflexivity.
Qed.

Lemma lower_plain s : all_chars (fun c => Ascii.eqb (lower_char c) c) s = true -> lower s = s.
Proof.
  induction s as [|c r IH]; intros H; [reflexivity|].
  cbn [all_chars] in H. apply andb_true_iff in H. destruct H as [Hc Hr].
  cbn [lower]. apply Ascii.eqb_eq in Hc. rewrite Hc, (IH Hr). reflexivity.
Qed.

Lemma plain_lower_ok w :
  all_chars plain_char w = true -> all_chars (fun c => Ascii.eqb (lower_char c) c) w = true.
Proof.
  induction w as [|c r IH]; intros H; [reflexivity|].
  cbn [all_chars] in *. apply andb_true_iff in H. destruct H as [Hc Hr].
  rewrite (IH Hr), andb_true_r. unfold plain_char in Hc. apply andb_true_iff in Hc. exact (proj2 Hc).
Qed.

Lemma join_lower_ok ws : forall last,
  Forall (fun ws => word (fst ws) /\ sep_ok (snd ws)) ws -> word last ->
  all_chars (fun c => Ascii.eqb (lower_char c) c) (join ws last) = true.
Proof.
  induction ws as [|[w sep] r IH]; intros last Hw Hl.
  - apply plain_lower_ok. exact (proj1 (proj2 Hl)).
  - inversion Hw as [|? ? [Hw0 Hs] Hr]; subst. cbn [fst snd] in Hw0, Hs.
    cbn [join]. rewrite all_chars_app. cbn [all_chars].
    rewrite (plain_lower_ok w (proj1 (proj2 Hw0))), (IH last Hr Hl).
    destruct Hs as [-> | ->]; reflexivity.
Qed.

Lemma map_chars_app f x y : map_chars f (x ++ y) = map_chars f x ++ map_chars f y.
Proof. induction x as [|c r IH]; [reflexivity|]. cbn. rewrite IH. reflexivity. Qed.

Lemma map_blank_plain w : all_chars plain_char w = true -> map_chars blank_punct w = w.
Proof.
  induction w as [|c r IH]; intros H; [reflexivity|].
  cbn [all_chars] in H. apply andb_true_iff in H. destruct H as [Hc Hr].
  cbn [map_chars]. rewrite (IH Hr). f_equal. unfold plain_char in Hc. unfold blank_punct.
  destruct (Ascii.eqb c "("), (Ascii.eqb c ")"), (Ascii.eqb c "="); cbn in *;
    try reflexivity; rewrite ?andb_false_r in Hc; try discriminate;
    destruct (Ascii.eqb c " "); discriminate.
Qed.

(* after the substitution of blanks: the words separated by single blanks *)
Lemma map_blank_join ws : forall last,
  Forall (fun ws => word (fst ws) /\ sep_ok (snd ws)) ws -> word last ->
  map_chars blank_punct (join ws last) = join (map (fun ws => (fst ws, " "%char)) ws) last.
Proof.
  induction ws as [|[w sep] r IH]; intros last Hw Hl.
  - apply map_blank_plain. exact (proj1 (proj2 Hl)).
  - inversion Hw as [|? ? [Hw0 Hs] Hr]; subst. cbn [fst snd] in Hw0, Hs.
    cbn [join map fst]. rewrite map_chars_app. cbn [map_chars].
    rewrite (map_blank_plain w (proj1 (proj2 Hw0))), (IH last Hr Hl).
    destruct Hs as [-> | ->]; reflexivity.
Qed.

(* ---------- split() ---------- *)
Lemma split_word w : forall rest cur,
  all_chars plain_char w = true ->
  split_ws_aux (w ++ rest) cur = split_ws_aux rest (srev_aux w cur).
Proof.
  induction w as [|c r IH]; intros rest cur H; [reflexivity|].
  cbn [all_chars] in H. apply andb_true_iff in H. destruct H as [Hc Hr].
  cbn [append split_ws_aux srev_aux]. unfold plain_char in Hc.
  destruct (Ascii.eqb c " "); [discriminate|]. apply IH. exact Hr.
Qed.

Lemma srev_aux_nonempty_word w : is_empty w = false -> is_empty (srev_aux w "") = false.
Proof. destruct w; [discriminate|]. intros _. cbn [srev_aux]. apply srev_aux_nonempty. reflexivity. Qed.

Lemma srev_srev_aux w : srev (srev_aux w "") = w.
Proof. exact (srev_involutive w). Qed.

Lemma split_join (ws : list (string * ascii)) : forall last,
  Forall (fun ws => word (fst ws)) ws -> word last ->
  split_ws (join (map (fun ws => (fst ws, " "%char)) ws) last) = (map fst ws ++ [last])%list.
Proof.
  unfold split_ws. induction ws as [|[w sep] r IH]; intros last Hw Hl.
  - cbn [map join app]. destruct Hl as (Hne & Hp & _ & _).
    rewrite <- (append_nil_r last) at 1. rewrite (split_word last "" "" Hp).
    cbn [split_ws_aux]. rewrite srev_aux_nonempty_word by exact Hne. rewrite srev_srev_aux. reflexivity.
  - inversion Hw as [|? ? Hw0 Hr]; subst. cbn [fst] in Hw0. destruct Hw0 as (Hne & Hp & _ & _).
    cbn [map join fst app]. rewrite (split_word w _ "" Hp). cbn [split_ws_aux].
    replace (Ascii.eqb " " " ") with true by reflexivity.
    rewrite srev_aux_nonempty_word by exact Hne. rewrite srev_srev_aux. f_equal. apply IH; assumption.
Qed.

(* option text written as words separated by one blank or one '=': the tokens
   handed to parse_keywords are the words, in order *)
Theorem option_tokens_join ws last :
  Forall (fun ws => word (fst ws) /\ sep_ok (snd ws)) ws -> word last ->
  option_tokens (join ws last) = (map fst ws ++ [last])%list.
Proof.
  intros Hw Hl. unfold option_tokens.
  destruct (join_pairs ws last Hw Hl) as [H1 H2]. rewrite (colon_sub_id _ H1 H2).
  rewrite (lower_plain _ (join_lower_ok ws last Hw Hl)).
  rewrite (map_blank_join ws last Hw Hl).
  apply split_join; [|exact Hl]. eapply Forall_impl; [|exact Hw]. intros a [Ha _]. exact Ha.
Qed.

(* ================================================================== *)
(* option text of two cards joined by a blank (apply_but: the options of the
   card a LIKE card refers to, a blank, the BUT options): the tokens are the
   tokens of the first followed by the tokens of the second, unless a colon
   meets the junction *)

(* the flag of drop_blanks_after_colon after reading s: s ends with a colon
   followed by blanks only *)
Fixpoint flag_after (b : bool) (s : string) : bool :=
  match s with
  | EmptyString => b
  | String c r =>
      if Ascii.eqb c ":" then flag_after true r
      else if Ascii.eqb c " " && b then flag_after true r
      else flag_after false r
  end.

(* the text ends with a colon, possibly followed by blanks *)
Definition ends_colon (s : string) : bool := flag_after false s.

(* the text starts with a colon, possibly after blanks *)
Fixpoint lead_colon (s : string) : bool :=
  match s with
  | EmptyString => false
  | String c r => if Ascii.eqb c " " then lead_colon r else Ascii.eqb c ":"
  end.

Lemma dbc_app x : forall b y,
  drop_blanks_after_colon b (x ++ y) =
  drop_blanks_after_colon b x ++ drop_blanks_after_colon (flag_after b x) y.
Proof.
  induction x as [|c r IH]; intros b y; [reflexivity|].
  cbn [append drop_blanks_after_colon flag_after].
  destruct (Ascii.eqb c ":"); [cbn [append]; rewrite IH; reflexivity|].
  destruct (Ascii.eqb c " " && b); [apply IH|]. cbn [append]. rewrite IH. reflexivity.
Qed.

Lemma flag_after_app x : forall b y, flag_after b (x ++ y) = flag_after (flag_after b x) y.
Proof.
  induction x as [|c r IH]; intros b y; [reflexivity|].
  cbn [append flag_after]. destruct (Ascii.eqb c ":"); [apply IH|].
  destruct (Ascii.eqb c " " && b); apply IH.
Qed.

Lemma srev_aux_acc s : forall acc, srev_aux s acc = srev_aux s "" ++ acc.
Proof.
  induction s as [|c r IH]; intros acc; [reflexivity|].
  cbn [srev_aux]. rewrite (IH (String c acc)), (IH (String c "")), append_assoc'. reflexivity.
Qed.

Lemma srev_cons c r : srev (String c r) = srev r ++ String c "".
Proof. unfold srev. cbn [srev_aux]. apply srev_aux_acc. Qed.

Lemma srev_app x : forall y, srev (x ++ y) = srev y ++ srev x.
Proof.
  induction x as [|c r IH]; intros y; [cbn; rewrite append_nil_r; reflexivity|].
  cbn [append]. rewrite !srev_cons, IH, append_assoc'. reflexivity.
Qed.

Lemma flag_after_srev s : flag_after false (srev s) = lead_colon s.
Proof.
  induction s as [|c r IH]; [reflexivity|].
  rewrite srev_cons, flag_after_app, IH. cbn [flag_after lead_colon].
  destruct (Ascii.eqb c ":") eqn:Ec.
  - apply Ascii.eqb_eq in Ec. subst c. reflexivity.
  - destruct (Ascii.eqb c " "); [destruct (lead_colon r); reflexivity|reflexivity].
Qed.

Lemma lead_colon_dbc s : lead_colon (drop_blanks_after_colon false s) = lead_colon s.
Proof.
  induction s as [|c r IH]; [reflexivity|].
  cbn [drop_blanks_after_colon lead_colon]. destruct (Ascii.eqb c ":") eqn:Ec.
  - apply Ascii.eqb_eq in Ec. subst c. reflexivity.
  - rewrite andb_false_r. cbn [lead_colon]. rewrite Ec. destruct (Ascii.eqb c " "); [exact IH|reflexivity].
Qed.

Lemma colon_sub_app a b :
  ends_colon a = false -> lead_colon b = false ->
  colon_sub (a ++ String " " b) = colon_sub a ++ String " " (colon_sub b).
Proof.
  intros Ha Hb. unfold colon_sub, ends_colon in *.
  rewrite dbc_app, Ha. cbn [drop_blanks_after_colon]. replace (Ascii.eqb " " ":") with false by reflexivity.
  replace (Ascii.eqb " " " " && false) with false by reflexivity.
  set (A := drop_blanks_after_colon false a). set (B := drop_blanks_after_colon false b).
  rewrite srev_app, srev_cons, append_assoc'. cbn [append].
  rewrite dbc_app, flag_after_srev. unfold B at 2. rewrite lead_colon_dbc, Hb.
  cbn [drop_blanks_after_colon]. replace (Ascii.eqb " " ":") with false by reflexivity.
  replace (Ascii.eqb " " " " && false) with false by reflexivity.
  rewrite srev_app, srev_cons, append_assoc'. reflexivity.
Qed.

Lemma lower_app x y : lower (x ++ y) = lower x ++ lower y.
Proof. induction x as [|c r IH]; [reflexivity|]. cbn. rewrite IH. reflexivity. Qed.

Lemma split_ws_aux_blank x : forall cur y,
  split_ws_aux (x ++ String " " y) cur = (split_ws_aux x cur ++ split_ws_aux y "")%list.
Proof.
  induction x as [|c r IH]; intros cur y.
  - cbn [append split_ws_aux]. replace (Ascii.eqb " " " ") with true by reflexivity.
    destruct (is_empty cur); reflexivity.
  - cbn [append split_ws_aux]. destruct (Ascii.eqb c " ").
    + destruct (is_empty cur); [apply IH|]. rewrite IH. reflexivity.
    + apply IH.
Qed.

(* apply_but's  options + ' ' + but_options *)
Theorem option_tokens_app a b :
  ends_colon a = false -> lead_colon b = false ->
  option_tokens (a ++ " " ++ b) = (option_tokens a ++ option_tokens b)%list.
Proof.
  intros Ha Hb. unfold option_tokens. change (a ++ " " ++ b) with (a ++ String " " b).
  rewrite (colon_sub_app a b Ha Hb), lower_app. cbn [lower]. rewrite map_chars_app. cbn [map_chars].
  replace (lower_char " ") with " "%char by reflexivity.
  replace (blank_punct " ") with " "%char by reflexivity.
  unfold split_ws. apply split_ws_aux_blank.
Qed.

Lemma lead_colon_app x y :
  lead_colon x = false -> lead_colon y = false -> lead_colon (x ++ String " " y) = false.
Proof.
  induction x as [|c r IH]; intros Hx Hy; [exact Hy|].
  cbn [append lead_colon] in *. destruct (Ascii.eqb c " "); [apply IH; assumption|exact Hx].
Qed.
