(* C12 — proofs about the card splitting model (C12/Cards.v). *)
From Coq Require Import List NArith ZArith Bool String Ascii Lia.
From T4V Require Import Base.Str Base.Scalar C12.Text C12.Model C12.Cards C12.ProofsText.
Import ListNotations.
Open Scope string_scope.

(* ---------- span ---------- *)
Definition hd_fails (p : ascii -> bool) (s : string) : Prop :=
  match s with String c _ => p c = false | EmptyString => True end.

Lemma span_parts p s : (fst (span p s) ++ snd (span p s))%string = s.
Proof.
  induction s as [|c r IH]; [reflexivity|]. cbn [span]. destruct (p c); [|reflexivity].
  destruct (span p r) as [a b]. cbn [fst snd append] in *. rewrite IH. reflexivity.
Qed.

Lemma span_hd_fails p s : hd_fails p s -> span p s = ("", s).
Proof. destruct s as [|c r]; [reflexivity|]. cbn. intros ->. reflexivity. Qed.

Lemma span_app_gen p a : forall b,
  hd_fails p b -> span p (a ++ b) = (fst (span p a), (snd (span p a) ++ b)%string).
Proof.
  induction a as [|c r IH]; intros b Hb.
  - cbn [append span fst snd]. apply span_hd_fails. exact Hb.
  - cbn [append span]. destruct (p c); [|reflexivity].
    rewrite (IH b Hb). destruct (span p r) as [x y]. reflexivity.
Qed.

Lemma span_all p a : all_chars p a = true -> span p a = (a, "").
Proof.
  induction a as [|c r IH]; intros H; [reflexivity|].
  cbn [all_chars] in H. apply andb_true_iff in H. destruct H as [Hc Hr].
  cbn [span]. rewrite Hc, (IH Hr). reflexivity.
Qed.

Lemma span_app_all p a b :
  all_chars p a = true -> hd_fails p b -> span p (a ++ b) = (a, b).
Proof. intros Ha Hb. rewrite (span_app_gen p a b Hb), (span_all p a Ha). reflexivity. Qed.

Lemma all_chars_snd_span q p a : all_chars q a = true -> all_chars q (snd (span p a)) = true.
Proof.
  induction a as [|c r IH]; intros H; [reflexivity|].
  cbn [all_chars] in H. apply andb_true_iff in H. destruct H as [Hc Hr].
  cbn [span]. destruct (p c).
  - destruct (span p r) as [x y]. cbn [snd] in *. exact (IH Hr).
  - cbn [snd all_chars]. rewrite Hc, Hr. reflexivity.
Qed.

(* ---------- an IMP data card, from its text ---------- *)

(* the card text  name ++ " " ++ body : name starts with a letter and holds no
   digit (imp:n, IMP:N,P ...), body starts with a digit (the first entry) and
   no star follows its leading digits *)
Theorem imp_card_text name body :
  (match name with String c _ => is_letter c = true | EmptyString => False end) ->
  all_chars (fun c => negb (is_digit c)) name = true ->
  (match body with String c _ => is_digit c = true | EmptyString => False end) ->
  hd_fails (Ascii.eqb "*") (snd (span is_digit body)) ->
  String.prefix "imp:" (lstrip (lower (name ++ " "))) = true ->
  imp_cards_of [(name ++ " " ++ body)%string] = Ok [(lower (name ++ " "), split_ws body)].
Proof.
  intros Hn Hnd Hb Hstar Himp.
  destruct name as [|c0 name']; [destruct Hn|].
  assert (is_blank c0 = false /\ Ascii.eqb "*" c0 = false) as [Hb0 Hs0].
  { unfold is_letter, is_blank in *. destruct c0 as [b0 b1 b2 b3 b4 b5 b6 b7].
    destruct b0, b1, b2, b3, b4, b5, b6, b7; try discriminate; split; reflexivity. }
  set (name := String c0 name') in *.
  assert (data_parts (name ++ " " ++ body) = Some ((name ++ " ")%string, fst (span is_digit body), snd (span is_digit body))) as Hd.
  { unfold data_parts.
    rewrite (span_hd_fails is_blank) by exact Hb0.
    rewrite (span_hd_fails (Ascii.eqb "*")) by exact Hs0.
    assert (hd_fails is_letter (" " ++ body)) as Hl by reflexivity.
    rewrite (span_app_gen is_letter name (" " ++ body) Hl).
    assert (is_empty (fst (span is_letter name)) = false) as Hne.
    { unfold name. cbn [span]. rewrite Hn. destruct (span is_letter name'). reflexivity. }
    rewrite Hne.
    set (l := fst (span is_letter name)). set (t := snd (span is_letter name)).
    assert ((t ++ " " ++ body) = ((t ++ " ") ++ body))%string as E by (rewrite append_assoc'; reflexivity).
    rewrite E, (span_app_all (fun c => negb (is_digit c)) (t ++ " ") body).
    - destruct (span is_digit body) as [dg s5] eqn:Es. cbn [fst snd] in *.
      assert (match s5 with String "*" r => r | _ => s5 end = s5) as ->.
      { destruct s5 as [|c r]; [reflexivity|]. cbn in Hstar.
        destruct c as [b0 b1 b2 b3 b4 b5 b6 b7].
        destruct b0, b1, b2, b3, b4, b5, b6, b7; try reflexivity; discriminate. }
      f_equal. f_equal. f_equal. cbn [append].
      rewrite <- append_assoc'. unfold l, t. rewrite span_parts. reflexivity.
    - rewrite all_chars_app. unfold t. rewrite (all_chars_snd_span _ is_letter name Hnd). reflexivity.
    - destruct body as [|c r]; [destruct Hb|]. cbn. rewrite Hb. reflexivity. }
  cbn [imp_cards_of]. rewrite Hd. cbn [bind]. rewrite Himp.
  rewrite span_parts. reflexivity.
Qed.

(* ---------- from card texts to the deck-level theorems ---------- *)
Section Bridge.
  Context {T : Type} (Sc : Scalar T) (P : prims T).

  (* once the card texts are split, parsing the deck text is parse_cells on the
     split cards: every theorem about parse_cells applies to the deck text (for
     a concrete deck the two splits are computed by reflexivity) *)
  Theorem parse_deck_text_split ctexts dtexts lats ic cards :
    imp_cards_of dtexts = Ok ic -> cards_of_texts Sc P ctexts = Ok cards ->
    parse_deck_text Sc P ctexts dtexts lats = parse_cells Sc P ic cards lats.
  Proof.
    intros Hi Hc. unfold parse_deck_text. rewrite Hi. cbn [bind].
    destruct (importance_cards Sc P ic) as [imps|e] eqn:E; cbn [bind].
    - rewrite Hc. reflexivity.
    - unfold parse_cells. rewrite E. reflexivity.
  Qed.
End Bridge.

(* ================================================================== *)
(* cellcard.split on an explicit cell card, from its text              *)

Ltac ascii_cases c :=
  let b0 := fresh in let b1 := fresh in let b2 := fresh in let b3 := fresh in
  let b4 := fresh in let b5 := fresh in let b6 := fresh in let b7 := fresh in
  destruct c as [b0 b1 b2 b3 b4 b5 b6 b7]; destruct b0, b1, b2, b3, b4, b5, b6, b7.

(* a character that cannot start the options: neither a letter nor a star *)
Definition nos (c : ascii) : bool := negb (Ascii.eqb c "*" || is_letter c).
Definition nonblank (c : ascii) : bool := negb (is_blank c).

Lemma digit_nos c : is_digit c = true -> nos c = true /\ nonblank c = true.
Proof. ascii_cases c; cbv; intros H; try discriminate; split; reflexivity. Qed.

Lemma all_digits_chars s : all_digits s = true -> all_chars is_digit s = true.
Proof. induction s as [|c r IH]; [reflexivity|]. cbn. intros H. apply andb_true_iff in H. destruct H as [H1 H2]. rewrite H1, (IH H2). reflexivity. Qed.

Lemma all_chars_impl (p q : ascii -> bool) s :
  (forall c, p c = true -> q c = true) -> all_chars p s = true -> all_chars q s = true.
Proof.
  intros Hpq. induction s as [|c r IH]; [reflexivity|]. cbn. intros H.
  apply andb_true_iff in H. destruct H as [H1 H2]. rewrite (Hpq c H1), (IH H2). reflexivity.
Qed.

(* ---- split() ---- *)
Lemma split_nb w : forall rest cur,
  all_chars nonblank w = true ->
  split_ws_aux (w ++ rest) cur = split_ws_aux rest (srev_aux w cur).
Proof.
  induction w as [|c r IH]; intros rest cur H; [reflexivity|].
  cbn [all_chars] in H. apply andb_true_iff in H. destruct H as [Hc Hr].
  cbn [append split_ws_aux srev_aux]. unfold nonblank, is_blank in Hc.
  destruct (Ascii.eqb c " "); [discriminate|]. apply IH. exact Hr.
Qed.

Lemma split_ws_word w rest :
  all_chars nonblank w = true -> is_empty w = false ->
  split_ws (w ++ String " " rest) = w :: split_ws rest.
Proof.
  intros Hw Hne. unfold split_ws. rewrite (split_nb w _ "" Hw). cbn [split_ws_aux].
  replace (Ascii.eqb " " " ") with true by reflexivity.
  rewrite (srev_aux_nonempty_word w Hne). f_equal. apply srev_involutive.
Qed.

Lemma split_ws_aux_nonnil s : forall cur,
  (is_empty cur = false \/ exists x c r, s = (x ++ String c r)%string /\ nonblank c = true) ->
  split_ws_aux s cur <> [].
Proof.
  induction s as [|d t IH]; intros cur H.
  - cbn. destruct H as [H|(x & c & r & E & _)]; [rewrite H; discriminate|destruct x; discriminate].
  - cbn [split_ws_aux]. destruct (Ascii.eqb d " ") eqn:Ed.
    + destruct (is_empty cur) eqn:Ec; [|discriminate].
      apply IH. right. destruct H as [H|(x & c & r & E & Hc)]; [discriminate|].
      destruct x as [|x0 x'].
      * cbn in E. injection E as -> ->. unfold nonblank, is_blank in Hc. rewrite Ed in Hc. discriminate.
      * cbn in E. injection E as _ ->. exists x', c, r. split; [reflexivity|exact Hc].
    + apply IH. left. reflexivity.
Qed.

(* ---- re_options ---- *)
Lemma split_options_pre pre opts :
  all_chars nos pre = true -> starts_option opts = true ->
  split_options (pre ++ String " " opts) = ((pre ++ " ")%string, opts).
Proof.
  intros Hp Ho. induction pre as [|c r IH].
  - cbn [append split_options]. unfold is_blank. replace (Ascii.eqb " " " ") with true by reflexivity.
    rewrite orb_true_r, Ho. reflexivity.
  - cbn [all_chars] in Hp. apply andb_true_iff in Hp. destruct Hp as [Hc Hr].
    cbn [append split_options].
    assert (starts_option (r ++ String " " opts) = false) as Hs.
    { destruct r as [|d r']; [reflexivity|]. cbn [append starts_option].
      cbn [all_chars] in Hr. apply andb_true_iff in Hr. destruct Hr as [Hd _].
      unfold nos in Hd. apply negb_true_iff in Hd. exact Hd. }
    rewrite Hs, andb_false_r, (IH Hr). reflexivity.
Qed.

Lemma split_options_pre_sep (sep : ascii) pre opts :
  (Ascii.eqb sep ")" || is_blank sep) = true ->
  all_chars nos pre = true -> starts_option opts = true ->
  split_options (pre ++ String sep opts) = ((pre ++ String sep "")%string, opts).
Proof.
  intros Hsep Hp Ho. induction pre as [|c r IH].
  - cbn [append split_options]. rewrite Hsep, Ho. reflexivity.
  - cbn [all_chars] in Hp. apply andb_true_iff in Hp. destruct Hp as [Hc Hr].
    cbn [append split_options].
    assert (starts_option (r ++ String sep opts) = false) as Hs.
    { destruct r as [|d r']; cbn [append starts_option].
      - unfold is_blank in Hsep. clear - Hsep. ascii_cases sep; cbv in Hsep |- *; try reflexivity; discriminate.
      - cbn [all_chars] in Hr. apply andb_true_iff in Hr. destruct Hr as [Hd _].
        unfold nos in Hd. apply negb_true_iff in Hd. exact Hd. }
    rewrite Hs, andb_false_r, (IH Hr). reflexivity.
Qed.

(* ---- LIKE_RE finds nothing in a text without letters ---- *)
Definition nonletter (c : ascii) : bool := negb (is_letter c).

Lemma lower_nonletter c : nonletter c = true -> lower_char c = c /\ Ascii.eqb c "l" = false.
Proof. ascii_cases c; cbv; intros H; try discriminate; split; reflexivity. Qed.

Lemma like_target_none s : all_chars nonletter s = true -> like_target s = None.
Proof.
  induction s as [|c r IH]; intros H; [reflexivity|].
  cbn [all_chars] in H. apply andb_true_iff in H. destruct H as [Hc Hr].
  cbn [like_target]. unfold like_here. cbn [String.prefix].
  destruct (ascii_dec "l" c) as [E|_].
  - subst c. discriminate.
  - exact (IH Hr).
Qed.

Lemma lower_keeps_nonletter s : all_chars nonletter s = true -> lower s = s.
Proof.
  induction s as [|c r IH]; intros H; [reflexivity|].
  cbn [all_chars] in H. apply andb_true_iff in H. destruct H as [Hc Hr].
  cbn [lower]. rewrite (proj1 (lower_nonletter c Hc)), (IH Hr). reflexivity.
Qed.

Section CellText.
  Context {T : Type} (Sc : Scalar T) (P : prims T).

  (* an explicit void cell card as Card.content() returns it:
       name, blank, material, blank, geometry, blank, options
     name = digits; material = a word without letter or star that float() reads
     as 0; geometry = any text without letter or star (blanks, parentheses,
     colons, '#', signs, digits); options start with a letter or a star.
     cellcard.split + get_cells + LIKE_RE give an explicit card with these parts. *)
  Theorem void_card_text name m G opts z :
    all_digits name = true -> is_empty name = false ->
    all_chars nos m = true -> all_chars nonblank m = true -> is_empty m = false ->
    fl P m = Some z -> seqb Sc z (s0 Sc) = true ->
    all_chars nos G = true -> starts_option opts = true ->
    card_of_text Sc P (name ++ " " ++ m ++ " " ++ G ++ " " ++ opts) =
    Ok (Z.of_N (parse_digits name 0%N),
        (Explicit (" " ++ m)%string (" " ++ G ++ " ")%string, opts)).
  Proof.
    intros Hn Hne Hm Hmb Hme Hfl Hz HG Ho.
    pose proof (all_digits_chars name Hn) as Hnd.
    assert (all_chars nos name = true /\ all_chars nonblank name = true) as [Hnn Hnb].
    { split; eapply all_chars_impl; try exact Hnd; intros c Hc; apply (digit_nos c Hc). }
    set (txt := (name ++ " " ++ m ++ " " ++ G ++ " " ++ opts)%string).
    (* the words *)
    assert (exists x xs, split_ws txt = name :: m :: x :: xs) as (x & xs & Hw).
    { unfold txt. change (name ++ " " ++ m ++ " " ++ G ++ " " ++ opts)%string
        with (name ++ String " " (m ++ String " " (G ++ String " " opts)))%string.
      rewrite (split_ws_word name _ Hnb Hne), (split_ws_word m _ Hmb Hme).
      destruct (split_ws (G ++ String " " opts)) as [|x xs] eqn:E.
      - exfalso. revert E. unfold split_ws. apply split_ws_aux_nonnil. right.
        destruct opts as [|c r]; [discriminate|]. exists (G ++ " ")%string, c, r. split.
        + rewrite append_assoc'. reflexivity.
        + cbn in Ho. unfold nonblank, is_blank. ascii_cases c; cbv in Ho |- *; try reflexivity; discriminate.
      - exists x, xs. reflexivity. }
    (* not a LIKE card *)
    assert (String.eqb (lower m) "like" = false) as Hlk.
    { destruct m as [|c r]; [discriminate|]. cbn [all_chars] in Hm. apply andb_true_iff in Hm.
      destruct Hm as [Hc _]. cbn [lower String.eqb].
      replace (Ascii.eqb (lower_char c) "l") with false; [reflexivity|].
      symmetry. clear - Hc. ascii_cases c; cbv in Hc |- *; try reflexivity; discriminate. }
    (* options *)
    assert (split_options txt = ((name ++ " " ++ m ++ " " ++ G ++ " ")%string, opts)) as Hso.
    { unfold txt.
      replace (name ++ " " ++ m ++ " " ++ G ++ " " ++ opts)%string
        with ((name ++ " " ++ m ++ " " ++ G) ++ String " " opts)%string
        by (rewrite !append_assoc'; reflexivity).
      rewrite split_options_pre; [|rewrite !all_chars_app, Hnn, Hm, HG; reflexivity|exact Ho].
      rewrite !append_assoc'. reflexivity. }
    unfold card_of_text, cell_parts. fold txt. rewrite Hw, Hlk, Hso, Hfl. cbn [of_opt bind].
    (* the body *)
    destruct name as [|n0 name']; [discriminate|].
    assert (is_blank n0 = false) as Hb0
      by (cbn in Hnb; apply andb_true_iff in Hnb; destruct Hnb as [Hx _]; apply negb_true_iff in Hx; exact Hx).
    rewrite (span_hd_fails is_blank) by exact Hb0.
    set (name := String n0 name') in *.
    change (name ++ " " ++ m ++ " " ++ G ++ " ")%string
      with (name ++ String " " (m ++ String " " (G ++ " ")))%string.
    rewrite (span_app_all is_digit name _ Hnd) by reflexivity.
    change (String " " (m ++ String " " (G ++ " "))) with (" " ++ (m ++ String " " (G ++ " ")))%string.
    rewrite (span_app_all is_blank " " (m ++ String " " (G ++ " "))); [|reflexivity|].
    2:{ destruct m as [|c r]; [discriminate|]. cbn. cbn in Hmb. apply andb_true_iff in Hmb.
        destruct Hmb as [Hx _]. apply negb_true_iff in Hx. exact Hx. }
    rewrite (span_app_all (fun c => negb (is_blank c)) m (String " " (G ++ " ")) Hmb) by reflexivity.
    unfold int_of_string. rewrite Hn. cbn [is_empty orb]. rewrite Hme, Hz. cbn [orb bind].
    (* LIKE_RE *)
    assert (all_chars nonletter (String " " (G ++ " ")) = true) as Hnl.
    { cbn [all_chars]. rewrite all_chars_app. cbn.
      rewrite (all_chars_impl nos nonletter G); [reflexivity| |exact HG].
      intros c Hc. unfold nos, nonletter in *. apply negb_true_iff in Hc. apply orb_false_iff in Hc.
      destruct Hc as [_ Hc]. rewrite Hc. reflexivity. }
    unfold name at 1. cbv beta iota. cbn [bind]. cbv beta iota.
    rewrite (lower_keeps_nonletter _ Hnl), (like_target_none _ Hnl). reflexivity.
  Qed.

  (* the same with the options glued to the closing parenthesis that ends the
     geometry:  name material geometry)options  (sep = ")"), or after a blank
     (sep = " ") *)
  Theorem void_card_text_sep (sep : ascii) name m G opts z :
    (sep = " "%char \/ sep = ")"%char) ->
    all_digits name = true -> is_empty name = false ->
    all_chars nos m = true -> all_chars nonblank m = true -> is_empty m = false ->
    fl P m = Some z -> seqb Sc z (s0 Sc) = true ->
    all_chars nos G = true -> starts_option opts = true ->
    card_of_text Sc P (name ++ " " ++ m ++ " " ++ G ++ String sep opts) =
    Ok (Z.of_N (parse_digits name 0%N),
        (Explicit (" " ++ m)%string (" " ++ G ++ String sep "")%string, opts)).
  Proof.
    intros Hsep Hn Hne Hm Hmb Hme Hfl Hz HG Ho.
    assert (nos sep = true /\ nonletter sep = true /\ (Ascii.eqb sep ")" || is_blank sep) = true) as (Hs1 & Hs2 & Hs3)
      by (destruct Hsep as [-> | ->]; repeat split; reflexivity).
    pose proof (all_digits_chars name Hn) as Hnd.
    assert (all_chars nos name = true /\ all_chars nonblank name = true) as [Hnn Hnb].
    { split; eapply all_chars_impl; try exact Hnd; intros c Hc; apply (digit_nos c Hc). }
    set (txt := (name ++ " " ++ m ++ " " ++ G ++ String sep opts)%string).
    (* the words *)
    assert (exists x xs, split_ws txt = name :: m :: x :: xs) as (x & xs & Hw).
    { unfold txt. change (name ++ " " ++ m ++ " " ++ G ++ String sep opts)%string
        with (name ++ String " " (m ++ String " " (G ++ String sep opts)))%string.
      rewrite (split_ws_word name _ Hnb Hne), (split_ws_word m _ Hmb Hme).
      destruct (split_ws (G ++ String sep opts)) as [|x xs] eqn:E.
      - exfalso. revert E. unfold split_ws. apply split_ws_aux_nonnil. right.
        destruct opts as [|c r]; [discriminate|]. exists (G ++ String sep "")%string, c, r. split.
        + rewrite append_assoc'. reflexivity.
        + cbn in Ho. unfold nonblank, is_blank. ascii_cases c; cbv in Ho |- *; try reflexivity; discriminate.
      - exists x, xs. reflexivity. }
    (* not a LIKE card *)
    assert (String.eqb (lower m) "like" = false) as Hlk.
    { destruct m as [|c r]; [discriminate|]. cbn [all_chars] in Hm. apply andb_true_iff in Hm.
      destruct Hm as [Hc _]. cbn [lower String.eqb].
      replace (Ascii.eqb (lower_char c) "l") with false; [reflexivity|].
      symmetry. clear - Hc. ascii_cases c; cbv in Hc |- *; try reflexivity; discriminate. }
    (* options *)
    assert (split_options txt = ((name ++ " " ++ m ++ " " ++ G ++ String sep "")%string, opts)) as Hso.
    { unfold txt.
      replace (name ++ " " ++ m ++ " " ++ G ++ String sep opts)%string
        with ((name ++ " " ++ m ++ " " ++ G) ++ String sep opts)%string
        by (rewrite !append_assoc'; reflexivity).
      rewrite (split_options_pre_sep sep); [|exact Hs3|rewrite !all_chars_app, Hnn, Hm, HG; reflexivity|exact Ho].
      rewrite !append_assoc'. reflexivity. }
    unfold card_of_text, cell_parts. fold txt. rewrite Hw, Hlk, Hso, Hfl. cbn [of_opt bind].
    (* the body *)
    destruct name as [|n0 name']; [discriminate|].
    assert (is_blank n0 = false) as Hb0
      by (cbn in Hnb; apply andb_true_iff in Hnb; destruct Hnb as [Hx _]; apply negb_true_iff in Hx; exact Hx).
    rewrite (span_hd_fails is_blank) by exact Hb0.
    set (name := String n0 name') in *.
    change (name ++ " " ++ m ++ " " ++ G ++ String sep "")%string
      with (name ++ String " " (m ++ String " " (G ++ String sep "")))%string.
    rewrite (span_app_all is_digit name _ Hnd) by reflexivity.
    change (String " " (m ++ String " " (G ++ String sep ""))) with (" " ++ (m ++ String " " (G ++ String sep "")))%string.
    rewrite (span_app_all is_blank " " (m ++ String " " (G ++ String sep ""))); [|reflexivity|].
    2:{ destruct m as [|c r]; [discriminate|]. cbn. cbn in Hmb. apply andb_true_iff in Hmb.
        destruct Hmb as [Hx _]. apply negb_true_iff in Hx. exact Hx. }
    rewrite (span_app_all (fun c => negb (is_blank c)) m (String " " (G ++ String sep "")) Hmb) by reflexivity.
    unfold int_of_string. rewrite Hn. cbn [is_empty orb]. rewrite Hme, Hz. cbn [orb bind].
    (* LIKE_RE *)
    assert (all_chars nonletter (String " " (G ++ String sep "")) = true) as Hnl.
    { cbn [all_chars]. rewrite all_chars_app. cbn [all_chars]. rewrite Hs2.
      rewrite (all_chars_impl nos nonletter G); [reflexivity| |exact HG].
      intros c Hc. unfold nos, nonletter in *. apply negb_true_iff in Hc. apply orb_false_iff in Hc.
      destruct Hc as [_ Hc]. rewrite Hc. reflexivity. }
    unfold name at 1. cbv beta iota. cbn [bind]. cbv beta iota.
    rewrite (lower_keeps_nonletter _ Hnl), (like_target_none _ Hnl). reflexivity.
  Qed.


  (* the same for a cell with a material: name, material number, density (a word
     without letter, star or opening parenthesis), geometry, options *)
  Theorem nonvoid_card_text name m rho G opts z :
    all_digits name = true -> is_empty name = false ->
    all_chars nos m = true -> all_chars nonblank m = true -> is_empty m = false ->
    fl P m = Some z -> seqb Sc z (s0 Sc) = false ->
    all_chars nos rho = true -> all_chars (fun c => negb (is_blank c || Ascii.eqb c "(")) rho = true ->
    is_empty rho = false ->
    all_chars nos G = true -> starts_option opts = true ->
    card_of_text Sc P (name ++ " " ++ m ++ " " ++ rho ++ " " ++ G ++ " " ++ opts) =
    Ok (Z.of_N (parse_digits name 0%N),
        (Explicit (" " ++ m ++ " " ++ rho)%string (" " ++ G ++ " ")%string, opts)).
  Proof.
    intros Hn Hne Hm Hmb Hme Hfl Hz Hr Hrb Hre HG0 Ho.
    set (G1 := (rho ++ " " ++ G)%string).
    assert (all_chars nos G1 = true) as HG by (unfold G1; rewrite !all_chars_app, Hr, HG0; reflexivity).
    pose proof (all_digits_chars name Hn) as Hnd.
    assert (all_chars nos name = true /\ all_chars nonblank name = true) as [Hnn Hnb].
    { split; eapply all_chars_impl; try exact Hnd; intros c Hc; apply (digit_nos c Hc). }
    assert ((name ++ " " ++ m ++ " " ++ rho ++ " " ++ G ++ " " ++ opts)
            = (name ++ " " ++ m ++ " " ++ G1 ++ " " ++ opts))%string as Etxt
      by (unfold G1; rewrite !append_assoc'; reflexivity).
    rewrite Etxt.
    set (txt := (name ++ " " ++ m ++ " " ++ G1 ++ " " ++ opts)%string).
    (* the words *)
    assert (exists x xs, split_ws txt = name :: m :: x :: xs) as (x & xs & Hw).
    { unfold txt. change (name ++ " " ++ m ++ " " ++ G1 ++ " " ++ opts)%string
        with (name ++ String " " (m ++ String " " (G1 ++ String " " opts)))%string.
      rewrite (split_ws_word name _ Hnb Hne), (split_ws_word m _ Hmb Hme).
      destruct (split_ws (G1 ++ String " " opts)) as [|x xs] eqn:E.
      - exfalso. revert E. unfold split_ws. apply split_ws_aux_nonnil. right.
        destruct opts as [|c r]; [discriminate|]. exists (G1 ++ " ")%string, c, r. split.
        + rewrite append_assoc'. reflexivity.
        + cbn in Ho. unfold nonblank, is_blank. ascii_cases c; cbv in Ho |- *; try reflexivity; discriminate.
      - exists x, xs. reflexivity. }
    (* not a LIKE card *)
    assert (String.eqb (lower m) "like" = false) as Hlk.
    { destruct m as [|c r]; [discriminate|]. cbn [all_chars] in Hm. apply andb_true_iff in Hm.
      destruct Hm as [Hc _]. cbn [lower String.eqb].
      replace (Ascii.eqb (lower_char c) "l") with false; [reflexivity|].
      symmetry. clear - Hc. ascii_cases c; cbv in Hc |- *; try reflexivity; discriminate. }
    (* options *)
    assert (split_options txt = ((name ++ " " ++ m ++ " " ++ G1 ++ " ")%string, opts)) as Hso.
    { unfold txt.
      replace (name ++ " " ++ m ++ " " ++ G1 ++ " " ++ opts)%string
        with ((name ++ " " ++ m ++ " " ++ G1) ++ String " " opts)%string
        by (rewrite !append_assoc'; reflexivity).
      rewrite split_options_pre; [|rewrite !all_chars_app, Hnn, Hm, HG; reflexivity|exact Ho].
      rewrite !append_assoc'. reflexivity. }
    unfold card_of_text, cell_parts. fold txt. rewrite Hw, Hlk, Hso, Hfl. cbn [of_opt bind].
    (* the body *)
    destruct name as [|n0 name']; [discriminate|].
    assert (is_blank n0 = false) as Hb0
      by (cbn in Hnb; apply andb_true_iff in Hnb; destruct Hnb as [Hx _]; apply negb_true_iff in Hx; exact Hx).
    rewrite (span_hd_fails is_blank) by exact Hb0.
    set (name := String n0 name') in *.
    change (name ++ " " ++ m ++ " " ++ G1 ++ " ")%string
      with (name ++ String " " (m ++ String " " (G1 ++ " ")))%string.
    rewrite (span_app_all is_digit name _ Hnd) by reflexivity.
    change (String " " (m ++ String " " (G1 ++ " "))) with (" " ++ (m ++ String " " (G1 ++ " ")))%string.
    rewrite (span_app_all is_blank " " (m ++ String " " (G1 ++ " "))); [|reflexivity|].
    2:{ destruct m as [|c r]; [discriminate|]. cbn. cbn in Hmb. apply andb_true_iff in Hmb.
        destruct Hmb as [Hx _]. apply negb_true_iff in Hx. exact Hx. }
    rewrite (span_app_all (fun c => negb (is_blank c)) m (String " " (G1 ++ " ")) Hmb) by reflexivity.
    unfold int_of_string. rewrite Hn. cbn [is_empty orb]. rewrite Hme, Hz. cbn [orb].
    change (String " " (G1 ++ " ")) with (" " ++ (G1 ++ " "))%string.
    rewrite (span_app_all is_blank " " (G1 ++ " ")); [|reflexivity|].
    2:{ unfold G1. destruct rho as [|c r]; [discriminate|]. cbn. cbn in Hrb. apply andb_true_iff in Hrb.
        destruct Hrb as [Hx _]. apply negb_true_iff in Hx. apply orb_false_iff in Hx. exact (proj1 Hx). }
    replace (G1 ++ " ")%string with (rho ++ (" " ++ G ++ " "))%string
      by (unfold G1; rewrite !append_assoc'; reflexivity).
    rewrite (span_app_all (fun c => negb (is_blank c || Ascii.eqb c "(")) rho (" " ++ G ++ " ") Hrb) by reflexivity.
    cbn [is_empty orb]. rewrite Hre.
    assert (all_chars nonletter (" " ++ G ++ " ") = true) as Hnl.
    { cbn [append all_chars]. rewrite all_chars_app. cbn.
      rewrite (all_chars_impl nos nonletter G); [reflexivity| |exact HG0].
      intros c Hc. unfold nos, nonletter in *. apply negb_true_iff in Hc. apply orb_false_iff in Hc.
      destruct Hc as [_ Hc]. rewrite Hc. reflexivity. }
    unfold name at 1. cbv beta iota. cbn [bind]. cbv beta iota.
    rewrite (lower_keeps_nonletter _ Hnl), (like_target_none _ Hnl).
    rewrite ?append_assoc'. reflexivity.
  Qed.


  (* ... and with the options after a blank (sep = " ") or glued to the closing
     parenthesis of the geometry (sep = ")") *)
  Theorem nonvoid_card_text_sep (sep : ascii) name m rho G opts z :
    (sep = " "%char \/ sep = ")"%char) ->
    all_digits name = true -> is_empty name = false ->
    all_chars nos m = true -> all_chars nonblank m = true -> is_empty m = false ->
    fl P m = Some z -> seqb Sc z (s0 Sc) = false ->
    all_chars nos rho = true -> all_chars (fun c => negb (is_blank c || Ascii.eqb c "(")) rho = true ->
    is_empty rho = false ->
    all_chars nos G = true -> starts_option opts = true ->
    card_of_text Sc P (name ++ " " ++ m ++ " " ++ rho ++ " " ++ G ++ String sep opts) =
    Ok (Z.of_N (parse_digits name 0%N),
        (Explicit (" " ++ m ++ " " ++ rho)%string (" " ++ G ++ String sep "")%string, opts)).
  Proof.
    intros Hsep Hn Hne Hm Hmb Hme Hfl Hz Hr Hrb Hre HG0 Ho.
    assert (nos sep = true /\ nonletter sep = true /\ (Ascii.eqb sep ")" || is_blank sep) = true) as (Hs1 & Hs2 & Hs3)
      by (destruct Hsep as [-> | ->]; repeat split; reflexivity).
    set (G1 := (rho ++ " " ++ G)%string).
    assert (all_chars nos G1 = true) as HG by (unfold G1; rewrite !all_chars_app, Hr, HG0; reflexivity).
    pose proof (all_digits_chars name Hn) as Hnd.
    assert (all_chars nos name = true /\ all_chars nonblank name = true) as [Hnn Hnb].
    { split; eapply all_chars_impl; try exact Hnd; intros c Hc; apply (digit_nos c Hc). }
    assert ((name ++ " " ++ m ++ " " ++ rho ++ " " ++ G ++ String sep opts)
            = (name ++ " " ++ m ++ " " ++ G1 ++ String sep opts))%string as Etxt
      by (unfold G1; rewrite !append_assoc'; reflexivity).
    rewrite Etxt.
    set (txt := (name ++ " " ++ m ++ " " ++ G1 ++ String sep opts)%string).
    (* the words *)
    assert (exists x xs, split_ws txt = name :: m :: x :: xs) as (x & xs & Hw).
    { unfold txt. change (name ++ " " ++ m ++ " " ++ G1 ++ String sep opts)%string
        with (name ++ String " " (m ++ String " " (G1 ++ String sep opts)))%string.
      rewrite (split_ws_word name _ Hnb Hne), (split_ws_word m _ Hmb Hme).
      destruct (split_ws (G1 ++ String sep opts)) as [|x xs] eqn:E.
      - exfalso. revert E. unfold split_ws. apply split_ws_aux_nonnil. right.
        destruct opts as [|c r]; [discriminate|]. exists (G1 ++ String sep "")%string, c, r. split.
        + rewrite append_assoc'. reflexivity.
        + cbn in Ho. unfold nonblank, is_blank. ascii_cases c; cbv in Ho |- *; try reflexivity; discriminate.
      - exists x, xs. reflexivity. }
    (* not a LIKE card *)
    assert (String.eqb (lower m) "like" = false) as Hlk.
    { destruct m as [|c r]; [discriminate|]. cbn [all_chars] in Hm. apply andb_true_iff in Hm.
      destruct Hm as [Hc _]. cbn [lower String.eqb].
      replace (Ascii.eqb (lower_char c) "l") with false; [reflexivity|].
      symmetry. clear - Hc. ascii_cases c; cbv in Hc |- *; try reflexivity; discriminate. }
    (* options *)
    assert (split_options txt = ((name ++ " " ++ m ++ " " ++ G1 ++ String sep "")%string, opts)) as Hso.
    { unfold txt.
      replace (name ++ " " ++ m ++ " " ++ G1 ++ String sep opts)%string
        with ((name ++ " " ++ m ++ " " ++ G1) ++ String sep opts)%string
        by (rewrite !append_assoc'; reflexivity).
      rewrite (split_options_pre_sep sep); [|exact Hs3|rewrite !all_chars_app, Hnn, Hm, HG; reflexivity|exact Ho].
      rewrite !append_assoc'. reflexivity. }
    unfold card_of_text, cell_parts. fold txt. rewrite Hw, Hlk, Hso, Hfl. cbn [of_opt bind].
    (* the body *)
    destruct name as [|n0 name']; [discriminate|].
    assert (is_blank n0 = false) as Hb0
      by (cbn in Hnb; apply andb_true_iff in Hnb; destruct Hnb as [Hx _]; apply negb_true_iff in Hx; exact Hx).
    rewrite (span_hd_fails is_blank) by exact Hb0.
    set (name := String n0 name') in *.
    change (name ++ " " ++ m ++ " " ++ G1 ++ String sep "")%string
      with (name ++ String " " (m ++ String " " (G1 ++ String sep "")))%string.
    rewrite (span_app_all is_digit name _ Hnd) by reflexivity.
    change (String " " (m ++ String " " (G1 ++ String sep ""))) with (" " ++ (m ++ String " " (G1 ++ String sep "")))%string.
    rewrite (span_app_all is_blank " " (m ++ String " " (G1 ++ String sep ""))); [|reflexivity|].
    2:{ destruct m as [|c r]; [discriminate|]. cbn. cbn in Hmb. apply andb_true_iff in Hmb.
        destruct Hmb as [Hx _]. apply negb_true_iff in Hx. exact Hx. }
    rewrite (span_app_all (fun c => negb (is_blank c)) m (String " " (G1 ++ String sep "")) Hmb) by reflexivity.
    unfold int_of_string. rewrite Hn. cbn [is_empty orb]. rewrite Hme, Hz. cbn [orb].
    change (String " " (G1 ++ String sep "")) with (" " ++ (G1 ++ String sep ""))%string.
    rewrite (span_app_all is_blank " " (G1 ++ String sep "")); [|reflexivity|].
    2:{ unfold G1. destruct rho as [|c r]; [discriminate|]. cbn. cbn in Hrb. apply andb_true_iff in Hrb.
        destruct Hrb as [Hx _]. apply negb_true_iff in Hx. apply orb_false_iff in Hx. exact (proj1 Hx). }
    replace (G1 ++ String sep "")%string with (rho ++ (" " ++ G ++ String sep ""))%string
      by (unfold G1; rewrite !append_assoc'; reflexivity).
    rewrite (span_app_all (fun c => negb (is_blank c || Ascii.eqb c "(")) rho (" " ++ G ++ String sep "") Hrb) by reflexivity.
    cbn [is_empty orb]. rewrite Hre.
    assert (all_chars nonletter (" " ++ G ++ String sep "") = true) as Hnl.
    { cbn [append all_chars]. rewrite all_chars_app. cbn [all_chars]. rewrite Hs2.
      rewrite (all_chars_impl nos nonletter G); [reflexivity| |exact HG0].
      intros c Hc. unfold nos, nonletter in *. apply negb_true_iff in Hc. apply orb_false_iff in Hc.
      destruct Hc as [_ Hc]. rewrite Hc. reflexivity. }
    unfold name at 1. cbv beta iota. cbn [bind]. cbv beta iota.
    rewrite (lower_keeps_nonletter _ Hnl), (like_target_none _ Hnl).
    rewrite ?append_assoc'. reflexivity.
  Qed.



  (* ---- a LIKE n BUT card ---- *)
  Lemma split_last_but_pre pre : forall x a b,
    split_last_but x = Some (a, b) -> split_last_but (pre ++ x) = Some ((pre ++ a)%string, b).
  Proof.
    induction pre as [|c r IH]; intros x a b H; [exact H|].
    cbn [append split_last_but]. rewrite (IH x a b H). reflexivity.
  Qed.

  Lemma lower_three (B : string) : lower B = "but" ->
    exists c1 c2 c3, B = String c1 (String c2 (String c3 "")) /\
                     lower_char c1 = "b"%char /\ lower_char c2 = "u"%char /\ lower_char c3 = "t"%char.
  Proof.
    destruct B as [|c1 [|c2 [|c3 [|c4 r]]]]; cbn; intros H; try discriminate.
    injection H as H1 H2 H3. exists c1, c2, c3. repeat split; assumption.
  Qed.

  Lemma split_last_but_here B rest :
    lower B = "but" -> split_last_but rest = None ->
    split_last_but (B ++ rest) = Some (B, rest).
  Proof.
    intros HB Hr. destruct (lower_three B HB) as (c1 & c2 & c3 & -> & H1 & H2 & H3).
    cbn [append split_last_but]. rewrite Hr. cbn [lower String.prefix]. rewrite H1, H2, H3.
    destruct (ascii_dec "b" "t"); [discriminate|].
    destruct (ascii_dec "b" "u"); [discriminate|].
    destruct (ascii_dec "b" "b"); [|congruence].
    destruct (ascii_dec "u" "u"); [|congruence].
    destruct (ascii_dec "t" "t"); [|congruence].
    destruct (lower rest); cbn; destruct rest; reflexivity.
  Qed.

  Lemma lower_digits ds : all_digits ds = true -> lower ds = ds.
  Proof.
    induction ds as [|c r IH]; [reflexivity|]. cbn. intros H. apply andb_true_iff in H.
    destruct H as [Hc Hr]. rewrite (IH Hr). f_equal. clear - Hc. ascii_cases c; cbv in Hc |- *; try reflexivity; discriminate.
  Qed.

  Lemma prefix_app' (p x : string) : String.prefix p (p ++ x)%string = true.
  Proof.
    induction p as [|c r IH]; [destruct x; reflexivity|].
    cbn [append String.prefix]. destruct (ascii_dec c c); [exact IH|congruence].
  Qed.

  Lemma like_target_canon ds :
    all_digits ds = true -> is_empty ds = false ->
    like_target (" like " ++ ds ++ " but") = Some (Z.of_N (parse_digits ds 0%N)).
  Proof.
    intros Hd Hde. pose proof (all_digits_chars ds Hd) as Hdd.
    change (" like " ++ ds ++ " but")%string with (String " " ("like" ++ (" " ++ (ds ++ " but"))))%string.
    unfold like_target at 1; fold like_target.
    assert (like_here (String " " ("like" ++ (" " ++ (ds ++ " but")))) = None) as ->.
    { unfold like_here. cbn [String.prefix]. destruct (ascii_dec "l" " "); [discriminate|reflexivity]. }
    assert (like_here ("like" ++ (" " ++ (ds ++ " but"))) = Some (Z.of_N (parse_digits ds 0%N))) as Hh.
    { unfold like_here. rewrite prefix_app'.
      change (drop_n 4 ("like" ++ (" " ++ (ds ++ " but")))) with (" " ++ (ds ++ " but"))%string.
      rewrite (span_app_all is_blank " " (ds ++ " but")); [|reflexivity|].
      2:{ destruct ds as [|c r]; [discriminate|]. cbn. cbn in Hdd. apply andb_true_iff in Hdd.
          destruct (digit_nos c (proj1 Hdd)) as [_ Hx]. apply negb_true_iff in Hx. exact Hx. }
      rewrite (span_app_all is_digit ds " but" Hdd) by reflexivity.
      change " but" with (" " ++ "but")%string.
      rewrite (span_app_all is_blank " " "but") by reflexivity.
      cbn [is_empty orb].
      replace (String.prefix "but" "but") with true by (symmetry; apply (prefix_app' "but" "")).
      cbn [orb negb]. unfold int_of_string. rewrite Hd. destruct ds; [discriminate|]. reflexivity. }
    destruct ("like" ++ (" " ++ (ds ++ " but")))%string eqn:E; [discriminate|].
    unfold like_target; fold like_target. rewrite Hh. reflexivity.
  Qed.

  (* name LIKE n BUT options: cellcard.split (re_likebut) + LIKE_RE give the card
     Like n with the BUT options, provided "but" does not occur again in them *)
  Theorem like_card_text name L ds B rest :
    all_digits name = true -> is_empty name = false -> lower L = "like" ->
    all_digits ds = true -> is_empty ds = false -> lower B = "but" ->
    split_last_but rest = None ->
    card_of_text Sc P (name ++ " " ++ L ++ " " ++ ds ++ " " ++ B ++ rest) =
    Ok (Z.of_N (parse_digits name 0%N), (Like (Z.of_N (parse_digits ds 0%N)), rest)).
  Proof.
    intros Hn Hne HL Hd Hde HB Hrest.
    pose proof (all_digits_chars name Hn) as Hnd. pose proof (all_digits_chars ds Hd) as Hdd.
    assert (all_chars nonblank name = true) as Hnb
      by (eapply all_chars_impl; [|exact Hnd]; intros c Hc; apply (digit_nos c Hc)).
    assert (all_chars nonblank L = true /\ is_empty L = false) as [HLb HLe].
    { destruct L as [|a [|b [|c [|d [|e r]]]]]; cbn in HL; try discriminate.
      injection HL as H1 H2 H3 H4. split; [|reflexivity]. cbn.
      assert (forall x y, lower_char x = y -> is_letter y = true -> nonblank x = true) as Hx
        by (intros x y <- ; clear; ascii_cases x; cbv; intros; try reflexivity; discriminate).
      rewrite (Hx a "l"%char H1 eq_refl), (Hx b "i"%char H2 eq_refl), (Hx c "k"%char H3 eq_refl),
        (Hx d "e"%char H4 eq_refl). reflexivity. }
    set (txt := (name ++ " " ++ L ++ " " ++ ds ++ " " ++ B ++ rest)%string).
    assert (exists x xs, split_ws txt = name :: L :: x :: xs) as (x & xs & Hw).
    { unfold txt. change (name ++ " " ++ L ++ " " ++ ds ++ " " ++ B ++ rest)%string
        with (name ++ String " " (L ++ String " " (ds ++ String " " (B ++ rest))))%string.
      rewrite (split_ws_word name _ Hnb Hne), (split_ws_word L _ HLb HLe).
      destruct (split_ws (ds ++ String " " (B ++ rest))) as [|x xs] eqn:E.
      - exfalso. revert E. unfold split_ws. apply split_ws_aux_nonnil. right.
        destruct ds as [|c r]; [discriminate|]. exists "", c, (r ++ String " " (B ++ rest))%string.
        split; [reflexivity|]. cbn in Hdd. apply andb_true_iff in Hdd. apply (digit_nos c (proj1 Hdd)).
      - exists x, xs. reflexivity. }
    unfold card_of_text, cell_parts. fold txt. rewrite Hw, HL. cbn [String.eqb Ascii.eqb Bool.eqb].
    replace ("like" =? "like") with true by reflexivity.
    destruct name as [|n0 name']; [discriminate|].
    assert (is_blank n0 = false) as Hb0
      by (cbn in Hnb; apply andb_true_iff in Hnb; destruct Hnb as [Hx _]; apply negb_true_iff in Hx; exact Hx).
    unfold txt. rewrite (span_hd_fails is_blank) by exact Hb0.
    set (name := String n0 name') in *.
    change (name ++ " " ++ L ++ " " ++ ds ++ " " ++ B ++ rest)%string
      with (name ++ String " " (L ++ " " ++ ds ++ " " ++ B ++ rest))%string.
    rewrite (span_app_all is_digit name _ Hnd) by reflexivity.
    unfold int_of_string. rewrite Hn.
    replace (String " " (L ++ " " ++ ds ++ " " ++ B ++ rest))
      with ((" " ++ L ++ " " ++ ds ++ " ") ++ (B ++ rest))%string
      by (rewrite !append_assoc'; reflexivity).
    rewrite (split_last_but_pre _ _ _ _ (split_last_but_here B rest HB Hrest)).
    unfold name at 1. cbv beta iota. cbn [bind]. cbv beta iota.
    (* LIKE_RE on the lower-cased geometry part " like n but" *)
    assert (lower ((" " ++ L ++ " " ++ ds ++ " ") ++ B) = (" like " ++ ds ++ " but")%string) as ->.
    { rewrite !lower_app, HL, HB, (lower_digits ds Hd). cbn [lower].
      replace (lower_char " ") with " "%char by reflexivity.
      rewrite !append_assoc'. reflexivity. }
    rewrite (like_target_canon ds Hd Hde). reflexivity.
  Qed.
End CellText.
