(* C12 — proofs about the card splitting model (C12/Cards.v). *)
From Coq Require Import List NArith ZArith Bool String Ascii Lia.
From T4V Require Import Base.Str Base.Scalar C12.Text C12.Model C12.Cards C12.ProofsText.
Import ListNotations.
Open Scope string_scope.

(* ---------- span ---------- *)
Definition hd_fails (p : ascii -> bool) (s : string) : Prop :=
  match s with String c _ => p c = false | EmptyString => True end.

Lemma span_parts p s : (fst (span p s) ++ snd (span p s))%string = s.
Proof.
  induction s as [|c r IH]; [reflexivity|]. cbn [span]. destruct (p c); [|reflexivity].
  destruct (span p r) as [a b]. cbn [fst snd append] in *. rewrite IH. reflexivity.
Qed.

Lemma span_hd_fails p s : hd_fails p s -> span p s = ("", s).
Proof. destruct s as [|c r]; [reflexivity|]. cbn. intros ->. reflexivity. Qed.

Lemma span_app_gen p a : forall b,
  hd_fails p b -> span p (a ++ b) = (fst (span p a), (snd (span p a) ++ b)%string).
Proof.
  induction a as [|c r IH]; intros b Hb.
  - cbn [append span fst snd]. apply span_hd_fails. exact Hb.
  - cbn [append span]. destruct (p c); [|reflexivity].
    rewrite (IH b Hb). destruct (span p r) as [x y]. reflexivity.
Qed.

Lemma span_all p a : all_chars p a = true -> span p a = (a, "").
Proof.
  induction a as [|c r IH]; intros H; [reflexivity|].
  cbn [all_chars] in H. apply andb_true_iff in H. destruct H as [Hc Hr].
  cbn [span]. rewrite Hc, (IH Hr). reflexivity.
Qed.

Lemma span_app_all p a b :
  all_chars p a = true -> hd_fails p b -> span p (a ++ b) = (a, b).
Proof. intros Ha Hb. rewrite (span_app_gen p a b Hb), (span_all p a Ha). reflexivity. Qed.

Lemma all_chars_snd_span q p a : all_chars q a = true -> all_chars q (snd (span p a)) = true.
Proof.
  induction a as [|c r IH]; intros H; [reflexivity|].
  cbn [all_chars] in H. apply andb_true_iff in H. destruct H as [Hc Hr].
  cbn [span]. destruct (p c).
  - destruct (span p r) as [x y]. cbn [snd] in *. exact (IH Hr).
  - cbn [snd all_chars]. rewrite Hc, Hr. reflexivity.
Qed.

(* ---------- an IMP data card, from its text ---------- *)

(* the card text  name ++ " " ++ body : name starts with a letter and holds no
   digit (imp:n, IMP:N,P ...), body starts with a digit (the first entry) and
   no star follows its leading digits *)
Theorem imp_card_text name body :
  (match name with String c _ => is_letter c = true | EmptyString => False end) ->
  all_chars (fun c => negb (is_digit c)) name = true ->
  (match body with String c _ => is_digit c = true | EmptyString => False end) ->
  hd_fails (Ascii.eqb "*") (snd (span is_digit body)) ->
  String.prefix "imp:" (lstrip (lower (name ++ " "))) = true ->
  imp_cards_of [(name ++ " " ++ body)%string] = Ok [(lower (name ++ " "), split_ws body)].
Proof.
  intros Hn Hnd Hb Hstar Himp.
  destruct name as [|c0 name']; [destruct Hn|].
  assert (is_blank c0 = false /\ Ascii.eqb "*" c0 = false) as [Hb0 Hs0].
  { unfold is_letter, is_blank in *. destruct c0 as [b0 b1 b2 b3 b4 b5 b6 b7].
    destruct b0, b1, b2, b3, b4, b5, b6, b7; try discriminate; split; reflexivity. }
  set (name := String c0 name') in *.
  assert (data_parts (name ++ " " ++ body) = Some ((name ++ " ")%string, fst (span is_digit body), snd (span is_digit body))) as Hd.
  { unfold data_parts.
    rewrite (span_hd_fails is_blank) by exact Hb0.
    rewrite (span_hd_fails (Ascii.eqb "*")) by exact Hs0.
    assert (hd_fails is_letter (" " ++ body)) as Hl by reflexivity.
    rewrite (span_app_gen is_letter name (" " ++ body) Hl).
    assert (is_empty (fst (span is_letter name)) = false) as Hne.
    { unfold name. cbn [span]. rewrite Hn. destruct (span is_letter name'). reflexivity. }
    rewrite Hne.
    set (l := fst (span is_letter name)). set (t := snd (span is_letter name)).
    assert ((t ++ " " ++ body) = ((t ++ " ") ++ body))%string as E by (rewrite append_assoc'; reflexivity).
    rewrite E, (span_app_all (fun c => negb (is_digit c)) (t ++ " ") body).
    - destruct (span is_digit body) as [dg s5] eqn:Es. cbn [fst snd] in *.
      assert (match s5 with String "*" r => r | _ => s5 end = s5) as ->.
      { destruct s5 as [|c r]; [reflexivity|]. cbn in Hstar.
        destruct c as [b0 b1 b2 b3 b4 b5 b6 b7].
        destruct b0, b1, b2, b3, b4, b5, b6, b7; try reflexivity; discriminate. }
      f_equal. f_equal. f_equal. cbn [append].
      rewrite <- append_assoc'. unfold l, t. rewrite span_parts. reflexivity.
    - rewrite all_chars_app. unfold t. rewrite (all_chars_snd_span _ is_letter name Hnd). reflexivity.
    - destruct body as [|c r]; [destruct Hb|]. cbn. rewrite Hb. reflexivity. }
  cbn [imp_cards_of]. rewrite Hd. cbn [bind]. rewrite Himp.
  rewrite span_parts. reflexivity.
Qed.

(* ---------- from card texts to the deck-level theorems ---------- *)
Section Bridge.
  Context {T : Type} (Sc : Scalar T) (P : prims T).

  (* once the card texts are split, parsing the deck text is parse_cells on the
     split cards: every theorem about parse_cells applies to the deck text (for
     a concrete deck the two splits are computed by reflexivity) *)
  Theorem parse_deck_text_split ctexts dtexts lats ic cards :
    imp_cards_of dtexts = Ok ic -> cards_of_texts Sc P ctexts = Ok cards ->
    parse_deck_text Sc P ctexts dtexts lats = parse_cells Sc P ic cards lats.
  Proof.
    intros Hi Hc. unfold parse_deck_text. rewrite Hi. cbn [bind].
    destruct (importance_cards Sc P ic) as [imps|e] eqn:E; cbn [bind].
    - rewrite Hc. reflexivity.
    - unfold parse_cells. rewrite E. reflexivity.
  Qed.
End Bridge.
