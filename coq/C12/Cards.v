(* C12 — model of the card splitting that feeds the cell parser, on the text of
   a card as MIP's Card.content() returns it (comments removed, every run of
   white space replaced by ONE blank):
     MIP/mip/datacard.py  split (re_data) + MIP/geom/cells.py get_cell_importances
                                                              [data_parts, imp_cards_of]
     MIP/mip/cellcard.py  split (re_options, re_void, re_nonvoid, re_likebut)
                          + get_cells                         [cell_parts]
     ParseMCNPCell.LIKE_RE on the lower-cased geometry part   [like_target]
   and the whole path from card texts to parsed cells       [parse_deck_text].
   Executable; tied by coq/generated/c12_parse_*.v on the real card contents. *)
From Coq Require Import List NArith ZArith Bool String Ascii.
From T4V Require Import Base.Str Base.Scalar C12.Text C12.Model.
Import ListNotations.
Open Scope string_scope.
Open Scope list_scope.

Definition is_letter (c : ascii) : bool :=
  let n := N_of_ascii c in
  (((65 <=? n) && (n <=? 90)) || ((97 <=? n) && (n <=? 122)))%N.

Definition is_blank (c : ascii) : bool := Ascii.eqb c " ".

(* longest prefix of characters satisfying p, and the rest (a greedy star) *)
Fixpoint span (p : ascii -> bool) (s : string) : string * string :=
  match s with
  | EmptyString => ("", "")
  | String c r => if p c then let (a, b) := span p r in (String c a, b) else ("", s)
  end.

(* ---------- data cards ---------- *)

(* re_data: blanks, then the name = stars, letters (at least one) and every
   following non-digit, then the number = digits, an optional star, the rest;
   the result is (name, number, rest); None = no match (the code then fails
   with AttributeError) *)
Definition data_parts (txt : string) : option (string * string * string) :=
  let (_, s1) := span is_blank txt in
  let (stars, s2) := span (Ascii.eqb "*") s1 in
  let (letters, s3) := span is_letter s2 in
  if is_empty letters then None else
  let (nond, s4) := span (fun c => negb (is_digit c)) s3 in
  let (digits, s5) := span is_digit s4 in
  let s6 := match s5 with String "*" r => r | _ => s5 end in
  Some ((stars ++ letters ++ nond)%string, digits, s6).

(* get_cell_importances: (name.lower(), (number + rest).split()) of the cards
   whose name starts with imp: *)
Fixpoint imp_cards_of (texts : list string) : res (list (string * list string)) :=
  match texts with
  | [] => Ok []
  | t :: r =>
      match data_parts t with
      | None => Err EAttr
      | Some (name, number, rest) =>
          do l <- imp_cards_of r;
          if String.prefix "imp:" (lstrip (lower name))
          then Ok ((lower name, split_ws (number ++ rest)%string) :: l)
          else Ok l
      end
  end.

(* ---------- cell cards ---------- *)

Definition starts_option (s : string) : bool :=
  match s with String c _ => Ascii.eqb c "*" || is_letter c | EmptyString => false end.

(* re_options: the text up to and including the first closing parenthesis or
   blank that is followed by a star or a letter, and the options *)
Fixpoint split_options (s : string) : string * string :=
  match s with
  | EmptyString => ("", "")
  | String c r =>
      if (Ascii.eqb c ")" || is_blank c) && starts_option r then (String c "", r)
      else let (a, b) := split_options r in (String c a, b)
  end.

(* the last occurrence of "but" (any case): text up to and including it, and
   what follows (the regex is greedy) *)
Fixpoint split_last_but (s : string) : option (string * string) :=
  match s with
  | EmptyString => None
  | String c r =>
      match split_last_but r with
      | Some (a, b) => Some (String c a, b)
      | None =>
          if String.prefix "but" (lower s)
          then Some (substring 0 3 s, drop_n 3 s) else None
      end
  end.

(* (name, material part, geometry part, options) as cellcard.split returns them,
   the name converted by int() (get_cells) *)
Section CellParts.
  Context {T : Type} (Sc : Scalar T) (P : prims T).

  Definition cell_parts (txt : string) : res (Z * string * string * string) :=
    match split_ws txt with
    | _ :: t2 :: _ :: _ =>
        if String.eqb (lower t2) "like" then
          (* re_likebut: name, blanks + like ... but (greedy), options *)
          let (_, s1) := span is_blank txt in
          let (digits, s2) := span is_digit s1 in
          match int_of_string digits, split_last_but s2 with
          | Some n, Some (geom, opts) => Ok (Z.of_N n, "", geom, opts)
          | _, _ => Err EIndex
          end
        else
          let (body, opts) := split_options txt in
          do z <- of_opt EValue (fl P t2);
          let (_, s1) := span is_blank body in
          let (digits, s2) := span is_digit s1 in
          let (b1, s3) := span is_blank s2 in
          let (w1, s4) := span (fun c => negb (is_blank c)) s3 in
          match int_of_string digits with
          | None => Err EIndex
          | Some n =>
              if is_empty b1 || is_empty w1 then Err EIndex else
              if seqb Sc z (s0 Sc) then
                (* re_void: name, blanks + one word, geometry *)
                Ok (Z.of_N n, (b1 ++ w1)%string, s4, opts)
              else
                (* re_nonvoid: name, word, blanks, density up to a blank or parenthesis, geometry *)
                let (b2, s5) := span is_blank s4 in
                let (w2, s6) := span (fun c => negb (is_blank c || Ascii.eqb c "(")) s5 in
                if is_empty b2 || is_empty w2 then Err EIndex
                else Ok (Z.of_N n, (b1 ++ w1 ++ b2 ++ w2)%string, s6, opts)
          end
    | _ => Err EValue      (* name, t2, _ = txt.split(None, 2) *)
    end.

  (* LIKE_RE: like, blanks, digits, blanks, but - searched in the lower-cased geometry part *)
  Definition like_here (s : string) : option Z :=
    if String.prefix "like" s then
      let (b1, s1) := span is_blank (drop_n 4 s) in
      let (digits, s2) := span is_digit s1 in
      let (b2, s3) := span is_blank s2 in
      if is_empty b1 || is_empty b2 || negb (String.prefix "but" s3) then None
      else option_map Z.of_N (int_of_string digits)
    else None.

  Fixpoint like_target (s : string) : option Z :=
    match like_here s with
    | Some n => Some n
    | None => match s with String _ r => like_target r | EmptyString => None end
    end.

  Definition card_of_text (txt : string) : res card :=
    do (name, mat, geom, opts) <- cell_parts txt;
    match like_target (lower geom) with
    | Some n => Ok (name, (Like n, opts))
    | None => Ok (name, (Explicit mat geom, opts))
    end.

  Fixpoint cards_of_texts (texts : list string) : res (list card) :=
    match texts with
    | [] => Ok []
    | t :: r => do c <- card_of_text t; do l <- cards_of_texts r; Ok (c :: l)
    end.

  (* ParseMCNPCell(parser, None, lattice_params).parse() from the contents of
     the cell cards and of the data cards *)
  Definition parse_deck_text (cell_texts data_texts : list string) (lats : list (Z * list (Z * Z)))
    : res (list (Z * cell (T:=T)) * list Z) :=
    do ic <- imp_cards_of data_texts;
    do _ <- importance_cards Sc P ic;
    do cards <- cards_of_texts cell_texts;
    parse_cells Sc P ic cards lats.
End CellParts.
