(* C12/C15 — Python str operations used by the cell-option and data-card code,
   on the ASCII subset (executable; a few structural lemmas at the end). *)
From Coq Require Import List NArith ZArith Bool String Ascii Lia.
From T4V Require Import Base.Str.
Import ListNotations.
Open Scope string_scope.

Definition is_empty (s : string) : bool := match s with EmptyString => true | _ => false end.

(* str.lower() on ASCII *)
Definition lower_char (c : ascii) : ascii :=
  let n := N_of_ascii c in
  if ((65 <=? n) && (n <=? 90))%N then ascii_of_N (n + 32) else c.

Fixpoint lower (s : string) : string :=
  match s with
  | EmptyString => EmptyString
  | String c r => String (lower_char c) (lower r)
  end.

Fixpoint map_chars (f : ascii -> ascii) (s : string) : string :=
  match s with
  | EmptyString => EmptyString
  | String c r => String (f c) (map_chars f r)
  end.

Fixpoint srev_aux (s acc : string) : string :=
  match s with
  | EmptyString => acc
  | String c r => srev_aux r (String c acc)
  end.
Definition srev (s : string) : string := srev_aux s "".

(* s[-1] and s[:-1] *)
Fixpoint last_char (s : string) : option ascii :=
  match s with
  | EmptyString => None
  | String c EmptyString => Some c
  | String _ r => last_char r
  end.

Fixpoint but_last (s : string) : string :=
  match s with
  | EmptyString => EmptyString
  | String _ EmptyString => EmptyString
  | String c r => String c (but_last r)
  end.

(* s[:-n] for n <= len(s) (n applications of s[:-1]) *)
Fixpoint but_last_n (n : nat) (s : string) : string :=
  match n with O => s | S k => but_last_n k (but_last s) end.

(* s.endswith(p) *)
Definition ends_with (p s : string) : bool := String.prefix (srev p) (srev s).

(* p in s *)
Fixpoint contains_sub (p s : string) : bool :=
  String.prefix p s ||
  match s with
  | EmptyString => false
  | String _ r => contains_sub p r
  end.

(* Python int() of a token: optional sign, then ASCII digits (narrower than
   Python: no blanks, no underscores) *)
Definition int_tok (s : string) : option Z :=
  match s with
  | String "-" r => option_map (fun n => (- Z.of_N n)%Z) (int_of_string r)
  | String "+" r => option_map Z.of_N (int_of_string r)
  | _ => option_map Z.of_N (int_of_string s)
  end.

(* s.split() on blanks; [cur] is the current word, reversed *)
Fixpoint split_ws_aux (s cur : string) : list string :=
  match s with
  | EmptyString => if is_empty cur then [] else [srev cur]
  | String c r =>
      if Ascii.eqb c " " then
        (if is_empty cur then split_ws_aux r "" else srev cur :: split_ws_aux r "")
      else split_ws_aux r (String c cur)
  end.
Definition split_ws (s : string) : list string := split_ws_aux s "".

(* re.sub(' *: *', ':', s): every blank of a run of blanks that touches a colon
   disappears. Two passes: blanks after a colon, then (on the mirror image)
   blanks before a colon. *)
Fixpoint drop_blanks_after_colon (after : bool) (s : string) : string :=
  match s with
  | EmptyString => EmptyString
  | String c r =>
      if Ascii.eqb c ":" then String c (drop_blanks_after_colon true r)
      else if Ascii.eqb c " " && after then drop_blanks_after_colon true r
      else String c (drop_blanks_after_colon false r)
  end.

Definition colon_sub (s : string) : string :=
  srev (drop_blanks_after_colon false (srev (drop_blanks_after_colon false s))).

(* option.lower().replace('(', ' ').replace(')', ' ').replace('=', ' ') *)
Definition blank_punct (c : ascii) : ascii :=
  if Ascii.eqb c "(" || Ascii.eqb c ")" || Ascii.eqb c "=" then " "%char else c.

(* the whole option normalisation of parse_one_cell_worker, up to the token
   list in reading order (the code then reverses it and pops from the end) *)
Definition option_tokens (opts : string) : list string :=
  split_ws (map_chars blank_punct (lower (colon_sub opts))).

(* kw_list[-1][0] in '0123456789.+-' *)
Definition is_numstart (tok : string) : bool :=
  match tok with
  | EmptyString => false
  | String c _ => is_digit c || Ascii.eqb c "." || Ascii.eqb c "+" || Ascii.eqb c "-"
  end.

Fixpoint take_numeric (toks : list string) : list string :=
  match toks with
  | t :: r => if is_numstart t then t :: take_numeric r else []
  | [] => []
  end.

Fixpoint take_ranges (toks : list string) : list string :=
  match toks with
  | t :: r => if contains_char ":" t then t :: take_ranges r else []
  | [] => []
  end.

(* s.split(':') *)
Fixpoint split_colon_aux (s cur : string) : list string :=
  match s with
  | EmptyString => [srev cur]
  | String c r => if Ascii.eqb c ":" then srev cur :: split_colon_aux r "" else split_colon_aux r (String c cur)
  end.
Definition split_colon (s : string) : list string := split_colon_aux s "".

(* s.split(c) *)
Fixpoint split_on_aux (c : ascii) (s cur : string) : list string :=
  match s with
  | EmptyString => [srev cur]
  | String d r => if Ascii.eqb d c then srev cur :: split_on_aux c r "" else split_on_aux c r (String d cur)
  end.
Definition split_on (c : ascii) (s : string) : list string := split_on_aux c s "".

(* s[n:] *)
Fixpoint drop_n (n : nat) (s : string) : string :=
  match n, s with
  | S k, String _ r => drop_n k r
  | _, _ => s
  end.

(* s.lstrip(':') *)
Fixpoint lstrip_colon (s : string) : string :=
  match s with
  | String ":" r => lstrip_colon r
  | _ => s
  end.

(* the particles an IMP keyword names: elt[3:].lstrip(':').split(',') *)
Definition imp_particles (elt : string) : list string :=
  split_on "," (lstrip_colon (drop_n 3 elt)).

(* ---- structural lemmas ---- *)
Lemma last_char_app s c : last_char (s ++ String c "") = Some c.
Proof.
  induction s as [|d r IH]; [reflexivity|].
  cbn [append last_char]. destruct (r ++ String c "") eqn:E.
  - destruct r; discriminate.
  - exact IH.
Qed.

Lemma but_last_app s c : but_last (s ++ String c "") = s.
Proof.
  induction s as [|d r IH]; [reflexivity|].
  cbn [append but_last]. destruct (r ++ String c "") eqn:E.
  - destruct r; discriminate.
  - rewrite IH. reflexivity.
Qed.

Lemma take_numeric_app (ps rest : list string) :
  forallb is_numstart ps = true ->
  match rest with [] => True | t :: _ => is_numstart t = false end ->
  take_numeric (ps ++ rest) = ps.
Proof.
  intros Hps Hrest. induction ps as [|p r IH]; cbn [app take_numeric].
  - destruct rest as [|t r']; [reflexivity|]. cbn. rewrite Hrest. reflexivity.
  - cbn in Hps. apply andb_true_iff in Hps. destruct Hps as [H1 H2].
    rewrite H1, IH; auto.
Qed.
