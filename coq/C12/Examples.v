(* C12 — non-vacuity examples: concrete inputs satisfying the hypotheses of the
   theorems of Properties/C12.v (proved here so that re-checking Properties/C12.v
   stays cheap; restated there). *)
From Coq Require Import List NArith ZArith Bool String Ascii Reals.
From T4V Require Import Base.Str Base.Scalar C12.Text C12.Model C12.Spec
     C12.Cards C12.ProofsExpand C12.ProofsText C12.ProofsCells C12.ProofsDeck C12.ProofsCards.
Import ListNotations.
Open Scope string_scope.
Open Scope list_scope.

(* ---- non-vacuity ---- *)

(* a data card with every kind of shorthand, read and expanded *)
Lemma C12_example_card_ok :
  let toks := ["1"; "2R"; "i"; "1"; "1m"; "J"] in
  let es := [EVal 1%R; ERep 2; EInt 1 1%R; EMul 1%R; EJump 1] in
  reads wP toks es /\
  exists out, meaning RS (pw wP) es None = Some out /\ List.length out = 7%nat /\
              expand RS wP toks None = Ok (out, 6%nat).
Proof.
  cbv zeta.
  assert (reads wP ["1"; "2R"; "i"; "1"; "1m"; "J"]
                [EVal 1%R; ERep 2; EInt 1 1%R; EMul 1%R; EJump 1]) as Hr.
  { apply reads_val; [reflexivity|exists "1"%char; repeat split; discriminate|].
    apply (reads_rep wP "2R" "2" 2); [reflexivity|right; reflexivity|].
    apply (reads_int wP "i" "" 1); [reflexivity|left; split; reflexivity|reflexivity|].
    apply (reads_mul wP "1m" "1"); [reflexivity|discriminate|reflexivity|].
    apply (reads_jump wP "J" "" 1); [reflexivity|left; split; reflexivity|].
    apply reads_nil. }
  split; [exact Hr|].
  eexists. split; [cbn; reflexivity|]. split; [reflexivity|].
  apply (expand_shorthand RS wP _ _ _ Hr). cbn. reflexivity.
Qed.

(* a deck inside the hypotheses of C12_data_card_max_zero and
   C12_cell_card_zero_iff: two IMP cards with shorthand, a cell with an inert
   keyword, a cell with U=1 and IMP keywords *)
Definition example_imp_cards : list (string * list string) :=
  [("imp:n", ["1"; "0"; "r"]); ("imp:p", ["0"; "0"; "1"])].
Definition example_cards : list card :=
  [ (10%Z, (Explicit "0" "-1", "vol=1"));
    (20%Z, (Explicit "0" "1 -2", ""));
    (30%Z, (Explicit "0" "2", "u=1 imp:n=0 imp:p=1")) ].

Lemma C12_example_deck_ok :
  NoDup (map fst example_imp_cards) /\
  cards_read RS wP example_imp_cards [[1; 0; 0]; [0; 0; 1]]%R /\
  opt_imps RS wP (option_tokens "vol=1") [] /\
  opt_imps RS wP (option_tokens "u=1 imp:n=0 imp:p=1") [(["n"], 0%R); (["p"], 1%R)] /\
  exists cells, parse_cells RS wP example_imp_cards example_cards [] = Ok (cells, [20%Z]) /\
                conv_keys RS cells = [10%Z].
Proof.
  split; [|split; [|split; [|split]]].
  - repeat constructor; cbn; intuition discriminate.
  - eapply cr_cons with (es := [EVal 1%R; EVal 0%R; ERep 1]).
    + apply reads_val; [reflexivity|exists "1"%char; repeat split; discriminate|].
      apply reads_val; [reflexivity|exists "0"%char; repeat split; discriminate|].
      apply (reads_rep wP "r" "" 1); [reflexivity|left; split; reflexivity|apply reads_nil].
    + reflexivity.
    + eapply cr_cons with (es := [EVal 0%R; EVal 0%R; EVal 1%R]).
      * apply reads_val; [reflexivity|exists "0"%char; repeat split; discriminate|].
        apply reads_val; [reflexivity|exists "0"%char; repeat split; discriminate|].
        apply reads_val; [reflexivity|exists "1"%char; repeat split; discriminate|apply reads_nil].
      * reflexivity.
      * apply cr_nil.
  - change (option_tokens "vol=1") with ["vol"; "1"].
    apply (oi_other RS wP "vol" ["1"] 0); [apply consumes_inert; repeat split|].
    apply (oi_other RS wP "1" [] 0); [apply consumes_inert; repeat split|apply oi_nil].
  - change (option_tokens "u=1 imp:n=0 imp:p=1") with ["u"; "1"; "imp:n"; "0"; "imp:p"; "1"].
    apply (oi_other RS wP "u" _ 1);
      [apply (consumes_u RS wP "u" "1" 1%R); reflexivity|].
    cbn [skipn]. apply (oi_imp RS wP "imp:n" "0" 0%R); [reflexivity|reflexivity|].
    apply (oi_imp RS wP "imp:p" "1" 1%R); [reflexivity|reflexivity|apply oi_nil].
  - eexists. split; [rcompute; reflexivity|rcompute; reflexivity].
Qed.

(* the hypotheses of C12_chain_zero_iff on "2 LIKE 1 BUT IMP:N=0" with
   "1 0 -1 IMP:N=1": the chain resolves to the base options followed by the BUT
   options, the entries are n:1 then n:0, the last one for n is 0, and the model
   skips cell 2 (the former defect like_but_imp_max, repaired by 0b05eba) *)
Lemma C12_example_like_ok :
  resolve_like (S (List.length (dict_of Z.eqb like_deck))) (dict_of Z.eqb like_deck) (Like 1) "imp:n=0"
  = Ok ("0", "-1", "imp:n=1 imp:n=0") /\
  opt_imps RS wP (option_tokens "imp:n=1 imp:n=0") [(["n"], 1%R); (["n"], 0%R)] /\
  last_value "n" [(["n"], 1%R); (["n"], 0%R)] = Some 0%R /\
  exists cells, parse_cells RS wP [] like_deck [] = Ok (cells, [2%Z]) /\
                conv_keys RS cells = [1%Z; 3%Z].
Proof.
  split; [reflexivity|]. split; [|split; [reflexivity|exact like_deck_skipped]].
  change (option_tokens "imp:n=1 imp:n=0") with ["imp:n"; "1"; "imp:n"; "0"].
  apply (oi_imp RS wP "imp:n" "1" 1%R); [reflexivity|reflexivity|].
  apply (oi_imp RS wP "imp:n" "0" 0%R); [reflexivity|reflexivity|apply oi_nil].
Qed.

(* "1 0 -1 IMP:N=1 NONU=1": NONU is not U (the former defect
   keyword_with_u_read_as_universe, repaired by f85f992): the cell is converted *)
Lemma C12_example_nonu_ok :
  exists cells, parse_cells RS wP [] nonu_deck [] = Ok (cells, []) /\
                conv_keys RS cells = [1%Z; 2%Z].
Proof. exact nonu_deck_converted. Qed.

(* the hypotheses of C12_option_tokens_words on "imp:n=0 vol 3.5" *)
Lemma C12_example_words_ok :
  let ws := [("imp:n", "="%char); ("0", " "%char); ("vol", " "%char)] in
  Forall (fun ws => word (fst ws) /\ sep_ok (snd ws)) ws /\ word "3.5" /\
  join ws "3.5" = "imp:n=0 vol 3.5" /\
  option_tokens "imp:n=0 vol 3.5" = ["imp:n"; "0"; "vol"; "3.5"].
Proof.
  cbv zeta.
  assert (Forall (fun ws => word (fst ws) /\ sep_ok (snd ws))
                 [("imp:n", "="%char); ("0", " "%char); ("vol", " "%char)]) as Hw
    by (repeat constructor; cbn; auto).
  assert (word "3.5") as Hl by (repeat split; reflexivity).
  split; [exact Hw|]. split; [exact Hl|]. split; [reflexivity|].
  exact (option_tokens_join _ _ Hw Hl).
Qed.

(* the hypotheses of C12_like_written_zero_iff on cell 2 of the LIKE deck *)
Lemma C12_example_like_written_ok :
  chain_cards (S (List.length (dict_of Z.eqb like_deck))) (dict_of Z.eqb like_deck) (Like 1) = Ok ["imp:n=1"] /\
  Forall (fun c => clean_opts (snd (snd c))) (dict_of Z.eqb like_deck) /\
  Forall2 (fun o es => scan_imps wP (option_tokens o) = Some es) (rev ["imp:n=1"] ++ ["imp:n=0"])
          [[(["n"], 1%R)]; [(["n"], 0%R)]].
Proof.
  split; [reflexivity|]. split.
  - repeat constructor.
  - repeat constructor.
Qed.

(* a card with logarithmic interpolation: the hypotheses of C12_expand_shorthand
   for an nLOG entry are satisfiable *)
Lemma C12_example_log_ok :
  let toks := ["1"; "1LOG"; "1"; "1ilog"; "1"] in
  let es := [EVal 1%R; ELog 1 1%R; ELog 1 1%R] in
  reads wP toks es /\ exists out, meaning RS (pw wP) es None = Some out /\ List.length out = 5%nat.
Proof.
  cbv zeta. split.
  - apply reads_val; [reflexivity|exists "1"%char; repeat split; discriminate|].
    apply (reads_log wP "1LOG" "1" 1 "1" 1%R); [reflexivity|discriminate|reflexivity|reflexivity|].
    apply (reads_ilog wP "1ilog" "1" 1 "1" 1%R); [reflexivity|reflexivity|reflexivity|apply reads_nil].
  - assert (log_ok RS 1%R 1%R 1 = true) as Hok.
    { unfold log_ok. cbn [seqb sltb sdiv s0 RS]. rewrite Reqb_10.
      replace (1 / 1)%R with 1%R by field. rewrite Rltb_10. reflexivity. }
    eexists. cbn [meaning]. rewrite Hok. cbn [option_map].
    split; reflexivity.
Qed.

(* the LIKE deck from the text of its cards: split, parsed, cell 2 skipped *)
Lemma C12_example_deck_text_ok :
  let ctexts := ["1 0 -1 imp:n=1"; "2 like 1 but imp:n=0"; "3 0 1 imp:n=1"] in
  let dtexts := ["imp:p 1 0 1"; "nps 1"] in
  let cards := [ (1%Z, (Explicit " 0" " -1 ", "imp:n=1")); (2%Z, (Like 1, " imp:n=0"));
                 (3%Z, (Explicit " 0" " 1 ", "imp:n=1")) ] in
  imp_cards_of dtexts = Ok [("imp:p ", ["1"; "0"; "1"])] /\
  cards_of_texts RS wP ctexts = Ok cards /\
  exists cells, parse_deck_text RS wP ctexts dtexts [] = Ok (cells, [2%Z]) /\
                conv_keys RS cells = [1%Z; 3%Z].
Proof.
  cbv zeta.
  assert (imp_cards_of ["imp:p 1 0 1"; "nps 1"] = Ok [("imp:p ", ["1"; "0"; "1"])]) as Hi by reflexivity.
  assert (cards_of_texts RS wP ["1 0 -1 imp:n=1"; "2 like 1 but imp:n=0"; "3 0 1 imp:n=1"]
          = Ok [ (1%Z, (Explicit " 0" " -1 ", "imp:n=1")); (2%Z, (Like 1, " imp:n=0"));
                 (3%Z, (Explicit " 0" " 1 ", "imp:n=1")) ]) as Hc by (rcompute; reflexivity).
  split; [exact Hi|]. split; [exact Hc|].
  rewrite (parse_deck_text_split RS wP _ _ [] _ _ Hi Hc).
  eexists. split; [rcompute; reflexivity|rcompute; reflexivity].
Qed.

Lemma C12_example_like_trcl_ok :
  loc_imps RS wP (option_tokens "imp:n=1 trcl=(1 0 0)") [(["n"], 1%R)] /\
  loc_imps RS wP (option_tokens "imp:n=0") [(["n"], 0%R)] /\
  hd_not_num (option_tokens "imp:n=0").
Proof.
  split; [|split; [|reflexivity]].
  - change (option_tokens "imp:n=1 trcl=(1 0 0)") with (["imp:n"; "1"] ++ "trcl" :: ["1"; "0"; "0"] ++ []).
    cbn [app]. apply (li_imp RS wP "imp:n" "1" 1%R); [reflexivity|reflexivity|].
    apply (li_num RS wP "trcl" ["1"; "0"; "0"] [] []); [reflexivity| |exact I|apply li_nil].
    apply (trcl_local RS wP "trcl" ["1"; "0"; "0"] (TPVals [1; 0; 0; 1; 0; 0; 0; 1; 0; 0; 0; 1]%R));
      reflexivity.
  - change (option_tokens "imp:n=0") with ["imp:n"; "0"].
    apply (li_imp RS wP "imp:n" "0" 0%R); [reflexivity|reflexivity|apply li_nil].
Qed.
