(* C12 — proofs about the cell side of C12/Model.v: the importance data cards
   (per-rank maximum), the IMP keywords of a cell card, the importance a cell
   ends up with, the skip list and the cells handed to the conversion. *)
From Coq Require Import List NArith ZArith Bool String Ascii Lia Reals Lra.
From T4V Require Import Base.Str Base.Scalar C12.Text C12.Model C12.Spec C12.ProofsExpand C12.ProofsText.
Import ListNotations.
Open Scope string_scope.
Open Scope list_scope.

(* ================= ordered dictionaries ================= *)
Section Dict.
  Context {K V : Type} (eqb : K -> K -> bool).
  Hypothesis eqb_eq : forall a b, eqb a b = true <-> a = b.

  Lemma eqb_refl' a : eqb a a = true.
  Proof. apply eqb_eq. reflexivity. Qed.

  Lemma dict_set_keys k (v : V) d :
    map fst (dict_set eqb k v d) =
    if existsb (eqb k) (map fst d) then map fst d else map fst d ++ [k].
  Proof.
    induction d as [|[k' v'] r IH]; [reflexivity|].
    cbn [dict_set map fst existsb]. destruct (eqb k k') eqn:E.
    - cbn [orb map fst]. apply eqb_eq in E. subst. reflexivity.
    - cbn [orb map fst]. rewrite IH. destruct (existsb (eqb k) (map fst r)); reflexivity.
  Qed.

  Lemma nodup_snoc (l : list K) k : NoDup l -> ~ In k l -> NoDup (l ++ [k]).
  Proof.
    induction l as [|a r IH]; intros Hn Hk.
    - cbn. constructor; [intros []|constructor].
    - cbn [app]. inversion Hn as [|? ? Ha Hr]; subst. constructor.
      + intros Hin. apply in_app_or in Hin. destruct Hin as [Hin|[->|[]]]; [exact (Ha Hin)|].
        apply Hk. left. reflexivity.
      + apply IH; [exact Hr|]. intros Hin. apply Hk. right. exact Hin.
  Qed.

  Lemma dict_set_nodup k (v : V) d : NoDup (map fst d) -> NoDup (map fst (dict_set eqb k v d)).
  Proof.
    intros Hn. rewrite dict_set_keys. destruct (existsb (eqb k) (map fst d)) eqn:E; [exact Hn|].
    apply nodup_snoc; [exact Hn|]. intros Hin.
    assert (existsb (eqb k) (map fst d) = true) as Ht
      by (apply existsb_exists; exists k; split; [exact Hin|apply eqb_refl']).
    congruence.
  Qed.

  Lemma fold_dict_nodup (l : list (K * V)) d :
    NoDup (map fst d) ->
    NoDup (map fst (fold_left (fun d kv => dict_set eqb (fst kv) (snd kv) d) l d)).
  Proof.
    revert d. induction l as [|[k v] r IH]; intros d Hn; [exact Hn|].
    cbn [fold_left fst snd]. apply IH. apply dict_set_nodup. exact Hn.
  Qed.

  (* the keys of a dictionary are pairwise distinct *)
  Lemma dict_of_nodup (l : list (K * V)) : NoDup (map fst (dict_of eqb l)).
  Proof. unfold dict_of. apply fold_dict_nodup. constructor. Qed.

  Lemma dict_set_absent k (v : V) d :
    ~ In k (map fst d) -> dict_set eqb k v d = d ++ [(k, v)].
  Proof.
    induction d as [|[k' v'] r IH]; intros Hk; [reflexivity|].
    cbn [dict_set]. destruct (eqb k k') eqn:E.
    - apply eqb_eq in E. subst. exfalso. apply Hk. left. reflexivity.
    - cbn [app]. f_equal. apply IH. intros Hin. apply Hk. right. exact Hin.
  Qed.

  Lemma fold_dict_distinct (l : list (K * V)) d :
    NoDup (map fst (d ++ l)) ->
    fold_left (fun d kv => dict_set eqb (fst kv) (snd kv) d) l d = d ++ l.
  Proof.
    revert d. induction l as [|[k v] r IH]; intros d Hn; [rewrite app_nil_r; reflexivity|].
    cbn [fold_left fst snd]. rewrite dict_set_absent.
    - rewrite IH; rewrite <- app_assoc; [reflexivity|exact Hn].
    - rewrite map_app in Hn. cbn [map fst] in Hn. apply NoDup_remove_2 in Hn.
      intros Hin. apply Hn. apply in_or_app. left. exact Hin.
  Qed.

  (* cards with pairwise distinct names are kept as they are, in order *)
  Lemma dict_of_distinct (l : list (K * V)) : NoDup (map fst l) -> dict_of eqb l = l.
  Proof. intros Hn. unfold dict_of. rewrite fold_dict_distinct; [reflexivity|exact Hn]. Qed.

  Lemma dict_get_set p q (x : V) d :
    dict_get eqb p (dict_set eqb q x d) = if eqb p q then Some x else dict_get eqb p d.
  Proof.
    induction d as [|[k' v'] r IH]; [reflexivity|].
    cbn [dict_set]. destruct (eqb q k') eqn:E.
    - apply eqb_eq in E. subst k'. cbn [dict_get]. destruct (eqb p q); reflexivity.
    - cbn [dict_get]. rewrite IH. destruct (eqb p k') eqn:E2; [|reflexivity].
      apply eqb_eq in E2. subst k'. destruct (eqb p q) eqn:E3; [|reflexivity].
      apply eqb_eq in E3. subst q. rewrite eqb_refl' in E. discriminate.
  Qed.

  Lemma dict_get_some_in p (v : V) d : dict_get eqb p d = Some v -> In (p, v) d.
  Proof.
    induction d as [|[k' v'] r IH]; [discriminate|]. cbn [dict_get].
    destruct (eqb p k') eqn:E.
    - intros H. injection H as ->. apply eqb_eq in E. subst. left. reflexivity.
    - intros H. right. apply IH. exact H.
  Qed.

  Lemma dict_get_in k (v : V) d : NoDup (map fst d) -> In (k, v) d -> dict_get eqb k d = Some v.
  Proof.
    induction d as [|[k' v'] r IH]; intros Hn Hin; [destruct Hin|].
    cbn [dict_get]. inversion Hn as [|? ? Ha Hr]; subst. destruct Hin as [Hin|Hin].
    - injection Hin as -> ->. rewrite eqb_refl'. reflexivity.
    - destruct (eqb k k') eqn:E.
      + apply eqb_eq in E. subst. exfalso. apply Ha. apply (in_map fst _ _ Hin).
      + apply IH; assumption.
  Qed.

  (* the value of the last pair with key k *)
  Fixpoint last_assoc (k : K) (l : list (K * V)) : option V :=
    match l with
    | [] => None
    | (k', v) :: r => match last_assoc k r with
                      | Some w => Some w
                      | None => if eqb k k' then Some v else None
                      end
    end.

  Lemma fold_dict_get k (l : list (K * V)) : forall d,
    dict_get eqb k (fold_left (fun d kv => dict_set eqb (fst kv) (snd kv) d) l d) =
    match last_assoc k l with Some w => Some w | None => dict_get eqb k d end.
  Proof.
    induction l as [|[k' v] r IH]; intros d; [reflexivity|].
    cbn [fold_left fst snd last_assoc]. rewrite IH, dict_get_set.
    destruct (last_assoc k r); [reflexivity|]. destruct (eqb k k'); reflexivity.
  Qed.

  (* a dictionary built by successive assignments (get_cells, get_cell_importances)
     answers with the LAST value assigned to the key *)
  Theorem dict_of_get_last k (l : list (K * V)) : dict_get eqb k (dict_of eqb l) = last_assoc k l.
  Proof. unfold dict_of. rewrite fold_dict_get. destruct (last_assoc k l); reflexivity. Qed.
End Dict.

(* ================= LIKE n BUT chains, as written ================= *)

(* the options of the cards a LIKE chain visits, nearest card first *)
Fixpoint chain_cards (fuel : nat) (d : list card) (b : body) : res (list string) :=
  match b with
  | Explicit _ _ => Ok []
  | Like n =>
      match fuel with
      | O => Err ELoop
      | S f =>
          match dict_get Z.eqb n d with
          | None => Err EKey
          | Some (b', o') => do l <- chain_cards f d b'; Ok (o' :: l)
          end
      end
  end.

(* no colon at either end of the option text (it would merge with the
   neighbouring card's options when apply_but joins them) *)
Definition clean_opts (o : string) : Prop := ends_colon o = false /\ lead_colon o = false.

(* the option text handed to the parser for a LIKE chain has the tokens of the
   base card's options, then of every card of the chain down to the BUT options
   of the card itself *)
Lemma resolve_chain_tokens : forall fuel (d : list card) b opts l,
  chain_cards fuel d b = Ok l ->
  Forall (fun c => clean_opts (snd (snd c))) d -> lead_colon opts = false ->
  exists mat geom o,
    resolve_like fuel d b opts = Ok (mat, geom, o) /\ lead_colon o = false /\
    option_tokens o = (flat_map option_tokens (rev l) ++ option_tokens opts)%list.
Proof.
  induction fuel as [|f IH]; intros d b opts l Hc Hd Ho.
  - destruct b as [mat geom|n]; [|discriminate]. cbn in Hc. injection Hc as <-.
    exists mat, geom, opts. split; [reflexivity|split; [exact Ho|reflexivity]].
  - destruct b as [mat geom|n].
    + cbn in Hc. injection Hc as <-. exists mat, geom, opts. split; [reflexivity|split; [exact Ho|reflexivity]].
    + cbn [chain_cards] in Hc. cbn [resolve_like].
      destruct (dict_get Z.eqb n d) as [[b' o']|] eqn:Eg; [|discriminate].
      destruct (chain_cards f d b') as [l'|] eqn:Ec; cbn [bind] in Hc; [|discriminate].
      injection Hc as <-.
      assert (clean_opts o') as [He Hl].
      { apply (dict_get_some_in Z.eqb Z.eqb_eq) in Eg. rewrite Forall_forall in Hd.
        exact (Hd _ Eg). }
      destruct (IH d b' (o' ++ " " ++ opts)%string l' Ec Hd) as (mat & geom & o & Hr & Hlo & Ht).
      { apply lead_colon_app; assumption. }
      exists mat, geom, o. split; [exact Hr|]. split; [exact Hlo|].
      rewrite Ht, (option_tokens_app o' opts He Ho). cbn [rev]. rewrite flat_map_app. cbn [flat_map].
      rewrite app_nil_r, <- app_assoc. reflexivity.
Qed.

Section Cells.
  Context {T : Type} (Sc : Scalar T) (P : prims T).

  (* ================= IMP data cards ================= *)

  (* [cards_read cards valss]: every card spells entries that stand for the
     numbers [vals] (no jumped entry) *)
  Inductive cards_read : list (string * list string) -> list (list T) -> Prop :=
  | cr_nil : cards_read [] []
  | cr_cons name toks es vals cards valss :
      reads P toks es -> meaning Sc (pw P) es None = Some (map Some vals) ->
      cards_read cards valss ->
      cards_read ((name, toks) :: cards) (vals :: valss).

  Lemma expand_all_read cards valss :
    cards_read cards valss -> expand_all Sc P cards = Ok (map (map Some) valss).
  Proof.
    induction 1 as [|name toks es vals cards valss Hr Hm Hc IH]; [reflexivity|].
    cbn [expand_all]. rewrite (expand_shorthand Sc P _ _ _ Hr Hm). cbn [bind].
    rewrite IH. reflexivity.
  Qed.

  Lemma zip_max_some a b :
    zip_max Sc (map Some a) (map Some b) = Ok (map Some (zip_max2 Sc a b)).
  Proof.
    revert b. induction a as [|x a IH]; intros [|y b]; try reflexivity.
    cbn [map zip_max pmax bind zip_max2]. rewrite IH. reflexivity.
  Qed.

  Lemma fold_max_some first others :
    fold_max Sc (map Some first) (map (map Some) others) = Ok (map Some (col_max Sc first others)).
  Proof.
    revert first. induction others as [|b r IH]; intros first; [reflexivity|].
    cbn [map fold_max]. rewrite zip_max_some. cbn [bind]. rewrite IH. reflexivity.
  Qed.

  (* one importance per cell rank: the largest over the particle types *)
  Theorem importance_cards_max cards first others :
    NoDup (map fst cards) -> cards_read cards (first :: others) ->
    Forall (fun l => List.length l = List.length first) others ->
    importance_cards Sc P cards = Ok (map Some (col_max Sc first others)).
  Proof.
    intros Hn Hc Hl. unfold importance_cards.
    rewrite (dict_of_distinct String.eqb String.eqb_eq _ Hn).
    pose proof (expand_all_read _ _ Hc) as He.
    inversion Hc as [|name toks es vals cards' valss Hr Hm Hc']; subst.
    cbv beta iota. rewrite He.
    cbn [bind map].
    replace (forallb _ (map (map Some) others)) with true.
    - apply fold_max_some.
    - symmetry. apply forallb_forall. intros l Hin. apply in_map_iff in Hin.
      destruct Hin as (l0 & <- & Hin0). rewrite !map_length.
      apply Nat.eqb_eq. rewrite Forall_forall in Hl. apply Hl. exact Hin0.
  Qed.

  (* ---- jumped entries (nJ): the code keeps None ---- *)

  (* [cards_read_o cards valss]: as [cards_read], entries may be jumped (None) *)
  Inductive cards_read_o : list (string * list string) -> list (list (option T)) -> Prop :=
  | cro_nil : cards_read_o [] []
  | cro_cons name toks es vals cards valss :
      reads P toks es -> meaning Sc (pw P) es None = Some vals ->
      cards_read_o cards valss ->
      cards_read_o ((name, toks) :: cards) (vals :: valss).

  Lemma expand_all_read_o cards valss :
    cards_read_o cards valss -> expand_all Sc P cards = Ok valss.
  Proof.
    induction 1 as [|name toks es vals cards valss Hr Hm Hc IH]; [reflexivity|].
    cbn [expand_all]. rewrite (expand_shorthand Sc P _ _ _ Hr Hm). cbn [bind].
    rewrite IH. reflexivity.
  Qed.

  (* a single IMP card is taken as it is, jumped entries included *)
  Theorem importance_cards_single name toks es vals :
    reads P toks es -> meaning Sc (pw P) es None = Some vals ->
    importance_cards Sc P [(name, toks)] = Ok vals.
  Proof.
    intros Hr Hm. unfold importance_cards. cbn [dict_of fold_left dict_set fst snd].
    cbn [expand_all]. rewrite (expand_shorthand Sc P _ _ _ Hr Hm). reflexivity.
  Qed.

  Definition has_none (l : list (option T)) : bool :=
    existsb (fun o => match o with None => true | Some _ => false end) l.

  Lemma zip_max_none a : forall b,
    List.length a = List.length b -> has_none a || has_none b = true -> zip_max Sc a b = Err EType.
  Proof.
    induction a as [|x a IH]; intros [|y b] Hl Hn; try discriminate.
    cbn [zip_max]. destruct x as [x|]; [|reflexivity]. destruct y as [y|]; [|reflexivity].
    cbn [pmax bind]. rewrite IH; [reflexivity|cbn in Hl; lia|exact Hn].
  Qed.

  Lemma zip_max_ok a : forall b,
    List.length a = List.length b -> has_none a = false -> has_none b = false ->
    exists m, zip_max Sc a b = Ok m /\ has_none m = false /\ List.length m = List.length a.
  Proof.
    induction a as [|x a IH]; intros [|y b] Hl Ha Hb; try discriminate.
    - exists []. repeat split.
    - destruct x as [x|]; [|discriminate]. destruct y as [y|]; [|discriminate].
      destruct (IH b) as (m & Hm & Hn & Hlen); [cbn in Hl; lia|exact Ha|exact Hb|].
      cbn [zip_max pmax bind]. rewrite Hm. eexists. split; [reflexivity|]. split; [exact Hn|].
      cbn. rewrite Hlen. reflexivity.
  Qed.

  Lemma fold_max_none others : forall first,
    others <> [] -> Forall (fun l => List.length l = List.length first) others ->
    existsb has_none (first :: others) = true -> fold_max Sc first others = Err EType.
  Proof.
    induction others as [|b r IH]; intros first Hne Hl Hn; [congruence|].
    inversion Hl as [|? ? Hb Hr]; subst. cbn [fold_max].
    destruct (has_none first || has_none b) eqn:E.
    - rewrite zip_max_none; [reflexivity|symmetry; exact Hb|exact E].
    - apply orb_false_iff in E. destruct E as [E1 E2].
      destruct (zip_max_ok first b (eq_sym Hb) E1 E2) as (m & Hm & Hmn & Hlen). rewrite Hm. cbn [bind].
      cbn [existsb] in Hn. rewrite E1, E2 in Hn. cbn [orb] in Hn.
      apply IH.
      + intros ->. discriminate.
      + eapply Forall_impl; [|exact Hr]. intros l Hl'. cbn beta in Hl'. rewrite Hl', Hlen. reflexivity.
      + cbn [existsb]. rewrite Hmn. exact Hn.
  Qed.

  (* two or more IMP cards of one length, one of them with a jumped entry:
     max(None, x) is a TypeError *)
  Theorem importance_cards_jump_refused cards first others :
    NoDup (map fst cards) -> cards_read_o cards (first :: others) -> others <> [] ->
    Forall (fun l => List.length l = List.length first) others ->
    existsb has_none (first :: others) = true ->
    importance_cards Sc P cards = Err EType.
  Proof.
    intros Hn Hc Hne Hl Hj. unfold importance_cards.
    rewrite (dict_of_distinct String.eqb String.eqb_eq _ Hn).
    pose proof (expand_all_read_o _ _ Hc) as He.
    inversion Hc as [|name toks es vals cards' valss Hr Hm Hc']; subst.
    cbv beta iota. rewrite He. cbn [bind].
    replace (forallb _ others) with true.
    - apply fold_max_none; assumption.
    - symmetry. apply forallb_forall. intros l Hin. apply Nat.eqb_eq.
      rewrite Forall_forall in Hl. apply Hl. exact Hin.
  Qed.

  (* IMP cards with a repeated name: the code keeps, at the position of the
     first card of that name, the entries of the last one; importance_cards only
     sees that dictionary, whose names are pairwise distinct - so
     importance_cards_max applies to it without any hypothesis on the names *)
  Theorem importance_cards_dedup (cards : list (string * list string)) :
    importance_cards Sc P cards = importance_cards Sc P (dict_of String.eqb cards)
    /\ NoDup (map fst (dict_of String.eqb cards)).
  Proof.
    pose proof (dict_of_nodup String.eqb String.eqb_eq cards) as Hn. split; [|exact Hn].
    unfold importance_cards. rewrite (dict_of_distinct String.eqb String.eqb_eq _ Hn). reflexivity.
  Qed.

  (* cards of different lengths are refused *)
  Theorem importance_cards_uneven cards first others :
    NoDup (map fst cards) -> cards_read cards (first :: others) ->
    Exists (fun l => List.length l <> List.length first) others ->
    importance_cards Sc P cards = Err ECell.
  Proof.
    intros Hn Hc Hl. unfold importance_cards.
    rewrite (dict_of_distinct String.eqb String.eqb_eq _ Hn).
    pose proof (expand_all_read _ _ Hc) as He.
    inversion Hc as [|name toks es vals cards' valss Hr Hm Hc']; subst.
    cbv beta iota. rewrite He.
    cbn [bind map].
    replace (forallb _ (map (map Some) others)) with false; [reflexivity|].
    symmetry. apply not_true_is_false. intros Hf. rewrite forallb_forall in Hf.
    apply Exists_exists in Hl. destruct Hl as (l & Hin & Hne).
    specialize (Hf (map Some l) (in_map _ _ _ Hin)). rewrite !map_length in Hf.
    apply Nat.eqb_eq in Hf. exact (Hne Hf).
  Qed.

  (* ================= keywords of a cell card ================= *)

  Lemma parse_kw_skip toks n k :
    parse_kw Sc P toks n k = parse_kw Sc P (skipn n toks) O k.
  Proof.
    revert n. induction toks as [|t r IH]; intros [|n]; try reflexivity.
    cbn [parse_kw skipn]. apply IH.
  Qed.

  Ltac bind_inv H :=
    match type of H with
    | bind ?r _ = Ok _ =>
        let E := fresh "E" in destruct r eqn:E; cbn [bind] in H; [|discriminate]
    end.

  (* a keyword that does not start with "imp" leaves the importance alone *)
  Lemma kw_step_keeps_imp elt rest k k' n :
    String.prefix "imp" elt = false ->
    kw_step Sc P elt rest k = Ok (k', n) -> k_imp k' = k_imp k /\ k_impmap k' = k_impmap k.
  Proof.
    intros Hp H. unfold kw_step in H. rewrite Hp in H.
    destruct (contains_sub "fill" elt).
    { bind_inv H. destruct a as [[[b u] p] m]. injection H as <- _. split; reflexivity. }
    destruct (contains_sub "lat" elt).
    { bind_inv H. injection H as <- _. split; reflexivity. }
    destruct (contains_sub "trcl" elt).
    { bind_inv H. destruct a as [p m]. injection H as <- _. split; reflexivity. }
    destruct (String.eqb elt "u").
    { bind_inv H. bind_inv H. injection H as <- _. split; reflexivity. }
    destruct (contains_sub "rho" elt).
    { bind_inv H. injection H as <- _. split; reflexivity. }
    destruct (contains_sub "mat" elt).
    { bind_inv H. injection H as <- _. split; reflexivity. }
    injection H as <- _. split; reflexivity.
  Qed.

  (* [consumes t rest n]: [t] is a keyword other than IMP that the parser
     accepts in front of [rest], taking [n] tokens of [rest] as its arguments *)
  Definition consumes (t : string) (rest : list string) (n : nat) : Prop :=
    String.prefix "imp" t = false /\ forall k, exists k', kw_step Sc P t rest k = Ok (k', n).

  (* [opt_imps toks es]: reading the option tokens keyword by keyword, the IMP
     keywords are the entries [es] (particles named, value), in this order *)
  Inductive opt_imps : list string -> list (imp_entry (T:=T)) -> Prop :=
  | oi_nil : opt_imps [] []
  | oi_imp t v x rest es :
      String.prefix "imp" t = true -> tf P v = Some x -> opt_imps rest es ->
      opt_imps (t :: v :: rest) ((imp_particles t, x) :: es)
  | oi_other t rest n es :
      consumes t rest n -> opt_imps (skipn n rest) es -> opt_imps (t :: rest) es.

  (* imp_by_particle after the entries *)
  Definition assign_all (es : list (imp_entry (T:=T))) (d : list (string * T)) : list (string * T) :=
    fold_left (fun d e => assign (fst e) (snd e) d) es d.

  (* keywords['importance'] after the entries: the largest value of the
     particle dictionary; None without IMP keyword *)
  Definition imp_of_entries (es : list (imp_entry (T:=T))) : option T :=
    match es with [] => None | _ => max_values Sc (assign_all es []) end.

  Lemma parse_kw_imps toks es :
    opt_imps toks es ->
    forall k, exists k', parse_kw Sc P toks O k = Ok k' /\
                         k_impmap k' = assign_all es (k_impmap k) /\
                         k_imp k' = match es with
                                    | [] => k_imp k
                                    | _ => max_values Sc (assign_all es (k_impmap k))
                                    end.
  Proof.
    induction 1 as [|t v x rest es Hp Hfl Ho IH|t rest n es [Hp Hc] Ho IH]; intros k.
    - exists k. repeat split; reflexivity.
    - cbn [parse_kw]. unfold kw_step. rewrite Hp. cbn [pop1 bind]. rewrite Hfl. cbn [of_opt bind].
      cbn [parse_kw].
      match goal with |- context [parse_kw Sc P rest O ?k1] => destruct (IH k1) as (k' & Hk & Hm & Hi) end.
      exists k'. split; [exact Hk|]. cbn [k_impmap k_imp] in Hm, Hi. split.
      + rewrite Hm. reflexivity.
      + rewrite Hi. destruct es; reflexivity.
    - cbn [parse_kw]. destruct (Hc k) as (k1 & Hk1). rewrite Hk1. cbn [bind].
      rewrite parse_kw_skip. destruct (IH k1) as (k' & Hk & Hm & Hi).
      destruct (kw_step_keeps_imp _ _ _ _ _ Hp Hk1) as [E1 E2].
      exists k'. split; [exact Hk|]. rewrite Hm, Hi, E1, E2. split; reflexivity.
  Qed.

  (* ---- the particle dictionary against the Spec's [last_value] ---- *)
  Lemma get_assign p ps (x : T) : forall d,
    dict_get String.eqb p (assign ps x d) = if existsb (String.eqb p) ps then Some x else dict_get String.eqb p d.
  Proof.
    unfold assign. induction ps as [|q r IH]; intros d; [reflexivity|].
    cbn [fold_left existsb]. rewrite IH, (dict_get_set String.eqb String.eqb_eq).
    destruct (String.eqb p q), (existsb (String.eqb p) r); reflexivity.
  Qed.

  Lemma get_assign_all p es : forall d,
    dict_get String.eqb p (assign_all es d) =
    match last_value p es with Some y => Some y | None => dict_get String.eqb p d end.
  Proof.
    unfold assign_all. induction es as [|[ps x] r IH]; intros d; [reflexivity|].
    cbn [fold_left fst snd last_value]. rewrite IH, get_assign.
    destruct (last_value p r); [reflexivity|]. destruct (existsb (String.eqb p) ps); reflexivity.
  Qed.

  Lemma assign_nodup ps (x : T) : forall d, NoDup (map fst d) -> NoDup (map fst (assign ps x d)).
  Proof.
    unfold assign. induction ps as [|q r IH]; intros d Hn; [exact Hn|].
    cbn [fold_left]. apply IH. apply (dict_set_nodup String.eqb String.eqb_eq). exact Hn.
  Qed.

  Lemma assign_all_nodup es : forall d, NoDup (map fst d) -> NoDup (map fst (assign_all es d)).
  Proof.
    unfold assign_all. induction es as [|[ps x] r IH]; intros d Hn; [exact Hn|].
    cbn [fold_left fst snd]. apply IH. apply assign_nodup. exact Hn.
  Qed.

  Lemma last_value_in p (es : list (imp_entry (T:=T))) v :
    last_value p es = Some v -> exists ps, In (ps, v) es /\ In p ps.
  Proof.
    induction es as [|[ps x] r IH]; [discriminate|]. cbn [last_value].
    destruct (last_value p r) as [y|].
    - intros H. injection H as ->. destruct (IH eq_refl) as (ps' & Hin & Hp).
      exists ps'. split; [right; exact Hin|exact Hp].
    - destruct (existsb (String.eqb p) ps) eqn:E; [|discriminate]. intros H. injection H as ->.
      apply existsb_exists in E. destruct E as (q & Hq & Heq). apply String.eqb_eq in Heq. subst q.
      exists ps. split; [left; reflexivity|exact Hq].
  Qed.

  Lemma last_value_named p (es : list (imp_entry (T:=T))) :
    In p (named es) -> exists y, last_value p es = Some y.
  Proof.
    induction es as [|[ps x] r IH]; [intros []|]. unfold named. cbn [flat_map fst last_value].
    intros Hin. apply in_app_or in Hin. destruct (last_value p r) as [y|] eqn:E; [exists y; reflexivity|].
    destruct Hin as [Hin|Hin].
    - exists x. replace (existsb (String.eqb p) ps) with true; [reflexivity|].
      symmetry. apply existsb_exists. exists p. split; [exact Hin|apply String.eqb_refl].
    - destruct (IH Hin) as (y & Hy). discriminate.
  Qed.

  (* entries met later replace earlier ones, particle by particle *)
  Lemma last_value_app p (a b : list (imp_entry (T:=T))) :
    last_value p (a ++ b) = match last_value p b with Some y => Some y | None => last_value p a end.
  Proof.
    induction a as [|[ps x] r IH]; [cbn; destruct (last_value p b); reflexivity|].
    cbn [app last_value]. rewrite IH. destruct (last_value p b); [reflexivity|].
    destruct (last_value p r); reflexivity.
  Qed.

  Lemma split_on_aux_nonempty c s cur : split_on_aux c s cur <> [].
  Proof. revert cur. induction s as [|d r IH]; intros cur; cbn; [discriminate|]. destruct (Ascii.eqb d c); [discriminate|apply IH]. Qed.

  (* every IMP keyword names at least one particle (possibly the empty name) *)
  Lemma opt_imps_particles toks es : opt_imps toks es -> Forall (fun e => fst e <> []) es.
  Proof.
    induction 1 as [|t v x rest es Hp Hfl Ho IH|t rest n es Hc Ho IH]; [constructor| |exact IH].
    constructor; [|exact IH]. cbn [fst]. unfold imp_particles, split_on. apply split_on_aux_nonempty.
  Qed.

  (* the IMP keywords of a cell card: per particle the last entry counts, the
     importance is the largest over the particles; every other keyword leaves
     it alone *)
  Theorem keywords_importance toks es :
    opt_imps toks es ->
    exists k, parse_kw Sc P toks O kws0 = Ok k /\ k_imp k = imp_of_entries es.
  Proof.
    intros Ho. destruct (parse_kw_imps _ _ Ho kws0) as (k & Hk & _ & Hi).
    exists k. split; [exact Hk|]. rewrite Hi. destruct es; reflexivity.
  Qed.

  (* --- keywords that [consumes] covers, in syntactic terms --- *)

  (* a token no branch of the dispatch reacts to (numbers, VOL, TMP, PWT, ...) *)
  Definition inert (t : string) : Prop :=
    String.prefix "imp" t = false /\ contains_sub "fill" t = false /\ contains_sub "lat" t = false
    /\ contains_sub "trcl" t = false /\ String.eqb t "u" = false /\ contains_sub "rho" t = false
    /\ contains_sub "mat" t = false.

  Lemma consumes_inert t rest : inert t -> consumes t rest O.
  Proof.
    intros (H1 & H2 & H3 & H4 & H5 & H6 & H7). split; [exact H1|]. intros k. exists k.
    unfold kw_step. rewrite H1, H2, H3, H4, H5, H6, H7. reflexivity.
  Qed.

  (* U = n *)
  Lemma consumes_u t v x rest :
    String.prefix "imp" t = false -> contains_sub "fill" t = false -> contains_sub "lat" t = false ->
    contains_sub "trcl" t = false -> String.eqb t "u" = true -> fl P v = Some x ->
    consumes t (v :: rest) 1.
  Proof.
    intros H1 H2 H3 H4 H5 Hfl. split; [exact H1|]. intros k. eexists.
    unfold kw_step. rewrite H1, H2, H3, H4, H5. cbn [pop1 bind]. rewrite Hfl. cbn [of_opt bind].
    reflexivity.
  Qed.

  (* RHO = x, MAT = n (LIKE n BUT cards) *)
  Lemma consumes_rho t v rest :
    String.prefix "imp" t = false -> contains_sub "fill" t = false -> contains_sub "lat" t = false ->
    contains_sub "trcl" t = false -> String.eqb t "u" = false -> contains_sub "rho" t = true ->
    consumes t (v :: rest) 1.
  Proof.
    intros H1 H2 H3 H4 H5 H6. split; [exact H1|]. intros k. eexists.
    unfold kw_step. rewrite H1, H2, H3, H4, H5, H6. cbn [pop1 bind]. reflexivity.
  Qed.

  Lemma consumes_mat t v rest :
    String.prefix "imp" t = false -> contains_sub "fill" t = false -> contains_sub "lat" t = false ->
    contains_sub "trcl" t = false -> String.eqb t "u" = false -> contains_sub "rho" t = false ->
    contains_sub "mat" t = true ->
    consumes t (v :: rest) 1.
  Proof.
    intros H1 H2 H3 H4 H5 H6 H7. split; [exact H1|]. intros k. eexists.
    unfold kw_step. rewrite H1, H2, H3, H4, H5, H6, H7. cbn [pop1 bind]. reflexivity.
  Qed.

  (* LAT = 1 | 2 *)
  Lemma consumes_lat t v z rest :
    String.prefix "imp" t = false -> contains_sub "fill" t = false -> contains_sub "lat" t = true ->
    int_tok v = Some z -> (z = 1 \/ z = 2)%Z ->
    consumes t (v :: rest) 1.
  Proof.
    intros H1 H2 H3 Hv Hz. split; [exact H1|]. intros k. eexists.
    unfold kw_step. rewrite H1, H2, H3. unfold parse_lat. rewrite Hv. cbn [of_opt bind].
    replace ((z =? 1)%Z || (z =? 2)%Z) with true
      by (destruct Hz as [-> | ->]; reflexivity).
    cbn [bind]. reflexivity.
  Qed.

  (* FILL = n (a universe number, no transformation) *)
  Lemma consumes_fill_univ t v x rest :
    String.prefix "imp" t = false -> contains_sub "fill" t = true ->
    contains_char ":" v = false -> fl P v = Some x -> take_numeric rest = [] ->
    consumes t (v :: rest) 1.
  Proof.
    intros H1 H2 Hc Hfl Hn. split; [exact H1|]. intros k.
    unfold kw_step. rewrite H1, H2. unfold parse_fill. rewrite Hc, Hfl. cbn [of_opt bind tl].
    rewrite Hn. unfold fill_params. cbn [floats_of bind List.length Nat.add].
    destruct (contains_char "*" t); eexists; reflexivity.
  Qed.

  (* --- a syntactic class of option lists: IMP keywords with a number, and
         tokens no branch reacts to --- *)
  Definition inert_b (t : string) : bool :=
    negb (String.prefix "imp" t) && negb (contains_sub "fill" t) && negb (contains_sub "lat" t)
    && negb (contains_sub "trcl" t) && negb (String.eqb t "u") && negb (contains_sub "rho" t)
    && negb (contains_sub "mat" t).

  Lemma inert_b_inert t : inert_b t = true -> inert t.
  Proof.
    unfold inert_b, inert. intros H.
    repeat (apply andb_true_iff in H; destruct H as [H ?]).
    repeat split; apply negb_true_iff; assumption.
  Qed.

  (* a keyword with exactly one argument: U = number, RHO = x, MAT = n, LAT = 1|2 *)
  Definition one_arg_ok (t v : string) : bool :=
    negb (String.prefix "imp" t) && negb (contains_sub "fill" t)
    && (if contains_sub "lat" t
        then match int_tok v with Some z => (z =? 1)%Z || (z =? 2)%Z | None => false end
        else negb (contains_sub "trcl" t)
             && (if String.eqb t "u" then match fl P v with Some _ => true | None => false end
                 else contains_sub "rho" t || contains_sub "mat" t)).

  Lemma one_arg_consumes t v rest : one_arg_ok t v = true -> consumes t (v :: rest) 1.
  Proof.
    unfold one_arg_ok. intros H.
    apply andb_true_iff in H. destruct H as [H H3]. apply andb_true_iff in H. destruct H as [H1 H2].
    apply negb_true_iff in H1, H2. destruct (contains_sub "lat" t) eqn:El.
    - destruct (int_tok v) as [z|] eqn:Ez; [|discriminate].
      apply (consumes_lat t v z rest H1 H2 El Ez).
      apply orb_true_iff in H3. destruct H3 as [H3|H3]; apply Z.eqb_eq in H3; auto.
    - apply andb_true_iff in H3. destruct H3 as [H4 H5]. apply negb_true_iff in H4.
      destruct (String.eqb t "u") eqn:Eu.
      + destruct (fl P v) as [x|] eqn:Ef; [|discriminate].
        apply (consumes_u t v x rest H1 H2 El H4 Eu Ef).
      + destruct (contains_sub "rho" t) eqn:Er.
        * apply (consumes_rho t v rest H1 H2 El H4 Eu Er).
        * cbn [orb] in H5. apply (consumes_mat t v rest H1 H2 El H4 Eu Er H5).
  Qed.

  (* the IMP entries of a list of option tokens made of IMP keywords followed by
     a number, one-argument keywords (U, RHO, MAT, LAT) and tokens no branch
     reacts to; None for anything else (FILL, TRCL, a keyword without value) *)
  Fixpoint scan_imps (toks : list string) : option (list (imp_entry (T:=T))) :=
    match toks with
    | [] => Some []
    | t :: r =>
        if String.prefix "imp" t then
          match r with
          | v :: r' => match tf P v with
                       | Some x => option_map (cons (imp_particles t, x)) (scan_imps r')
                       | None => None
                       end
          | [] => None
          end
        else if inert_b t then scan_imps r
        else match r with
             | v :: r' => if one_arg_ok t v then scan_imps r' else None
             | [] => None
             end
    end.

  Lemma scan_imps_sound : forall n toks (xs : list (imp_entry (T:=T))),
    (List.length toks <= n)%nat -> scan_imps toks = Some xs -> opt_imps toks xs.
  Proof.
    induction n as [|n IH]; intros toks xs Hn H.
    - destruct toks; [|cbn in Hn; lia]. cbn in H. injection H as <-. apply oi_nil.
    - destruct toks as [|t r]; [cbn in H; injection H as <-; apply oi_nil|].
      cbn [scan_imps] in H. destruct (String.prefix "imp" t) eqn:Ep.
      + destruct r as [|v r']; [discriminate|]. destruct (tf P v) as [x|] eqn:Ef; [|discriminate].
        destruct (scan_imps r') as [xs'|] eqn:Es; [|discriminate]. cbn in H. injection H as <-.
        apply oi_imp; [exact Ep|exact Ef|]. apply IH; [cbn in Hn; lia|exact Es].
      + destruct (inert_b t) eqn:Ei.
        * apply (oi_other t r O); [apply consumes_inert; apply inert_b_inert; exact Ei|].
          cbn [skipn]. apply IH; [cbn in Hn; lia|exact H].
        * destruct r as [|v r']; [discriminate|]. destruct (one_arg_ok t v) eqn:Eo; [|discriminate].
          apply (oi_other t (v :: r') 1); [apply one_arg_consumes; exact Eo|].
          cbn [skipn]. apply IH; [cbn in Hn; lia|exact H].
  Qed.

  (* the tokens of two cards one after the other *)
  Lemma scan_imps_app : forall n t1 t2 es1 es2,
    (List.length t1 <= n)%nat -> scan_imps t1 = Some es1 -> scan_imps t2 = Some es2 ->
    scan_imps (t1 ++ t2) = Some (es1 ++ es2).
  Proof.
    induction n as [|n IH]; intros t1 t2 es1 es2 Hn H1 H2.
    - destruct t1; [|cbn in Hn; lia]. cbn in H1. injection H1 as <-. exact H2.
    - destruct t1 as [|t r]; [cbn in H1; injection H1 as <-; exact H2|].
      cbn [scan_imps app] in *. destruct (String.prefix "imp" t).
      + destruct r as [|v r']; [discriminate|]. cbn [app]. destruct (tf P v) as [x|]; [|discriminate].
        destruct (scan_imps r') as [xs'|] eqn:Es; [|discriminate]. cbn in H1. injection H1 as <-.
        rewrite (IH r' t2 xs' es2); [reflexivity|cbn in Hn; lia|exact Es|exact H2].
      + destruct (inert_b t).
        * apply IH; [cbn in Hn; lia|exact H1|exact H2].
        * destruct r as [|v r']; [discriminate|]. cbn [app]. destruct (one_arg_ok t v); [|discriminate].
          apply IH; [cbn in Hn; lia|exact H1|exact H2].
  Qed.

  Lemma skipn_app_len' {A} (a b : list A) : skipn (List.length a) (a ++ b) = b.
  Proof. induction a as [|x r IH]; [reflexivity|exact IH]. Qed.

  (* ---- keywords whose arguments are read up to the next non-numeric token
          (FILL = n (...), TRCL = (...)): reading them is local as long as the
          token that follows does not start like a number ---- *)
  Definition hd_not_num (rest : list string) : Prop :=
    match rest with [] => True | t :: _ => is_numstart t = false end.

  (* FILL = n followed by numeric parameters *)
  Lemma fill_local t first params fp x :
    String.prefix "imp" t = false -> contains_sub "fill" t = true ->
    contains_char ":" first = false -> fl P first = Some x ->
    forallb is_numstart params = true ->
    fill_params Sc P false (contains_char "*" t) params = Ok fp ->
    forall rest, hd_not_num rest -> forall k,
      exists k', kw_step Sc P t ((first :: params) ++ rest) k = Ok (k', List.length (first :: params)).
  Proof.
    intros H1 H2 Hc Hfl Hp Hfp rest Hr k. unfold kw_step. rewrite H1, H2.
    unfold parse_fill. cbn [app]. rewrite Hc, Hfl. cbn [of_opt bind tl].
    rewrite (take_numeric_app params rest Hp Hr), Hfp. cbn [bind]. eexists. reflexivity.
  Qed.

  (* TRCL = numeric parameters *)
  Lemma trcl_local t params fp :
    String.prefix "imp" t = false -> contains_sub "fill" t = false -> contains_sub "lat" t = false ->
    contains_sub "trcl" t = true -> forallb is_numstart params = true ->
    fill_params Sc P true (contains_char "*" t) params = Ok fp ->
    forall rest, hd_not_num rest -> forall k,
      exists k', kw_step Sc P t (params ++ rest) k = Ok (k', List.length params).
  Proof.
    intros H1 H2 H3 H4 Hp Hfp rest Hr k. unfold kw_step. rewrite H1, H2, H3, H4.
    unfold parse_trcl. rewrite (take_numeric_app params rest Hp Hr), Hfp. cbn [bind].
    eexists. reflexivity.
  Qed.

  (* ---- the lattice form FILL = i:j ... u u u (params) ---- *)

  (* a universe entry written as a plain number *)
  Definition plain_value (t : string) : Prop :=
    (exists x, tf P (lower t) = Some x) /\ plain (lower t).

  (* expand_data_card(tokens, expected = n) on n plain numbers followed by
     anything: the n numbers, n tokens consumed *)
  Lemma expand_loop_plain u : forall more acc consumed size,
    Forall plain_value u ->
    (Z.of_nat (List.length acc + List.length u) = size)%Z ->
    exists vals,
      expand_loop Sc P (u ++ more) O (Some size) acc consumed
      = Ok (vals ++ acc, (consumed + List.length u)%nat) /\ List.length vals = List.length u.
  Proof.
    induction u as [|t r IH]; intros more acc consumed size Hu Hsz.
    - exists []. cbn [app List.length]. rewrite Nat.add_0_r. split; [|reflexivity].
      destruct more as [|m0 more']; [reflexivity|]. cbn [expand_loop reached].
      replace (Z.of_nat (List.length acc) <? size)%Z with false; [reflexivity|].
      symmetry. apply Z.ltb_ge. cbn [List.length] in Hsz. lia.
    - inversion Hu as [|? ? [[x Hx] Hp] Hr]; subst. cbn [app expand_loop reached].
      replace (Z.of_nat (List.length acc) <? Z.of_nat (List.length acc + List.length (t :: r)))%Z with true
        by (symmetry; apply Z.ltb_lt; cbn [List.length]; lia).
      cbn [negb]. rewrite (step_val Sc P _ _ _ _ Hx Hp). cbn [bind].
      destruct (IH more (Some x :: acc) (consumed + 1 + 0)%nat
                   (Z.of_nat (List.length acc + List.length (t :: r))) Hr) as (vals & Hv & Hl).
      { cbn [List.length]. lia. }
      exists (vals ++ [Some x]). rewrite Hv. split.
      + rewrite <- app_assoc. cbn [app List.length]. f_equal. f_equal. lia.
      + rewrite app_length, Hl. cbn [List.length]. lia.
  Qed.

  Lemma take_ranges_app rs rest :
    forallb (contains_char ":") rs = true ->
    match rest with [] => True | t :: _ => contains_char ":" t = false end ->
    take_ranges (rs ++ rest) = rs.
  Proof.
    intros Hr Hh. induction rs as [|x r IH]; cbn [app take_ranges].
    - destruct rest as [|t r']; [reflexivity|]. cbn. rewrite Hh. reflexivity.
    - cbn in Hr. apply andb_true_iff in Hr. destruct Hr as [H1 H2]. rewrite H1, IH; auto.
  Qed.

  (* FILL = ranges, as many plain universe numbers as the ranges hold, numeric
     parameters: read locally *)
  Lemma fillarr_local t r0 rs u0 us params bnds fp :
    String.prefix "imp" t = false -> contains_sub "fill" t = true ->
    forallb (contains_char ":") (r0 :: rs) = true -> parse_ranges (r0 :: rs) = Ok bnds ->
    contains_char ":" u0 = false -> Forall plain_value (u0 :: us) ->
    Z.of_nat (List.length (u0 :: us)) = bounds_size bnds ->
    forallb is_numstart params = true ->
    fill_params Sc P false (contains_char "*" t) params = Ok fp ->
    forall rest, hd_not_num rest -> forall k,
      exists k', kw_step Sc P t (((r0 :: rs) ++ (u0 :: us) ++ params) ++ rest) k
                 = Ok (k', List.length ((r0 :: rs) ++ (u0 :: us) ++ params)).
  Proof.
    intros H1 H2 Hrs Hpr Hu0 Hus Hsz Hp Hfp rest Hr k. unfold kw_step. rewrite H1, H2.
    unfold parse_fill.
    replace (((r0 :: rs) ++ (u0 :: us) ++ params) ++ rest)
      with ((r0 :: rs) ++ ((u0 :: us) ++ (params ++ rest))) by (rewrite <- !app_assoc; reflexivity).
    assert (contains_char ":" r0 = true) as Hr0 by (cbn in Hrs; apply andb_true_iff in Hrs; exact (proj1 Hrs)).
    cbn [app]. rewrite Hr0.
    change (r0 :: rs ++ u0 :: us ++ params ++ rest) with ((r0 :: rs) ++ (u0 :: us ++ params ++ rest)).
    rewrite (take_ranges_app (r0 :: rs) (u0 :: us ++ params ++ rest) Hrs Hu0).
    rewrite skipn_app_len', Hpr. cbn [bind].
    destruct (expand_loop_plain (u0 :: us) (params ++ rest) [] O (bounds_size bnds) Hus) as (vals & Hv & Hl).
    { cbn [List.length Nat.add]. exact Hsz. }
    unfold expand. change (u0 :: us ++ params ++ rest) with ((u0 :: us) ++ (params ++ rest)).
    rewrite Hv. cbn [bind]. rewrite app_nil_r.
    replace (Z.of_nat (List.length vals) =? bounds_size bnds)%Z with true
      by (symmetry; apply Z.eqb_eq; rewrite Hl; exact Hsz).
    cbn [Nat.add bind]. cbv beta iota.
    replace (Nat.eqb (List.length (u0 :: us)) 0) with false by reflexivity.
    rewrite skipn_app_len', (take_numeric_app params rest Hp Hr), Hfp. cbn [bind].
    eexists. f_equal. f_equal. change (r0 :: rs ++ u0 :: us ++ params) with ((r0 :: rs) ++ (u0 :: us) ++ params).
    rewrite ?app_length. cbn [List.length]. lia.
  Qed.

  (* an entry of a FILL array: a plain number (1 value) or nR with n >= 1 (n values) *)
  Inductive arr_tok : string -> nat -> Prop :=
  | at_plain t : plain_value t -> arr_tok t 1
  | at_rep t body n : lower t = (body ++ "r")%string -> count_of body n -> (1 <= n)%nat -> arr_tok t n.

  Lemma expand_loop_arr u : forall cs more v acc consumed size,
    Forall2 arr_tok u cs ->
    (Z.of_nat (List.length (v :: acc) + list_sum cs) = size)%Z ->
    exists vals,
      expand_loop Sc P (u ++ more) O (Some size) (v :: acc) consumed
      = Ok (vals ++ v :: acc, (consumed + List.length u)%nat) /\ List.length vals = list_sum cs.
  Proof.
    induction u as [|t r IH]; intros cs more v acc consumed size Hu Hsz.
    - destruct cs as [|c0 cs0]; [|inversion Hu]. exists []. cbn [app List.length list_sum fold_right]. replace (consumed + 0)%nat with consumed by lia. split; [|reflexivity].
      destruct more as [|m0 more']; [reflexivity|]. cbn [expand_loop reached].
      replace (Z.of_nat (List.length (v :: acc)) <? size)%Z with false; [reflexivity|].
      symmetry. apply Z.ltb_ge. cbn [list_sum fold_right List.length] in Hsz |- *. lia.
    - destruct cs as [|c cs']; [inversion Hu|]. assert (arr_tok t c /\ Forall2 arr_tok r cs') as [Ht Hr] by (inversion Hu; auto).
      rewrite <- Hsz. cbn [app expand_loop reached].
      assert (1 <= c)%nat as Hc by (inversion Ht; subst; lia).
      replace (Z.of_nat (List.length (v :: acc)) <? Z.of_nat (List.length (v :: acc) + list_sum (c :: cs')))%Z with true
        by (symmetry; apply Z.ltb_lt; unfold list_sum; cbn [fold_right]; lia).
      cbn [negb]. destruct Ht as [t [[x Hx] Hp]|t body n Hl Hcnt Hn].
      + rewrite (step_val Sc P _ _ _ _ Hx Hp). cbn [bind].
        destruct (IH cs' more (Some x) (v :: acc) (consumed + 1 + 0)%nat
                     (Z.of_nat (List.length (v :: acc) + list_sum (1%nat :: cs'))) Hr) as (vals & Hv & Hlen).
        { unfold list_sum in *; cbn [List.length fold_right] in *; lia. }
        exists (vals ++ [Some x]). rewrite Hv. split.
        * rewrite <- app_assoc. cbn [app List.length]. f_equal. f_equal. lia.
        * rewrite app_length, Hlen. unfold list_sum in *; cbn [List.length fold_right] in *; lia.
      + rewrite Hl, (step_rep Sc P _ _ _ _ _ Hcnt). cbn [bind].
        destruct n as [|c']; [lia|]. cbn [repeat app].
        destruct (IH cs' more v (repeat v c' ++ v :: acc) (consumed + 1 + 0)%nat
                     (Z.of_nat (List.length (v :: acc) + list_sum (S c' :: cs'))) Hr) as (vals & Hv & Hlen).
        { unfold list_sum; cbn [List.length fold_right]; rewrite app_length, repeat_length; cbn [List.length]; lia. }
        exists (vals ++ v :: repeat v c'). rewrite Hv. split.
        * rewrite <- app_assoc. cbn [app List.length]. f_equal. f_equal. lia.
        * rewrite app_length, Hlen. unfold list_sum in *; cbn [List.length fold_right] in *; rewrite repeat_length; lia.
  Qed.

  (* FILL = ranges, a first plain universe number, further entries (plain or nR)
     that fill the ranges exactly, numeric parameters: read locally *)
  Lemma fillarr_local_rep t r0 rs u0 us cs params bnds fp :
    String.prefix "imp" t = false -> contains_sub "fill" t = true ->
    forallb (contains_char ":") (r0 :: rs) = true -> parse_ranges (r0 :: rs) = Ok bnds ->
    contains_char ":" u0 = false -> plain_value u0 -> Forall2 arr_tok us cs ->
    Z.of_nat (1 + list_sum cs) = bounds_size bnds ->
    forallb is_numstart params = true ->
    fill_params Sc P false (contains_char "*" t) params = Ok fp ->
    forall rest, hd_not_num rest -> forall k,
      exists k', kw_step Sc P t (((r0 :: rs) ++ (u0 :: us) ++ params) ++ rest) k
                 = Ok (k', List.length ((r0 :: rs) ++ (u0 :: us) ++ params)).
  Proof.
    intros H1 H2 Hrs Hpr Hu0 [[x Hx] Hpl] Hus Hsz Hp Hfp rest Hr k. unfold kw_step. rewrite H1, H2.
    unfold parse_fill.
    replace (((r0 :: rs) ++ (u0 :: us) ++ params) ++ rest)
      with ((r0 :: rs) ++ ((u0 :: us) ++ (params ++ rest))) by (rewrite <- !app_assoc; reflexivity).
    assert (contains_char ":" r0 = true) as Hr0 by (cbn in Hrs; apply andb_true_iff in Hrs; exact (proj1 Hrs)).
    cbn [app]. rewrite Hr0.
    change (r0 :: rs ++ u0 :: us ++ params ++ rest) with ((r0 :: rs) ++ (u0 :: us ++ params ++ rest)).
    rewrite (take_ranges_app (r0 :: rs) (u0 :: us ++ params ++ rest) Hrs Hu0).
    rewrite skipn_app_len', Hpr. cbn [bind].
    unfold expand. cbn [expand_loop reached List.length].
    replace (Z.of_nat 0 <? bounds_size bnds)%Z with true by (symmetry; apply Z.ltb_lt; lia).
    cbn [negb]. rewrite (step_val Sc P _ _ _ _ Hx Hpl). cbn [bind].
    destruct (expand_loop_arr us cs (params ++ rest) (Some x) [] (0 + 1 + 0)%nat (bounds_size bnds) Hus) as (vals & Hv & Hl).
    { cbn [List.length]. rewrite <- Hsz. reflexivity. }
    rewrite Hv. cbn [bind]. cbv beta iota.
    replace (Z.of_nat (List.length (vals ++ [Some x])) =? bounds_size bnds)%Z with true
      by (symmetry; apply Z.eqb_eq; rewrite app_length, Hl; cbn [List.length]; lia).
    cbn [bind]. cbv beta iota.
    replace (Nat.eqb (0 + 1 + 0 + List.length us) 0) with false by reflexivity.
    replace (0 + 1 + 0 + List.length us)%nat with (List.length (u0 :: us)) by (cbn [List.length]; lia).
    change (u0 :: us ++ params ++ rest) with ((u0 :: us) ++ (params ++ rest)).
    rewrite skipn_app_len', (take_numeric_app params rest Hp Hr), Hfp. cbn [bind].
    eexists. f_equal. f_equal. change (r0 :: rs ++ u0 :: us ++ params) with ((r0 :: rs) ++ (u0 :: us) ++ params).
    rewrite ?app_length. cbn [List.length]. rewrite ?app_length. lia.
  Qed.

  (* [loc_imps toks es]: as [opt_imps], with every keyword read locally: either
     it takes its arguments whatever follows ([li_any]: inert words, U, RHO,
     MAT, LAT), or it reads numbers up to the next token that does not start
     like one ([li_num]: FILL, TRCL) *)
  Inductive loc_imps : list string -> list (imp_entry (T:=T)) -> Prop :=
  | li_nil : loc_imps [] []
  | li_imp t v x rest es :
      String.prefix "imp" t = true -> tf P v = Some x -> loc_imps rest es ->
      loc_imps (t :: v :: rest) ((imp_particles t, x) :: es)
  | li_any t args rest es :
      String.prefix "imp" t = false ->
      (forall rest' k, exists k', kw_step Sc P t (args ++ rest') k = Ok (k', List.length args)) ->
      loc_imps rest es -> loc_imps (t :: args ++ rest) es
  | li_num t args rest es :
      String.prefix "imp" t = false ->
      (forall rest', hd_not_num rest' -> forall k,
          exists k', kw_step Sc P t (args ++ rest') k = Ok (k', List.length args)) ->
      hd_not_num rest -> loc_imps rest es -> loc_imps (t :: args ++ rest) es.

  Lemma skipn_app_len {A} (a b : list A) : skipn (List.length a) (a ++ b) = b.
  Proof. induction a as [|x r IH]; [reflexivity|exact IH]. Qed.

  Lemma loc_imps_opt toks es : loc_imps toks es -> opt_imps toks es.
  Proof.
    induction 1 as [|t v x rest es Hp Hf _ IH|t args rest es Hp Hk _ IH|t args rest es Hp Hk Hr _ IH].
    - apply oi_nil.
    - apply oi_imp; assumption.
    - apply (oi_other t (args ++ rest) (List.length args)); [split; [exact Hp|apply Hk]|].
      rewrite skipn_app_len. exact IH.
    - apply (oi_other t (args ++ rest) (List.length args)); [split; [exact Hp|apply Hk; exact Hr]|].
      rewrite skipn_app_len. exact IH.
  Qed.

  Lemma hd_not_num_app a b : hd_not_num b -> (a = [] \/ hd_not_num a) -> hd_not_num (a ++ b).
  Proof. destruct a as [|x r]; intros Hb [E|Ha]; try discriminate; cbn; auto. Qed.

  (* the tokens of two cards one after the other, the second starting with a
     keyword (not with a number) *)
  Lemma loc_imps_app t1 es1 t2 es2 :
    loc_imps t1 es1 -> loc_imps t2 es2 -> hd_not_num t2 -> loc_imps (t1 ++ t2) (es1 ++ es2).
  Proof.
    intros H1 H2 Hh. induction H1 as [|t v x rest es Hp Hf _ IH|t args rest es Hp Hk _ IH|t args rest es Hp Hk Hr _ IH].
    - exact H2.
    - cbn [app]. apply li_imp; assumption.
    - cbn [app]. rewrite <- app_assoc. apply li_any; assumption.
    - cbn [app]. rewrite <- app_assoc. apply li_num; try assumption.
      destruct rest as [|r0 rest']; [exact Hh|exact Hr].
  Qed.

  Lemma loc_imps_concat tss : forall ess,
    Forall2 loc_imps tss ess -> Forall hd_not_num (tl tss) ->
    loc_imps (List.concat tss) (List.concat ess).
  Proof.
    induction tss as [|t r IH]; intros ess H Hh; inversion H as [|? es ? ess' H1 H2]; subst; [apply li_nil|].
    cbn [List.concat]. apply loc_imps_app; [exact H1| |].
    - apply IH; [exact H2|]. cbn [tl] in Hh. destruct r as [|r0 r']; [constructor|].
      inversion Hh; subst. cbn [tl]. assumption.
    - cbn [tl] in Hh. clear - Hh. induction r as [|r0 r' IHr]; [exact I|].
      inversion Hh as [|? ? Hr0 Hr']; subst. cbn [List.concat].
      destruct r0 as [|x0 r0']; [cbn [app]; apply IHr; exact Hr'|exact Hr0].
  Qed.

  (* the syntactic class of scan_imps is local *)
  Lemma scan_imps_local : forall n toks (xs : list (imp_entry (T:=T))),
    (List.length toks <= n)%nat -> scan_imps toks = Some xs -> loc_imps toks xs.
  Proof.
    induction n as [|n IH]; intros toks xs Hn H.
    - destruct toks; [|cbn in Hn; lia]. cbn in H. injection H as <-. apply li_nil.
    - destruct toks as [|t r]; [cbn in H; injection H as <-; apply li_nil|].
      cbn [scan_imps] in H. destruct (String.prefix "imp" t) eqn:Ep.
      + destruct r as [|v r']; [discriminate|]. destruct (tf P v) as [x|] eqn:Ef; [|discriminate].
        destruct (scan_imps r') as [xs'|] eqn:Es; [|discriminate]. cbn in H. injection H as <-.
        apply li_imp; [exact Ep|exact Ef|]. apply IH; [cbn in Hn; lia|exact Es].
      + destruct (inert_b t) eqn:Ei.
        * apply (li_any t [] r xs Ep).
          -- intros rest' k. cbn [app List.length].
             exact (proj2 (consumes_inert t rest' (inert_b_inert t Ei)) k).
          -- apply IH; [cbn in Hn; lia|exact H].
        * destruct r as [|v r']; [discriminate|]. destruct (one_arg_ok t v) eqn:Eo; [|discriminate].
          apply (li_any t [v] r' xs Ep).
          -- intros rest' k. cbn [app List.length]. exact (proj2 (one_arg_consumes t v rest' Eo) k).
          -- apply IH; [cbn in Hn; lia|exact H].
  Qed.

  Lemma scan_imps_concat tss : forall ess,
    Forall2 (fun toks es => scan_imps toks = Some es) tss ess ->
    scan_imps (List.concat tss) = Some (List.concat ess).
  Proof.
    induction tss as [|t r IH]; intros ess H; inversion H as [|? es ? ess' H1 H2]; subst; [reflexivity|].
    cbn [List.concat]. apply (scan_imps_app (List.length t)); [apply le_n|exact H1|apply IH; exact H2].
  Qed.

  (* ================= the importance of a cell ================= *)

  (* cell-card value (the largest of the IMP keywords) if there is one,
     otherwise the data-card entry at the cell's rank *)
  Theorem importance_of_cell importances rank lat mat geom opts xs c :
    opt_imps (option_tokens opts) xs ->
    cell_worker Sc P importances rank lat mat geom opts = Ok c ->
    match imp_of_entries xs with
    | Some m => c_imp c = Some m
    | None => nth_error importances rank = Some (c_imp c)
    end.
  Proof.
    intros Ho H. unfold cell_worker in H.
    destruct (parse_material P mat) as [[mid rho]|] eqn:Em; cbn [bind] in H; [|discriminate].
    destruct (keywords_importance _ _ Ho) as (k & Hk & Hi). rewrite Hk in H. cbn [bind] in H.
    rewrite Hi in H. destruct (imp_of_entries xs) as [m|].
    - cbn [bind] in H.
      destruct (int_tok _) as [z|]; cbn [of_opt bind] in H; [|discriminate].
      destruct (to_fillid k lat) as [fid|]; cbn [bind] in H; [|discriminate].
      injection H as <-. reflexivity.
    - destruct (nth_error importances rank) as [v|]; cbn [of_opt bind] in H; [|discriminate].
      destruct (int_tok _) as [z|]; cbn [of_opt bind] in H; [|discriminate].
      destruct (to_fillid k lat) as [fid|]; cbn [bind] in H; [|discriminate].
      injection H as <-. reflexivity.
  Qed.

  (* without IMP keyword and without a data-card entry at its rank the cell is
     refused *)
  Theorem importance_missing importances rank lat mat geom opts :
    opt_imps (option_tokens opts) [] -> nth_error importances rank = None ->
    (exists a, parse_material P mat = Ok a) ->
    cell_worker Sc P importances rank lat mat geom opts = Err ECell.
  Proof.
    intros Ho Hn [[mid rho] Hm]. unfold cell_worker. rewrite Hm. cbn [bind].
    destruct (keywords_importance _ _ Ho) as (k & Hk & Hi). rewrite Hk. cbn [bind].
    rewrite Hi. cbn [imp_of_entries]. rewrite Hn. reflexivity.
  Qed.

  (* ================= skip list and converted cells ================= *)

  Definition is_zero (c : cell (T:=T)) : bool :=
    match c_imp c with Some v => seqb Sc v (s0 Sc) | None => false end.

  Lemma parse_ranked_spec d imps lats todo :
    forall rank cells skipped,
      parse_ranked Sc P d imps lats todo rank = Ok (cells, skipped) ->
      map fst cells = map fst todo /\
      skipped = map fst (filter (fun kc => is_zero (snd kc)) cells).
  Proof.
    induction todo as [|[key [b opts]] r IH]; intros rank cells skipped H.
    - cbn in H. injection H as <- <-. split; reflexivity.
    - cbn [parse_ranked] in H.
      destruct (resolve_like _ d b opts) as [[[mat geom] o]|]; cbn [bind] in H; [|discriminate].
      destruct (cell_worker Sc P imps rank _ mat geom o) as [c|]; cbn [bind] in H; [|discriminate].
      destruct (parse_ranked Sc P d imps lats r (S rank)) as [[cells' skipped']|] eqn:E;
        cbn [bind] in H; [|discriminate].
      destruct (IH _ _ _ E) as [Hk Hs]. injection H as <- <-.
      split; [cbn [map fst]; rewrite Hk; reflexivity|].
      cbn [filter snd]. unfold is_zero at 1.
      destruct (c_imp c) as [v|]; [destruct (seqb Sc v (s0 Sc))|]; cbn [map fst]; rewrite <- Hs; reflexivity.
  Qed.

  Lemma parse_ranked_nth d imps lats todo :
    forall rank cells skipped i key b opts,
      parse_ranked Sc P d imps lats todo rank = Ok (cells, skipped) ->
      nth_error todo i = Some (key, (b, opts)) ->
      exists mat geom o c,
        resolve_like (S (List.length d)) d b opts = Ok (mat, geom, o) /\
        cell_worker Sc P imps (rank + i) (dict_get Z.eqb key lats) mat geom o = Ok c /\
        nth_error cells i = Some (key, c).
  Proof.
    induction todo as [|[key0 [b0 opts0]] r IH]; intros rank cells skipped i key b opts H Hn.
    - destruct i; discriminate.
    - cbn [parse_ranked] in H.
      destruct (resolve_like _ d b0 opts0) as [[[mat geom] o]|] eqn:Er; cbn [bind] in H; [|discriminate].
      destruct (cell_worker Sc P imps rank _ mat geom o) as [c|] eqn:Ec; cbn [bind] in H; [|discriminate].
      destruct (parse_ranked Sc P d imps lats r (S rank)) as [[cells' skipped']|] eqn:E;
        cbn [bind] in H; [|discriminate].
      injection H as <- <-. destruct i as [|i].
      + cbn in Hn. injection Hn as -> -> ->. exists mat, geom, o, c.
        rewrite Nat.add_0_r. repeat split; assumption.
      + cbn [nth_error] in Hn. destruct (IH _ _ _ _ _ _ _ E Hn) as (m & g & o' & c' & H1 & H2 & H3).
        exists m, g, o', c'. rewrite Nat.add_succ_r. cbn [nth_error]. repeat split; assumption.
  Qed.

  Lemma in_filter_keys (cells : list (Z * cell (T:=T))) (f : cell (T:=T) -> bool) key c :
    NoDup (map fst cells) -> In (key, c) cells ->
    (In key (map fst (filter (fun kc => f (snd kc)) cells)) <-> f c = true).
  Proof.
    intros Hn Hin. split.
    - intros Hk. apply in_map_iff in Hk. destruct Hk as ([k' c'] & Hf & Hin').
      cbn [fst] in Hf. subst k'. apply filter_In in Hin'. destruct Hin' as [Hin' Hz]. cbn [snd] in Hz.
      assert (c' = c) as ->; [|exact Hz].
      clear Hz. induction cells as [|[k0 c0] r IH]; [destruct Hin|].
      cbn [map fst] in Hn. inversion Hn as [|? ? Ha Hr]; subst.
      destruct Hin as [Hin|Hin]; destruct Hin' as [Hin'|Hin'].
      + congruence.
      + injection Hin as -> ->. exfalso. apply Ha. apply (in_map fst _ _ Hin').
      + injection Hin' as -> ->. exfalso. apply Ha. apply (in_map fst _ _ Hin).
      + apply IH; assumption.
    - intros Hz. apply in_map_iff. exists (key, c). split; [reflexivity|].
      apply filter_In. split; assumption.
  Qed.

  (* ParseMCNPCell.parse(): the cells come out under the keys of the cell
     dictionary, in its order, each key once; a cell is in the skip list iff its
     importance is zero *)
  Theorem skipped_iff_zero imp_cards cards lats cells skipped :
    parse_cells Sc P imp_cards cards lats = Ok (cells, skipped) ->
    map fst cells = map fst (dict_of Z.eqb cards) /\ NoDup (map fst cells) /\
    forall key c, In (key, c) cells -> (In key skipped <-> is_zero c = true).
  Proof.
    intros H. unfold parse_cells in H.
    destruct (importance_cards Sc P imp_cards) as [imps|]; cbn [bind] in H; [|discriminate].
    destruct (dict_of Z.eqb cards) as [|d0 d] eqn:Ed; [discriminate|].
    rewrite <- Ed in H. destruct (parse_ranked_spec _ _ _ _ _ _ _ H) as [Hk Hs].
    assert (NoDup (map fst cells)) as Hn
      by (rewrite Hk; apply (dict_of_nodup Z.eqb Z.eqb_eq)).
    rewrite <- Ed. split; [exact Hk|]. split; [exact Hn|].
    intros key c Hin. rewrite Hs. apply in_filter_keys; assumption.
  Qed.

  (* the list printed in the NOTE: the keys of the zero-importance cells in the
     order of the cell block, each once *)
  Theorem skipped_in_order imp_cards cards lats cells skipped :
    parse_cells Sc P imp_cards cards lats = Ok (cells, skipped) ->
    skipped = map fst (filter (fun kc => is_zero (snd kc)) cells) /\ NoDup skipped.
  Proof.
    intros H. pose proof (skipped_iff_zero _ _ _ _ _ H) as (_ & Hn & _).
    unfold parse_cells in H.
    destruct (importance_cards Sc P imp_cards) as [imps|]; cbn [bind] in H; [|discriminate].
    destruct (dict_of Z.eqb cards) as [|d0 d] eqn:Ed; [discriminate|].
    destruct (parse_ranked_spec _ _ _ _ _ _ _ H) as [_ Hs]. split; [exact Hs|].
    rewrite Hs. clear - Hn. induction cells as [|[k c] r IH]; [constructor|].
    cbn [map fst] in Hn. inversion Hn as [|? ? Ha Hr]; subst. cbn [filter snd].
    destruct (is_zero c); [|apply IH; exact Hr]. cbn [map fst]. constructor; [|apply IH; exact Hr].
    intros Hin. apply Ha. apply in_map_iff in Hin. destruct Hin as ([k' c'] & <- & Hf).
    apply filter_In in Hf. apply (in_map fst _ _ (proj1 Hf)).
  Qed.

  (* construct_volume_t4: exactly the cells of non-zero importance that are in
     no universe and have no FILL are handed to the conversion *)
  Theorem converted_iff (cells : list (Z * cell (T:=T))) key c :
    NoDup (map fst cells) -> In (key, c) cells ->
    (In key (conv_keys Sc cells) <->
     is_zero c = false /\ c_u c = 0%Z /\ c_fill c = FNone).
  Proof.
    intros Hn Hin. unfold conv_keys.
    rewrite (in_filter_keys cells (converted Sc) key c Hn Hin).
    unfold converted, is_zero. destruct (c_imp c) as [v|]; [destruct (seqb Sc v (s0 Sc))|];
      cbn [negb andb]; destruct (c_fill c); rewrite ?andb_true_r, ?andb_false_r, ?Z.eqb_eq;
      intuition (try discriminate; auto).
  Qed.

  (* the cells generated by FILL copy the container's importance: they pass the
     conversion filter iff the container (a level-0 cell) has non-zero importance *)
  Theorem generated_converted_iff (cells : list (Z * cell (T:=T))) leaf key g :
    In (leaf, key, g) (generated cells) ->
    exists c, In (key, c) cells /\ c_u c = 0%Z /\
              (converted Sc g = true <-> is_zero c = false).
  Proof.
    unfold generated. intros H. apply in_flat_map in H. destruct H as ([k c] & Hin & H).
    cbn [fst snd] in H. destruct (c_fill c) eqn:Ef; try destruct H.
    destruct (c_u c =? 0)%Z eqn:Eu; [|destruct H]. apply Z.eqb_eq in Eu.
    apply in_flat_map in H. destruct H as (l & _ & H).
    destruct (dict_get Z.eqb l cells) as [lc|]; [|destruct H]. destruct H as [H|[]].
    injection H as <- <- <-. exists c. split; [exact Hin|]. split; [exact Eu|].
    unfold converted, fill_copy, is_zero. cbn [c_imp c_u c_fill]. rewrite Eu.
    destruct (c_imp c) as [v|]; [destruct (seqb Sc v (s0 Sc))|]; cbn; intuition congruence.
  Qed.

  (* a cell in no universe and without FILL is either skipped or converted,
     never both, never neither *)
  Theorem level0_partition imp_cards cards lats cells skipped key c :
    parse_cells Sc P imp_cards cards lats = Ok (cells, skipped) ->
    In (key, c) cells -> c_u c = 0%Z -> c_fill c = FNone ->
    (In key skipped <-> is_zero c = true) /\
    (In key (conv_keys Sc cells) <-> ~ In key skipped).
  Proof.
    intros H Hin Hu Hf. destruct (skipped_iff_zero _ _ _ _ _ H) as (_ & Hn & Hs).
    split; [apply Hs; exact Hin|].
    rewrite (converted_iff cells key c Hn Hin), (Hs key c Hin).
    destruct (is_zero c); intuition (try discriminate; auto).
  Qed.

  (* the writer's "if key in skipped_cells: continue" never fires on a cell
     handed to the conversion *)
  Theorem conv_keys_not_skipped imp_cards cards lats cells skipped key :
    parse_cells Sc P imp_cards cards lats = Ok (cells, skipped) ->
    In key (conv_keys Sc cells) -> ~ In key skipped.
  Proof.
    intros H Hin. destruct (skipped_iff_zero _ _ _ _ _ H) as (_ & Hn & Hs).
    unfold conv_keys in Hin. apply in_map_iff in Hin. destruct Hin as ([k c] & Hk & Hf).
    cbn [fst] in Hk. subst k. apply filter_In in Hf. destruct Hf as [Hin Hc]. cbn [snd] in Hc.
    rewrite (Hs key c Hin). unfold converted in Hc. unfold is_zero.
    destruct (c_imp c) as [v|]; [|discriminate]. destruct (seqb Sc v (s0 Sc)); [discriminate|discriminate].
  Qed.

  (* so the VOLU lines of the file are exactly the cells handed to the conversion *)
  Theorem written_ids_conv_keys imp_cards cards lats cells skipped :
    parse_cells Sc P imp_cards cards lats = Ok (cells, skipped) ->
    written_ids Sc cells skipped = conv_keys Sc cells.
  Proof.
    intros H. unfold written_ids.
    assert (forall key, In key (conv_keys Sc cells) -> negb (existsb (Z.eqb key) skipped) = true) as Hall.
    { intros key Hin. apply negb_true_iff. apply not_true_is_false. intros He.
      apply existsb_exists in He. destruct He as (k' & Hk' & Heq). apply Z.eqb_eq in Heq. subst k'.
      exact (conv_keys_not_skipped _ _ _ _ _ _ H Hin Hk'). }
    induction (conv_keys Sc cells) as [|k l IH]; [reflexivity|].
    cbn [filter]. rewrite (Hall k (or_introl eq_refl)). f_equal. apply IH.
    intros key Hin. apply Hall. right. exact Hin.
  Qed.
End Cells.
