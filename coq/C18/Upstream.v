(* C18 — the phases of construct_volume_t4 UPSTREAM of number_items, at the
   level of the state they thread through the CellConversion object:

     new_cell_key, new_surf_key, cell_transform_cache, the insertion order of
     dic_surf_t4, and the geometry of the cells the modelled functions create.

   Modelled precisely: CellConversion.pot_transform, cell_transform (with its
   cache and its `cache=False` mode), apply_trcl, and the `new_cell_key += 1`
   of pot_fill.  Taken abstractly (observed on the implementation and handed
   to the model as data): WHICH top-level calls the TRCL / lattice / FILL
   phases make (the trace [uop]), the transformation tuples (interned as
   integers; 0 = empty transformation), the shape (sides) of every transformed
   surface collection (numerics), and the geometry of cells written by code
   that is not modelled (pot_complement, pot_fill's new cells, inlining).
   Geometry of cells the model itself created is checked against what is
   observed later ([EMismatch]). *)
From Coq Require Import List ZArith Bool.
From T4V Require Import C18.Model.
Import ListNotations.
Open Scope Z_scope.

Fixpoint gtree_eqb (fuel : nat) (a b : gtree) {struct fuel} : bool :=
  match fuel with
  | O => false
  | S f =>
      match a, b with
      | GSurf s1 u1, GSurf s2 u2 =>
          (s1 =? s2) && match u1, u2 with
                        | Some x, Some y => x =? y | None, None => true | _, _ => false end
      | GCell c1, GCell c2 => c1 =? c2
      | GCompl c1, GCompl c2 => c1 =? c2
      | GNode o1 l1, GNode o2 l2 =>
          op_eqb o1 o2 &&
          (fix go (x y : list gtree) : bool :=
             match x, y with
             | [], [] => true
             | p :: x', q :: y' => gtree_eqb f p q && go x' y'
             | _, _ => false
             end) l1 l2
      | _, _ => false
      end
  end.

Fixpoint cget (k : Z * Z) (d : list ((Z * Z) * Z)) : option Z :=
  match d with
  | [] => None
  | (k', v) :: r => if (fst k =? fst k') && (snd k =? snd k') then Some v else cget k r
  end.

Record ustate := mkU {
  u_ck : Z;                          (* new_cell_key *)
  u_sk : Z;                          (* new_surf_key *)
  u_cache : list ((Z * Z) * Z);      (* cell_transform_cache: (cell, transform) -> cell *)
  u_items : list (Z * list Z);       (* dic_surf_t4: key, sides — insertion order *)
  u_cells : list (Z * gtree);        (* geometry of the cells created / rewritten by the model *)
  u_pending : list (list Z) }.       (* shapes of the transformed surfaces still to come *)

(* geometry of a cell: the model's own first, else the observed snapshot *)
Definition geom_of (st : ustate) (geoms : list (Z * gtree)) (k : Z) : option gtree :=
  match dget k (u_cells st) with Some g => Some g | None => dget k geoms end.

Section Transform.
  Variable geoms : list (Z * gtree).

  (* pot_transform / cell_transform; tid = 0 is the empty transformation *)
  Fixpoint pot_transform (fuel : nat) (st : ustate) (tid : Z) (t : gtree) {struct fuel}
    : res (ustate * gtree) :=
    match fuel with
    | O => Err EFuel
    | S f =>
        if tid =? 0 then Ok (st, t) else
        match t with
        | GCompl c => Ok (st, GCompl c)
        | GNode o args =>
            do (st', l) <- fold_left (fun acc a =>
                 do (s0, l0) <- acc; do (s1, a') <- pot_transform f s0 tid a; Ok (s1, l0 ++ [a']))
               args (Ok (st, []));
            Ok (st', GNode o l)
        | GCell c =>
            do (st', k) <- cell_transform f st c tid true;
            Ok (st', GCell k)
        | GSurf s sub =>
            match u_pending st with
            | [] => Err EShape
            | shape :: rest =>
                let k := u_sk st + 1 in
                Ok (mkU (u_ck st) k (u_cache st) (u_items st ++ [(k, shape)]) (u_cells st) rest,
                    GSurf (if 0 <=? s then k else - k) None)
            end
        end
    end
  with cell_transform (fuel : nat) (st : ustate) (key tid : Z) (cache : bool) {struct fuel}
    : res (ustate * Z) :=
    match fuel with
    | O => Err EFuel
    | S f =>
        match (if cache then cget (key, tid) (u_cache st) else None) with
        | Some k => Ok (st, k)
        | None =>
            if tid =? 0 then
              Ok (if cache
                  then mkU (u_ck st) (u_sk st) (((key, tid), key) :: u_cache st)
                           (u_items st) (u_cells st) (u_pending st)
                  else st, key)
            else
              match geom_of st geoms key with
              | None => Err EKey
              | Some g =>
                  do (st1, g') <- pot_transform f st tid g;
                  let k := u_ck st1 + 1 in
                  Ok (mkU k (u_sk st1)
                          (if cache then ((key, tid), k) :: u_cache st1 else u_cache st1)
                          (u_items st1) (dset k g' (u_cells st1)) (u_pending st1), k)
              end
        end
    end.

  (* apply_trcl *)
  Definition apply_trcl (fuel : nat) (st : ustate) (tids : list Z) (g : gtree)
    : res (ustate * gtree) :=
    fold_left (fun acc tid => do (s0, g0) <- acc; pot_transform fuel s0 tid g0) tids (Ok (st, g)).
End Transform.

(* the observed snapshot must agree with what the model computed itself *)
Definition consistent (st : ustate) (geoms : list (Z * gtree)) : bool :=
  forallb (fun kg => match dget (fst kg) (u_cells st) with
                     | Some g => gtree_eqb big_fuel g (snd kg)
                     | None => true end) geoms.

Inductive uop :=
| UTrcl (key : Z) (tids : list Z) (geoms : list (Z * gtree)) (result : gtree)
    (* TRCL phase: cell.geometry = conv.apply_trcl(cell.trcl, cell.geometry) *)
| UCT (key tid : Z) (cache : bool) (geoms : list (Z * gtree)) (result : Z)
    (* a top-level cell_transform call (develop_lattice, pot_fill) and the key it returned *)
| UFill (key : Z).
    (* pot_fill: self.new_cell_key += 1; dic_cell_mcnp[new_cell_key] = new_cell *)

Definition run_op (st : ustate) (o : uop) : res ustate :=
  match o with
  | UTrcl key tids geoms result =>
      if negb (consistent st geoms) then Err EMismatch else
      match geom_of st geoms key with
      | None => Err EKey
      | Some g =>
          do (st1, g') <- apply_trcl geoms big_fuel st tids g;
          if gtree_eqb big_fuel g' result
          then Ok (mkU (u_ck st1) (u_sk st1) (u_cache st1) (u_items st1)
                       (dset key g' (u_cells st1)) (u_pending st1))
          else Err EMismatch
      end
  | UCT key tid cache geoms result =>
      if negb (consistent st geoms) then Err EMismatch else
      do (st1, k) <- cell_transform geoms big_fuel st key tid cache;
      if k =? result then Ok st1 else Err EMismatch
  | UFill key =>
      let k := u_ck st + 1 in
      if k =? key
      then Ok (mkU k (u_sk st) (u_cache st) (u_items st) (u_cells st) (u_pending st))
      else Err EMismatch
  end.

Definition run_ops (st : ustate) (ops : list uop) : res ustate :=
  fold_left (fun acc o => do s <- acc; run_op s o) ops (Ok st).

Record uinput := mkUIn {
  ui_cell_keys : list Z;              (* keys of mcnp_dict when CellConversion is created *)
  ui_items0 : list (Z * list Z);      (* dic_surface_t4 at that time (tr-surf ids included) *)
  ui_shapes : list (list Z);          (* shapes of the transformed surfaces, in allocation order *)
  ui_ops : list uop }.

(* CellConversion(free_key, free_surf_key, ...): a FRESH counter pair and empty
   caches on every run *)
Definition fresh_ustate (u : uinput) : ustate :=
  mkU (zmax (ui_cell_keys u) + 1) (zmax (map fst (ui_items0 u)) + 1) [] (ui_items0 u) [] (ui_shapes u).

(* counter and surface dictionary handed to number_items / the cell loop *)
Definition upstream_from (st : ustate) (u : uinput) : res (Z * list (Z * list Z)) :=
  do st' <- run_ops st (ui_ops u);
  match u_pending st' with
  | [] => Ok (u_ck st', u_items st')
  | _ => Err EShape
  end.

Definition upstream (u : uinput) : res (Z * list (Z * list Z)) := upstream_from (fresh_ustate u) u.

(* ---- the whole volume stage: upstream phases, then numbering, cell loop and
   writer, the latter fed with the counter and the surface dictionary the
   upstream model COMPUTED ---- *)
Definition with_upstream (inp : input) (ck : Z) (items : list (Z * list Z)) : input :=
  mkIn items ck (i_conv inp) (i_cells inp) (i_skipped inp) (i_renumber inp).

Record fstate := mkFs { f_up : option ustate; f_down : pstate }.
Definition fs0 : fstate := mkFs None ps0.

Definition full_conversion (order : list Z -> list Z) (fs : fstate) (ui : uinput * input)
  : fstate * res output :=
  let '(u, inp) := ui in
  match upstream u with
  | Err e => (fs, Err e)
  | Ok (ck, items) =>
      let '(ps', out) := conversion order (f_down fs) (with_upstream inp ck items) in
      (mkFs (f_up fs) ps', out)
  end.

Fixpoint run_full_history (order : list Z -> list Z) (fs : fstate) (hist : list (uinput * input))
  : fstate * list (res output) :=
  match hist with
  | [] => (fs, [])
  | x :: r => let '(fs1, out) := full_conversion order fs x in
              let '(fs2, outs) := run_full_history order fs1 r in
              (fs2, out :: outs)
  end.
