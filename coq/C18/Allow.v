(* C18 — allow-list of the effect-footprint audit: what exists in the sources
   today, each with the reason why it does not break determinism or leave
   state between runs.  Keyed by file + function + construct text (never by
   line number), so edits elsewhere do not disturb it.  An item without a
   reason is ignored by the decision function. *)
From Coq Require Import List String.
From T4V Require Import C18.Audit.
Import ListNotations.
Open Scope string_scope.

Definition allow : list allowed := [
  (* ---- the output file and the --cache option (function "*": the pickles of
     the --cache option are identified by file and text wherever a rewrite
     moves them; whether they run without --cache is a runtime question: the
     sweep checks that no cache file appears unless --cache is given) ---- *)
  mkAllowed "t4_geom_convert/main.py" "conversion" "t4_output_filename.open('w')"
    "the output file (-o or <input>.t4); the runtime sweep checks that the input file is byte-identical afterwards";
  mkAllowed "t4_geom_convert/Kernel/FileHandlers/Parser/ParseMCNPCell.py" "*"
    "self.cell_cache_path.open('wb')"
    "cell_cache_path is None unless --cache is given (documented debug disk cache <input>.mcnp.cache, never the input itself); its staleness is the runtime finding cache_option_stale_disk_cache";
  mkAllowed "t4_geom_convert/Kernel/FileHandlers/Parser/ParseMCNPCell.py" "*"
    "pickle.dump((dict_cell, skipped_cells), dicfile)"
    "only under --cache, into <input>.mcnp.cache (see above)";
  mkAllowed "t4_geom_convert/Kernel/FileHandlers/Writer/WriteT4Geometry.py" "*"
    "t4_surf_cache_path.open('wb')"
    "only under --cache (else-branch of `if not args.cache`), into <input>.surfaces.cache";
  mkAllowed "t4_geom_convert/Kernel/FileHandlers/Writer/WriteT4Geometry.py" "*"
    "pickle.dump(surf_conv, dicfile)"
    "only under --cache, into <input>.surfaces.cache";
  mkAllowed "t4_geom_convert/Kernel/FileHandlers/Writer/WriteT4Geometry.py" "*"
    "t4_vol_cache_path.open('wb')"
    "only under --cache, into <input>.volumes.cache";
  mkAllowed "t4_geom_convert/Kernel/FileHandlers/Writer/WriteT4Geometry.py" "*"
    "pickle.dump(vol_conv, dicfile)"
    "only under --cache, into <input>.volumes.cache";
  mkAllowed "t4_geom_convert/Kernel/FileHandlers/Parser/ParseMCNPCell.py" "*"
    "pickle.load(dicfile)"
    "only under --cache: state of an earlier run read back from <input>.mcnp.cache without checking that it belongs to the deck — this IS the open finding cache_option_stale_disk_cache (witness replayed on every run)";
  mkAllowed "t4_geom_convert/Kernel/FileHandlers/Writer/WriteT4Geometry.py" "*"
    "pickle.load(dicfile)"
    "only under --cache: <input>.surfaces.cache / .volumes.cache read back unchecked — the open finding cache_option_stale_disk_cache";
  (* ---- clock and command line ---- *)
  mkAllowed "t4_geom_convert/main.py" "conversion" "datetime.now()"
    "start/end time printed on stdout only, never written to the output file";
  mkAllowed "t4_geom_convert/main.py" "writeHeader" "sys.argv"
    "the command-line echo in the header, excluded by the property text";
  mkAllowed "t4_geom_convert/main.py" "main" "sys.argv"
    "reading the options: an input of the conversion";
  (* ---- iterations over sets ---- *)
  (* (the loop `for key in unused: del dic[key]` of remove_unused_volumes needs no
     entry any more: the translator classifies a loop whose body only deletes /
     discards the loop variable from another container as SinkInsensitive —
     theorem C18_remove_keys_order_irrelevant) *)
  mkAllowed "t4_geom_convert/Kernel/Volume/VolumeT4.py" "VolumeT4.__repr__" "iterate self.pluses"
    "debug representation (sets of int surface ids rendered in an f-string); the writer uses __str__, which sorts (theorem C18_volume_text_order_irrelevant)";
  mkAllowed "t4_geom_convert/Kernel/Volume/VolumeT4.py" "VolumeT4.__repr__" "iterate self.minuses"
    "debug representation; the writer uses __str__, which sorts";
  mkAllowed "MIP/geom/main.py" "get_geom" "iterate used"
    "get_geom is only called from the module's own __main__ script, not by the converter";
  (* ---- module-level objects ---- *)
  mkAllowed "MIP/geom/parsegeom.py" "<module>" "parser = tatsu.compile(grammar)"
    "the compiled grammar: the only module-level object of the parser; parse() re-initialises its state on every call (tied at run time: warm-process sweep)";
  mkAllowed "MIP/geom/forcad.py" "<module>" "mcnp2cad = {}"
    "dispatch table mnemonic -> function, filled at import by module-level stores only; no store through it inside any function (CStore RGlobal entries would show)";
  mkAllowed "MIP/mip/blocks.py" "<module>" "bid = BIDClass()"
    "constant block-id table (attributes m t c s d set in __init__ only); only read";
  mkAllowed "MIP/mip/main.py" "Card.content" "@card_debugger"
    "card_debugger (same file) wraps the method in a try/except that prints the card and re-raises; the closure holds no mutable state";
  mkAllowed "MIP/mip/main.py" "Card.parts" "@card_debugger"
    "as above";
  mkAllowed "MIP/mip/main.py" "Card.__init__" "default []"
    "never used (Card is always built with lines=...) and self.lines is only read"
].
