(* C18 — proofs about the state-threaded model (C18/Model.v). *)
From Coq Require Import List ZArith Bool Lia Sorting.Sorted.
From T4V Require Import C18.Model.
Import ListNotations.
Open Scope Z_scope.

(* ---- freshness and history independence ---------------------------------- *)

(* the result of a conversion does not depend on the process state handed in:
   [conversion] builds [fresh_state inp] itself *)
Lemma run_fresh_state : forall order ps1 ps2 inp,
  snd (conversion order ps1 inp) = snd (conversion order ps2 inp).
Proof.
  intros order ps1 ps2 inp. unfold conversion.
  destruct (convert_from order (fresh_state inp) inp) as [[st out]|e]; reflexivity.
Qed.

Lemma history_outputs : forall order hist ps,
  snd (run_history (conversion order) ps hist)
  = map (fun inp => snd (conversion order ps0 inp)) hist.
Proof.
  intros order hist. induction hist as [|inp r IH]; intros ps; [reflexivity|].
  cbn [run_history map].
  destruct (conversion order ps inp) as [ps1 out] eqn:E1.
  specialize (IH ps1).
  destruct (run_history (conversion order) ps1 r) as [ps2 outs] eqn:E2.
  cbn [snd] in *. rewrite <- IH. f_equal.
  change out with (snd (ps1, out)). rewrite <- E1. apply run_fresh_state.
Qed.

(* after ANY sequence of earlier conversions (failing ones included: they are
   inputs on which [convert_from] returns Err) in the same process, the output
   for [inp] is the output of a conversion in a fresh process *)
Lemma history_independent : forall order hist ps inp,
  last (snd (run_history (conversion order) ps (hist ++ [inp]))) (Err EFuel)
  = snd (conversion order ps0 inp).
Proof.
  intros order hist ps inp. rewrite history_outputs, map_app. cbn [map].
  apply last_last.
Qed.

(* ---- sorting: the result depends on the SET of elements only ------------- *)

Lemma zinsert_in x y l : In y (zinsert x l) <-> y = x \/ In y l.
Proof.
  induction l as [|z r IH]; cbn [zinsert].
  - cbn. intuition.
  - destruct (x <? z) eqn:E1.
    + cbn. intuition.
    + destruct (x =? z) eqn:E2.
      * apply Z.eqb_eq in E2. subst. cbn. intuition.
      * cbn [In]. rewrite IH. intuition.
Qed.

Lemma zsort_in y l : In y (zsort l) <-> In y l.
Proof.
  induction l as [|x r IH]; [reflexivity|].
  cbn [zsort fold_right]. fold (zsort r). rewrite zinsert_in, IH. cbn. intuition.
Qed.

Lemma zinsert_sorted x l : StronglySorted Z.lt l -> StronglySorted Z.lt (zinsert x l).
Proof.
  induction l as [|z r IH]; intros H; cbn [zinsert].
  - repeat constructor.
  - apply StronglySorted_inv in H. destruct H as [Hs Hall].
    destruct (x <? z) eqn:E1.
    + apply Z.ltb_lt in E1. constructor; [constructor; assumption|].
      constructor; [assumption|]. rewrite Forall_forall in *. intros y Hy.
      specialize (Hall y Hy). lia.
    + destruct (x =? z) eqn:E2.
      * constructor; assumption.
      * apply Z.ltb_ge in E1. apply Z.eqb_neq in E2.
        constructor; [apply IH; assumption|].
        rewrite Forall_forall in *. intros y Hy. apply zinsert_in in Hy.
        destruct Hy as [Hy|Hy]; [subst; lia|apply Hall; assumption].
Qed.

Lemma zsort_sorted l : StronglySorted Z.lt (zsort l).
Proof.
  induction l as [|x r IH]; [constructor|].
  cbn [zsort fold_right]. fold (zsort r). apply zinsert_sorted. exact IH.
Qed.

Lemma sorted_ext : forall l1 l2,
  StronglySorted Z.lt l1 -> StronglySorted Z.lt l2 ->
  (forall x, In x l1 <-> In x l2) -> l1 = l2.
Proof.
  induction l1 as [|a r1 IH]; intros l2 H1 H2 Hext.
  - destruct l2 as [|b r2]; [reflexivity|]. exfalso. apply (Hext b). left. reflexivity.
  - destruct l2 as [|b r2]; [exfalso; apply (Hext a); left; reflexivity|].
    apply StronglySorted_inv in H1. destruct H1 as [Hs1 Ha].
    apply StronglySorted_inv in H2. destruct H2 as [Hs2 Hb].
    rewrite Forall_forall in Ha, Hb.
    assert (Hab : a = b).
    { destruct (proj1 (Hext a) (or_introl eq_refl)) as [E|Hin]; [symmetry; exact E|].
      destruct (proj2 (Hext b) (or_introl eq_refl)) as [E|Hin']; [exact E|].
      specialize (Ha b Hin'). specialize (Hb a Hin). lia. }
    subst b. f_equal. apply IH; try assumption.
    intros x. split; intros Hx.
    + destruct (proj1 (Hext x) (or_intror Hx)) as [E|Hin]; [|exact Hin].
      subst x. specialize (Ha a Hx). lia.
    + destruct (proj2 (Hext x) (or_intror Hx)) as [E|Hin]; [|exact Hin].
      subst x. specialize (Hb a Hx). lia.
Qed.

(* sorted(s) depends only on which elements s holds — not on the order in which
   iteration delivers them, nor on multiplicity *)
Lemma zsort_ext : forall l1 l2, (forall x, In x l1 <-> In x l2) -> zsort l1 = zsort l2.
Proof.
  intros l1 l2 H. apply sorted_ext; try apply zsort_sorted.
  intros x. rewrite !zsort_in. apply H.
Qed.

(* an iteration order: delivers exactly the elements of the set *)
Definition set_preserving (order : list Z -> list Z) : Prop :=
  forall l x, In x (order l) <-> In x l.

Lemma zsort_order order l : set_preserving order -> zsort (order l) = zsort l.
Proof. intros H. apply zsort_ext. apply H. Qed.

(* VolumeT4.__str__ : the text of a volume does not depend on the iteration
   order of its pluses / minuses sets *)
Lemma volume_line_order_irrelevant : forall order1 order2 k v,
  set_preserving order1 -> set_preserving order2 ->
  volume_line order1 k v = volume_line order2 k v.
Proof.
  intros o1 o2 k v H1 H2. unfold volume_line.
  rewrite (zsort_order o1), (zsort_order o2), (zsort_order o1), (zsort_order o2); auto.
Qed.

(* ---- remove_unused_volumes: deletion order is irrelevant ------------------ *)

Lemma ddel_filter {A} k (d : list (Z * A)) P :
  ddel k (filter P d) = filter (fun kv => P kv && negb (fst kv =? k)) d.
Proof.
  unfold ddel. induction d as [|kv r IH]; [reflexivity|].
  cbn [filter]. destruct (P kv) eqn:E; cbn [filter andb].
  - destruct (negb (fst kv =? k)); rewrite IH; reflexivity.
  - exact IH.
Qed.

Lemma remove_keys_filter {A} ks : forall (d : list (Z * A)) P,
  remove_keys ks (filter P d) = filter (fun kv => P kv && negb (zmem (fst kv) ks)) d.
Proof.
  unfold remove_keys. induction ks as [|k r IH]; intros d P; cbn [fold_left].
  - apply filter_ext. intros kv. cbn. rewrite andb_true_r. reflexivity.
  - rewrite ddel_filter, IH. apply filter_ext. intros kv. cbn [zmem existsb].
    rewrite negb_orb, <- andb_assoc. reflexivity.
Qed.

Lemma remove_keys_spec {A} ks (d : list (Z * A)) :
  remove_keys ks d = filter (fun kv => negb (zmem (fst kv) ks)) d.
Proof.
  assert (Hid : filter (fun _ : Z * A => true) d = d).
  { induction d as [|kv r IH]; [reflexivity|]. cbn [filter]. f_equal. exact IH. }
  rewrite <- Hid at 1. rewrite remove_keys_filter. apply filter_ext.
  intros kv. reflexivity.
Qed.

Lemma zmem_in x l : zmem x l = true <-> In x l.
Proof.
  unfold zmem. rewrite existsb_exists. split.
  - intros [y [Hy E]]. apply Z.eqb_eq in E. subst. exact Hy.
  - intros H. exists x. split; [exact H|apply Z.eqb_refl].
Qed.

Lemma zmem_ext l1 l2 : (forall x, In x l1 <-> In x l2) -> forall x, zmem x l1 = zmem x l2.
Proof.
  intros H x. destruct (zmem x l1) eqn:E1, (zmem x l2) eqn:E2; try reflexivity.
  - apply zmem_in, H, zmem_in in E1. congruence.
  - apply zmem_in, H, zmem_in in E2. congruence.
Qed.

(* `for key in unused: del dic[key]` gives the same dictionary whatever the
   order in which the set delivers its keys *)
Lemma remove_keys_order_irrelevant {A} : forall ks1 ks2 (d : list (Z * A)),
  (forall x, In x ks1 <-> In x ks2) -> remove_keys ks1 d = remove_keys ks2 d.
Proof.
  intros ks1 ks2 d H. rewrite !remove_keys_spec. apply filter_ext.
  intros kv. rewrite (zmem_ext ks1 ks2 H). reflexivity.
Qed.

Lemma remove_unused_order_irrelevant : forall order1 order2 d,
  set_preserving order1 -> set_preserving order2 ->
  remove_unused_volumes order1 d = remove_unused_volumes order2 d.
Proof.
  intros o1 o2 d H1 H2. unfold remove_unused_volumes.
  apply remove_keys_order_irrelevant. intros x. rewrite (H1 _ x), (H2 _ x). reflexivity.
Qed.

(* ---- the whole modelled stage -------------------------------------------- *)

(* Inside the modelled stage (numbering of the collections -> written SURF /
   VOLU lines) NO iteration order of a set reaches the output: for any two
   iteration orders the conversion yields the same state and the same lines. *)
Lemma convert_from_order_irrelevant : forall order1 order2 st inp,
  set_preserving order1 -> set_preserving order2 ->
  convert_from order1 st inp = convert_from order2 st inp.
Proof.
  intros o1 o2 st inp H1 H2. unfold convert_from.
  destruct (number_items (i_items inp)) as [keys matching].
  destruct (convert_cells _ _ _ _ _ _ _) as [st1|e]; [|reflexivity]. cbn [bind].
  assert (Tail : forall d1 ru0 ru1 surf_keys,
    (do d2 <- remove_empty_volumes ru0 ru1 d1;
     let d3 := remove_unused_volumes o1 d2 in
     let lines := map (fun kv => volume_line o1 (fst kv) (snd kv))
                      (filter (fun kv => negb (zmem (fst kv) (i_skipped inp))) d3) in
     let used := zsort (o1 (used_surfaces d3)) in
     if forallb (fun x => zmem x surf_keys) used
     then Ok (st1, mkOut used lines) else Err EKey)
    = (do d2 <- remove_empty_volumes ru0 ru1 d1;
       let d3 := remove_unused_volumes o2 d2 in
       let lines := map (fun kv => volume_line o2 (fst kv) (snd kv))
                        (filter (fun kv => negb (zmem (fst kv) (i_skipped inp))) d3) in
       let used := zsort (o2 (used_surfaces d3)) in
       if forallb (fun x => zmem x surf_keys) used
       then Ok (st1, mkOut used lines) else Err EKey)).
  { intros d1 ru0 ru1 surf_keys.
    destruct (remove_empty_volumes ru0 ru1 d1) as [d2|e]; [|reflexivity]. cbn [bind]. cbv zeta.
    rewrite (remove_unused_order_irrelevant o1 o2 d2 H1 H2).
    rewrite (zsort_order o1), (zsort_order o2); auto.
    set (d3 := remove_unused_volumes o2 d2).
    assert (Hl : map (fun kv => volume_line o1 (fst kv) (snd kv))
                     (filter (fun kv => negb (zmem (fst kv) (i_skipped inp))) d3)
               = map (fun kv => volume_line o2 (fst kv) (snd kv))
                     (filter (fun kv => negb (zmem (fst kv) (i_skipped inp))) d3)).
    { apply map_ext. intros kv. apply volume_line_order_irrelevant; assumption. }
    rewrite Hl. reflexivity. }
  destruct (i_renumber inp) as [ren|].
  - destruct (renumber_all ren (vols st1)) as [d1|e]; [|reflexivity]. cbn [bind].
    destruct (dget _ ren) as [a|]; [|reflexivity].
    destruct (dget _ ren) as [b|]; [|reflexivity]. cbn [bind].
    apply Tail.
  - cbn [bind]. apply Tail.
Qed.

Lemma conversion_order_irrelevant : forall order1 order2 ps inp,
  set_preserving order1 -> set_preserving order2 ->
  conversion order1 ps inp = conversion order2 ps inp.
Proof.
  intros o1 o2 ps inp H1 H2. unfold conversion.
  rewrite (convert_from_order_irrelevant o1 o2 _ inp H1 H2). reflexivity.
Qed.

(* the property's quantifier on the model: for all iteration orders of the sets
   of the modelled stage ("hash seeds") and all histories of earlier conversions
   in the same process, the output for [inp] is the same *)
Lemma deterministic_model : forall order1 order2 hist1 hist2 ps1 ps2 inp,
  set_preserving order1 -> set_preserving order2 ->
  last (snd (run_history (conversion order1) ps1 (hist1 ++ [inp]))) (Err EFuel)
  = last (snd (run_history (conversion order2) ps2 (hist2 ++ [inp]))) (Err EFuel).
Proof.
  intros o1 o2 h1 h2 ps1 ps2 inp H1 H2. rewrite !history_independent.
  rewrite (conversion_order_irrelevant o1 o2 ps0 inp H1 H2). reflexivity.
Qed.

(* ---- what DOES depend on an order: the insertion order of the collections
   (upstream of the modelled stage it is the iteration order of the set of
   1000*cell+surf ids, a set of ints) ---- *)
Definition items_a : list (Z * list Z) := [(1, [1]); (1001, [1; -1]); (2001, [1; -1])].
Definition items_b : list (Z * list Z) := [(1, [1]); (2001, [1; -1]); (1001, [1; -1])].

Lemma numbering_order_sensitive :
  (forall x, In x items_a <-> In x items_b) /\
  dget 1001 (snd (number_items items_a)) <> dget 1001 (snd (number_items items_b)).
Proof.
  split.
  - intros x. unfold items_a, items_b. cbn [In]. intuition.
  - vm_compute. discriminate.
Qed.

(* ---- contrast: the state IS output-relevant -------------------------------
   If the CellConversion object (counter, caches, volume dictionary) survived
   between runs, the second conversion of the same deck would differ. *)
Definition witness_input : input :=
  mkIn [(1, [1]); (2, [1])] 3
       [(1, GNode OUnion [GNode OInter [GSurf (-1) None; GSurf 2 None];
                           GNode OInter [GSurf 1 None; GSurf (-2) None]]);
        (2, GSurf 1 None)] [] [3] None.

Lemma fresh_twice_same :
  let outs := snd (run_history (conversion (fun l => l)) ps0 [witness_input; witness_input]) in
  nth 0 outs (Err EFuel) = nth 1 outs (Err EFuel) /\ exists o, nth 0 outs (Err EFuel) = Ok o.
Proof. vm_compute. split; [reflexivity|eexists; reflexivity]. Qed.

Lemma leaky_state_changes_output :
  let outs := snd (run_history (conversion_leaky (fun l => l)) ps0 [witness_input; witness_input]) in
  nth 0 outs (Err EFuel) <> nth 1 outs (Err EFuel).
Proof. vm_compute. discriminate. Qed.

(* ---- with the upstream phases (C18/Upstream.v): counters new_cell_key /
   new_surf_key, cell_transform cache and dic_surf_t4 order of the TRCL,
   lattice and FILL phases ---- *)
From T4V Require Import C18.Upstream.

Lemma full_fresh_state : forall order fs1 fs2 x,
  snd (full_conversion order fs1 x) = snd (full_conversion order fs2 x).
Proof.
  intros order fs1 fs2 [u inp]. unfold full_conversion.
  destruct (upstream u) as [[ck items]|e]; [|reflexivity].
  pose proof (run_fresh_state order (f_down fs1) (f_down fs2) (with_upstream inp ck items)) as H.
  destruct (conversion order (f_down fs1) _) as [p1 o1].
  destruct (conversion order (f_down fs2) _) as [p2 o2]. exact H.
Qed.

Lemma full_history_outputs : forall order hist fs,
  snd (run_full_history order fs hist)
  = map (fun x => snd (full_conversion order fs0 x)) hist.
Proof.
  intros order hist. induction hist as [|x r IH]; intros fs; [reflexivity|].
  cbn [run_full_history map].
  destruct (full_conversion order fs x) as [fs1 out] eqn:E1.
  specialize (IH fs1).
  destruct (run_full_history order fs1 r) as [fs2 outs] eqn:E2.
  cbn [snd] in *. rewrite <- IH. f_equal.
  change out with (snd (fs1, out)). rewrite <- E1. apply full_fresh_state.
Qed.

Lemma full_history_independent : forall order hist fs x,
  last (snd (run_full_history order fs (hist ++ [x]))) (Err EFuel)
  = snd (full_conversion order fs0 x).
Proof.
  intros order hist fs x. rewrite full_history_outputs, map_app. cbn [map]. apply last_last.
Qed.

Lemma full_order_irrelevant : forall order1 order2 fs x,
  set_preserving order1 -> set_preserving order2 ->
  full_conversion order1 fs x = full_conversion order2 fs x.
Proof.
  intros o1 o2 fs [u inp] H1 H2. unfold full_conversion.
  destruct (upstream u) as [[ck items]|e]; [|reflexivity].
  rewrite (conversion_order_irrelevant o1 o2 _ _ H1 H2). reflexivity.
Qed.

Lemma full_deterministic_model : forall order1 order2 hist1 hist2 fs1 fs2 x,
  set_preserving order1 -> set_preserving order2 ->
  last (snd (run_full_history order1 fs1 (hist1 ++ [x]))) (Err EFuel)
  = last (snd (run_full_history order2 fs2 (hist2 ++ [x]))) (Err EFuel).
Proof.
  intros o1 o2 h1 h2 fs1 fs2 x H1 H2. rewrite !full_history_independent.
  rewrite (full_order_irrelevant o1 o2 fs0 x H1 H2). reflexivity.
Qed.

(* contrast: the upstream state is output-relevant too.  Started from the state
   a previous run of the same deck left behind (cell_transform cache, counters),
   the upstream phases do not give what a fresh CellConversion gives. *)
Definition witness_uinput : uinput :=
  mkUIn [1; 2] [(1, [1])] [[1]] [UCT 1 1 true [(1, GSurf (-1) None)] 4].

Lemma upstream_state_relevant :
  (exists r, upstream witness_uinput = Ok r) /\
  forall st', run_ops (fresh_ustate witness_uinput) (ui_ops witness_uinput) = Ok st' ->
    upstream_from (mkU (u_ck st') (u_sk st') (u_cache st') (ui_items0 witness_uinput) []
                       (ui_shapes witness_uinput)) witness_uinput
    <> upstream witness_uinput.
Proof.
  split; [eexists; vm_compute; reflexivity|].
  intros st' H. vm_compute in H. inversion H; subst. vm_compute. discriminate.
Qed.
