(* C18 — effect-footprint audit: data types of the footprint that
   harness/c18_audit.py generates from the Python `ast` of every source file,
   the allow-list format, and the decision functions.  The generated file
   coq/generated/Footprint.v defines [footprint : list entry] and proves
   [audit_ok allow footprint = true] by vm_compute on every run.

   The decision is fail-closed: every construct is harmful unless its
   classification is one of the few listed in [harmless]; anything the
   translator could not classify arrives as RUnknown / KUnknown / VUnknown /
   WUnknownMode / CSetEscape / CDynamic / CUnknown and is harmful. *)
From Coq Require Import List Bool String Ascii.
Import ListNotations.
Open Scope string_scope.

(* inferred kind of the elements of an iterated set *)
Inductive vkind := KEmpty | KInt | KStr | KFloat | KOther | KUnknown.
(* what consumes the iteration: an order-insensitive consumer (set(), sorted(),
   any(), all(), len(), max(), min(), a set comprehension) or anything else *)
Inductive sink := SinkInsensitive | SinkOrdered.
(* syntactic class of a bound value *)
Inductive vclass := VImmutable | VMutable | VUnknown.
Inductive scope := ScModule | ScClass.
(* root of the target of a store / mutating call *)
Inductive root := RGlobal   (* module-level name of this module, alias of one, class name *)
                | RModule   (* an imported module / imported object: `mod.attr = v`, `mod.d[k] = v` *)
                | RClass    (* cls, type(self), self.__class__ *)
                | RUnknown. (* call result, ... *)
Inductive wmode := WRead | WWrite | WUnknownMode.
(* ambient inputs: anything a run can read that is neither the deck nor the options *)
Inductive nkind := NEnv       (* os.environ, getenv, cwd, home, host, platform *)
                 | NArgv      (* sys.argv *)
                 | NClock     (* time.*, datetime.now, file times *)
                 | NRandom    (* random, uuid, urandom, pid, temporary names *)
                 | NIdentity  (* id() / hash() called, or handed over as a key function *)
                 | NListing   (* listdir, glob, iterdir, walk: file-system order *)
                 | NOther.
(* effects on the file system other than open() *)
Inductive fkind := FPickleWrite  (* pickle/json/marshal dump: a cache or result file *)
                 | FPickleRead   (* pickle load: state read back from an earlier run *)
                 | FWriteCall    (* write_text, write_bytes, savetxt, ... *)
                 | FFsChange.    (* unlink, rename, mkdir, rmtree, chmod, ... *)

Inductive construct :=
| CBinding (sc : scope) (v : vclass)
| CMutDefault (v : vclass)
| CGlobalDecl
| CStore (r : root)
| CSetLoop (k : vkind) (s : sink)
| CSetEscape
| COpen (m : wmode)
| CFileEffect (f : fkind)
| CNondet (n : nkind)
| CDynamic
| CUnknown.

Record entry := mkEntry {
  e_file : string;      (* path relative to the repository *)
  e_func : string;      (* qualified function name, <module>, <module>.__main__ *)
  e_text : string;      (* text of the construct (ast.unparse), NOT a line number *)
  e_live : bool;        (* can a conversion execute it? *)
  e_c : construct }.

(* an allow-list item: file + function + construct text, and the reason *)
Record allowed := mkAllowed {
  a_file : string; a_func : string; a_text : string; a_reason : string }.

(* ---- decision functions -------------------------------------------------- *)

(* iteration order of a CPython set of small ints does not depend on the hash
   seed (hash(n) = n); that of any other element kind may *)
Definition int_kind (k : vkind) : bool := match k with KInt => true | _ => false end.

Definition order_insensitive_or_int (k : vkind) (s : sink) : bool :=
  match s with SinkInsensitive => true | SinkOrdered => int_kind k end.

Definition readonly (v : vclass) : bool := match v with VImmutable => true | _ => false end.

Definition harmless (c : construct) : bool :=
  match c with
  | CBinding _ v => readonly v
  | CMutDefault v => readonly v
  | CSetLoop k s => order_insensitive_or_int k s
  | COpen WRead => true
  | _ => false
  end.

(* the function field of an allow-list item may be "*": any function of that
   file (used for constructs whose text identifies them whatever helper they
   are moved to, e.g. the pickles of the --cache option) *)
Definition func_matches (af ef : string) : bool := String.eqb af "*" || String.eqb af ef.

Definition allow_matches (e : entry) (a : allowed) : bool :=
  String.eqb (a_file a) (e_file e) && func_matches (a_func a) (e_func e)
  && String.eqb (a_text a) (e_text e).

Definition reason_given (a : allowed) : bool :=
  match a_reason a with EmptyString => false | _ => true end.

Definition allowed_by (al : list allowed) (e : entry) : bool :=
  existsb (fun a => allow_matches e a && reason_given a) al.

Definition entry_ok (al : list allowed) (e : entry) : bool :=
  negb (e_live e) || harmless (e_c e) || allowed_by al e.

Definition audit_ok (al : list allowed) (fp : list entry) : bool := forallb (entry_ok al) fp.

(* the entries that make the obligation fail (printed by the harness) *)
Definition offenders (al : list allowed) (fp : list entry) : list entry :=
  filter (fun e => negb (entry_ok al e)) fp.

(* views used in the statements *)
Definition is_global_binding (e : entry) : option vclass :=
  match e_c e with CBinding _ v => Some v | CMutDefault v => Some v | _ => None end.
Definition is_set_loop (e : entry) : option (vkind * sink) :=
  match e_c e with CSetLoop k s => Some (k, s) | _ => None end.
Definition is_store (e : entry) : bool :=
  match e_c e with CStore _ | CGlobalDecl => true | _ => false end.
Definition is_write (e : entry) : bool :=
  match e_c e with COpen WWrite | COpen WUnknownMode | CFileEffect _ => true | _ => false end.
(* reads of ambient inputs and of state persisted by earlier runs *)
Definition is_ambient (e : entry) : bool :=
  match e_c e with CNondet _ | CFileEffect FPickleRead => true | _ => false end.
Definition is_unknown (e : entry) : bool :=
  match e_c e with
  | CUnknown | CDynamic | CSetEscape | CStore RUnknown | COpen WUnknownMode
  | CBinding _ VUnknown | CMutDefault VUnknown | CSetLoop KUnknown SinkOrdered => true
  | _ => false
  end.

(* allow-list items that match nothing (reported as a note, not an error: a
   behaviour-preserving clean-up must not break the check) *)
Definition stale (al : list allowed) (fp : list entry) : list allowed :=
  filter (fun a => negb (existsb (fun e => allow_matches e a) fp)) al.
