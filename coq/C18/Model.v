(* C18 — state-threaded, id-level model of one conversion from the moment the
   surface collections are numbered (CollectionDict.number_items) to the VOLU /
   SURF lines of the written file, and of a PROCESS performing several
   conversions one after the other.

   What the code keeps in objects (CellConversion.new_cell_key, its caches,
   DictVolumeT4) is an explicit [cstate] here; [conversion] builds it afresh
   from the input, exactly as construct_volume_t4 creates a new DictVolumeT4
   and a new CellConversion on every call.  Surface parameters, compositions
   and comments are not modelled: the model computes ids and structure only.

   Python sources followed: t4_geom_convert/Kernel/Surface/CollectionDict.py
   (number_items), Volume/CellConversion.py (pot_flag, pot_expand_surfs,
   pot_optimise, pot_to_t4_cell, convert_surface, convert_cellref, conv_equa),
   Volume/TreeFunctions.py (largestPureIntersectionNode), Volume/VolumeT4.py,
   Volume/ConstructVolumeT4.py (main loop, remove_empty_volumes,
   remove_unused_volumes, extract_used_surfaces), Surface/Duplicates.py
   (renumber_surfaces), FileHandlers/Writer/WriteT4Geometry.py. *)
From Coq Require Import List ZArith Bool.
Import ListNotations.
Open Scope Z_scope.

(* ---- small library: association lists in insertion order (Python dict) ---- *)

Fixpoint dget {A} (k : Z) (d : list (Z * A)) : option A :=
  match d with
  | [] => None
  | (k', v) :: r => if k =? k' then Some v else dget k r
  end.

(* d[k] = v : in place when the key exists (an OrderedDict keeps the position),
   appended otherwise *)
Fixpoint dset {A} (k : Z) (v : A) (d : list (Z * A)) : list (Z * A) :=
  match d with
  | [] => [(k, v)]
  | (k', v') :: r => if k =? k' then (k, v) :: r else (k', v') :: dset k v r
  end.

Definition ddel {A} (k : Z) (d : list (Z * A)) : list (Z * A) :=
  filter (fun kv => negb (fst kv =? k)) d.

Definition zmem (x : Z) (l : list Z) : bool := existsb (Z.eqb x) l.

(* sorted(set(l)) : insertion sort without duplicates *)
Fixpoint zinsert (x : Z) (l : list Z) : list Z :=
  match l with
  | [] => [x]
  | y :: r => if x <? y then x :: l else if x =? y then l else y :: zinsert x r
  end.

Definition zsort (l : list Z) : list Z := fold_right zinsert [] l.

Definition zmax (l : list Z) : Z := fold_left Z.max l 0.

(* ---- trees ---- *)

Inductive op := OInter | OUnion.
Definition op_eqb (a b : op) : bool :=
  match a, b with OInter, OInter | OUnion, OUnion => true | _, _ => false end.

(* cell.geometry when pot_convert is called *)
Inductive gtree :=
| GSurf (s : Z) (sub : option Z)        (* MIP Surface(surface, sub) *)
| GCell (c : Z)                          (* CellRef *)
| GCompl (c : Z)                         (* ('^', Cell): only before pot_complement *)
| GNode (o : op) (args : list gtree).

(* flagged / expanded tree: [id, op, args...]; leaves: Surface objects before
   pot_expand_surfs, plain ints after *)
Inductive ftree :=
| FSurf (s : Z) (sub : option Z)
| FInt (n : Z)
| FCell (c : Z)
| FNode (id : Z) (o : op) (args : list ftree).

Inductive err := EFuel | EKey | EFacet | EShape | EMismatch.
Inductive res (A : Type) := Ok (a : A) | Err (e : err).
Arguments Ok {A}. Arguments Err {A}.

Definition bind {A B} (x : res A) (f : A -> res B) : res B :=
  match x with Ok a => f a | Err e => Err e end.
Notation "'do' x <- a ; b" := (bind a (fun x => b)) (at level 200, x pattern, a at level 100, b at level 200).

(* ---- CollectionDict.number_items ----
   items: (key, sides of the surfaces of the collection) in insertion order.
   Returns the keys of the numbering in order, and the matching
   key -> signed T4 ids. *)
Fixpoint number_aux (key : Z) (sides : list Z) (free : Z) : list Z * list Z * Z :=
  match sides with
  | [] => ([], [], free)
  | s :: r => let '(ks, ids, free') := number_aux key r (free + 1) in
              (free :: ks, (s * free) :: ids, free')
  end.

Fixpoint number_from (items : list (Z * list Z)) (free : Z)
  : list Z * list (Z * list Z) :=
  match items with
  | [] => ([], [])
  | (key, sides) :: r =>
      match sides with
      | [] => number_from r free           (* value[0] would raise; not generated *)
      | s0 :: rest =>
          let '(ks, ids, free') := number_aux key rest free in
          let '(keys, matching) := number_from r free' in
          (key :: ks ++ keys, (key, (s0 * key) :: ids) :: matching)
      end
  end.

Definition number_items (items : list (Z * list Z)) : list Z * list (Z * list Z) :=
  number_from items (zmax (map fst items) + 1).

(* ---- VolumeT4 ---- *)
Record vol := mkVol {
  v_plus : list Z;                (* set: kept sorted without duplicates *)
  v_minus : list Z;
  v_ops : option (op * list (option Z));   (* ('INTE'|'UNION', ids) *)
  v_fict : bool }.

Definition vol_empty (v : vol) : bool := existsb (fun x => zmem x (v_minus v)) (v_plus v).

(* ---- CellConversion state ---- *)
Record cstate := mkSt {
  next_key : Z;                              (* new_cell_key *)
  surf_cache : list (Z * Z);                 (* convert_surface_cache *)
  cref_cache : list (Z * option Z);          (* convert_cellref_cache *)
  vols : list (Z * vol) }.                   (* dic_vol_t4 (OrderedDict) *)

Definition bump (st : cstate) : cstate * Z :=
  let k := next_key st + 1 in
  (mkSt k (surf_cache st) (cref_cache st) (vols st), k).

Definition put_vol (st : cstate) (k : Z) (v : vol) : cstate :=
  mkSt (next_key st) (surf_cache st) (cref_cache st) (dset k v (vols st)).

(* conv_equa: first occurrence of every signed id, zeros dropped *)
Fixpoint conv_equa_from (l seen : list Z) : list Z * list Z :=
  match l with
  | [] => ([], [])
  | x :: r =>
      if zmem x seen then conv_equa_from r seen
      else let '(p, m) := conv_equa_from r (x :: seen) in
           if x <? 0 then (p, (- x) :: m) else if 0 <? x then (x :: p, m) else (p, m)
  end.
Definition conv_equa (l : list Z) : list Z * list Z := conv_equa_from l [].

Definition new_vol (plus minus : list Z) (ops : option (op * list (option Z))) : vol :=
  mkVol (zsort plus) (zsort minus) ops true.

(* ---- pot_flag ---- *)
Fixpoint flag (fuel : nat) (n : Z) (t : gtree) {struct fuel} : res (Z * ftree) :=
  match fuel with
  | O => Err EFuel
  | S f =>
      match t with
      | GSurf s sub => Ok (n, FSurf s sub)
      | GCell c => Ok (n, FCell c)
      | GCompl _ => Err EShape
      | GNode o args =>
          do (n', l) <- fold_left (fun acc a =>
                 do (n0, l0) <- acc; do (n1, a') <- flag f n0 a; Ok (n1, l0 ++ [a']))
               args (Ok (n, []));
          Ok (n' + 1, FNode (n' + 1) o l)
      end
  end.

(* ---- pot_expand_surfs ---- *)
Definition signed (s : Z) (x : Z) : Z := if 0 <? s then x else - x.

Fixpoint expand (fuel : nat) (matching : list (Z * list Z)) (n : Z) (t : ftree)
  {struct fuel} : res (Z * ftree) :=
  match fuel with
  | O => Err EFuel
  | S f =>
      match t with
      | FNode id o args =>
          do (n', l) <- fold_left (fun acc a =>
                 do (n0, l0) <- acc; do (n1, a') <- expand f matching n0 a; Ok (n1, l0 ++ [a']))
               args (Ok (n, []));
          Ok (n', FNode id o l)
      | FCell c => Ok (n, FCell c)
      | FInt x => Ok (n, FInt x)
      | FSurf s sub =>
          match dget (Z.abs s) matching with
          | None => Err EKey
          | Some ids =>
              match sub with
              | Some k =>
                  if Z.of_nat (List.length ids) <? k then Err EFacet
                  else
                    (* t4_ids[sub - 1]; sub = 0 is Python index -1: the last *)
                    let x := if k =? 0 then last ids 0 else nth (Z.to_nat (k - 1)) ids 0 in
                    Ok (n, FInt (signed s x))
              | None =>
                  match ids with
                  | [x] => Ok (n, FInt (signed s x))
                  | _ =>
                      if s <? 0
                      then Ok (n + 1, FNode (n + 1) OInter (map (fun x => FInt (- x)) ids))
                      else Ok (n + 1, FNode (n + 1) OUnion (map FInt ids))
                  end
              end
          end
      end
  end.

(* ---- pot_optimise (None = patently empty) ---- *)
Definition is_int (t : ftree) : bool := match t with FInt _ => true | _ => false end.
Definition int_of (t : ftree) : Z := match t with FInt x => x | _ => 0 end.

Fixpoint optimise (fuel : nat) (t : ftree) {struct fuel} : res (option ftree) :=
  match fuel with
  | O => Err EFuel
  | S f =>
      match t with
      | FNode id o args =>
          do l <- fold_left (fun acc a =>
                 do l0 <- acc; do a' <- optimise f a; Ok (l0 ++ [a'])) args (Ok []);
          if op_eqb o OInter && existsb (fun a => match a with None => true | _ => false end) l
          then Ok None
          else
            let kept := flat_map (fun a => match a with Some x => [x] | None => [] end) l in
            let flat := flat_map (fun x => match x with
                                           | FNode _ o' sub => if op_eqb o o' then sub else [x]
                                           | _ => [x] end) kept in
            match o with
            | OUnion => Ok (Some (FNode id o flat))
            | OInter =>
                let ints := map int_of (filter is_int flat) in
                let pluses := filter (fun x => 0 <? x) ints in
                let minuses := map Z.opp (filter (fun x => x <? 0) ints) in
                if existsb (fun x => zmem x minuses) pluses then Ok None
                else Ok (Some (FNode id o flat))
            end
      | _ => Ok (Some t)
      end
  end.

(* ---- largestPureIntersectionNode ---- *)
Definition pure_inter_len (t : ftree) : option Z :=
  match t with
  | FNode _ OInter sub => if forallb is_int sub then Some (2 + Z.of_nat (List.length sub)) else None
  | _ => None
  end.

Fixpoint largest_from (l : list ftree) (idx : nat) (best : option nat) (best_len : Z)
  : option nat :=
  match l with
  | [] => best
  | t :: r =>
      if is_int t then
        if best_len <? 1 then largest_from r (S idx) (Some idx) 1
        else largest_from r (S idx) best best_len
      else match pure_inter_len t with
           | Some n => if best_len <? n then largest_from r (S idx) (Some idx) n
                       else largest_from r (S idx) best best_len
           | None => largest_from r (S idx) best best_len
           end
  end.
Definition largest_pure (l : list ftree) : option nat := largest_from l 0%nat None 0.

Fixpoint remove_nth {A} (n : nat) (l : list A) : list A :=
  match n, l with
  | _, [] => []
  | O, _ :: r => r
  | S k, x :: r => x :: remove_nth k r
  end.

Definition is_cell (t : ftree) : bool := match t with FCell _ => true | _ => false end.
Definition is_node (t : ftree) : bool := match t with FNode _ _ _ => true | _ => false end.

(* ---- pot_to_t4_cell / convert_surface / convert_cellref / pot_convert ----
   cells: geometry of every MCNP cell a CellRef may point to.
   matching, union ids: fixed during the loop. *)
Section Convert.
  Variable cells : list (Z * gtree).
  Variable matching : list (Z * list Z).
  Variable u0 u1 : Z.

  Definition convert_surface (st : cstate) (x : Z) : cstate * Z :=
    match dget x (surf_cache st) with
    | Some p => (st, p)
    | None =>
        let '(st1, p) := bump st in
        let '(pl, mi) := conv_equa [x] in
        let st2 := put_vol st1 p (new_vol pl mi None) in
        (mkSt (next_key st2) ((x, p) :: surf_cache st2) (cref_cache st2) (vols st2), p)
    end.

  Definition mk_ops (o : op) (ids : list (option Z)) : option (op * list (option Z)) :=
    match ids with [] => None | _ => Some (o, ids) end.

  Fixpoint to_t4 (fuel : nat) (st : cstate) (t : ftree) {struct fuel}
    : res (cstate * option Z) :=
    match fuel with
    | O => Err EFuel
    | S f =>
        let many := fun (st0 : cstate) (l : list ftree) =>
          fold_left (fun acc a =>
              do (s0, ids) <- acc; do (s1, i) <- to_t4 f s0 a; Ok (s1, ids ++ [i]))
            l (Ok (st0, [])) in
        match t with
        | FInt x => let '(st', p) := convert_surface st x in Ok (st', Some p)
        | FSurf _ _ => Err EShape
        | FCell c => cellref f st c
        | FNode p o args =>
            let surfs := map int_of (filter is_int args) in
            let crefs := filter is_cell args in
            let nodes := filter is_node args in
            match o with
            | OInter =>
                let '(pl, mi) := conv_equa surfs in
                do (st1, ids1) <- many st nodes;
                do (st2, ids2) <- many st1 crefs;
                Ok (put_vol st2 p (new_vol pl mi (mk_ops OInter (ids1 ++ ids2))), Some p)
            | OUnion =>
                match largest_pure args with
                | None =>
                    do (st1, ids1) <- many st (filter (fun a => negb (is_cell a)) args);
                    do (st2, ids2) <- many st1 crefs;
                    let '(pl, mi) := conv_equa [u0; - u1] in
                    Ok (put_vol st2 p (new_vol pl mi (Some (OUnion, ids1 ++ ids2))), Some p)
                | Some k =>
                    do (st0, mid) <- to_t4 f st (nth k args (FInt 0));
                    match mid with
                    | None => Err EShape
                    | Some main_id =>
                        match dget main_id (vols st0) with
                        | None => Err EKey
                        | Some mv =>
                            do (st1, ids1) <- many st0 (remove_nth k args);
                            do (st2, ids2) <- many st1 crefs;
                            Ok (put_vol st2 p (new_vol (v_plus mv) (v_minus mv)
                                                 (mk_ops OUnion (ids1 ++ ids2))), Some p)
                        end
                    end
                end
            end
        end
    end
  with cellref (fuel : nat) (st : cstate) (c : Z) {struct fuel} : res (cstate * option Z) :=
    match fuel with
    | O => Err EFuel
    | S f =>
        (* `cache.get(cell, None)`; `if p_id is not None: return p_id` *)
        match dget c (cref_cache st) with
        | Some (Some p) => Ok (st, Some p)
        | _ =>
            match dget c cells with
            | None => Err EKey
            | Some g =>
                do (st1, r) <- pot_convert f st g;
                (* an empty referenced cell: a stand-in, patently empty virtual
                   volume (pluses = minuses = {union_ids[0]}) is allocated,
                   cached and returned; convert_cellref never returns None *)
                let '(st2, p) :=
                  match r with
                  | Some p => (st1, p)
                  | None => let '(st1', p) := bump st1 in
                            (put_vol st1' p (new_vol [u0] [u0] None), p)
                  end in
                Ok (mkSt (next_key st2) (surf_cache st2) (dset c (Some p) (cref_cache st2)) (vols st2),
                    Some p)
            end
        end
    end
  with pot_convert (fuel : nat) (st : cstate) (g : gtree) {struct fuel}
    : res (cstate * option Z) :=
    match fuel with
    | O => Err EFuel
    | S f =>
        do (n1, t1) <- flag f (next_key st) g;
        do (n2, t2) <- expand f matching n1 t1;
        do t3 <- optimise f t2;
        let st' := mkSt n2 (surf_cache st) (cref_cache st) (vols st) in
        match t3 with
        | None => Ok (st', None)
        | Some t => to_t4 f st' t
        end
    end.

  (* the "converting cell" loop of construct_volume_t4 *)
  Definition convert_cells (fuel : nat) (st : cstate) (conv : list (Z * gtree)) : res cstate :=
    fold_left (fun acc kg =>
        do st0 <- acc;
        do (st1, j) <- pot_convert fuel st0 (snd kg);
        match j with
        | None => Ok st1
        | Some j' =>
            match dget j' (vols st1) with
            | None => Err EKey
            | Some v => Ok (put_vol st1 (fst kg) (mkVol (v_plus v) (v_minus v) (v_ops v) false))
            end
        end) conv (Ok st).
End Convert.

(* ---- renumber_surfaces (after remove_duplicate_surfaces) ---- *)
Definition renumber_vol (ren : list (Z * Z)) (v : vol) : res vol :=
  let look := fun x => dget x ren in
  if forallb (fun x => match look x with Some _ => true | None => false end) (v_plus v ++ v_minus v)
  then let f := fun x => match look x with Some y => y | None => x end in
       Ok (mkVol (zsort (map f (v_plus v))) (zsort (map f (v_minus v))) (v_ops v) (v_fict v))
  else Err EKey.

Fixpoint renumber_all (ren : list (Z * Z)) (d : list (Z * vol)) : res (list (Z * vol)) :=
  match d with
  | [] => Ok []
  | (k, v) :: r => do v' <- renumber_vol ren v; do r' <- renumber_all ren r; Ok ((k, v') :: r')
  end.

(* ---- remove_empty_volumes ---- *)
Definition is_union_vol (v : vol) : bool :=
  match v_ops v with Some (OUnion, _) => true | _ => false end.

(* one pass over to_remove: delete, or neutralise a union *)
Definition empty_step (u0 u1 : Z) (d : list (Z * vol)) (to_remove : list Z)
  : list (Z * vol) * list Z :=
  fold_left (fun acc k =>
      let '(d0, rem) := acc in
      match dget k d0 with
      | None => (d0, rem)
      | Some v =>
          if is_union_vol v
          then (dset k (mkVol [u0] [u1] (v_ops v) (v_fict v)) d0, rem)
          else (ddel k d0, k :: rem)
      end) to_remove (d, []).

Definition in_removed (removed : list Z) (x : option Z) : bool :=
  match x with Some k => zmem k removed | None => false end.

(* the update pass: new to_remove list and pruned unions *)
Fixpoint empty_update (removed : list Z) (d : list (Z * vol)) : list (Z * vol) * list Z :=
  match d with
  | [] => ([], [])
  | (k, v) :: r =>
      let '(r', tr) := empty_update removed r in
      match v_ops v with
      | None => ((k, v) :: r', tr)
      | Some (OInter, ids) =>
          if existsb (in_removed removed) ids then ((k, v) :: r', k :: tr) else ((k, v) :: r', tr)
      | Some (OUnion, ids) =>
          let ids' := filter (fun x => negb (in_removed removed x)) ids in
          let ops' := match ids' with [] => None | _ => Some (OUnion, ids') end in
          ((k, mkVol (v_plus v) (v_minus v) ops' (v_fict v)) :: r', tr)
      end
  end.

Fixpoint empty_loop (fuel : nat) (u0 u1 : Z) (d : list (Z * vol)) (to_remove removed : list Z)
  : res (list (Z * vol)) :=
  match to_remove with
  | [] => Ok d
  | _ =>
      match fuel with
      | O => Err EFuel
      | S f =>
          let '(d1, rem) := empty_step u0 u1 d to_remove in
          let removed' := rem ++ removed in
          let '(d2, tr) := empty_update removed' d1 in
          empty_loop f u0 u1 d2 tr removed'
      end
  end.

Definition remove_empty_volumes (u0 u1 : Z) (d : list (Z * vol)) : res (list (Z * vol)) :=
  empty_loop (S (List.length d)) u0 u1 d
    (map fst (filter (fun kv => vol_empty (snd kv)) d)) [].

(* ---- remove_unused_volumes ----
   [order] is the iteration order of the Python set `unused`. *)
Definition remove_keys {A} (ks : list Z) (d : list (Z * A)) : list (Z * A) :=
  fold_left (fun d0 k => ddel k d0) ks d.

Definition used_keys (d : list (Z * vol)) : list Z :=
  flat_map (fun kv => match v_ops (snd kv) with
                      | Some (_, ids) => flat_map (fun x => match x with Some k => [k] | None => [] end) ids
                      | None => [] end) d.

Definition unused_keys (d : list (Z * vol)) : list Z :=
  let used := used_keys d in
  filter (fun k => negb (zmem k used)) (map fst (filter (fun kv => v_fict (snd kv)) d)).

Definition remove_unused_volumes (order : list Z -> list Z) (d : list (Z * vol)) : list (Z * vol) :=
  remove_keys (order (unused_keys d)) d.

(* ---- writer ---- *)
Definition used_surfaces (d : list (Z * vol)) : list Z :=
  flat_map (fun kv => v_plus (snd kv) ++ v_minus (snd kv)) d.

(* one VOLU line: id, PLUS ids, MINUS ids, operator, FICTIVE; VolumeT4.__str__
   prints sorted(self.pluses), sorted(self.minuses) *)
Definition vline := (Z * list Z * list Z * option (op * list (option Z)) * bool)%type.

Definition volume_line (order : list Z -> list Z) (k : Z) (v : vol) : vline :=
  (k, zsort (order (v_plus v)), zsort (order (v_minus v)), v_ops v, v_fict v).

Record output := mkOut { o_surfs : list Z; o_volumes : list vline }.

(* ---- one conversion ---- *)
Record input := mkIn {
  i_items : list (Z * list Z);      (* dic_surface_t4 at number_items time: key, sides *)
  i_key0 : Z;                       (* new_cell_key when the cell loop starts *)
  i_conv : list (Z * gtree);        (* conv_keys: cell key, geometry *)
  i_cells : list (Z * gtree);       (* cells reachable through CellRef *)
  i_skipped : list Z;               (* cells of importance 0 *)
  i_renumber : option (list (Z * Z)) (* remove_duplicate_surfaces, None = skipped *) }.

Definition fresh_state (inp : input) : cstate := mkSt (i_key0 inp) [] [] [].

Definition big_fuel : nat := Nat.mul 64 64.

(* [st]: the CellConversion state the cell loop starts from.
   [order]: iteration order of Python sets of ints (unused volumes, pluses,
   minuses) — a parameter, see Proofs. *)
Definition convert_from (order : list Z -> list Z) (st : cstate) (inp : input)
  : res (cstate * output) :=
  let '(keys, matching) := number_items (i_items inp) in
  let free := zmax keys + 1 in
  let u0 := free + 1 in
  let u1 := free + 2 in
  do st1 <- convert_cells (i_cells inp) matching u0 u1 big_fuel st (i_conv inp);
  do d1 <- match i_renumber inp with
           | None => Ok (vols st1)
           | Some ren => renumber_all ren (vols st1)
           end;
  (* union_ids = tuple(renumber[surf] for surf in union_ids) after de-duplication *)
  do (ru0, ru1) <- match i_renumber inp with
                   | None => Ok (u0, u1)
                   | Some ren => match dget u0 ren, dget u1 ren with
                                 | Some a, Some b => Ok (a, b)
                                 | _, _ => Err EKey
                                 end
                   end;
  do d2 <- remove_empty_volumes ru0 ru1 d1;
  let d3 := remove_unused_volumes order d2 in
  let lines := map (fun kv => volume_line order (fst kv) (snd kv))
                   (filter (fun kv => negb (zmem (fst kv) (i_skipped inp))) d3) in
  (* the writer looks every used surface up in the (deduplicated) dictionary *)
  let surf_keys := match i_renumber inp with
                   | None => u0 :: u1 :: keys
                   | Some ren => map fst (filter (fun kv => fst kv =? snd kv) ren)
                   end in
  let used := zsort (order (used_surfaces d3)) in
  if forallb (fun x => zmem x surf_keys) used
  then Ok (st1, mkOut used lines)
  else Err EKey.

(* ---- a process: what survives between conversions ----
   The interpreter keeps module objects alive between runs; the model keeps the
   last CellConversion state around (as garbage the next run could reach if the
   code were written differently) and counts the runs. *)
Record pstate := mkPs { p_last : option cstate; p_runs : Z }.
Definition ps0 : pstate := mkPs None 0.

(* main.conversion: a FRESH CellConversion / DictVolumeT4 per call *)
Definition conversion (order : list Z -> list Z) (ps : pstate) (inp : input)
  : pstate * res output :=
  match convert_from order (fresh_state inp) inp with
  | Ok (st, out) => (mkPs (Some st) (p_runs ps + 1), Ok out)
  | Err e => (mkPs (p_last ps) (p_runs ps + 1), Err e)
  end.

(* what the code would do if the CellConversion object (counter and caches)
   were kept at class/module level instead: used for the contrast theorem *)
Definition conversion_leaky (order : list Z -> list Z) (ps : pstate) (inp : input)
  : pstate * res output :=
  let st0 := match p_last ps with Some st => st | None => fresh_state inp end in
  match convert_from order st0 inp with
  | Ok (st, out) => (mkPs (Some st) (p_runs ps + 1), Ok out)
  | Err e => (mkPs (p_last ps) (p_runs ps + 1), Err e)
  end.

(* a history of conversions in one process; returns the outputs in order *)
Fixpoint run_history (step : pstate -> input -> pstate * res output)
         (ps : pstate) (hist : list input) : pstate * list (res output) :=
  match hist with
  | [] => (ps, [])
  | inp :: r => let '(ps1, out) := step ps inp in
                let '(ps2, outs) := run_history step ps1 r in
                (ps2, out :: outs)
  end.
