(* C18 — executable comparison functions used by the generated correspondence
   files: model (C18/Model.v) vs what was observed on the implementation. *)
From Coq Require Import List ZArith Bool.
From T4V Require Import Base.Cases C18.Model.
Import ListNotations.
Open Scope Z_scope.

Definition zlist_eqb := list_eqb Z.eqb.

Definition ops_eqb (a b : option (op * list (option Z))) : bool :=
  option_eqb (fun x y => op_eqb (fst x) (fst y)
                         && list_eqb (option_eqb Z.eqb) (snd x) (snd y)) a b.

Definition vline_eqb (a b : vline) : bool :=
  let '(k1, p1, m1, o1, f1) := a in
  let '(k2, p2, m2, o2, f2) := b in
  (k1 =? k2) && zlist_eqb p1 p2 && zlist_eqb m1 m2 && ops_eqb o1 o2 && Bool.eqb f1 f2.

Definition output_eqb (a b : output) : bool :=
  zlist_eqb (o_surfs a) (o_surfs b) && list_eqb vline_eqb (o_volumes a) (o_volumes b).

Definition res_output_eqb (a : res output) (b : option output) : bool :=
  match a, b with
  | Ok x, Some y => output_eqb x y
  | Err _, None => true
  | _, _ => false
  end.

Fixpoint list_eqb2 {A B} (e : A -> B -> bool) (a : list A) (b : list B) : bool :=
  match a, b with
  | [], [] => true
  | x :: a', y :: b' => e x y && list_eqb2 e a' b'
  | _, _ => false
  end.

Definition ident (l : list Z) : list Z := l.

(* one conversion: the observed inputs of the volume stage and the SURF / VOLU
   lines of the written file (None: the implementation raised in this stage) *)
Definition check_conv (c : input * option output) : bool :=
  res_output_eqb (snd (conversion ident ps0 (fst c))) (snd c).

(* a history: conversions performed one after the other in ONE interpreter;
   the model threads its process state through [run_history] *)
Definition check_history (h : list (input * option output)) : bool :=
  let outs := snd (run_history (conversion ident) ps0 (map fst h)) in
  list_eqb2 res_output_eqb outs (map snd h).

(* ---- with the upstream phases (C18/Upstream.v) ---- *)
From T4V Require Import C18.Upstream.

Definition items_eqb (a b : list (Z * list Z)) : bool :=
  list_eqb (pair_eqb Z.eqb zlist_eqb) a b.

(* the counter and the surface dictionary the upstream model computes are the
   ones observed when number_items / the cell loop start *)
Definition check_upstream (c : uinput * input) : bool :=
  match upstream (fst c) with
  | Ok (ck, items) => (ck =? i_key0 (snd c)) && items_eqb items (i_items (snd c))
  | Err _ => false
  end.

(* one step of a mixed history: with the upstream trace when it was captured,
   from the numbering on otherwise *)
Definition mixed_step (fs : fstate) (c : option uinput * input) : fstate * res output :=
  match fst c with
  | Some u => full_conversion ident fs (u, snd c)
  | None => let '(ps', out) := conversion ident (f_down fs) (snd c) in (mkFs (f_up fs) ps', out)
  end.

Fixpoint mixed_history (fs : fstate) (h : list (option uinput * input)) : list (res output) :=
  match h with
  | [] => []
  | c :: r => let '(fs1, out) := mixed_step fs c in out :: mixed_history fs1 r
  end.

Definition check_full_history (h : list (option uinput * input * option output)) : bool :=
  list_eqb2 res_output_eqb (mixed_history fs0 (map fst h)) (map snd h)
  && forallb (fun c => match fst (fst c) with
                       | Some u => check_upstream (u, snd (fst c))
                       | None => true end) h.

Definition check_full (c : option uinput * input * option output) : bool :=
  check_full_history [c].
