(* C18 — linking the stages other properties model.

   Generic argument.  A STAGE is a function of (input, explicit state) together
   with the function that builds the stage's fresh state from the input.  A
   process that performs conversions one after the other keeps whatever state
   the previous run left (as garbage), but every run starts from the fresh
   state; hence the outputs do not depend on the history.  Stages compose
   sequentially (the input of the second is computed from the input and the
   output of the first) and in parallel, and composites are stages again, so
   the statement holds of any pipeline built this way.

   Link.  The models of the other properties are imported READ-ONLY and shown
   to be of that shape: each instance below is, by [reflexivity], the owner's
   function applied to the owner's state type, started from a state built from
   the input alone (empty caches, the counters of the input).  Nothing of the
   owners' files is restated or re-proved.

     C12.Cards.parse_deck_text   cell / data cards -> cells, skipped   (stateless)
     C15.Model.parse_all         LIKE n BUT resolution                  (stateless)
     C11.Model.eliminate_loop    pot_complement loop; state = cell table
     C06.Model.develop_lattice   lattice elements                       (stateless)
     C05.Model.fill_phase        pot_fill; state = cells, surfaces, new_cell_key,
                                 new_surf_key, cell_transform_cache, rcache
     C05.Model.inline_cells      after fill_phase, on the cells of its final state
     C13.ModelTr.pot_fill_tr     pot_fill with transformations; state = tstate
     C18 Upstream + Model        counters/caches of TRCL..FILL, numbering, cell loop, writer

   Where the types compose (C05 fill -> C05 inline; C18 upstream -> C18
   conversion) the stages are composed sequentially; across properties the
   models use different tree / cell / key types (C11: ast over N, C05: tree over
   an abstract transformation type, C13: geom/mcell, C18: gtree), so they are
   put side by side (parallel product) — see notes/C18.md. *)
From Coq Require Import List ZArith Bool String.
From T4V Require Import Base.Scalar.
From T4V Require C05.Model C06.Model C11.Model C12.Model C12.Cards C13.Model C13.ModelTr C15.Model.
From T4V Require Import C18.Model C18.Upstream.
Import ListNotations.


(* ---- the generic argument ------------------------------------------------ *)

Record stage := mkStage {
  s_in : Type; s_st : Type; s_out : Type;
  s_init : s_in -> s_st;                       (* the fresh state, from the input alone *)
  s_step : s_in -> s_st -> s_out * s_st }.     (* what a run does, state explicit *)

Definition fresh_run (s : stage) (i : s_in s) : s_out s * s_st s := s_step s i (s_init s i).

(* a process: the state the last run left is still around *)
Definition proc (s : stage) := option (s_st s).

Definition proc_step (s : stage) (p : proc s) (i : s_in s) : proc s * s_out s :=
  let '(o, st) := fresh_run s i in (Some st, o).

(* the same, were the state kept between runs *)
Definition proc_step_leaky (s : stage) (p : proc s) (i : s_in s) : proc s * s_out s :=
  let '(o, st) := s_step s i (match p with Some st => st | None => s_init s i end) in (Some st, o).

Fixpoint proc_history (s : stage) (p : proc s) (hist : list (s_in s)) : proc s * list (s_out s) :=
  match hist with
  | [] => (p, [])
  | i :: r => let '(p1, o) := proc_step s p i in
              let '(p2, os) := proc_history s p1 r in (p2, o :: os)
  end.

Theorem stage_history_outputs : forall (s : stage) hist p,
  snd (proc_history s p hist) = map (fun i => fst (fresh_run s i)) hist.
Proof.
  intros s hist. induction hist as [|i r IH]; intros p; [reflexivity|].
  cbn [proc_history map]. unfold proc_step at 1.
  destruct (fresh_run s i) as [o st] eqn:E.
  specialize (IH (Some st)). destruct (proc_history s (Some st) r) as [p2 os].
  cbn [snd fst] in *. rewrite IH. reflexivity.
Qed.

Theorem stage_history_independent : forall (s : stage) hist1 hist2 p1 p2 i d,
  last (snd (proc_history s p1 (hist1 ++ [i]))) d
  = last (snd (proc_history s p2 (hist2 ++ [i]))) d.
Proof.
  intros s h1 h2 p1 p2 i d. rewrite !stage_history_outputs, !map_app. cbn [map].
  rewrite !last_last. reflexivity.
Qed.

(* sequential composition: the second stage's input is computed from the input
   and the first stage's output *)
Definition seq (a b : stage) (glue : s_in a -> s_out a -> s_in b) : stage :=
  mkStage _ _ _ (fun i => (s_init a i, s_init b (glue i (fst (fresh_run a i)))))
          (fun i st => let '(oa, sa) := s_step a i (fst st) in
                       let '(ob, sb) := s_step b (glue i oa) (snd st) in
                       ((oa, ob), (sa, sb))).

(* stages side by side *)
Definition par (a b : stage) : stage :=
  mkStage _ _ _ (fun i => (s_init a (fst i), s_init b (snd i)))
          (fun i st => let '(oa, sa) := s_step a (fst i) (fst st) in
                       let '(ob, sb) := s_step b (snd i) (snd st) in
                       ((oa, ob), (sa, sb))).

(* a function without state *)
Definition pure_stage {A B : Type} (f : A -> B) : stage :=
  mkStage _ _ _ (fun _ => tt) (fun i st => (f i, st)).

Lemma seq_fresh_run a b glue i :
  fst (fresh_run (seq a b glue) i)
  = (fst (fresh_run a i), fst (fresh_run b (glue i (fst (fresh_run a i))))).
Proof.
  unfold seq. unfold fresh_run. cbn [s_init s_step fst snd].
  destruct (s_step a i (s_init a i)) as [oa sa]. cbn [fst].
  destruct (s_step b (glue i oa) (s_init b (glue i oa))) as [ob sb]. reflexivity.
Qed.

Lemma par_fresh_run a b i :
  fst (fresh_run (par a b) i) = (fst (fresh_run a (fst i)), fst (fresh_run b (snd i))).
Proof.
  unfold par. unfold fresh_run. cbn [s_init s_step fst snd].
  destruct (s_step a (fst i) (s_init a (fst i))) as [oa sa].
  destruct (s_step b (snd i) (s_init b (snd i))) as [ob sb]. reflexivity.
Qed.

(* ---- the instances ------------------------------------------------------- *)

Section Instances.
  (* parameters of the owners' models *)
  Variable F : Type.                    (* scalar type of C06 / C12 / C15 *)
  Variable SF : Scalar F.
  Variable prims12 : C12.Model.prims F.
  Variable T5 surf5 : Type.             (* C05: transformation tuples, surfaces *)
  Variable tr_empty : T5 -> bool.
  Variable teqb : T5 -> T5 -> bool.
  Variable tr_surf : T5 -> surf5 -> surf5.
  Variable Tr13 : Type.                 (* C13: transformations *)
  Variable treqb : Tr13 -> Tr13 -> bool.
  Variable fuel cf : nat.
  Variable ifd ifg : bool.              (* --always-inline-filled / -filling *)
  Variable order : list Z -> list Z.    (* iteration order of the int sets (C18) *)

  (* C12: parsing the cell block *)
  Definition st_parse12 : stage :=
    pure_stage (fun i : list string * list string * list (Z * list (Z * Z)) =>
                  @C12.Cards.parse_deck_text F SF prims12 (fst (fst i)) (snd (fst i)) (snd i)).

  (* C15: LIKE n BUT *)
  Definition st_like15 : stage :=
    pure_stage (fun i : C15.Model.env * C15.Model.table => @C15.Model.parse_all F SF (fst i) (snd i)).

  (* C11: the pot_complement loop; the table is threaded explicitly *)
  Definition st_complement11 : stage :=
    mkStage _ _ _ (fun tbl : C11.Model.table => tbl)
            (fun tbl st => let r := C11.Model.eliminate_loop fuel (map fst tbl) st in
                           (r, match r with C11.Model.Ok t => t | C11.Model.Err _ => st end)).

  (* C06: develop_lattice *)
  Definition st_lattice06 : stage :=
    pure_stage (fun i : (Z -> list (C06.Model.plane * Z)) * list Z * C06.Model.lat_cell =>
                  @C06.Model.develop_lattice F SF (fst (fst i)) (snd (fst i)) (snd i)).

  (* C05: pot_fill over the whole deck.  Input: the cells, the surfaces and the
     two counters CellConversion is created with; fresh state: empty caches *)
  Definition in05 := (list (Z * C05.Model.cell T5) * list (Z * surf5) * Z * Z)%type.
  Definition st_fill05 : stage :=
    mkStage _ _ _ (fun i : in05 =>
               @C05.Model.mkSt T5 surf5 (fst (fst (fst i))) (snd (fst (fst i))) (snd (fst i)) (snd i) [] [])
            (fun _ st => let r := @C05.Model.fill_phase T5 surf5 tr_empty teqb tr_surf fuel cf ifd ifg st in
                         (r, match r with C05.Model.Ok (_, st') => st' | C05.Model.Err _ => st end)).

  (* C05: inline_cells on the cells fill_phase leaves *)
  Variable num den : Z.
  Definition st_inline05 : stage :=
    pure_stage (fun cells : list (Z * C05.Model.cell T5) => @C05.Model.inline_cells T5 fuel num den cells).

  Definition st_fill_inline05 : stage :=
    seq st_fill05 st_inline05
        (fun _ o => match o with
                    | C05.Model.Ok (_, st') => @C05.Model.s_cells T5 surf5 st'
                    | C05.Model.Err _ => []
                    end).

  (* C13: pot_fill with transformations for one cell; tstate explicit *)
  Definition in13 := (list (Z * C13.Model.mcell) * list (Z * (option Tr13 * list Tr13)) * Z
                      * @C13.ModelTr.tstate Tr13)%type.
  Definition st_fill13 : stage :=
    mkStage _ _ _ (fun i : in13 => snd i)
            (fun i st => let r := @C13.ModelTr.pot_fill_tr Tr13 treqb fuel ifd ifg (fst (fst (fst i)))
                                                          (snd (fst (fst i))) (snd (fst i)) st in
                         (r, match r with C13.Model.Ok (_, st') => st' | C13.Model.Err _ => st end)).

  (* C18: upstream phases, then numbering / cell loop / writer *)
  Definition st_upstream18 : stage :=
    mkStage _ _ _ (fun x : uinput * input => fresh_ustate (fst x))
            (fun x st => (upstream_from st (fst x),
                          match run_ops st (ui_ops (fst x)) with Ok s => s | Err _ => st end)).

  Definition st_down18 : stage :=
    mkStage _ _ _ (fun x : res input => match x with Ok inp => fresh_state inp | Err _ => mkSt 0 [] [] [] end)
            (fun x st => match x with
                         | Err e => (Err e, st)
                         | Ok inp => match convert_from order st inp with
                                     | Ok (st', out) => (Ok out, st')
                                     | Err e => (Err e, st)
                                     end
                         end).

  Definition st_c18 : stage :=
    seq st_upstream18 st_down18
        (fun x o => match o with
                    | Ok (ck, items) => Ok (with_upstream (snd x) ck items)
                    | Err e => Err e
                    end).

  (* the composite really is C18's full_conversion *)
  Lemma st_c18_is_full_conversion : forall fs x,
    snd (fst (fresh_run st_c18 x)) = snd (full_conversion order fs x).
  Proof.
    intros fs [u inp]. unfold st_c18. rewrite seq_fresh_run. cbn [snd fst].
    unfold fresh_run, st_upstream18, st_down18, full_conversion. cbn [s_init s_step fst snd].
    fold (upstream u). destruct (upstream u) as [[ck items]|e]; [|reflexivity].
    unfold conversion.
    destruct (convert_from order (fresh_state (with_upstream inp ck items)) _) as [[st' out]|e];
      reflexivity.
  Qed.

  (* every stage's fresh run is the owner's function on the owner's fresh state *)
  Lemma stage_shapes :
    (forall i, fst (fresh_run st_parse12 i)
               = @C12.Cards.parse_deck_text F SF prims12 (fst (fst i)) (snd (fst i)) (snd i)) /\
    (forall i, fst (fresh_run st_like15 i) = @C15.Model.parse_all F SF (fst i) (snd i)) /\
    (forall tbl, fst (fresh_run st_complement11 tbl) = C11.Model.eliminate_all fuel tbl) /\
    (forall i, fst (fresh_run st_lattice06 i)
               = @C06.Model.develop_lattice F SF (fst (fst i)) (snd (fst i)) (snd i)) /\
    (forall cells surfs nck nsk,
        fst (fresh_run st_fill05 (cells, surfs, nck, nsk))
        = @C05.Model.fill_phase T5 surf5 tr_empty teqb tr_surf fuel cf ifd ifg
                               (@C05.Model.mkSt T5 surf5 cells surfs nck nsk [] [])) /\
    (forall dic0 trs key st,
        fst (fresh_run st_fill13 (dic0, trs, key, st))
        = @C13.ModelTr.pot_fill_tr Tr13 treqb fuel ifd ifg dic0 trs key st) /\
    (forall fs x, snd (fst (fresh_run st_c18 x)) = snd (full_conversion order fs x)).
  Proof.
    repeat split; try reflexivity. apply st_c18_is_full_conversion.
  Qed.

  (* all the modelled stages of one conversion, side by side *)
  Definition pipeline : stage :=
    par st_parse12 (par st_like15 (par st_complement11 (par st_lattice06
       (par st_fill_inline05 (par st_fill13 st_c18))))).

  Theorem history_independent_linked : forall hist1 hist2 p1 p2 i d,
    last (snd (proc_history pipeline p1 (hist1 ++ [i]))) d
    = last (snd (proc_history pipeline p2 (hist2 ++ [i]))) d.
  Proof. intros. apply stage_history_independent. Qed.

  Theorem history_outputs_linked : forall hist p,
    snd (proc_history pipeline p hist) = map (fun i => fst (fresh_run pipeline i)) hist.
  Proof. intros. apply stage_history_outputs. Qed.
End Instances.

(* the generic contrast: a stage whose state is kept between runs is NOT
   history-independent in general (a counter) *)
Definition counter_stage : stage :=
  mkStage _ _ _ (fun _ : unit => 0%Z) (fun _ n => (n, (n + 1)%Z)).

Lemma leaky_stage_depends_on_history :
  snd (proc_step_leaky counter_stage (fst (proc_step_leaky counter_stage None tt)) tt)
  <> snd (proc_step counter_stage (fst (proc_step counter_stage None tt)) tt).
Proof. vm_compute. discriminate. Qed.
