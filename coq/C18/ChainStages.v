(* C18 — CHAINING the stages other properties model, through the bridges their
   owners provide (round 3).  In C18/LinkStages.v the stages of different owners
   sit side by side because their data types differ; where an owner has since
   published a translation, the stages are chained here into ONE pipeline value
   whose later stages consume what the earlier ones produce:

     chain A   C11.Model.eliminate_loop   (pot_complement loop; state = cell table)
                 --[ C01.LinkC11.cells_of : C11 table -> C01 cells ]-->
               C01.Model.convert_cells    (cell loop; state = counter, volumes,
                                           convert_surface / convert_cellref caches)
                 --> C01.Model.prune --> C01.Printer.print_table

     chain B   C13.Model.fill_loop ; inline_cells  (= cell_stage; state = table, counter)
                 --[ C13.LinkC01.embed_cells : C13 table -> C01 cells ]-->
               C01.Model.convert_cells --> prune --> print_table

   Every stage takes its state explicitly and is started from a state built
   from its input alone (C01: mkSt cnt0 [] [] []); the composite is a [stage]
   again, so [stage_history_independent] applies to it.  The owners' files are
   imported read-only. *)
From Coq Require Import List ZArith Bool.
From T4V Require C01.Model C01.Printer C01.LinkC11 C11.Model C13.Model C13.LinkC01.
From T4V Require Import C18.LinkStages.
Import ListNotations.
Open Scope Z_scope.

Module M1 := T4V.C01.Model.
Module M11 := T4V.C11.Model.
Module M13 := T4V.C13.Model.

(* a stage that is skipped (None) when the stage before it failed *)
Definition opt_stage (s : stage) : stage :=
  mkStage (option (s_in s)) (option (s_st s)) (option (s_out s))
          (fun i => option_map (s_init s) i)
          (fun i st => match i, st with
                       | Some x, Some y => let '(o, y') := s_step s x y in (Some o, Some y')
                       | _, _ => (None, st)
                       end).

Lemma opt_fresh_run s i :
  fst (fresh_run (opt_stage s) i) = option_map (fun x => fst (fresh_run s x)) i.
Proof.
  unfold opt_stage. unfold fresh_run. cbn [s_init s_step].
  destruct i as [x|]; cbn [option_map]; [|reflexivity].
  destruct (s_step s x (s_init s x)); reflexivity.
Qed.

(* ---- C01: cell loop, pruning, printer ---- *)
(* what the back end needs besides the cells *)
Record rest01 := mkRest {
  r_matching : M1.dict (list Z); r_u0 : Z; r_u1 : Z; r_todo : list Z; r_cnt0 : Z;
  r_rn : option (M1.dict Z); r_skipped : list Z }.

Section C01.
  Variable cfuel : nat.

  Definition st_convert01 : stage :=
    mkStage (M1.dict M1.cell * rest01) M1.st (M1.res M1.st)
            (fun i => M1.mkSt (r_cnt0 (snd i)) [] [] [])
            (fun i s => let r := M1.convert_cells cfuel (fst i) (r_matching (snd i)) (r_u0 (snd i))
                                                  (r_u1 (snd i)) (r_todo (snd i)) s in
                        (r, match r with M1.Ok s' => s' | M1.Err _ => s end)).

  Definition st_prune01 : stage :=
    pure_stage (fun i : rest01 * M1.res M1.st =>
                  match snd i with
                  | M1.Ok s => M1.prune (r_u0 (fst i)) (r_u1 (fst i)) (r_rn (fst i)) (M1.vols s)
                  | M1.Err e => M1.Err e
                  end).

  Definition st_print01 : stage :=
    pure_stage (fun i : rest01 * M1.res (M1.dict M1.vol) =>
                  match snd i with
                  | M1.Ok d => Some (C01.Printer.print_table (r_skipped (fst i)) d)
                  | M1.Err _ => None
                  end).

  (* cells -> VOLU lines *)
  Definition st_backend01 : stage :=
    seq (seq st_convert01 st_prune01 (fun i o => (snd i, o)))
        st_print01 (fun i o => (snd i, snd o)).

  (* the chained back end is C01's own [pipeline] followed by its printer *)
  Lemma backend01_is_pipeline : forall cells r,
    snd (fst (fresh_run st_backend01 (cells, r)))
    = match M1.pipeline cfuel cells (r_matching r) (r_u0 r) (r_u1 r) (r_todo r) (r_cnt0 r) (r_rn r) with
      | M1.Ok (_, d) => Some (C01.Printer.print_table (r_skipped r) d)
      | M1.Err _ => None
      end.
  Proof.
    intros cells r. unfold st_backend01. rewrite !seq_fresh_run. cbn [fst snd].
    unfold fresh_run, st_print01, st_prune01, st_convert01, pure_stage, M1.pipeline.
    cbn [s_init s_step fst snd].
    destruct (M1.convert_cells cfuel cells _ _ _ _ _) as [s|e]; [|reflexivity].
    destruct (M1.prune _ _ _ _) as [d|e]; reflexivity.
  Qed.
End C01.

(* ---- chain A: C11 complement loop -> C01 back end ---- *)
Section ChainA.
  Variable fuel11 cfuel : nat.

  (* the pot_complement loop, the table threaded explicitly (as
     LinkStages.st_complement11, with the back end's other inputs alongside) *)
  Definition st_complement11r : stage :=
    mkStage (M11.table * rest01) M11.table (M11.res M11.table)
            (fun i => fst i)
            (fun i st => let r := M11.eliminate_loop fuel11 (map fst (fst i)) st in
                         (r, match r with M11.Ok t => t | M11.Err _ => st end)).

  (* C01.LinkC11.cells_of translates the table the loop leaves *)
  Definition glueA (i : M11.table * rest01) (o : M11.res M11.table)
    : option (M1.dict M1.cell * rest01) :=
    match o with
    | M11.Ok tbl' => Some (C01.LinkC11.cells_of tbl', snd i)
    | M11.Err _ => None
    end.

  Definition chainA : stage := seq st_complement11r (opt_stage (st_backend01 cfuel)) glueA.

  (* what the chain computes: C11's eliminate_all, C01.LinkC11's translation,
     C01's pipeline, C01's printer — nothing else *)
  Lemma chainA_shape : forall tbl r,
    fst (fresh_run chainA (tbl, r))
    = (M11.eliminate_all fuel11 tbl,
       match M11.eliminate_all fuel11 tbl with
       | M11.Err _ => None
       | M11.Ok tbl' =>
           Some (fst (fst (fresh_run (st_backend01 cfuel) (C01.LinkC11.cells_of tbl', r))),
                 match M1.pipeline cfuel (C01.LinkC11.cells_of tbl') (r_matching r) (r_u0 r) (r_u1 r)
                                   (r_todo r) (r_cnt0 r) (r_rn r) with
                 | M1.Ok (_, d) => Some (C01.Printer.print_table (r_skipped r) d)
                 | M1.Err _ => None
                 end)
       end).
  Proof.
    intros tbl r. unfold chainA. rewrite seq_fresh_run, opt_fresh_run.
    assert (E : fst (fresh_run st_complement11r (tbl, r)) = M11.eliminate_all fuel11 tbl)
      by reflexivity.
    rewrite E. f_equal. unfold glueA. cbn [snd].
    destruct (M11.eliminate_all fuel11 tbl) as [tbl'|e]; [|reflexivity]. cbn [option_map].
    f_equal. rewrite <- backend01_is_pipeline.
    destruct (fst (fresh_run (st_backend01 cfuel) (C01.LinkC11.cells_of tbl', r))) as [a b].
    reflexivity.
  Qed.
End ChainA.

(* ---- chain B: C13 FILL + inlining -> C01 back end ---- *)
Section ChainB.
  Variable fuel13 cfuel : nat.

  (* cell_stage = fill_loop (state = table and counter, explicit) ; inline_cells *)
  Definition st_cellstage13 : stage :=
    mkStage (M13.options * list (Z * M13.mcell) * Z * rest01) M13.fstate (M13.res M13.fstate)
            (fun i => (snd (fst (fst i)), snd (fst i)))
            (fun i st =>
               let o := fst (fst (fst i)) in
               let dic := snd (fst (fst i)) in
               let r := match M13.fill_loop fuel13 (M13.inline_filled o) (M13.inline_filling o) dic
                                            (M13.fill_keys dic) st with
                        | M13.Err e => M13.Err e
                        | M13.Ok (d1, c1) =>
                            match M13.inline_cells fuel13 (M13.to_inline o) d1 with
                            | M13.Err e => M13.Err e
                            | M13.Ok d2 => M13.Ok (d2, c1)
                            end
                        end in
               (r, match r with M13.Ok s' => s' | M13.Err _ => st end)).

  Definition glueB (i : M13.options * list (Z * M13.mcell) * Z * rest01) (o : M13.res M13.fstate)
    : option (M1.dict M1.cell * rest01) :=
    match o with
    | M13.Ok (d2, _) => Some (C13.LinkC01.embed_cells d2, snd i)
    | M13.Err _ => None
    end.

  Definition chainB : stage := seq st_cellstage13 (opt_stage (st_backend01 cfuel)) glueB.

  Lemma chainB_shape : forall o dic counter r,
    fst (fresh_run chainB (o, dic, counter, r))
    = (M13.cell_stage fuel13 o dic counter,
       match M13.cell_stage fuel13 o dic counter with
       | M13.Err _ => None
       | M13.Ok (d2, _) =>
           Some (fst (fst (fresh_run (st_backend01 cfuel) (C13.LinkC01.embed_cells d2, r))),
                 match M1.pipeline cfuel (C13.LinkC01.embed_cells d2) (r_matching r) (r_u0 r) (r_u1 r)
                                   (r_todo r) (r_cnt0 r) (r_rn r) with
                 | M1.Ok (_, d) => Some (C01.Printer.print_table (r_skipped r) d)
                 | M1.Err _ => None
                 end)
       end).
  Proof.
    intros o dic counter r. unfold chainB. rewrite seq_fresh_run, opt_fresh_run.
    assert (E : fst (fresh_run st_cellstage13 (o, dic, counter, r)) = M13.cell_stage fuel13 o dic counter)
      by reflexivity.
    rewrite E. f_equal. unfold glueB. cbn [snd].
    destruct (M13.cell_stage fuel13 o dic counter) as [[d2 c1]|e]; [|reflexivity]. cbn [option_map].
    f_equal. rewrite <- backend01_is_pipeline.
    destruct (fst (fresh_run (st_backend01 cfuel) (C13.LinkC01.embed_cells d2, r))) as [a b].
    reflexivity.
  Qed.
End ChainB.

(* ---- the chained pipeline: both chains (they meet in C01's back end), as ONE
   stage value ---- *)
Definition chained_pipeline (fuel11 fuel13 cfuel : nat) : stage :=
  par (chainA fuel11 cfuel) (chainB fuel13 cfuel).

Theorem chained_pipeline_history_independent : forall fuel11 fuel13 cfuel hist1 hist2 p1 p2 i d,
  last (snd (proc_history (chained_pipeline fuel11 fuel13 cfuel) p1 (hist1 ++ [i]))) d
  = last (snd (proc_history (chained_pipeline fuel11 fuel13 cfuel) p2 (hist2 ++ [i]))) d.
Proof. intros. apply stage_history_independent. Qed.

(* non-vacuity: chain A on C01.LinkC11's example table (two cells, a union)
   runs through every stage and prints VOLU lines *)
Lemma chainA_example :
  exists t x lines,
    fst (fresh_run (chainA 10 3)
           (C01.LinkC11.exl_tbl, mkRest C01.LinkC11.exl_matching 5 6 [1; 2] 2 None []))
    = (M11.Ok t, Some (x, Some lines)) /\ lines <> [].
Proof. vm_compute. eexists _, _, _. split; [reflexivity|discriminate]. Qed.
