(* C18 — soundness of the audit decision: what [audit_ok al fp = true]
   guarantees about EVERY entry of ANY footprint. *)
From Coq Require Import List Bool String Ascii.
From T4V Require Import C18.Audit.
Import ListNotations.
Open Scope string_scope.

Lemma allowed_by_sound al e :
  allowed_by al e = true ->
  exists a, In a al /\ a_file a = e_file e /\ (a_func a = "*" \/ a_func a = e_func e)
            /\ a_text a = e_text e /\ a_reason a <> "".
Proof.
  unfold allowed_by. intros H. apply existsb_exists in H. destruct H as [a [Hin Hm]].
  apply andb_true_iff in Hm. destruct Hm as [Hm Hr].
  unfold allow_matches in Hm. apply andb_true_iff in Hm. destruct Hm as [Hm H3].
  apply andb_true_iff in Hm. destruct Hm as [H1 H2].
  apply String.eqb_eq in H1. apply String.eqb_eq in H3.
  unfold func_matches in H2. apply orb_true_iff in H2.
  rewrite !String.eqb_eq in H2.
  exists a. repeat split; auto.
  unfold reason_given in Hr. destruct (a_reason a); [discriminate|]. discriminate.
Qed.

Definition Allowed (al : list allowed) (e : entry) : Prop :=
  exists a, In a al /\ a_file a = e_file e /\ (a_func a = "*" \/ a_func a = e_func e)
            /\ a_text a = e_text e /\ a_reason a <> "".

(* every live entry is harmless by classification or allow-listed with a reason *)
Theorem audit_sound : forall al fp, audit_ok al fp = true ->
  forall e, In e fp -> e_live e = true -> harmless (e_c e) = true \/ Allowed al e.
Proof.
  intros al fp H e Hin Hlive. unfold audit_ok in H.
  rewrite forallb_forall in H. specialize (H e Hin). unfold entry_ok in H.
  rewrite Hlive in H. cbn [negb orb] in H.
  apply orb_true_iff in H. destruct H as [H|H]; [left; exact H|right].
  apply allowed_by_sound. exact H.
Qed.

(* globals: every live module-/class-level binding and default argument holds
   an immutable value, or is allow-listed *)
Theorem audit_globals_readonly : forall al fp, audit_ok al fp = true ->
  forall e v, In e fp -> e_live e = true -> is_global_binding e = Some v ->
  v = VImmutable \/ Allowed al e.
Proof.
  intros al fp H e v Hin Hlive Hb.
  destruct (audit_sound al fp H e Hin Hlive) as [Hh|Ha]; [left|right; exact Ha].
  unfold is_global_binding in Hb. destruct (e_c e); try discriminate;
    inversion Hb; subst; cbn in Hh; destruct v; try discriminate; reflexivity.
Qed.

(* the only order-revealing iterations over sets range over integers (or feed
   an order-insensitive consumer), unless allow-listed *)
Theorem audit_ord_only_ints : forall al fp, audit_ok al fp = true ->
  forall e k, In e fp -> e_live e = true -> is_set_loop e = Some (k, SinkOrdered) ->
  k = KInt \/ Allowed al e.
Proof.
  intros al fp H e k Hin Hlive Hl.
  destruct (audit_sound al fp H e Hin Hlive) as [Hh|Ha]; [left|right; exact Ha].
  unfold is_set_loop in Hl. destruct (e_c e); try discriminate.
  inversion Hl; subst. cbn in Hh. destruct k; try discriminate; reflexivity.
Qed.

(* no live store to a module, a class or an unresolved object, no global
   declaration, no write access to a file, and nothing the translator failed
   to classify, unless allow-listed *)
Theorem audit_effects_allowlisted : forall al fp, audit_ok al fp = true ->
  forall e, In e fp -> e_live e = true ->
  is_store e = true \/ is_write e = true \/ is_unknown e = true -> Allowed al e.
Proof.
  intros al fp H e Hin Hlive Hk.
  destruct (audit_sound al fp H e Hin Hlive) as [Hh|Ha]; [|exact Ha].
  exfalso. unfold is_store, is_write, is_unknown in Hk.
  destruct (e_c e) as [sc v|v| |r|k s| |m|fk|nk| |]; cbn in Hh;
    try discriminate;
    destruct Hk as [Hk|[Hk|Hk]]; try discriminate.
  - destruct v; discriminate.
  - destruct v; discriminate.
  - destruct k, s; discriminate.
  - destruct m; discriminate.
  - destruct m; discriminate.
Qed.

(* no live read of an ambient input (environment, clock, randomness, object
   identity / hash values, directory order, command line) and no live read of
   state pickled by an earlier run, unless allow-listed *)
Theorem audit_ambient_allowlisted : forall al fp, audit_ok al fp = true ->
  forall e, In e fp -> e_live e = true -> is_ambient e = true -> Allowed al e.
Proof.
  intros al fp H e Hin Hlive Hk.
  destruct (audit_sound al fp H e Hin Hlive) as [Hh|Ha]; [|exact Ha].
  exfalso. unfold is_ambient in Hk.
  destruct (e_c e) as [sc v|v| |r|k s| |m|fk|nk| |]; cbn in Hh; try discriminate.
Qed.

(* the decision is monotone: a longer allow-list never rejects more, a shorter
   footprint never rejects more *)
Lemma audit_ok_app al fp1 fp2 :
  audit_ok al (fp1 ++ fp2) = audit_ok al fp1 && audit_ok al fp2.
Proof. unfold audit_ok. apply forallb_app. Qed.

(* fail-closed: a live entry of unknown classification that is not on the
   allow-list makes the obligation false *)
Theorem audit_fail_closed : forall al fp e,
  In e fp -> e_live e = true -> is_unknown e = true -> allowed_by al e = false ->
  audit_ok al fp = false.
Proof.
  intros al fp e Hin Hlive Hu Hna.
  destruct (audit_ok al fp) eqn:E; [|reflexivity]. exfalso.
  unfold audit_ok in E. rewrite forallb_forall in E. specialize (E e Hin).
  unfold entry_ok in E. rewrite Hlive, Hna in E. cbn [negb orb] in E.
  rewrite orb_false_r in E.
  unfold is_unknown in Hu.
  destruct (e_c e) as [sc v|v| |r|k s| |m|fk|nk| |]; cbn in E; try discriminate.
  - destruct v; discriminate.
  - destruct v; discriminate.
  - destruct k, s; discriminate.
  - destruct m; discriminate.
Qed.
